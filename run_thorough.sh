#!/bin/sh
# Runs every registered thorough check sequentially (development aid; several hours on 16 cores).
# Evidence of these runs goes to evidence_thorough/ so that evidence/ keeps the last quick runs.
cd "$(dirname "$0")"
mkdir -p evidence_thorough
for p in ${*:-C01 C02 C03 C04 C06 C07 C08 C09 C10 C11 C12 C13 C14 C15 C16 C17 C18 C19 C05}; do
  RSMC_EVIDENCE_DIR=$PWD/evidence_thorough ./check $p --tier thorough > evidence_thorough/$p.log 2>&1
  echo "$p exit=$? $(tail -n 1 evidence_thorough/$p.log | cut -c1-300)"
done
