"""Model generators of the C19 check (also run in subprocesses: `python -m rsmc.ref.c08c18c19_c19models <json>`).

Every generator is a function of a dict of *user arrays* (the only numeric data it uses), so the same declared model
can be built from float64 arrays, from any variant of them (dtype / order / view / read-only / 0-d / sparse) and
in another process.  Values are small dyadic rationals, exactly representable in float32 and as integers where an
integer variant is offered.
"""
import json
import sys

import numpy as np

# ------------------------------------------------------------------------------------------------
# baseline user data: name -> (nested list, flags).  flags: 'i' integer-valued (int variants allowed),
# 's' scalar (0-d variant allowed), 'm' matrix operand of @ (sparse variants allowed), 'p' sparse allowed for +
# ------------------------------------------------------------------------------------------------
GENS = {}


def gen(name, cls, arrays):
    def deco(fn):
        GENS[name] = {'cls': cls, 'arrays': arrays, 'fn': fn}
        return fn
    return deco


def _rs():
    from . import c08c18c19_common as cm
    return cm.load()


@gen('lp', 'lp', {
    'A': ([[1, 2, 0], [0, 1, 3]], 'im'), 'b': ([4, 6], 'i'), 'c': ([1.5, -1, 0.5], ''), 'G': ([[1, 0], [2, 1], [0, 1]], 'im'),
    'h': ([5, 4], 'i'), 'w': ([2, 1, 0.5], ''), 's': ([1, -1, 2], 'i'), 'lb': ([-1, 0, -2], 'i'), 'ub': ([3, 2.5, 0], ''),
    'k': (2, 'is')})
def g_lp(a):
    rs = _rs()
    m = rs['ro'].Model()
    x = m.dvar(3)
    m.min(a['c'] @ x)
    m.st(a['A'] @ x <= a['b'])
    m.st(x @ a['G'] >= -1 * a['h'])
    m.st(a['w'] * x + a['s'] <= 6)
    m.st(a['s'] - x <= 5)
    m.st(x >= a['lb'], x <= a['ub'])
    m.st(x.sum() * a['k'] <= 8)
    return m, {}


@gen('late', 'lp', {
    'A': ([[1, 2, 0], [0, 1, 3]], 'im'), 'B': ([[1, 0], [1, 1]], 'im'), 'b': ([4, 6], 'i'), 'c': ([1.5, -1, 0.5], ''),
    'c2': ([1, -0.5], '')})
def g_late(a):
    """Expressions built before later declarations and re-used afterwards (in-place widening of their matrices by
    add_linear / concat must not change what they mean)."""
    rs = _rs()
    rso = rs['rso']
    m = rs['ro'].Model()
    x = m.dvar(3)
    e1 = a['A'] @ x
    y = m.dvar(2)
    e2 = a['B'] @ y
    m.min(a['c'] @ x + a['c2'] @ y)
    m.st(e1 + e2 <= a['b'])
    m.st(e1 <= 2 * a['b'])
    m.st(rso.concat((e1, e2)) >= -4)
    m.st(e2.concat(e1) <= 9)
    m.st(x >= -2, x <= 2, y >= -1, y <= 3)
    return m, {}


@gen('milp', 'milp', {
    'A': ([[1, 2, 1, 0, 1], [2, 1, 0, 1, 1]], 'im'), 'b': ([4.5, 5.5], ''), 'c': ([1, 1.5, 2, 1, 0.5], ''),
    'ub': ([2.5, 2.5], '')})
def g_milp(a):
    rs = _rs()
    m = rs['ro'].Model()
    x = m.dvar(2)
    nb = m.dvar(2, vtype='B')
    ni = m.dvar(1, vtype='I')
    v = rs['rso'].concat((x, nb, ni))
    m.max(a['c'] @ v)
    m.st(a['A'] @ v <= a['b'])
    m.st(x >= 0, x <= a['ub'], ni >= 0, ni <= 3)
    return m, {}


@gen('milpb', 'milp', {
    'A': ([[1, 2, 1, 0, 1], [2, 1, 0, 1, 1]], 'im'), 'b': ([4.5, 5.5], ''), 'c': ([1, 1.5, 2, 1, 0.5], ''),
    'ub': ([2.5, 2.5], ''), 'bub': ([1, 0], 'i')})
def g_milpb(a):
    """As milp, with user bounds on the binaries (one of them tighter than [0, 1])."""
    rs = _rs()
    m = rs['ro'].Model()
    x = m.dvar(2)
    nb = m.dvar(2, vtype='B')
    ni = m.dvar(1, vtype='I')
    v = rs['rso'].concat((x, nb, ni))
    m.max(a['c'] @ v)
    m.st(a['A'] @ v <= a['b'])
    m.st(x >= 0, x <= a['ub'], ni >= 0, ni <= 3, nb >= 0, nb <= a['bub'])
    return m, {}


@gen('soc', 'soc', {
    'A': ([[1, 0.5, 0], [0, 1, 2]], 'm'), 'b': ([1, -0.5], ''), 'Q': ([[2, 0.5, 0.25], [0.5, 1, 0.25], [0.25, 0.25, 1.5]], ''),
    'c': ([1, 0.5, -1], ''), 'lb': ([-2, -2, -2], 'i'), 'r': (4, 'is')})
def g_soc(a):
    rs = _rs()
    rso = rs['rso']
    m = rs['ro'].Model()
    x = m.dvar(3)
    t = m.dvar()
    m.min(t + a['c'] @ x)
    m.st(rso.norm(a['A'] @ x - a['b']) <= t)
    m.st(rso.quad(x, a['Q']) <= a['r'])
    m.st(rso.sumsqr(x - a['b'][0]) <= 9)
    m.st(x >= a['lb'], x <= 2)
    return m, {}


@gen('exp', 'exp', {
    'q': ([0.75, 0.25], ''), 'c': ([1, 2], 'i'), 'a0': ([0.5], ''), 'rad': (0.125, 's')})
def g_exp(a):
    rs = _rs()
    rso = rs['rso']
    m = rs['ro'].Model()
    p = m.dvar(2)
    x = m.dvar(1)
    t = m.dvar()
    m.min(a['c'] @ p + t + x.sum())
    m.st(rso.kldiv(p, a['q'], a['rad']))
    m.st(p.sum() == 1, p >= 0)
    m.st(rso.exp(a['a0'] * x) <= t + 3)
    m.st(rso.entropy(0.25 * x + 0.5) >= 0.25, x >= -1, x <= 1)
    return m, {}


@gen('ro_box', 'lp', {
    'zl': ([-1, -0.5], ''), 'zu': ([1, 1.5], ''), 'a0': ([1, 1], 'i'), 'B': ([[0.5, 0], [0, -0.25]], 'm'),
    'c': ([1, 0.75], ''), 'ub': ([4, 4], 'i')})
def g_ro_box(a):
    rs = _rs()
    m = rs['ro'].Model()
    x = m.dvar(2)
    z = m.rvar(2)
    zs = (z >= a['zl'], z <= a['zu'])
    m.minmax(a['c'] @ x + 0.25 * (z[0] * x[1]), zs)
    m.st((a['a0'] + a['B'] @ z) @ x >= 1.5)
    m.st(x >= 0, x <= a['ub'])
    return m, {'x': x, 'z': z, 'expr': z @ x + 2}


@gen('ro_l1', 'lp', {
    'zc': ([0.25, -0.25], ''), 'a0': ([1, 1], 'i'), 'B': ([[0.5, 0], [0, -0.25]], 'm'), 'c': ([1, 0.75], ''),
    'r': (1.5, 's')})
def g_ro_l1(a):
    rs = _rs()
    rso = rs['rso']
    m = rs['ro'].Model()
    x = m.dvar(2)
    z = m.rvar(2)
    zs = (rso.norm(z - a['zc'], 1) <= a['r'], abs(z) <= 1)
    m.minmax(a['c'] @ x + 0.25 * (z[0] * x[1]), zs)
    m.st((a['a0'] + a['B'] @ z) @ x >= 1.5)
    m.st(x >= 0, x <= 4)
    return m, {'x': x, 'z': z, 'expr': z @ x + 2}


@gen('ro_l2', 'soc', {
    'zc': ([0.25, -0.25], ''), 'a0': ([1, 1], 'i'), 'B': ([[0.5, 0], [0, -0.25]], 'm'), 'c': ([1, 0.75], ''),
    'M': ([[1, 0.5], [0, 1]], 'm')})
def g_ro_l2(a):
    rs = _rs()
    rso = rs['rso']
    m = rs['ro'].Model()
    x = m.dvar(2)
    z = m.rvar(2)
    zs = (rso.norm(a['M'] @ z - a['zc']) <= 1.25,)
    m.minmax(a['c'] @ x + 0.25 * (z[0] * x[1]), zs)
    m.st((a['a0'] + a['B'] @ z) @ x >= 1.5)
    m.st(x >= 0, x <= 4)
    return m, {'x': x, 'z': z, 'expr': z @ x + 2}


@gen('ro_poly', 'lp', {
    'C': ([[1, 1], [1, -1], [-1, 0], [0, -1]], 'im'), 'd': ([1, 1.5, 1, 1], ''), 'a0': ([1, 1], 'i'),
    'B': ([[0.5, 0], [0, -0.25]], 'm'), 'c': ([1, 0.75], '')})
def g_ro_poly(a):
    rs = _rs()
    m = rs['ro'].Model()
    x = m.dvar(2)
    z = m.rvar(2)
    zs = (a['C'] @ z <= a['d'],)
    m.min(a['c'] @ x)
    m.st(((a['a0'] + a['B'] @ z) @ x >= 1.5).forall(zs))
    m.st((x[0] - z @ x <= 6).forall(zs))
    m.st(x >= 0, x <= 4)
    return m, {'x': x, 'z': z, 'expr': z @ x + 2}


@gen('ro_ldr', 'lp', {
    'zl': ([-1, -1], 'i'), 'zu': ([1, 1], 'i'), 'B': ([[1, 0.5], [0, 1]], 'm'), 'c': ([1, 0.75], ''), 'd': ([0.5, 1], '')})
def g_ro_ldr(a):
    rs = _rs()
    m = rs['ro'].Model()
    x = m.dvar(2)
    z = m.rvar(2)
    y = m.ldr(2)
    y.adapt(z)
    zs = (z >= a['zl'], z <= a['zu'])
    m.minmax(a['c'] @ x + a['d'] @ y, zs)
    m.st(y >= a['B'] @ z - x, y >= 0, y <= 6)
    m.st(x >= 0, x <= 4)
    return m, {'x': x, 'z': z, 'expr': z @ x + 2}


@gen('ro_exp', 'exp', {
    'zl': ([-1, -1], 'i'), 'zu': ([1, 1], 'i'), 'a0': ([1, 1], 'i'), 'B': ([[0.5, 0], [0, -0.25]], 'm'),
    'c': ([1, 0.75], '')})
def g_ro_exp(a):
    rs = _rs()
    rso = rs['rso']
    m = rs['ro'].Model()
    x = m.dvar(2)
    z = m.rvar(2)
    zs = (rso.exp(z[0]) <= 2 + z[1], z >= a['zl'], z <= a['zu'])
    m.minmax(a['c'] @ x + 0.25 * (z[0] * x[1]), zs)
    m.st((a['a0'] + a['B'] @ z) @ x >= 1.5)
    m.st(x >= 0, x <= 4)
    return m, {'x': x, 'z': z, 'expr': z @ x + 2}


@gen('dro_box', 'lp', {
    'zlo': ([[0.25], [1.75]], ''), 'zhi': ([[1.75], [3.25]], ''), 'mu': ([1.75], ''), 'pr': ([0.5, 0.5], ''),
    'c': ([-0.5], ''), 'd': ([1.5], '')})
def g_dro_box(a):
    rs = _rs()
    E = rs['E']
    m = rs['dro'].Model(2)
    z = m.rvar(1)
    fset = m.ambiguity()
    for s in range(2):
        fset[s].suppset(z >= a['zlo'][s], z <= a['zhi'][s])
    fset.exptset(E(z) <= a['mu'] + 0.25, E(z) >= a['mu'] - 0.25)
    fset.probset(m.p == a['pr'])
    x = m.dvar(1)
    y = m.dvar(1)
    y.adapt(0)
    y.adapt(1)
    y.adapt(z)
    m.minsup(a['c'] @ x + E(a['d'] @ y), fset)
    m.st(y >= x - z, y >= 0, y <= 8)
    m.st(x >= 0, x <= 4)
    return m, {}


@gen('dro_l2', 'soc', {
    'zhat': ([[1.0, 0.5], [2.5, 1.5]], ''), 'zu': ([4, 4], 'i'), 'c': ([-1, -0.75], ''), 'd': ([1.5, 1], ''),
    'theta': (0.5, 's')})
def g_dro_l2(a):
    rs = _rs()
    rso, E = rs['rso'], rs['E']
    m = rs['dro'].Model(2)
    z = m.rvar(2)
    u = m.rvar()
    fset = m.ambiguity()
    for s in range(2):
        fset[s].suppset(z >= 0, z <= a['zu'], rso.norm(z - a['zhat'][s]) <= u, u <= 3)
    fset.exptset(E(u) <= a['theta'])
    fset.probset(m.p == 0.5)
    x = m.dvar(2)
    y = m.dvar(2)
    y.adapt(0)
    y.adapt(1)
    y.adapt(z)
    y.adapt(u)
    m.minsup(a['c'] @ x + E(a['d'] @ y), fset)
    m.st(y >= x - z, y >= 0, y <= 8)
    m.st(x >= 0, x <= 4)
    return m, {}


# ------------------------------------------------------------------------------------------------
VARIANTS = ['f64', 'f32', 'i64', 'i32', 'fortran', 'transposed', 'f32fortran', 'strided', 'readonly', 'zerod', 'csr',
            'csc', 'u8', 'u16']


def applicable(gen_name, arr_name, variant):
    vals, flags = GENS[gen_name]['arrays'][arr_name]
    nd = np.ndim(vals)
    if variant in ('f64', 'f32', 'readonly'):
        return True
    if variant in ('i64', 'i32'):
        return 'i' in flags
    if variant in ('u8', 'u16'):       # unsigned integer arrays: integer-valued, non-negative data only
        return 'i' in flags and float(np.min(vals)) >= 0
    if variant in ('fortran', 'transposed', 'f32fortran'):
        return nd == 2
    if variant == 'strided':
        return nd >= 1
    if variant == 'zerod':
        return nd == 0
    if variant in ('csr', 'csc'):
        return nd == 2 and 'm' in flags
    return False


def make_variant(vals, variant):
    """-> (array handed to rsome, float64 reference copy OF THE SAME VALUES, keepalive)."""
    base = np.array(vals, dtype=np.float64)
    keep = None
    if variant == 'f64':
        arr = base.copy()
    elif variant == 'f32':
        arr = base.astype(np.float32)
    elif variant == 'i64':
        arr = base.astype(np.int64)
    elif variant == 'i32':
        arr = base.astype(np.int32)
    elif variant == 'u8':
        arr = base.astype(np.uint8)
    elif variant == 'u16':
        arr = base.astype(np.uint16)
    elif variant == 'fortran':
        arr = np.asfortranarray(base)
    elif variant == 'transposed':
        keep = np.ascontiguousarray(base.T)      # the user's C-ordered matrix ...
        arr = keep.T                             # ... handed over as its transposed VIEW (F-contiguous, not owning)
    elif variant == 'f32fortran':
        arr = np.asfortranarray(base.astype(np.float32))
    elif variant == 'strided':
        if base.ndim == 1:
            keep = np.zeros(2 * base.size + 1)
            keep[1::2] = base
            keep[0::2] = 77.0
            arr = keep[1::2]
        else:
            keep = np.full((base.shape[0] * 2, base.shape[1] * 2), 77.0)
            keep[::2, 1::2] = base
            arr = keep[::2, 1::2]
    elif variant == 'readonly':
        arr = base.copy()
        arr.flags.writeable = False
    elif variant == 'zerod':
        arr = np.array(float(base))       # 0-d ndarray
    elif variant in ('csr', 'csc'):
        import scipy.sparse as sp
        arr = sp.csr_matrix(base) if variant == 'csr' else sp.csc_matrix(base)
    else:
        raise ValueError(variant)
    if variant in ('csr', 'csc'):
        ref = np.asarray(arr.todense(), dtype=np.float64)
    else:
        ref = np.array(arr, dtype=np.float64)      # float64 copy of the SAME values
    return arr, ref, keep


def fingerprint(arr, keep=None):
    """Bytes + metadata of a user array (and of the buffer a view lives in)."""
    if hasattr(arr, 'tobytes'):
        fp = (arr.tobytes(), str(arr.dtype), arr.shape, arr.strides, arr.flags.writeable, arr.flags.c_contiguous,
              arr.flags.f_contiguous)
    else:   # scipy sparse
        fp = (arr.data.tobytes(), arr.indices.tobytes(), arr.indptr.tobytes(), str(arr.dtype), arr.shape, arr.format,
              arr.data.flags.writeable)
    if keep is not None:
        fp = fp + (keep.tobytes(),)
    return fp


def arrays_for(gen_name, which=None, variant='f64'):
    """-> (dict handed to the generator, dict of float64 reference copies, {name: (arr, keep)})."""
    spec = GENS[gen_name]['arrays']
    given, ref, watch = {}, {}, {}
    for name, (vals, flags) in spec.items():
        v = variant if (which == name or which == '*') and applicable(gen_name, name, variant) else 'f64'
        arr, r, keep = make_variant(vals, v)
        given[name] = arr
        ref[name] = r
        watch[name] = (arr, keep)
    return given, ref, watch


def build(gen_name, arrays):
    return GENS[gen_name]['fn'](arrays)


def digests(gen_name, which=None, variant='f64'):
    from . import c08c18c19_common as cm
    given, _, _ = arrays_for(gen_name, which, variant)
    m, _ = build(gen_name, given)
    dP = cm.snap_digest(cm.snapshot(m.do_math()))
    given, _, _ = arrays_for(gen_name, which, variant)
    m2, _ = build(gen_name, given)
    dD = cm.snap_digest(cm.snapshot(m2.do_math(primal=False)))
    dP2 = cm.snap_digest(cm.snapshot(m2.do_math()))
    return {'P': dP, 'D': dD, 'P_after_D': dP2}


def main(argv):
    import os
    import warnings
    warnings.simplefilter('ignore')
    repo = os.environ.get('RSMC_REPO', '/repo')
    if repo not in sys.path:
        sys.path.insert(0, repo)
    case = json.loads(argv[1])
    if case.get('kind') == 'soc2':
        fd = os.dup(1)                       # ECOS prints from C: keep fd 1 quiet while solving
        nul = os.open(os.devnull, os.O_WRONLY)
        os.dup2(nul, 1)
        try:
            out = soc2_solo(case['model'], case['args'])
        finally:
            sys.stdout.flush()
            os.dup2(fd, 1)
        print('DIGEST ' + json.dumps(out, sort_keys=True))
        return
    out = digests(case['gen'], case.get('which'), case.get('variant', 'f64'))
    out['hashseed'] = os.environ.get('PYTHONHASHSEED')
    print('DIGEST ' + json.dumps(out, sort_keys=True))


if __name__ == '__main__':
    main(sys.argv)


# ------------------------------------------------------------------------------------------------
# 're-declaration' family: a model is formulated / solved, then something is declared AGAIN (or in addition),
# then it is formulated / solved once more.  `redecl_build(gen, final)` builds the model with the declarations in
# `final` already in their last version (the fresh reference); `redecl_apply(h, r)` re-declares on a live model.
# ------------------------------------------------------------------------------------------------
REDECL = {
    'dro_box': ['prob_new', 'prob_same', 'supp_all', 'supp_k', 'supp_loc', 'supp_iloc', 'expt_add', 'row'],
    'dro_l2': ['prob_new', 'prob_same', 'supp_all', 'supp_k', 'supp_loc', 'supp_iloc', 'expt_add', 'row'],
    'ro_box': ['row', 'bound'],
    'ro_ldr': ['row', 'bound'],
    'ro_poly': ['row', 'bound', 'forall_new', 'forall_same'],
    'lp': ['row', 'bound'],
}
REDECL_CLS = {'dro_box': 'lp', 'dro_l2': 'soc', 'ro_box': 'lp', 'ro_ldr': 'lp', 'ro_poly': 'lp', 'lp': 'lp'}


def _dro_supp(h, s, new):
    """Support constraints of scenario s (fresh constraint objects every time)."""
    rso = _rs()['rso']
    z = h['z']
    if h['gen'] == 'dro_box':
        d = 0.25 if new else 0.0
        return (z >= h['zlo'][s] + d, z <= h['zhi'][s] - d)
    zh = h['zhat'][s] + (0.25 if new else 0.0)
    return (z >= 0, z <= 4.0, rso.norm(z - zh) <= h['u'], h['u'] <= 3)


def _dro_prob(h, new):
    p = h['m'].p
    return (p >= 0.25, p <= 0.75) if new else (p == 0.5,)


def redecl_apply(h, r):
    rs = _rs()
    E = rs['E']
    m = h['m']
    if r == 'row':
        if h['gen'] in ('dro_box', 'dro_l2'):
            m.st(1.0 * h['x'][0] >= 0.5)
        elif h['gen'] == 'lp':
            m.st(h['x'][0] - h['x'][1] >= -0.5)
        else:
            m.st(h['x'][0] + h['z'][0] * h['x'][1] >= 0.75 if h['gen'] == 'ro_box' else 1.0 * h['x'][0] >= 0.625)
    elif r == 'bound':
        m.st(h['x'][1] >= 0.5)
    elif r in ('prob_new', 'prob_same'):
        h['fset'].probset(*_dro_prob(h, r == 'prob_new'))
    elif r == 'supp_all':
        for s in range(2):
            h['fset'][s].suppset(*_dro_supp(h, s, True))
    elif r == 'supp_k':
        h['fset'][1].suppset(*_dro_supp(h, 1, True))
    elif r == 'supp_loc':
        h['fset'].loc[1].suppset(*_dro_supp(h, 1, True))
    elif r == 'supp_iloc':
        h['fset'].iloc[1].suppset(*_dro_supp(h, 1, True))
    elif r == 'expt_add':
        if h['gen'] == 'dro_box':
            h['fset'].exptset(E(h['z']) <= 1.875)
        else:
            h['fset'].exptset(E(h['u']) <= 0.375)
    elif r in ('forall_new', 'forall_same'):
        h['c'].forall(h['zs_new'](r == 'forall_new'))
    else:
        raise ValueError(r)


def redecl_build(gen_name, final=()):
    """Fresh model whose declarations are the FINAL ones (the re-declarations in `final` replace / extend the base
    declarations at the place where the base declares them; added rows and bounds come last)."""
    rs = _rs()
    rso, E = rs['rso'], rs['E']
    final = tuple(final)
    if gen_name in ('dro_box', 'dro_l2'):
        box = gen_name == 'dro_box'
        m = rs['dro'].Model(2)
        h = {'gen': gen_name, 'm': m}
        if box:
            z = m.rvar(1)
            h.update(z=z, zlo=np.array([[0.25], [1.75]]), zhi=np.array([[1.75], [3.25]]))
        else:
            z = m.rvar(2)
            u = m.rvar()
            h.update(z=z, u=u, zhat=np.array([[1.0, 0.5], [2.5, 1.5]]))
        fset = m.ambiguity()
        h['fset'] = fset
        new_s = {0: 'supp_all' in final, 1: any(r in final for r in ('supp_all', 'supp_k', 'supp_loc', 'supp_iloc'))}
        for s in range(2):
            fset[s].suppset(*_dro_supp(h, s, new_s[s]))
        if box:
            fset.exptset(E(z) <= 2.0, E(z) >= 1.5)
            if 'expt_add' in final:
                fset.exptset(E(z) <= 1.875)
        else:
            fset.exptset(E(u) <= 0.5)
            if 'expt_add' in final:
                fset.exptset(E(u) <= 0.375)
        fset.probset(*_dro_prob(h, 'prob_new' in final))
        n = 1 if box else 2
        x = m.dvar(n)
        y = m.dvar(n)
        y.adapt(0)
        y.adapt(1)
        y.adapt(z)
        if not box:
            y.adapt(u)
        h.update(x=x, y=y)
        c = np.array([-0.5] if box else [-1.0, -0.75])
        d = np.array([1.5] if box else [1.5, 1.0])
        m.minsup(c @ x + E(d @ y), fset)
        m.st(y >= x - z, y >= 0, y <= 8)
        m.st(x >= 0, x <= 4)
        if 'row' in final:
            m.st(1.0 * x[0] >= 0.5)
        return m, h
    # ro / deterministic generators: the registered generator, then the additions
    given, _, _ = arrays_for(gen_name)
    if gen_name == 'ro_poly':
        m = rs['ro'].Model()
        x = m.dvar(2)
        z = m.rvar(2)
        a = given

        def zs_new(new):
            return (a['C'] @ z <= (a['d'] * (0.5 if new else 1.0)),)
        m.min(a['c'] @ x)
        c1 = ((a['a0'] + a['B'] @ z) @ x >= 1.5)
        m.st(c1.forall(zs_new('forall_new' in final)))
        m.st((x[0] - z @ x <= 6).forall(zs_new(False)))
        m.st(x >= 0, x <= 4)
        h = {'gen': gen_name, 'm': m, 'x': x, 'z': z, 'c': c1, 'zs_new': zs_new}
    else:
        m, ex = build(gen_name, given)
        h = {'gen': gen_name, 'm': m}
        if gen_name == 'lp':
            h['x'] = m.rc_model.vars[1]
        else:
            h.update(x=ex['x'], z=ex['z'])
    for r in final:
        if r in ('row', 'bound'):
            redecl_apply(h, r)
    return m, h


# ------------------------------------------------------------------------------------------------
# 'incremental' family: the model classes rsome.lp.Model / rsome.socp.Model / rsome.gcp.Model used DIRECTLY
# (ro / dro reset their inner model before every formulation, these do not).  A flavour is an objective and an
# ordered list of declarations; `incr_model(flavour)` returns the model with nothing but the objective declared
# and the list of declaration thunks.
# ------------------------------------------------------------------------------------------------
INCR = {'lp': 6, 'socp': 7, 'gcp': 7}        # flavour -> number of declarations


def incr_model(flavour):
    rs = _rs()
    rso = rs['rso']
    import rsome.lp as lpm
    import rsome.socp as socpm
    import rsome.gcp as gcpm
    a = np.array([4.0, 0.0, -1.0])
    b = np.array([0.0, 0.5, 0.0])
    A = np.array([[1.0, 0.5, 0.0], [0.0, 1.0, -0.5]])
    Q = np.array([[2.0, 0.5, 0.25], [0.5, 1.0, 0.25], [0.25, 0.25, 1.5]])
    if flavour == 'lp':
        m = lpm.Model()
        x = m.dvar(3)
        t = m.dvar()
        m.min(rso.norm(x - a, 1) + 0.5 * t)
        decl = [lambda: m.st([x >= -10, x <= 10]),
                lambda: m.st(t >= 0),
                lambda: m.st(rso.norm(x - b, 'inf') <= t),
                lambda: m.st(abs(x[0] - x[1]) <= 3),
                lambda: m.st(1.0 * x[0] + x[1] + x[2] <= 4.5),
                lambda: m.st(rso.norm(A @ x, 1) <= 5)]
    elif flavour == 'socp':
        m = socpm.Model()
        x = m.dvar(3)
        t = m.dvar()
        m.min(rso.norm(x - a) + 0.5 * t)
        decl = [lambda: m.st([x >= -10, x <= 10]),
                lambda: m.st(t >= 0),
                lambda: m.st(rso.norm(x - b, 'inf') <= t),
                lambda: m.st(rso.quad(x, Q) <= 30),
                lambda: m.st(abs(x[1] + x[2]) <= 2),
                lambda: m.st(rso.norm(A @ x) <= t + 1),
                lambda: m.st(rso.sumsqr(x) <= 14)]
    elif flavour == 'gcp':
        m = gcpm.Model()
        x = m.dvar(3)
        t = m.dvar()
        m.min(rso.norm(x - a, 1) + t)
        decl = [lambda: m.st([x >= -10, x <= 10]),
                lambda: m.st(rso.exp(0.25 * x[0]) <= t),
                lambda: m.st(rso.norm(x - b, 'inf') <= 3 + t),
                lambda: m.st(rso.norm(x) <= 4),
                lambda: m.st(abs(x[0] - x[2]) <= 4.5),
                lambda: m.st(rso.entropy(0.125 * x[1:] + 0.5) >= 0.5),
                lambda: m.st(rso.norm(A @ x, 1) <= 6)]
    else:
        raise ValueError(flavour)
    assert len(decl) == INCR[flavour]
    return m, decl


INCR_EXP_DECL = {'gcp': (1, 5)}      # positions of the declarations that use an exponential-cone atom


# ------------------------------------------------------------------------------------------------
# 'rhs' family: a constraint  k * atom(x) <= b  (convex atoms) /  k * atom(x) >= b  (concave atoms) with a constant
# ARRAY / scalar / affine right-hand side and a multiplier k, in an ro.Model / directly used gcp.Model / dro.Model;
# the model is formulated, a REDUNDANT declaration is added, it is formulated again (once or twice).
# `rhs_build(spec, final)` declares everything in one go (the fresh reference), `rhs_apply(h, r)` declares the
# redundant thing r on a live model.  The optimum of the element-wise atoms is known in closed form.
# ------------------------------------------------------------------------------------------------
_RHS_Q = [[2.0, 0.5], [0.5, 1.0]]
# atom -> (convex?, element-wise?, target t (the constraint means atom(x) <=/>= t), class)
RHS_ATOMS = {
    'exp': (True, True, [3.0, 5.0], 'exp'),
    'softplus': (True, True, [1.0, 1.5], 'exp'),
    'pexp': (True, True, [3.0, 5.0], 'exp'),
    'log': (False, True, [0.5, 1.0], 'exp'),
    'plog': (False, True, [0.5, 1.0], 'exp'),
    'expsum': (True, False, [3.0, 5.0], 'exp'),
    'logsum': (False, False, [0.5, 1.0], 'exp'),
    'entropy': (False, False, [0.5], 'exp'),
    'pnorm': (True, False, [1.5], 'exp'),
    'abs': (True, True, [1.0, 1.5], 'lp'),
    'norm1': (True, False, [1.5], 'lp'),
    'norminf': (True, False, [1.5], 'lp'),
    'square': (True, True, [1.0, 2.25], 'soc'),
    'power': (True, True, [1.0, 3.375], 'soc'),
    'norm': (True, False, [1.5], 'soc'),
    'sumsqr': (True, False, [2.25], 'soc'),
    'quad': (True, False, [2.25], 'soc'),
}
RHS_FORMS = ('L', 'R', 'G', 'N')          # k*f <= b | f*k <= b | b >= k*f | -k*f >= -b   (mirrored for concave atoms)
RHS_KINDS = ('arr', 'sc', 'aff', 'mix')   # constant ndarray | python float | b + variable | constant array + 0*x
RHS_HOSTS = ('ro', 'gcp', 'dro')
RHS_REDUNDANT = ('bound', 'row')


def rhs_closed_form(atom, kind):
    """Optimum of the rhs model in closed form (None: not available, only the differential oracle applies).
    The objective is sum(x) + 0.25 * sum(X) with X in [-2, 2]^(2x2) free of the element-wise atoms: +-2."""
    v = _rhs_closed_form(atom, kind)
    if v is None:
        return None
    return v + (2.0 if RHS_ATOMS[atom][0] else -2.0)


def _rhs_closed_form(atom, kind):
    convex, elementwise, t, _ = RHS_ATOMS[atom]
    t = np.array(t, dtype=float)
    if kind == 'sc':
        t = np.array([t[0], t[0]])
    if atom == 'exp':
        return float(np.log(t).sum())
    if atom == 'softplus':
        return float(np.log(np.exp(t) - 1).sum())
    if atom == 'pexp':
        return float((2 * np.log(t / 2)).sum())
    if atom == 'log':
        return float(np.exp(t).sum())
    if atom == 'plog':
        return float((2 * np.exp(t / 2)).sum())
    if atom == 'abs':
        return float(t.sum())
    if atom == 'square':
        return float(np.sqrt(t).sum())
    if atom == 'power':
        return float(np.cbrt(t).sum())
    return None


def _rhs_atom(rso, atom, x, X):
    if atom == 'exp':
        return rso.exp(x)
    if atom == 'softplus':
        return rso.softplus(x)
    if atom == 'pexp':
        return rso.pexp(x, 2.0)
    if atom == 'log':
        return rso.log(x)
    if atom == 'plog':
        return rso.plog(x, 2.0)
    if atom == 'expsum':
        return rso.exp(X).sum(axis=0)
    if atom == 'logsum':
        return rso.log(X).sum(axis=0)
    if atom == 'entropy':
        return rso.entropy(x)
    if atom == 'pnorm':
        return rso.pnorm(x, 3)
    if atom == 'abs':
        return abs(x)
    if atom == 'norm1':
        return rso.norm(x, 1)
    if atom == 'norminf':
        return rso.norm(x, 'inf')
    if atom == 'square':
        return rso.square(x)
    if atom == 'power':
        return rso.power(x, 3)
    if atom == 'norm':
        return rso.norm(x)
    if atom == 'sumsqr':
        return rso.sumsqr(x)
    if atom == 'quad':
        return rso.quad(x, np.array(_RHS_Q))
    raise ValueError(atom)


def rhs_apply(h, r):
    m, x = h['m'], h['x']
    if r == 'bound':
        m.st(x <= 9.75)          # looser than the declared x <= 9.5: redundant for every atom
    elif r == 'row':
        m.st(x[0] + x[1] + h['X'].sum() <= 60)
    else:
        raise ValueError(r)


def rhs_build(spec, final=()):
    """-> (model, handles).  handles['b'] is the user's right-hand side array (None for the scalar kind)."""
    rs = _rs()
    rso = rs['rso']
    host, atom, k, form, kind = spec['host'], spec['atom'], float(spec['k']), spec['form'], spec['kind']
    convex, elementwise, t, _ = RHS_ATOMS[atom]
    if host == 'ro':
        m = rs['ro'].Model()
    elif host == 'gcp':
        import rsome.gcp as gcpm
        m = gcpm.Model()
    else:
        m = rs['dro'].Model(1)
    x = m.dvar(2)
    X = m.dvar((2, 2))
    y = m.dvar(len(t))
    lo = 0.0625 if atom == 'entropy' else -9.5
    if convex or atom == 'entropy':
        obj = x.sum() + 0.25 * X.sum() if atom != 'entropy' else -1.0 * x[0] - 0.5 * x[1] - 0.25 * X.sum()
        if atom == 'entropy':
            m.min(obj)
        else:
            m.max(obj)
    else:
        m.min(x.sum() + 0.25 * X.sum())
    for c0 in (x >= lo, x <= 9.5, X >= -2, X <= 2, y == 0):
        m.st(c0)
    f = _rhs_atom(rso, atom, x, X)
    bval = k * np.array(t, dtype=float)
    user = None
    if kind == 'arr':
        user = bval.copy()
        b = user
    elif kind == 'sc':
        b = float(bval[0])
    elif kind == 'aff':
        user = bval.copy()
        b = user + y
    elif kind == 'mix':
        user = bval.copy()
        b = user + 0.0 * y
    else:
        raise ValueError(kind)
    nb = -1 * b
    if convex:
        c = {'L': lambda: k * f <= b, 'R': lambda: f * k <= b, 'G': lambda: b >= k * f,
             'N': lambda: (-k) * f >= nb}[form]()
    else:
        c = {'L': lambda: k * f >= b, 'R': lambda: f * k >= b, 'G': lambda: b <= k * f,
             'N': lambda: (-k) * f <= nb}[form]()
    m.st(c)
    h = {'m': m, 'x': x, 'X': X, 'y': y, 'b': user, 'c': c}
    for r in final:
        rhs_apply(h, r)
    return m, h


# ------------------------------------------------------------------------------------------------
# 'soc2' family: process-history independence of GCProg.to_socp / soc_solve.  Small models with exponential cones;
# a call is (api, args) with api 'T' = model.do_math().to_socp(*args) and 'Q' = model.soc_solve(eco, *args).
# `soc2_solo(model, args)` is what a FRESH process prints (one call, nothing before it).
# ------------------------------------------------------------------------------------------------
SOC2_MODELS = ('ro_p', 'gcp_q', 'ro_k', 'ro_set', 'dro_p')
SOC2_ARGS = ([], [6], [4, [-30, 60]], [4, [-1, 0.5]], [6, [-1, 0.5]], [6, [-7, 13]], [4, [-7, 13]], [4], [6, [-30, 60]])


def soc2_model(name):
    rs = _rs()
    rso = rs['rso']
    if name == 'ro_p':          # max x : exp(x) <= 10   (ln 10)
        m = rs['ro'].Model()
        x = m.dvar()
        m.max(x)
        m.st(rso.exp(x) <= 10, x <= 5)
    elif name == 'gcp_q':       # min exp(y) + exp(-2y) + ...  on a directly used gcp.Model
        import rsome.gcp as gcpm
        m = gcpm.Model()
        y = m.dvar()
        t = m.dvar(2)
        m.min(t.sum())
        m.st([rso.exp(y) <= t[0], rso.exp(0.25 - 2 * y) <= t[1], y >= -0.75, y <= 0.75])
    elif name == 'ro_k':        # entropy / kl-divergence / log atoms, several cones
        m = rs['ro'].Model()
        p = m.dvar(2)
        x = m.dvar(2)
        m.min(np.array([1.0, 2.0]) @ p + x.sum())
        m.st(rso.kldiv(p, np.array([0.75, 0.25]), 0.125), p.sum() == 1, p >= 0)
        m.st(2 * rso.log(x) >= np.array([1.0, 2.0]), x <= 9)
    elif name == 'ro_set':      # exponential cone inside the uncertainty set
        m = rs['ro'].Model()
        x = m.dvar(2)
        z = m.rvar(2)
        zs = (rso.exp(z[0]) <= 2 + z[1], z >= -1, z <= 1)
        m.minmax(np.array([1.0, 0.75]) @ x + 0.25 * (z[0] * x[1]), zs)
        m.st((np.array([1.0, 1.0]) + np.array([[0.5, 0], [0, -0.25]]) @ z) @ x >= 1.5)
        m.st(x >= 0, x <= 4)
    elif name == 'dro_p':
        E = rs['E']
        m = rs['dro'].Model(2)
        z = m.rvar()
        fset = m.ambiguity()
        fset[0].suppset(z >= -1, z <= 0.5)
        fset[1].suppset(z >= 0, z <= 1)
        fset.exptset(E(z) <= 0.5, E(z) >= -0.25)
        fset.probset(m.p == 0.5)
        x = m.dvar()
        m.maxinf(E(x + 0.5 * z * x), fset)
        m.st(rso.exp(x) <= 10, x <= 5)
    else:
        raise ValueError(name)
    return m


def soc2_args(args):
    a = list(args)
    if len(a) == 2:
        a[1] = tuple(a[1])
    return a


def soc2_call(m, api, args):
    """-> ('T', digest) or ('Q', (status, objective or None))."""
    from . import c08c18c19_common as cm
    rs = _rs()
    a = soc2_args(args)
    if api == 'T':
        return cm.snap_digest(cm.snapshot(m.do_math().to_socp(*a)))
    kw = {}
    if len(a) >= 1:
        kw['degree'] = a[0]
    if len(a) >= 2:
        kw['cuts'] = a[1]
    m.soc_solve(rs['eco'], display=False, **kw)
    sol = m.solution
    if sol is None or sol.x is None or not str(sol.status).startswith('Optimal'):
        return None
    v = float(m.get())
    return None if np.isnan(v) else v


def soc2_solo(model, args):
    out = {'T': soc2_call(soc2_model(model), 'T', args)}
    out['Q'] = soc2_call(soc2_model(model), 'Q', args)
    return out
