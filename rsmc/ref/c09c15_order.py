"""C09 family 3: declaration order.  The same declared model is built in every linear extension of the dependency
order of its declarations, with noise events (an unused dvar, an unused rvar, a decoy set definition) inserted
anywhere; the optimum must equal the optimum of the canonical order."""
import itertools
import numpy as np
from . import c09c15_common as C

# ---- pure data (importable by the parent): events, dependencies, canonical order
EVENTS = {
    'ro': {'X': [], 'Z': [], 'Y': ['Z'], 'C1': ['X', 'Z'], 'C2': ['X', 'Z', 'Y'], 'C3': ['X'], 'O': ['X', 'Z']},
    'dro': {'X': [], 'V': [], 'Z': [], 'F': ['Z'], 'C1': ['X', 'Z', 'F'], 'C2': ['X', 'V', 'Z', 'F'],
            'O': ['X', 'V', 'Z', 'F']},
}
# ro2 / dro2: a 2-entry decision rule (ro: ldr(2); dro: dvar(2) with affine adaptation) whose rows need different
# coefficients, and a further random variable W that is part of the model (bounded in the set, used in a constraint)
# and may be declared at every position: before/after the rule, between adapt() and the first use, after the use.
EVENTS['ro2'] = {'X': [], 'Z': [], 'W': [], 'YD': [], 'YA': ['YD', 'Z'], 'U': ['X', 'Z', 'YA'],
                 'CW': ['X', 'Z', 'W'], 'O': ['X', 'Z', 'W']}
EVENTS['dro2'] = {'X': [], 'Z': [], 'W': [], 'YD': [], 'YA': ['YD', 'Z'], 'F': ['Z', 'W'],
                  'U': ['X', 'Z', 'YA', 'F'], 'CW': ['X', 'Z', 'W', 'F'], 'O': ['X', 'Z', 'W', 'YA', 'F']}
MASKS = ['full', 'diag', 'part']
FE = {'ro': 'ro', 'dro': 'dro', 'ro2': 'ro', 'dro2': 'dro'}
CANON = {'ro': ['X', 'Z', 'Y', 'O', 'C1', 'C2', 'C3'], 'dro': ['X', 'V', 'Z', 'F', 'O', 'C1', 'C2'],
         'ro2': ['X', 'YD', 'Z', 'W', 'YA', 'O', 'U', 'CW'], 'dro2': ['X', 'YD', 'Z', 'W', 'YA', 'F', 'O', 'U', 'CW']}
NOISE = {'NX': [], 'NZ': [], 'ND': ['X', 'Z']}      # ND needs x and z (dro: also F, no st before ambiguity())


def linear_extensions(fe):
    ev = EVENTS[fe]
    names = sorted(ev)
    for perm in itertools.permutations(names):
        pos = {n: i for i, n in enumerate(perm)}
        if all(pos[d] < pos[n] for n in names for d in ev[n]):
            yield list(perm)


def with_noise(fe, order, k):
    """All insertions of k noise events (kinds with repetition allowed only for different kinds)."""
    if k == 0:
        yield list(order)
        return
    for kinds in itertools.combinations(sorted(NOISE), k):
        def rec(cur, remaining):
            if not remaining:
                yield cur
                return
            nk = remaining[0]
            for p in range(len(cur) + 1):
                before = set(cur[:p])
                deps = list(NOISE[nk]) + (['F'] if fe in ('dro', 'dro2') and nk == 'ND' else [])
                if all(d in before for d in deps):
                    for out in rec(cur[:p] + [nk] + cur[p:], remaining[1:]):
                        yield out
        for o in rec(list(order), list(kinds)):
            yield o


# ---- execution
W3 = np.array([1.0, 1.5, 2.0])
C0 = np.array([0.5, -1.0])
C1 = np.array([1.0, 0.5])
C2 = np.array([-0.5, 1.0])
C3 = np.array([1.0, -1.0])


class _E(object):
    pass


T2 = np.array([[1.0, -1.0], [0.5, 2.0]])      # target coefficients of the 2-entry rule: distinct per row / component
W2 = np.array([1.0, 1.5])


def _adapt2(y, z, mask):
    if mask == 'full':
        y.adapt(z)
    elif mask == 'diag':
        y[0].adapt(z[0])
        y[1].adapt(z[1])
    elif mask == 'part':
        y[0].adapt(z)
        y[1].adapt(z[1])
    # mask 'static': no adaptation (sensitivity reference only)


def build2(fl, order, mask):
    """ro2 / dro2 models (see EVENTS)."""
    R = C.R
    rso = R['rso']
    e = _E()
    dro_fe = FE[fl] == 'dro'
    m = R['dro'].Model(2) if dro_fe else R['ro'].Model()
    e.m = m
    for ev in order:
        x, z, w, y = (getattr(e, n, None) for n in ('x', 'z', 'w', 'y'))
        if ev == 'X':
            e.x = m.dvar(2)
        elif ev == 'Z':
            e.z = m.rvar(2)
        elif ev == 'W':
            e.w = m.rvar()
        elif ev == 'NX':
            m.dvar(2)
        elif ev == 'NZ':
            m.rvar()
        elif ev == 'ND':
            if dro_fe:
                (x[0] >= z @ C3).forall([rso.pnorm(z, 3) <= 0.25, z.sum() == 0.125])
            else:
                (x[0] >= z @ C3).forall(rso.pnorm(z, 3) <= 0.25, z.sum() == 0.125)
        elif ev == 'YD':
            e.y = m.dvar(2) if dro_fe else m.ldr(2)
        elif ev == 'YA':
            _adapt2(y, z, mask)
        elif ev == 'F':
            f = m.ambiguity()
            f[0].suppset(rso.norm(z, 'inf') <= 1, w <= 1, w >= -0.5, z[0] + w <= 1.5)
            f[1].suppset(rso.norm(z, 2) <= 0.75, w <= 0.5, w >= -0.25)
            f.exptset(rso.E(z) <= 0.25, rso.E(z) >= -0.25)
            e.f = f
        elif ev == 'U':         # first use of the rule: every row must dominate its own target
            m.st(y >= T2 @ z)
            m.st(x[0] >= y[0] - T2[0] @ z + 0.5)
            m.st(x[1] >= y[1] - T2[1] @ z + 0.25 * z[0] + 0.25)
        elif ev == 'CW':
            m.st(x >= 0)
            m.st(x[0] + x[1] >= 1 + 0.5 * w + 0.25 * z[0])
        elif ev == 'O':
            if dro_fe:
                m.minsup(W2 @ x + 0.25 * z[1] + 0.5 * w, e.f)
            else:
                m.minmax(W2 @ x + 0.25 * z[1] + 0.5 * w, rso.norm(z, 'inf') <= 1, w <= 1, w >= -0.5,
                         z[0] + w <= 1.5)
        else:
            raise ValueError(ev)
    return e


def build(fe, order, variant=None):
    if fe in ('ro2', 'dro2'):
        return build2(fe, order, variant or 'full')
    R = C.R
    rso = R['rso']
    e = _E()
    if fe == 'ro':
        m = R['ro'].Model()
    else:
        m = R['dro'].Model(2)
    e.m = m
    for ev in order:
        if ev == 'X':
            e.x = m.dvar(3)
        elif ev == 'Z':
            e.z = m.rvar(2)
        elif ev == 'NX':
            m.dvar(2)
        elif ev == 'NZ':
            m.rvar()
        elif ev == 'ND':
            if fe == 'ro':
                (e.x[0] >= e.z @ C3).forall(rso.pnorm(e.z, 3) <= 0.25, e.z.sum() == 0.125)
            else:
                (e.x[0] >= e.z @ C3).forall([rso.pnorm(e.z, 3) <= 0.25, e.z.sum() == 0.125])
        elif fe == 'ro':
            x = getattr(e, 'x', None)
            z = getattr(e, 'z', None)
            if ev == 'Y':
                e.y = m.ldr()
                if variant != 'static':
                    e.y.adapt(z)
            elif ev == 'C1':
                if variant != 'noC1':
                    m.st((x[0] >= 1 + z @ C1).forall(rso.norm(z, 2) <= 0.75))
            elif ev == 'C2':
                m.st(e.y >= z @ C3)
                m.st(x[1] >= e.y - z @ C3 + 0.5 * z[0] + 0.5)
            elif ev == 'C3':
                m.st(x >= 0)
                m.st(rso.norm(x[0:2]) <= x[2])
            elif ev == 'O':
                m.minmax(W3 @ x + z @ C0, rso.norm(z, 'inf') <= 1, z[0] + z[1] <= 1.5)
            else:
                raise ValueError(ev)
        else:
            x = getattr(e, 'x', None)
            z = getattr(e, 'z', None)
            if ev == 'V':
                e.v = m.dvar()
                if variant != 'static':
                    e.v.adapt(0)
            elif ev == 'F':
                f = m.ambiguity()
                f[0].suppset(z <= 1, z >= -1)
                f[1].suppset(rso.norm(z, 2) <= 0.5)
                f.exptset(rso.E(z) <= 0.25, rso.E(z) >= -0.25)
                f.probset(m.p <= np.array([0.625, 0.75]))
                e.f = f
            elif ev == 'C1':
                m.st(x >= 0)
                if variant != 'noC1':
                    m.st(x[0] >= 1 + z @ C1)
            elif ev == 'C2':
                m.st(e.v >= 1 + z @ C3)
                m.st(rso.E(rso.maxof(z @ C2, 0.5 - z @ C2)) + 1 <= x[1])
            elif ev == 'O':
                base_ = W3 @ x + 4 * e.v
                m.minsup(rso.E(rso.maxof(base_ + z @ C0, base_ - z @ C0)), e.f)
            else:
                raise ValueError(ev)
    return e


_MEMO = {}


def _solve(fe, order, variant=None):
    try:
        e = build(fe, order, variant)
        return C.solve_model(e.m, 'eco')
    except Exception as ex:  # noqa
        return ('raise', C.exc_class(ex))


def reference(fe, mask=None):
    key = (fe, mask)
    if key not in _MEMO:
        can = CANON[fe]
        if fe in ('ro2', 'dro2'):
            _MEMO[key] = {'canon': _solve(fe, can, mask), 'static': _solve(fe, can, 'static')}
            if mask != 'full':      # a partial mask must be worse than full adaptation for the instance to discriminate
                _MEMO[key]['noC1'] = _solve(fe, can, 'full')
        else:
            _MEMO[key] = {'canon': _solve(fe, can), 'static': _solve(fe, can, 'static'),
                          'noC1': _solve(fe, can, 'noC1')}
    return _MEMO[key]


def _wpos(order):
    if 'W' not in order:
        return ''
    p = order.index
    if p('W') < p('YD'):
        return '|w:pre-rule'
    if p('W') < p('YA'):
        return '|w:rule..adapt'
    if p('W') < p('U'):
        return '|w:adapt..use'
    return '|w:post-use'


def run(case):
    fe = case['fe']
    order = case['order']
    mask = case.get('mask')
    ref = reference(fe, mask)
    exp = ref['canon']
    got = _solve(fe, order, mask)
    nops = 3 * len(order) + 1
    res = {'ops': nops, 'states': 1, 'transitions': nops}
    # signature features: constraint-like events created before the last decision-variable declaration
    dv = [i for i, ev in enumerate(order) if ev in ('X', 'V', 'NX', 'YD')]
    last = max(dv)
    before = sorted(set(ev for ev in order[:last] if ev in ('C1', 'C2', 'C3', 'O', 'ND', 'Y', 'U', 'CW')))
    noise = '+'.join(ev for ev in order if ev in NOISE) or '-'
    rv = [i for i, ev in enumerate(order) if ev in ('Z', 'NZ', 'W')]
    rbefore = sorted(set(ev for ev in order[:max(rv)] if ev in ('C1', 'C2', 'C3', 'O', 'ND', 'Y', 'F', 'U', 'CW',
                                                                 'YA')))
    feat = 'dvar_after:%s|rvar_after:%s|noise:%s' % ('+'.join(before) or '-', '+'.join(rbefore) or '-', noise)
    if mask:
        feat += '|mask:%s%s' % (mask, _wpos(order))
    detail = 'order %s -> %s ; canonical %s -> %s' % (' '.join(order), C.fmt(got), ' '.join(CANON[fe]), C.fmt(exp))
    if got[0] == 'raise' or exp[0] == 'raise':
        if got[0] == 'raise' and exp[0] == 'raise':
            res.update(status='unsupported', outcome='both_raise')
            return res
        side = 'history' if got[0] == 'raise' else 'fresh'
        who = got if got[0] == 'raise' else exp
        res.update(status='violation', sig='order|%s|%s_raises:%s|%s' % (fe, side, who[1], feat),
                   detail=detail)
        return res
    c = C.compare_status(got, exp, C.TOL_CONE)
    if c == 'vacuous':
        res.update(status='vacuous', outcome='solver:%s/%s' % (got[0], exp[0]))
        return res
    if c == 'differ':
        res.update(status='violation', sig='order|%s|value|%s' % (fe, feat), detail=detail)
        return res
    sens = all(ref[k][0] == 'opt' and not C.close(ref[k][1], exp[1], 1e-3) for k in ref if k != 'canon')
    res.update(status='pass', outcome='equal', nontrivial=bool(sens), validated=1)
    return res
