"""C09 family 3: declaration order.  The same declared model is built in every linear extension of the dependency
order of its declarations, with noise events (an unused dvar, an unused rvar, a decoy set definition) inserted
anywhere; the optimum must equal the optimum of the canonical order."""
import itertools
import numpy as np
from . import c09c15_common as C

# ---- pure data (importable by the parent): events, dependencies, canonical order
EVENTS = {
    'ro': {'X': [], 'Z': [], 'Y': ['Z'], 'C1': ['X', 'Z'], 'C2': ['X', 'Z', 'Y'], 'C3': ['X'], 'O': ['X', 'Z']},
    'dro': {'X': [], 'V': [], 'Z': [], 'F': ['Z'], 'C1': ['X', 'Z', 'F'], 'C2': ['X', 'V', 'Z', 'F'],
            'O': ['X', 'V', 'Z', 'F']},
}
CANON = {'ro': ['X', 'Z', 'Y', 'O', 'C1', 'C2', 'C3'], 'dro': ['X', 'V', 'Z', 'F', 'O', 'C1', 'C2']}
NOISE = {'NX': [], 'NZ': [], 'ND': ['X', 'Z']}      # ND needs x and z (dro: also F, no st before ambiguity())


def linear_extensions(fe):
    ev = EVENTS[fe]
    names = sorted(ev)
    for perm in itertools.permutations(names):
        pos = {n: i for i, n in enumerate(perm)}
        if all(pos[d] < pos[n] for n in names for d in ev[n]):
            yield list(perm)


def with_noise(fe, order, k):
    """All insertions of k noise events (kinds with repetition allowed only for different kinds)."""
    if k == 0:
        yield list(order)
        return
    for kinds in itertools.combinations(sorted(NOISE), k):
        def rec(cur, remaining):
            if not remaining:
                yield cur
                return
            nk = remaining[0]
            for p in range(len(cur) + 1):
                before = set(cur[:p])
                deps = list(NOISE[nk]) + (['F'] if fe == 'dro' and nk == 'ND' else [])
                if all(d in before for d in deps):
                    for out in rec(cur[:p] + [nk] + cur[p:], remaining[1:]):
                        yield out
        for o in rec(list(order), list(kinds)):
            yield o


# ---- execution
W3 = np.array([1.0, 1.5, 2.0])
C0 = np.array([0.5, -1.0])
C1 = np.array([1.0, 0.5])
C2 = np.array([-0.5, 1.0])
C3 = np.array([1.0, -1.0])


class _E(object):
    pass


def build(fe, order, variant=None):
    R = C.R
    rso = R['rso']
    e = _E()
    if fe == 'ro':
        m = R['ro'].Model()
    else:
        m = R['dro'].Model(2)
    e.m = m
    for ev in order:
        if ev == 'X':
            e.x = m.dvar(3)
        elif ev == 'Z':
            e.z = m.rvar(2)
        elif ev == 'NX':
            m.dvar(2)
        elif ev == 'NZ':
            m.rvar()
        elif ev == 'ND':
            if fe == 'ro':
                (e.x[0] >= e.z @ C3).forall(rso.pnorm(e.z, 3) <= 0.25, e.z.sum() == 0.125)
            else:
                (e.x[0] >= e.z @ C3).forall([rso.pnorm(e.z, 3) <= 0.25, e.z.sum() == 0.125])
        elif fe == 'ro':
            x = getattr(e, 'x', None)
            z = getattr(e, 'z', None)
            if ev == 'Y':
                e.y = m.ldr()
                if variant != 'static':
                    e.y.adapt(z)
            elif ev == 'C1':
                if variant != 'noC1':
                    m.st((x[0] >= 1 + z @ C1).forall(rso.norm(z, 2) <= 0.75))
            elif ev == 'C2':
                m.st(e.y >= z @ C3)
                m.st(x[1] >= e.y - z @ C3 + 0.5 * z[0] + 0.5)
            elif ev == 'C3':
                m.st(x >= 0)
                m.st(rso.norm(x[0:2]) <= x[2])
            elif ev == 'O':
                m.minmax(W3 @ x + z @ C0, rso.norm(z, 'inf') <= 1, z[0] + z[1] <= 1.5)
            else:
                raise ValueError(ev)
        else:
            x = getattr(e, 'x', None)
            z = getattr(e, 'z', None)
            if ev == 'V':
                e.v = m.dvar()
                if variant != 'static':
                    e.v.adapt(0)
            elif ev == 'F':
                f = m.ambiguity()
                f[0].suppset(z <= 1, z >= -1)
                f[1].suppset(rso.norm(z, 2) <= 0.5)
                f.exptset(rso.E(z) <= 0.25, rso.E(z) >= -0.25)
                f.probset(m.p <= np.array([0.625, 0.75]))
                e.f = f
            elif ev == 'C1':
                m.st(x >= 0)
                if variant != 'noC1':
                    m.st(x[0] >= 1 + z @ C1)
            elif ev == 'C2':
                m.st(e.v >= 1 + z @ C3)
                m.st(rso.E(rso.maxof(z @ C2, 0.5 - z @ C2)) + 1 <= x[1])
            elif ev == 'O':
                base_ = W3 @ x + 4 * e.v
                m.minsup(rso.E(rso.maxof(base_ + z @ C0, base_ - z @ C0)), e.f)
            else:
                raise ValueError(ev)
    return e


_MEMO = {}


def _solve(fe, order, variant=None):
    try:
        e = build(fe, order, variant)
        return C.solve_model(e.m, 'eco')
    except Exception as ex:  # noqa
        return ('raise', C.exc_class(ex))


def reference(fe):
    if fe not in _MEMO:
        can = CANON[fe]
        _MEMO[fe] = {'canon': _solve(fe, can), 'static': _solve(fe, can, 'static'), 'noC1': _solve(fe, can, 'noC1')}
    return _MEMO[fe]


def run(case):
    fe = case['fe']
    order = case['order']
    ref = reference(fe)
    exp = ref['canon']
    got = _solve(fe, order)
    nops = 3 * len(order) + 1
    res = {'ops': nops, 'states': 1, 'transitions': nops}
    # signature features: constraint-like events created before the last decision-variable declaration
    dv = [i for i, ev in enumerate(order) if ev in ('X', 'V', 'NX')]
    last = max(dv)
    before = sorted(set(ev for ev in order[:last] if ev in ('C1', 'C2', 'C3', 'O', 'ND', 'Y')))
    noise = '+'.join(ev for ev in order if ev in NOISE) or '-'
    rv = [i for i, ev in enumerate(order) if ev in ('Z', 'NZ')]
    rbefore = sorted(set(ev for ev in order[:max(rv)] if ev in ('C1', 'C2', 'C3', 'O', 'ND', 'Y', 'F')))
    feat = 'dvar_after:%s|rvar_after:%s|noise:%s' % ('+'.join(before) or '-', '+'.join(rbefore) or '-', noise)
    detail = 'order %s -> %s ; canonical %s -> %s' % (' '.join(order), C.fmt(got), ' '.join(CANON[fe]), C.fmt(exp))
    if got[0] == 'raise' or exp[0] == 'raise':
        if got[0] == 'raise' and exp[0] == 'raise':
            res.update(status='unsupported', outcome='both_raise')
            return res
        side = 'history' if got[0] == 'raise' else 'fresh'
        who = got if got[0] == 'raise' else exp
        res.update(status='violation', sig='order|%s|%s_raises:%s|%s' % (fe, side, who[1], feat),
                   detail=detail)
        return res
    c = C.compare_status(got, exp, C.TOL_CONE)
    if c == 'vacuous':
        res.update(status='vacuous', outcome='solver:%s/%s' % (got[0], exp[0]))
        return res
    if c == 'differ':
        res.update(status='violation', sig='order|%s|value|%s' % (fe, feat), detail=detail)
        return res
    sens = all(ref[k][0] == 'opt' and not C.close(ref[k][1], exp[1], 1e-3) for k in ('static', 'noC1'))
    res.update(status='pass', outcome='equal', nontrivial=bool(sens), validated=1)
    return res
