"""R-prog / R-kkt for C11, C14, C16 - reference models on *compiled programs*.  Never imports rsome.

A compiled program (rsome LinProg / SOCProg / GCProg) is read through its public fields only
(linear, const, sense, vtype, ub, lb, obj, qmat, xmat) and copied into a plain dict of ndarrays /
lists (a *snapshot*).  Meaning of the fields (checked against rsome/socp.py, gcp.py, eco_solver.py):

    minimise   obj . x
    s.t.       linear[i] . x <= const[i]   (sense[i] == 0)     linear[i] . x == const[i]  (sense[i] == 1)
               lb <= x <= ub ;  vtype 'I': x integer ;  vtype 'B': x in {0,1} *and* lb <= x <= ub
               for q in qmat:   x[q[0]] >= || x[q[1:]] ||_2
               for (i,j,k) in xmat:  x[j] >= x[k]*exp(x[i]/x[k]),  x[k] > 0   (closure: x[k]=0, x[i]<=0, x[j]>=0)

The exponential-cone convention was verified numerically: `exp(x) <= t` compiles to the triple
(x, t, 1) and ECOS (rows -x[e], cone 'e') returns t = e**x for it.
"""
import numpy as np


def _arr(v, dtype=float):
    return np.array(np.asarray(v, dtype=dtype)) + 0.0      # copy; -0.0 -> 0.0


def snapshot(formula):
    """Deep numerical copy of a compiled program (signed zeros identified)."""
    lin = formula.linear
    A = np.array(lin.toarray(), dtype=float) + 0.0
    snap = {
        'cls': type(formula).__name__,
        'A': A,
        'nnz_pattern': (np.array(lin.indptr).copy(), np.array(lin.indices).copy()),
        'b': _arr(formula.const).reshape(-1),
        'sense': np.array(np.asarray(formula.sense, dtype=float)).reshape(-1) + 0.0,
        'vtype': [str(v) for v in np.asarray(formula.vtype).reshape(-1)],
        'ub': _arr(formula.ub).reshape(-1),
        'lb': _arr(formula.lb).reshape(-1),
        'obj': _arr(formula.obj).reshape(-1),
        'qmat': [[int(i) for i in q] for q in (getattr(formula, 'qmat', None) or [])],
        'xmat': [[int(i) for i in e] for e in (getattr(formula, 'xmat', None) or [])],
        'nlmi': len(getattr(formula, 'lmi', None) or []),
    }
    return snap


def snap_diff(a, b):
    """Names of the fields in which two snapshots differ numerically."""
    out = []
    for k in ('A', 'b', 'sense', 'ub', 'lb', 'obj'):
        if a[k].shape != b[k].shape or not np.array_equal(a[k], b[k]):
            out.append(k)
    for k in ('vtype', 'qmat', 'xmat', 'nlmi', 'cls'):
        if a[k] != b[k]:
            out.append(k)
    return out


def kind_of(snap):
    """LP / MILP / SOCP / MISOCP / EXP / MIEXP (+EXP wins over SOC)."""
    mi = any(v != 'C' for v in snap['vtype'])
    if snap['xmat']:
        base = 'EXP'
    elif snap['qmat']:
        base = 'SOCP'
    else:
        return 'MILP' if mi else 'LP'
    return ('MI' + base) if mi else base


def eff_bounds(snap):
    """Bounds of the program as the property reads them: binaries live in {0,1} *intersected* with the user's bounds."""
    lb = snap['lb'].copy()
    ub = snap['ub'].copy()
    for j, v in enumerate(snap['vtype']):
        if v == 'B':
            lb[j] = max(lb[j], 0.0)
            ub[j] = min(ub[j], 1.0)
    return lb, ub


def residuals(snap, x, tol=1e-6, int_tol=1e-4):
    """List of (kind, index, amount) for every part of the program the vector x violates."""
    out = []
    n = snap['A'].shape[1]
    if x is None:
        return [('novector', -1, 0.0)]
    x = np.asarray(x, dtype=float).reshape(-1)
    if x.size != n:
        return [('length', -1, float(x.size - n))]
    if not np.all(np.isfinite(x)):
        return [('nonfinite', int(np.flatnonzero(~np.isfinite(x))[0]), 0.0)]
    A, b, sense = snap['A'], snap['b'], snap['sense']
    r = A @ x - b
    scale = 1.0 + np.abs(b) + np.abs(A) @ np.abs(x)
    for i in range(A.shape[0]):
        if sense[i] == 1:
            if abs(r[i]) > tol * scale[i]:
                out.append(('eqrow', i, float(r[i])))
        elif r[i] > tol * scale[i]:
            out.append(('lerow', i, float(r[i])))
    for j in range(n):
        lo, up = snap['lb'][j], snap['ub'][j]
        if x[j] < lo - tol * (1 + abs(lo) if np.isfinite(lo) else 1):
            out.append(('lb', j, float(lo - x[j])))
        if x[j] > up + tol * (1 + abs(up) if np.isfinite(up) else 1):
            out.append(('ub', j, float(x[j] - up)))
        v = snap['vtype'][j]
        if v in 'BI':
            if abs(x[j] - np.round(x[j])) > int_tol:
                out.append(('integrality', j, float(x[j] - np.round(x[j]))))
            if v == 'B' and (x[j] < -int_tol or x[j] > 1 + int_tol):
                out.append(('binary-domain', j, float(x[j])))
    for k, q in enumerate(snap['qmat']):
        head = x[q[0]]
        tail = float(np.linalg.norm(x[q[1:]]))
        if tail - head > tol * (1 + abs(head) + tail):
            out.append(('soc', k, tail - head))
    for k, (i, j, kk) in enumerate(snap['xmat']):
        xi, xj, xk = x[i], x[j], x[kk]
        if xk < -tol:
            out.append(('expcone-scale', k, float(xk)))
        elif xk <= tol:
            if xi > 10 * tol or xj < -10 * tol:
                out.append(('expcone-closure', k, float(max(xi, -xj))))
        else:
            with np.errstate(over='ignore'):
                rhs = xk * np.exp(xi / xk)
            if not np.isfinite(rhs) or rhs - xj > tol * (1 + abs(xj) + abs(rhs)):
                out.append(('expcone', k, float(rhs - xj) if np.isfinite(rhs) else float('inf')))
    return out


# ----------------------------------------------------------------------------------------------
# reference LP / MILP solve of a snapshot (SciPy-HiGHS called directly, binaries = {0,1} ∩ bounds)
def ref_solve(snap):
    """-> (cls, objval, x) with cls in {'opt','nonopt','fail'}; only for programs without cones."""
    import scipy.optimize as opt
    if snap['qmat'] or snap['xmat'] or snap['nlmi']:
        raise ValueError('reference solver handles LP/MILP only')
    A, b, sense = snap['A'], snap['b'], snap['sense']
    lb, ub = eff_bounds(snap)
    integ = np.array([0 if v == 'C' else 1 for v in snap['vtype']])
    # integer variables: tighten to the integer hull of the bounds so that the domain is honest
    lbi, ubi = lb.copy(), ub.copy()
    for j in range(len(lb)):
        if integ[j]:
            if np.isfinite(lbi[j]):
                lbi[j] = np.ceil(lbi[j] - 1e-9)
            if np.isfinite(ubi[j]):
                ubi[j] = np.floor(ubi[j] + 1e-9)
    if np.any(lbi > ubi):
        return 'nonopt', np.nan, None
    # constant rows decide by themselves (HiGHS drops empty rows correctly, but be explicit)
    for i in range(A.shape[0]):
        if not np.any(A[i]):
            if (sense[i] == 1 and abs(b[i]) > 1e-12) or (sense[i] == 0 and b[i] < -1e-12):
                return 'nonopt', np.nan, None
    bl = np.where(sense == 1, b, -np.inf)
    for presolve in (True, False):
        if integ.any():
            res = opt.milp(snap['obj'], constraints=opt.LinearConstraint(A, bl, b),
                           bounds=opt.Bounds(lbi, ubi), integrality=integ,
                           options={'presolve': presolve})
        else:
            eq = sense == 1
            res = opt.linprog(snap['obj'], A_ub=A[~eq] if (~eq).any() else None,
                              b_ub=b[~eq] if (~eq).any() else None,
                              A_eq=A[eq] if eq.any() else None, b_eq=b[eq] if eq.any() else None,
                              bounds=list(zip(lbi, ubi)), method='highs',
                              options={'presolve': presolve})
        if res.status == 0:
            return 'opt', float(snap['obj'] @ res.x), np.array(res.x)
        if res.status in (2, 3):
            return 'nonopt', np.nan, None
        # 1: limit, 4: unbounded-or-infeasible / other -> retry without presolve
    if integ.any():
        # HiGHS says "unbounded or infeasible" for some MILPs: decide by (i) an integer-feasible point exists and
        # (ii) the LP relaxation is unbounded  =>  the MILP (rational data) is unbounded; (i) fails => infeasible
        feas = opt.milp(np.zeros(len(lbi)), constraints=opt.LinearConstraint(A, bl, b),
                        bounds=opt.Bounds(lbi, ubi), integrality=integ)
        if feas.status == 2:
            return 'nonopt', np.nan, None
        if feas.status == 0:
            eq = sense == 1
            rel = opt.linprog(snap['obj'], A_ub=A[~eq] if (~eq).any() else None, b_ub=b[~eq] if (~eq).any() else None,
                              A_eq=A[eq] if eq.any() else None, b_eq=b[eq] if eq.any() else None,
                              bounds=list(zip(lbi, ubi)), method='highs', options={'presolve': False})
            if rel.status == 3:
                return 'nonopt', np.nan, None
    return 'fail', np.nan, None


# ----------------------------------------------------------------------------------------------
# status tables of the interfaces (solution.status as rsome stores it)
def status_class(iface, status):
    """'opt' | 'nonopt' (definitely no optimum: infeasible / unbounded) | 'unclear' (limits, numerics...)."""
    if iface == 'def':
        return {0: 'opt', 2: 'nonopt', 3: 'nonopt'}.get(_int(status), 'unclear4' if _int(status) == 4 else 'unclear')
    if iface == 'ort':
        return {0: 'opt', 2: 'nonopt', 3: 'nonopt'}.get(_int(status), 'unclear')
    if iface == 'grb':
        return {2: 'opt', 3: 'nonopt', 4: 'nonopt', 5: 'nonopt'}.get(_int(status), 'unclear')
    if iface == 'eco':
        s = str(status)
        if s in ('Optimal solution found', 'Optimal branch and bound solution found'):
            return 'opt'
        if s in ('Primal infeasible', 'Dual infeasible', 'Problem is infeasible', 'Problem is unbounded'):
            return 'nonopt'
        return 'unclear'
    raise ValueError(iface)


def _int(s):
    try:
        return int(s)
    except (TypeError, ValueError):
        return -999


# ----------------------------------------------------------------------------------------------
# reference show() table
def ref_show(snap):
    """Expected cells of formula.show() for SOCProg / GCProg: (index labels, column labels, {(row, col): value})."""
    A = snap['A']
    m, n = A.shape
    cols = ['x%d' % (j + 1) for j in range(n)] + ['sense', 'constant']
    rows = []
    cells = {}

    def put(r, vals, sense, const):
        rows.append(r)
        for j in range(n):
            cells[(r, cols[j])] = vals[j]
        cells[(r, 'sense')] = sense
        cells[(r, 'constant')] = const

    put('Obj', list(snap['obj']), '-', '-')
    for i in range(m):
        put('LC%d' % (i + 1), list(A[i]), '==' if snap['sense'][i] == 1 else '<=', float(snap['b'][i]))
    for k, q in enumerate(snap['qmat']):
        v = [0.0] * n
        v[q[0]] += -1.0
        for j in q[1:]:
            v[j] += 1.0
        put('QC%d' % (k + 1), v, '<=', 0.0)
    for k, e in enumerate(snap['xmat']):
        v = [0.0] * n
        for pos, j in enumerate(e):
            v[j] += float(pos + 1)
        put('EC%d' % (k + 1), v, '-', '-')
    put('UB', list(snap['ub']), '-', '-')
    put('LB', list(snap['lb']), '-', '-')
    put('Type', list(snap['vtype']), '-', '-')
    return rows, cols, cells


def ref_showlc(snap):
    """Expected cells of LinProg.show() (= showlc): LC rows only."""
    A = snap['A']
    m, n = A.shape
    cols = ['x%d' % (j + 1) for j in range(n)] + ['sense', 'constant']
    rows = []
    cells = {}
    for i in range(m):
        r = 'LC%d' % (i + 1)
        rows.append(r)
        for j in range(n):
            cells[(r, cols[j])] = A[i, j]
        cells[(r, 'sense')] = '==' if snap['sense'][i] == 1 else '<='
        cells[(r, 'constant')] = float(snap['b'][i])
    return rows, cols, cells


def cell_equal(got, exp):
    """Exact comparison of one table cell (numbers numerically, signed zeros identified; strings literally)."""
    if isinstance(exp, str):
        return isinstance(got, str) and got == exp
    if isinstance(got, str):
        return False
    try:
        g = float(got)
    except (TypeError, ValueError):
        return False
    e = float(exp)
    if np.isnan(e):
        return np.isnan(g)
    return g == e


def compare_table(df, ref):
    """-> list of mismatch descriptions between a pandas DataFrame and a reference (rows, cols, cells)."""
    rows, cols, cells = ref
    out = []
    if [str(c) for c in df.columns] != cols:
        out.append('columns %s != %s' % (list(df.columns), cols))
        return out
    if [str(r) for r in df.index] != rows:
        out.append('index %s != %s' % (list(df.index), rows))
        return out
    for i, r in enumerate(rows):
        for j, c in enumerate(cols):
            got = df.iat[i, j]
            if not cell_equal(got, cells[(r, c)]):
                out.append('cell[%s,%s]=%r expected %r' % (r, c, got, cells[(r, c)]))
                if len(out) > 5:
                    return out
    return out


# ----------------------------------------------------------------------------------------------
# R-kkt: certificate identities for a user-level LP
def kkt_check(c, sign, objval, rows, bnds, n, tol=1e-6):
    """
    c     : objective gradient of the user's model (length n), sign = +1 for min, -1 for max, objval = its optimum.
    rows  : list of (G, h, is_eq, y):  constraint block read as  G x <= h  (or == h), y = dual() values (1-D, len rows)
    bnds  : list of (kind 'U'|'L', idx (ints), values, d): bound block with dual() values d
    -> list of (identity, detail) that fail.
    """
    out = []
    c = np.asarray(c, dtype=float)
    grad = np.zeros(n)
    dobj = 0.0
    mag = 1.0 + float(np.abs(c).max()) if c.size else 1.0
    for bi, (G, h, is_eq, y) in enumerate(rows):
        G = np.asarray(G, dtype=float).reshape(-1, n)
        h = np.asarray(h, dtype=float).reshape(-1)
        y = np.asarray(y, dtype=float).reshape(-1)
        if y.size != G.shape[0]:
            out.append(('shape', 'row block %d: dual has %d entries for %d rows' % (bi, y.size, G.shape[0])))
            return out
        if not np.all(np.isfinite(y)):
            out.append(('nan', 'row block %d: dual %s' % (bi, y.tolist())))
            return out
        grad += G.T @ y
        dobj += float(h @ y)
        mag = max(mag, float(np.abs(y).max()) if y.size else 0.0)
        if not is_eq:
            bad = (sign * y) > tol * mag
            if bad.any():
                out.append(('sign', 'row block %d (<= orientation) dual %s for %s' % (bi, y.tolist(), 'min' if sign > 0 else 'max')))
    for bi, (kind, idx, vals, d) in enumerate(bnds):
        idx = np.asarray(idx, dtype=int).reshape(-1)
        vals = np.asarray(vals, dtype=float).reshape(-1)
        d = np.asarray(d, dtype=float).reshape(-1)
        if d.size != idx.size:
            out.append(('shape', 'bound block %d: dual has %d entries for %d bounds' % (bi, d.size, idx.size)))
            return out
        if not np.all(np.isfinite(d)):
            out.append(('nan', 'bound block %d: dual %s' % (bi, d.tolist())))
            return out
        np.add.at(grad, idx, d)
        dobj += float(vals @ d)
        mag = max(mag, float(np.abs(d).max()) if d.size else 0.0)
        s = sign if kind == 'U' else -sign
        bad = (s * d) > tol * mag
        if bad.any():
            out.append(('sign', '%s-bound block %d dual %s for %s' % (kind, bi, d.tolist(), 'min' if sign > 0 else 'max')))
    if np.abs(grad - c).max() > tol * mag * 10:
        out.append(('stationarity', 'c=%s dual-weighted gradients=%s' % (c.tolist(), np.round(grad, 8).tolist())))
    if abs(dobj - objval) > tol * 10 * (mag + abs(objval)):
        out.append(('dualobj', 'dual-weighted rhs=%.9g optimum=%.9g' % (dobj, objval)))
    return out
