"""C09 family 4: aliasing matrix.  ONE expression object is used in an ordered pair of constructs; the optimum must
equal the optimum of the same model in which every construct received its own freshly built copy."""
import numpy as np
from . import c09c15_common as C

# pure data ------------------------------------------------------------------------------------
# expression kinds and the constructs that can take them, per front end
USES = {
    ('dro', 'ra'): ['RC', 'EC', 'EM', 'MX', 'OBJ', 'ARI', 'GE', 'SHF', 'NEG', 'LB'],       # scalar bi-affine
    ('ro', 'ra'): ['RC', 'MX', 'OBJ', 'ARI', 'GE', 'SHF', 'NEG', 'LB'],
    ('dro', 'rav'): ['RCV', 'ECV', 'SLR', 'SUMR', 'EMS', 'SHF', 'NEG'],              # vector bi-affine
    ('ro', 'rav'): ['RCV', 'SLR', 'SUMR', 'SHF', 'NEG'],
    ('dro', 'afv'): ['LIN', 'CAT', 'RST', 'SL', 'SUM', 'NRM', 'MXA', 'OBJA', 'BIL', 'SHF', 'NEG', 'LB'],   # vector decision-affine
    ('ro', 'afv'): ['LIN', 'CAT', 'RST', 'SL', 'SUM', 'NRM', 'MXA', 'OBJA', 'BIL', 'SHF', 'NEG', 'LB'],
    ('dro', 'afm'): ['LIN', 'SA0', 'SA1', 'SL2', 'TR', 'SHF'],                # 2-D decision-affine
    ('ro', 'afm'): ['LIN', 'SA0', 'SA1', 'SL2', 'TR', 'SHF'],
    ('dro', 'rz'): ['SET', 'SET2', 'COEF', 'SLZ', 'EXS', 'SHZ'],              # vector random-affine
    ('ro', 'rz'): ['SET', 'SET2', 'COEF', 'SLZ', 'DEF', 'SHZ'],
}


def pairs():
    for (fe, kind), uses in sorted(USES.items()):
        for u1 in uses:
            for u2 in uses:
                if {u1, u2} <= {'OBJ', 'OBJA', 'DEF'} and u1 != u2:
                    continue
                if u1 == u2 and u1 in ('OBJ', 'OBJA', 'DEF'):
                    continue        # only one objective / default set per model
                yield fe, kind, u1, u2


ALIAS2 = {'dro': ['EPW', 'PW', 'RC', 'RCL', 'EPWD', 'RCD'], 'ro': ['PW', 'RC', 'RCD']}


def pairs2():
    """ONE constraint object forall'ed twice with different sets, both results stated (kinds ..D: stated once as it
    is, i.e. under the default set, and once with its own set); orders LS (large set first) and SL."""
    for fe in sorted(ALIAS2):
        for kind in ALIAS2[fe]:
            for order in ('LS', 'SL'):
                yield fe, kind, order


# execution ------------------------------------------------------------------------------------
FLOOR_T = -10.0
CV = np.array([1.0, 0.5])


def _expr(env, kind):
    x, z = env['x'], env['z']
    if kind == 'ra':
        return x[0] * z[0] + 0.5 * z[1] + x[1] + 0.75
    if kind == 'rav':
        return np.array([1.0, 2.0]) * x * z + 0.5 * z + x * np.array([1.0, 1.5]) + np.array([0.5, 0.25])
    if kind == 'afv':
        return np.array([2.0, 3.0]) * x + np.array([1.0, 0.5])
    if kind == 'afm':
        return (np.array([[2.0, 3.0], [4.0, 5.0]]) * env['xm'] + np.array([[1.0, 0.5], [0.25, 0.75]]))
    if kind == 'rz':
        return z - np.array([0.25, -0.25])
    raise ValueError(kind)


def _use(env, use, e, k):
    """Apply construct `use` to expression e with epigraph variable t[k]."""
    rso = C.R['rso']
    m, x, z, t, fe = env['m'], env['x'], env['z'], env['t'], env['fe']
    tk = t[k]
    if use == 'RC':
        m.st(e <= tk)
    elif use == 'GE':
        m.st(tk >= e)
    elif use == 'ARI':
        m.st(2 * e + 1 <= tk)
    elif use == 'EC':
        m.st(rso.E(e) <= tk)
    elif use == 'EM':
        m.st(rso.E(rso.maxof(e, 0.25)) <= tk)
    elif use == 'MX':
        m.st(rso.maxof(e, 0.25) <= tk)
    elif use == 'OBJ':
        env['obj_extra'] = e
    elif use == 'RCV':
        m.st(e <= tk)
    elif use == 'ECV':
        m.st(rso.E(e) <= tk)
    elif use == 'SLR':
        m.st(e[0] <= tk)
        m.st(e[1] * 0.5 <= tk)
    elif use == 'SUMR':
        m.st(e.sum() <= tk)
    elif use == 'EMS':
        m.st(rso.E(rso.maxof(e[0], e[1], 0.25)) <= tk)
    elif use == 'LIN':
        m.st(e <= tk)
    elif use == 'NEG':
        m.st(-e <= tk + 6.0)
    elif use == 'LB':
        m.st(e >= -1.0 * tk - 6.0)
    elif use == 'SHF':
        m.st(e + 1.0 <= tk)
        m.st(e + np.ones(e.shape) * 0.5 <= tk)
    elif use == 'SHZ':
        m.st(x[0] * (e + 1.0).sum() + (e + np.array([0.5, 0.25])) @ np.array([1.0, 2.0]) <= tk)
    elif use == 'SA0':
        m.st(e.sum(axis=0) <= tk)
    elif use == 'SA1':
        m.st(e.sum(axis=1) <= tk)
    elif use == 'SL2':
        m.st(e[0, :] + 2 * e[:, 1] <= tk)
    elif use == 'TR':
        m.st(e.T[0] <= tk)
        m.st(e.T.sum(axis=1) <= 2 * tk)
    elif use == 'CAT':
        m.st(rso.concat((e, 0.5 * e)) <= tk)
    elif use == 'RST':
        m.st(rso.rstack(e, 0.5 * e + 1) <= tk)
    elif use == 'SL':
        m.st(e[0] + e[1:].sum() <= tk)
    elif use == 'SUM':
        m.st(e.sum() <= tk)
    elif use == 'NRM':
        m.st(rso.norm(e) <= tk)
    elif use == 'MXA':
        m.st(rso.maxof(e[0], e[1], 0.25) <= tk)
    elif use == 'OBJA':
        env['obj_extra'] = e.sum()
    elif use == 'BIL':
        m.st(e @ z <= tk) if fe == 'ro' else m.st((e * z).sum() <= tk)
    elif use == 'SET':
        if fe == 'ro':
            m.st((tk >= z @ CV + x[0]).forall(rso.norm(e, 'inf') <= 0.5))
        else:
            m.st((tk >= z @ CV + x[0]).forall([rso.norm(e, 'inf') <= 0.5]))
    elif use == 'SET2':
        if fe == 'ro':
            m.st((tk >= z @ CV + x[1]).forall(rso.norm(e, 2) <= 0.75, e.sum() <= 0.5))
        else:
            m.st((tk >= z @ CV + x[1]).forall([rso.norm(e, 2) <= 0.75, e.sum() <= 0.5]))
    elif use == 'COEF':
        m.st(x @ e + 1 <= tk) if fe == 'ro' else m.st((x * e).sum() + 1 <= tk)
    elif use == 'SLZ':
        m.st(x[0] * e[0] + e.sum() <= tk)
    elif use == 'DEF':
        env['def_set'] = [rso.norm(e, 1) <= 1.0]
    elif use == 'EXS':
        env['supp_extra'] = [rso.norm(e, 1) <= 1.0]
    else:
        raise ValueError(use)


def build(fe, kind, u1, u2, shared):
    R = C.R
    rso = R['rso']
    env = {'fe': fe}
    if fe == 'ro':
        m = R['ro'].Model()
    else:
        m = R['dro'].Model(2)
    env['m'] = m
    x = env['x'] = m.dvar(2)
    t = env['t'] = m.dvar(2)
    xm = env['xm'] = m.dvar((2, 2))
    z = env['z'] = m.rvar(2)
    if fe == 'dro':
        f = env['f'] = m.ambiguity()
    e1 = _expr(env, kind)
    e2 = e1 if shared else _expr(env, kind)
    m.st(x >= 1, x <= 2, xm >= 1, xm <= 2, t >= FLOOR_T)
    _use(env, u1, e1, 0)
    _use(env, u2, e2, 1)
    extra = env.get('obj_extra')
    if fe == 'ro':
        dset = env.get('def_set') or [rso.norm(z, 'inf') <= 1, z[0] - z[1] <= 1.5]
        obj = t.sum() + 0.25 * z[0]
        if extra is not None:
            obj = obj + extra
        m.minmax(obj, dset)
    else:
        f[0].suppset([z <= 1, z >= -1] + (env.get('supp_extra') or []))
        f[1].suppset([rso.norm(z, 2) <= 0.75] + (env.get('supp_extra') or []))
        f.exptset(rso.E(z) <= 0.125, rso.E(z) >= -0.125)
        obj = t.sum() + 0.25 * z[0]
        if extra is not None:
            obj = obj + extra
        m.minsup(rso.E(obj), f)
    return env


def _run(fe, kind, u1, u2, shared):
    try:
        env = build(fe, kind, u1, u2, shared)
        st = C.solve_model(env['m'], 'eco')
        tv = None
        if st[0] == 'opt':
            tv = env['t'].get()
            if hasattr(tv, 'values') and not isinstance(tv, np.ndarray):
                tv = np.max(np.stack([np.asarray(v, dtype=float) for v in tv.values]), axis=0)
            tv = np.asarray(tv, dtype=float).ravel()
        return st, tv
    except Exception as ex:  # noqa
        return ('raise', C.exc_class(ex)), None


def run(case):
    fe, kind, u1, u2 = case['fe'], case['kind'], case['u1'], case['u2']
    a, ta = _run(fe, kind, u1, u2, True)
    b, tb = _run(fe, kind, u1, u2, False)
    res = {'ops': 30, 'states': 2, 'transitions': 30}
    tag = 'alias|%s|%s|%s->%s' % (fe, kind, u1, u2)
    detail = 'one object: %s ; fresh copies: %s' % (C.fmt(a), C.fmt(b))
    if a[0] == 'raise' or b[0] == 'raise':
        if a[0] == 'raise' and b[0] == 'raise':
            res.update(status='unsupported', outcome='both_raise:' + a[1].split('(')[0], detail=detail)
            return res
        side = 'shared' if a[0] == 'raise' else 'fresh'
        who = a if a[0] == 'raise' else b
        res.update(status='violation', sig='%s|%s_raises:%s' % (tag, side, who[1]), detail=detail)
        return res
    c = C.compare_status(a, b, C.TOL_CONE)
    if c == 'vacuous':
        res.update(status='vacuous', outcome='solver:%s/%s' % (a[0], b[0]), detail=detail)
        return res
    if c == 'differ':
        res.update(status='violation', sig=tag + '|value', detail=detail)
        return res
    bind = True
    for k, u in enumerate((u1, u2)):
        if u in ('OBJ', 'OBJA', 'DEF', 'EXS'):
            continue
        if tb is None or not tb[k] > FLOOR_T + 1e-3:
            bind = False
    res.update(status='pass', outcome='equal', nontrivial=bool(bind and a[0] == 'opt'), validated=1)
    return res


# ---- one constraint OBJECT, two forall calls ------------------------------------------------------
def _run2(fe, kind, order, shared):
    R = C.R
    rso = R['rso']
    try:
        dflt = kind.endswith('D')
        k = kind[:-1] if dflt else kind
        if fe == 'dro':
            m = R['dro'].Model(2)
            t = m.dvar()
            y = m.dvar()
            z = m.rvar(2)
            y.adapt(z)
            big = m.ambiguity()
            big[0].suppset(z <= 2, z >= -2)
            big[1].suppset(rso.norm(z, 2) <= 1.5)
            small = m.ambiguity()
            small.suppset(z <= 0.5, z >= -0.5)
            # the DEFAULT set (objective) is the large one for ..D kinds stated first as they are
            m.minsup(t + 0.25 * y, big)
            m.st((y >= z @ CV).forall(big))
            sets = [big, small]
        else:
            m = R['ro'].Model()
            t = m.dvar()
            y = m.ldr()
            z = m.rvar(2)
            y.adapt(z)
            m.minmax(t + 0.25 * y, z <= 2, z >= -2)
            m.st((y >= z @ CV).forall(z <= 2, z >= -2))
            sets = [lambda: [z <= 2, z >= -2], lambda: [z <= 0.5, z >= -0.5]]

        def mk():
            if k == 'EPW':
                return rso.E(rso.maxof(z @ CV + 1, -2 * (z @ CV))) <= t
            if k == 'PW':
                return rso.maxof(z @ CV + 1, -2 * (z @ CV)) <= t
            if k == 'RC':
                return z @ CV + 1 <= t
            if k == 'RCL':
                return y + 1 <= t
            raise ValueError(k)

        def attach(con, which):
            s_ = sets[which]
            return con.forall(s_) if fe == 'dro' else con.forall(s_())
        first, second = (0, 1) if order == 'LS' else (1, 0)
        c1 = mk()
        c2 = c1 if shared else mk()
        if dflt:            # stated once as it is (default = large set) and once with the small own set
            if order == 'LS':
                m.st(c1)
                m.st(attach(c2, 1))
            else:
                m.st(attach(c1, 1))
                m.st(c2 if not shared else c1)
        else:
            m.st(attach(c1, first))
            m.st(attach(c2, second))
        return C.solve_model(m, 'eco')
    except Exception as ex:  # noqa
        return ('raise', C.exc_class(ex))


def run2(case):
    fe, kind, order = case['fe'], case['kind'], case['order']
    a = _run2(fe, kind, order, True)
    b = _run2(fe, kind, order, False)
    res = {'ops': 24, 'states': 2, 'transitions': 24}
    tag = 'alias2|%s|%s|%s' % (fe, kind, order)
    detail = 'one constraint object, two forall: %s ; two separately created constraints: %s' % (C.fmt(a), C.fmt(b))
    if a[0] == 'raise' or b[0] == 'raise':
        if a[0] == 'raise' and b[0] == 'raise':
            res.update(status='unsupported', outcome='both_raise:' + a[1].split('(')[0], detail=detail)
            return res
        side = 'shared' if a[0] == 'raise' else 'fresh'
        who = a if a[0] == 'raise' else b
        res.update(status='violation', sig='%s|%s_raises:%s' % (tag, side, who[1]), detail=detail)
        return res
    c = C.compare_status(a, b, C.TOL_CONE)
    if c == 'vacuous':
        res.update(status='vacuous', outcome='solver:%s/%s' % (a[0], b[0]), detail=detail)
        return res
    if c == 'differ':
        res.update(status='violation', sig=tag + '|value', detail=detail)
        return res
    res.update(status='pass', outcome='equal', nontrivial=bool(a[0] == 'opt'), validated=1)
    return res
