"""C09 family 1: set-leak matrix.

A case is a list of *events* (set definitions, real or decoy, and the constraints / objective that use them)
executed in the given order on one ro or dro model.  Every event carries a group id; the declared model is
separable over groups (objective = sum of one epigraph variable per use, each constrained only through its own
set), so the independent reference is

    optimum(history)  ==  sum over groups g of  optimum(fresh model holding only the events of g)

with every fresh model built in canonical order.  Decoy events (a forall on a constraint that is never added,
an ambiguity set that is defined but never used) have group None and appear in no reference model.
"""
import numpy as np
from . import c09c15_common as C

CS = [np.array([1.0, 0.5]), np.array([-0.5, 1.0]), np.array([1.0, -1.0]), np.array([0.5, 1.0])]
C0 = np.array([0.5, -1.0])
OFF = 4.0
NT = 4           # epigraph variables


# ------------------------------------------------------------------------------------------------ ro
def _ro_run(events, how='eco'):
    """Execute ro events.  Returns (status tuple in min-form, nops)."""
    R = C.R
    rso, ro = R['rso'], R['ro']
    m = ro.Model()
    t = m.dvar(NT)
    z = m.rvar(2)
    m.st(t >= 0)
    nops = 4
    sign = 1
    has_obj = False
    y = None
    if any(ev['op'] == 'pw' for ev in events):
        y = m.ldr(NT)
        y.adapt(z)
        nops += 2
    for ev in events:
        op = ev['op']
        if op == 'pw':              # piecewise constraint with its own set (forall on the PWConstr)
            i = ev['i']
            sets = C.mkset(z, *ev['set'])
            if 'set2' in ev:
                sets = sets + C.mkset(z, *ev['set2'])
            m.st((y[i] >= z @ CS[i]).forall(sets))
            sets = C.mkset(z, *ev['set'])
            if 'set2' in ev:
                sets = sets + C.mkset(z, *ev['set2'])
            m.st((rso.maxof(0.5 * (z @ CS[(i + 1) % NT]) + OFF, y[i] + OFF, 0.5) <= t[i]).forall(sets))
            nops += 4
        elif op == 'forall':          # constraint with its own set; add=False -> decoy
            i = ev['i']
            con = (t[i] >= z @ CS[i] + OFF).forall(C.mkset(z, *ev['set']))
            nops += 2
            if ev.get('add', True):
                m.st(con)
                nops += 1
        elif op == 'forall2':       # set given as two forall arguments of different kinds (intersection)
            i = ev['i']
            con = (t[i] >= z @ CS[i] + OFF).forall(C.mkset(z, *ev['set']), C.mkset(z, *ev['set2']))
            m.st(con)
            nops += 3
        elif op == 'defobj':
            expr = t.sum() + z @ C0
            sets = C.mkset(z, *ev['set'])
            if 'set2' in ev:
                sets = sets + C.mkset(z, *ev['set2'])
            if ev['mode'] == 'minmax':
                m.minmax(expr, sets)
            else:
                m.maxmin(-expr, sets)
                sign = -1
            has_obj = True
            nops += 2
        elif op == 'defuse':        # constraint under the default set
            i = ev['i']
            m.st(t[i] >= z @ CS[i] + OFF)
            nops += 1
        elif op == 'rvar':          # noise: an unused random variable declared in between
            m.rvar(ev.get('n', 1))
            nops += 1
        else:
            raise ValueError(op)
    if not has_obj:
        m.min(t.sum())
        nops += 1
    st = C.solve_model(m, how)
    nops += 1
    if st[0] == 'opt':
        st = ('opt', sign * st[1])
    return st, nops


# ------------------------------------------------------------------------------------------------ dro
def _pw(z, c):
    rso = C.R['rso']
    return rso.maxof(z @ c + 1.0, -2.0 * (z @ c))


def _dro_run(events, how='eco'):
    R = C.R
    rso, dro = R['rso'], R['dro']
    m = dro.Model(2)
    t = m.dvar(NT)
    z = m.rvar(2)
    fs = {1: m.ambiguity(), 2: m.ambiguity()}
    yv = None
    if any(ev['op'] == 'pw' for ev in events):
        yv = m.dvar(NT)
        yv.adapt(z)
    m.st(t >= 0)
    nops = 6
    sign = 1
    has_obj = False
    for ev in events:
        op = ev['op']
        if op == 'pw':              # piecewise constraint, own ambiguity set; the middle piece has no explicit random
            i = ev['i']             # variable but contains an affinely adaptive decision
            f = fs[ev['F']]
            m.st((yv[i] >= z @ CS[i]).forall(f))
            m.st((rso.maxof(0.5 * (z @ CS[(i + 1) % NT]) + OFF, yv[i] + OFF, 0.5) <= t[i]).forall(f))
            nops += 4
        elif op == 'supp':
            f = fs[ev['F']]
            tgt = f if ev['scen'] == 'all' else f[ev['scen']]
            cons = C.mkset(z, *ev['set'])
            if 'set2' in ev:
                cons = cons + C.mkset(z, *ev['set2'])
            tgt.suppset(cons)
            nops += 1
        elif op == 'expt':
            f = fs[ev['F']]
            tgt = f if ev['scen'] == 'all' else f[ev['scen']]
            tgt.exptset(C.mkset(rso.E(z), *ev['set']))
            nops += 1
        elif op == 'prob':
            cons = C.mkpset(m.p, ev['set'])
            if 'set2' in ev:
                cons = cons + C.mkpset(m.p, ev['set2'])
            fs[ev['F']].probset(*cons)
            nops += 1
        elif op == 'rc':
            i = ev['i']
            con = (t[i] >= z @ CS[i] + OFF)
            if ev['F'] == 'list':
                cons = C.mkset(z, *ev['set'])
                if 'set2' in ev:
                    cons = cons + C.mkset(z, *ev['set2'])
                con = con.forall(cons)
            elif ev['F'] in (1, 2):
                con = con.forall(fs[ev['F']])
            nops += 2
            if ev.get('add', True):
                m.st(con)
                nops += 1
        elif op == 'ec':
            i = ev['i']
            con = (rso.E(_pw(z, CS[i])) + OFF <= t[i])
            if ev['F'] in (1, 2):
                con = con.forall(fs[ev['F']])
            nops += 2
            if ev.get('add', True):
                m.st(con)
                nops += 1
        elif op == 'el':            # affine expectation constraint  E(z@c) + OFF <= t_i
            i = ev['i']
            con = (rso.E(t[i] - z @ CS[i]) >= OFF)
            if ev['F'] in (1, 2):
                con = con.forall(fs[ev['F']])
            m.st(con)
            nops += 3
        elif op == 'defobj':
            expr = rso.E(_pw(z, C0)) + t.sum()
            if ev['mode'] == 'minsup':
                m.minsup(expr, fs[ev['F']])
            else:
                m.maxinf(-expr, fs[ev['F']])
                sign = -1
            has_obj = True
            nops += 2
        else:
            raise ValueError(op)
    if not has_obj:
        m.min(t.sum())
        nops += 1
    st = C.solve_model(m, how)
    nops += 1
    if st[0] == 'opt':
        st = ('opt', sign * st[1])
    return st, nops


_RUN = {'ro': _ro_run, 'dro': _dro_run}
_REF_MEMO = {}


def _safe(fe, events, how=None):
    try:
        return _RUN[fe](events, how) if how else _RUN[fe](events)
    except Exception as ex:  # noqa
        return ('raise', C.exc_class(ex)), len(events)


def _ref(fe, events, how=None):
    import json
    key = fe + str(how) + json.dumps(events, sort_keys=True)
    if key not in _REF_MEMO:
        if len(_REF_MEMO) > 5000:
            _REF_MEMO.clear()
        _REF_MEMO[key] = _safe(fe, events, how)
    return _REF_MEMO[key]


def _canon_key(ev):
    order = {'supp': 0, 'expt': 1, 'prob': 2, 'defobj': 3, 'forall': 4, 'forall2': 4, 'defuse': 5, 'rc': 5,
             'ec': 6, 'el': 6, 'pw': 7}
    # whole-level definitions first: an event-level definition refines, a later whole-level one would override
    return (order.get(ev['op'], 9), 0 if ev.get('scen') in (None, 'all') else 1, str(ev.get('scen')), ev.get('i', -1))


def _merge(evs_b, evs_a):
    """Events of group b with the set constraints of group a intersected into b's sets (used only to measure
    whether a leak a->b would be visible).  Returns None when no merged model can be written."""
    a_sets = [e for e in evs_a if e['op'] in ('forall', 'defobj') and 'set' in e]
    a_supp = [e for e in evs_a if e['op'] == 'supp']
    a_expt = [e for e in evs_a if e['op'] == 'expt']
    a_prob = [e for e in evs_a if e['op'] == 'prob']
    a_list = [e for e in evs_a if e['op'] == 'rc' and e['F'] == 'list']
    out = []
    if a_sets:
        s2 = a_sets[0]['set']
        for e in evs_b:
            e = dict(e)
            if e['op'] == 'forall':
                e['op'] = 'forall2'
                e['set2'] = s2
            elif e['op'] == 'pw' and 'set' in e:
                e['set2'] = s2
            elif e['op'] == 'defobj' and 'set' in e:
                e['set2'] = s2
            out.append(e)
        return out
    if a_supp or a_expt or a_prob or a_list:
        fb = [e['F'] for e in evs_b if e.get('F') in (1, 2)]
        fb = fb[0] if fb else None
        has_prob = False
        for e in evs_b:
            e = dict(e)
            if e['op'] == 'supp' and (a_supp or a_list):
                if a_supp:
                    cand = [x for x in a_supp if x['scen'] == e['scen']] or \
                           [x for x in a_supp if x['scen'] == 'all'] or a_supp
                    e['set2'] = cand[0]['set']
                else:
                    e['set2'] = a_list[0]['set']
            elif e['op'] == 'rc' and e['F'] == 'list' and (a_supp or a_list):
                e['set2'] = (a_supp or a_list)[0]['set']
            elif e['op'] == 'prob' and a_prob:
                e['set2'] = a_prob[0]['set']
                has_prob = True
            out.append(e)
        if fb is not None:
            for x in a_expt:
                x = dict(x)
                x['F'] = fb
                out.append(x)
            if a_prob and not has_prob:
                x = dict(a_prob[0])
                x['F'] = fb
                out.append(x)
        return sorted(out, key=_canon_key)
    return None


def run(case):
    fe = case['fe']
    events = case['ev']
    tag = case['tag']
    tol = C.TOL_CONE
    how = case.get('how')
    hist, nops = _safe(fe, events, how)
    groups = {}
    for ev in events:
        g = ev.get('grp')
        if g is None:
            continue
        groups.setdefault(g, []).append(ev)
    total = 0.0
    ref_status = 'opt'
    refs = {}
    trans = nops
    for g in sorted(groups, key=str):
        evs = sorted(groups[g], key=_canon_key)
        if not any(e['op'] in ('forall', 'forall2', 'defuse', 'rc', 'ec', 'el', 'defobj', 'pw') and e.get('add', True)
                   for e in evs):
            continue
        st, n = _ref(fe, evs, how)
        trans += n
        refs[g] = st
        if st[0] == 'opt':
            total += st[1]
        elif ref_status == 'opt':
            ref_status = st[0]
    exp = ('opt', total) if ref_status == 'opt' else (ref_status, None)
    if ref_status == 'raise':
        exp = [s for s in refs.values() if s[0] == 'raise'][0]
    res = {'ops': nops, 'states': 1 + len(refs), 'transitions': trans}
    detail = 'history=%s expected(sum of only-that-set models)=%s parts=%s' % (
        C.fmt(hist), C.fmt(exp), {str(k): C.fmt(v) for k, v in refs.items()})
    if hist[0] == 'raise' or exp[0] == 'raise':
        if hist[0] == 'raise' and exp[0] == 'raise':
            res.update(status='unsupported', outcome='both_raise:' + hist[1].split('(')[0])
            return res
        side = 'history' if hist[0] == 'raise' else 'fresh'
        who = hist if hist[0] == 'raise' else exp
        res.update(status='violation', sig='leak|%s|%s|%s_raises:%s' % (fe, tag, side, who[1]),
                   detail=detail)
        return res
    cmp_ = C.compare_status(hist, exp, tol)
    if cmp_ == 'vacuous':
        res.update(status='vacuous', outcome='solver:%s/%s' % (hist[0], exp[0]), detail=detail)
        return res
    if cmp_ == 'differ':
        direction = 'status'
        if hist[0] == 'opt' and exp[0] == 'opt':
            direction = 'higher' if hist[1] > exp[1] else 'lower'
        res.update(status='violation', sig='leak|%s|%s|%s' % (fe, tag, direction), detail=detail)
        return res
    # ---- non-triviality: would a leak between two groups have been visible?
    nontrivial = False
    probe = case.get('probe')
    if probe:
        for (src, dst) in probe:
            src_evs = [e for e in events if e.get('pgrp', e.get('grp')) == src]
            dst_evs = sorted(groups.get(dst, []), key=_canon_key)
            merged = _merge(dst_evs, src_evs)
            if merged is None or dst not in refs:
                continue
            st, n = _ref(fe, merged)
            res['transitions'] += n
            if st[0] != 'opt' or refs[dst][0] != 'opt' or not C.close(st[1], refs[dst][1], 1e-3):
                nontrivial = True
                break
    res.update(status='pass', outcome='equal', nontrivial=nontrivial, validated=1)
    return res
