"""Reference model of robust optimisation specs (R-ro): worst cases and the semi-infinite optimum.

Pure NumPy/SciPy (linprog/HiGHS); never imports rsome.  A spec is described in rsmc/props/c01.py.
Decision vector layout of the reference LP: [x (nx) | y0 (ny) | Y (ny*d, row-major, masked) | t].
"""
import numpy as np
from scipy.optimize import linprog

from . import sets as S


def set_points(spec, name):
    st = spec['sets'][name]
    return S.points(st['pieces'], spec['d'], st['centre'])


def layout(spec):
    nx, ny, d = spec['nx'], spec.get('ny', 0), spec['d']
    return nx, ny, d, nx + ny + ny * d + 1


def row_coeffs(spec, row, V):
    """For points V (n x d): matrix C (n x nvar) and vector c (n) with g(v) = C @ vars + c (t column zero)."""
    nx, ny, d, nvar = layout(spec)
    n = len(V)
    C = np.zeros((n, nvar))
    ax = np.array(row.get('ax', [0.0] * nx), float)
    Az = np.array(row.get('Az', np.zeros((d, nx))), float).reshape(d, nx)
    C[:, :nx] = ax + V @ Az
    if ny:
        by = np.array(row.get('by', [0.0] * ny), float)
        C[:, nx:nx + ny] = by
        mask = np.array(spec['mask'], float).reshape(ny, d)
        for j in range(ny):
            for i in range(d):
                if mask[j, i]:
                    C[:, nx + ny + j * d + i] = by[j] * V[:, i]
    c = V @ np.array(row.get('cz', [0.0] * d), float) + row.get('c0', 0.0)
    return C, c


def row_set(spec, row):
    return row.get('set') or spec.get('default')


def depends_on_z(spec, row):
    ny = spec.get('ny', 0)
    if np.any(np.array(row.get('Az', 0.0))) or np.any(np.array(row.get('cz', 0.0))):
        return True
    if ny and np.any(np.array(row.get('by', [0.0] * ny), float)[:, None] * np.array(spec['mask'], float).reshape(ny, -1)):
        return True
    return False


def row_points(spec, row):
    name = row_set(spec, row)
    if name is None or not depends_on_z(spec, row):
        return np.zeros((1, spec['d'])), 0.0
    return set_points(spec, name)


def eval_rows(spec, sol):
    """Worst case of every constraint row and objective piece at solution sol = dict(x, y0, Y)."""
    nx, ny, d, nvar = layout(spec)
    vec = np.zeros(nvar)
    vec[:nx] = sol['x']
    if ny:
        vec[nx:nx + ny] = sol['y0']
        vec[nx + ny:nx + ny + ny * d] = np.nan_to_num(np.array(sol['Y'], float).reshape(ny * d))
    out = []
    for row in spec['rows']:
        V, eps = row_points(spec, row)
        C, c = row_coeffs(spec, row, V)
        g = C @ vec + c
        out.append({'max': float(g.max()), 'min': float(g.min()), 'sense': row['sense'], 'eps': eps,
                    'argmax': V[int(np.argmax(g))].tolist(), 'robust': depends_on_z(spec, row)})
    obj = []
    for piece in spec['obj']['pieces']:
        V, eps = row_points(spec, dict(piece, set=None))
        C, c = row_coeffs(spec, piece, V)
        g = C @ vec + c
        obj.append({'max': float(g.max()), 'min': float(g.min()), 'eps': eps})
    return out, obj


def solve(spec, max_iter=200):
    """Optimal value of the semi-infinite problem by scenario LP over the reference point lists.

    Returns dict(status, value, eps, sol).  Equality rows are imposed as identities on the affine hull of the
    set.  Large point lists are handled by cutting planes with the exact argmax over the list."""
    nx, ny, d, nvar = layout(spec)
    sgn = 1.0 if spec['obj']['kind'] in ('min', 'minmax') else -1.0
    cost = np.zeros(nvar)
    cost[-1] = 1.0
    bounds = [(lo, hi) for lo, hi in zip(spec['xlo'], spec['xhi'])]
    bounds += [(None, None)] * ny
    if ny:
        mask = np.array(spec['mask'], float).reshape(ny * d)
        bounds += [(None, None) if m else (0.0, 0.0) for m in mask]
    bounds += [(None, None)]
    fam = []          # inequality families: (C, c) with C@vars + c <= 0 for every point
    Aeq, beq = [], []
    eps_tot = 0.0
    for row in spec['rows']:
        V, eps = row_points(spec, row)
        eps_tot = max(eps_tot, eps)
        if row['sense'] == '==':
            name = row_set(spec, row)
            if name is None or not depends_on_z(spec, row):
                C, c = row_coeffs(spec, row, np.zeros((1, d)))
                Aeq.append(C[0]); beq.append(-c[0])
            else:
                st = spec['sets'][name]
                N = S.hull_basis(st['pieces'], d, st['centre'])
                cen = np.array(st['centre'], float)
                P = np.vstack([cen] + [cen + N[:, j] for j in range(N.shape[1])])
                C, c = row_coeffs(spec, row, P)
                for r in range(len(P)):
                    Aeq.append(C[r]); beq.append(-c[r])
            continue
        C, c = row_coeffs(spec, row, V)
        if row['sense'] == '>=':
            C, c = -C, -c
        fam.append((C, c))
    for piece in spec['obj']['pieces']:
        V, eps = row_points(spec, dict(piece, set=None))
        eps_tot = max(eps_tot, eps)
        C, c = row_coeffs(spec, piece, V)
        C, c = sgn * C, sgn * c
        C[:, -1] = -1.0
        fam.append((C, c))
    active = []
    for C, c in fam:
        n = len(c)
        idx = list(range(n)) if n <= 64 else list(range(0, n, max(1, n // 16)))
        active.append(set(idx))
    for it in range(max_iter):
        A = np.vstack([C[sorted(a)] for (C, c), a in zip(fam, active)])
        b = np.concatenate([-c[sorted(a)] for (C, c), a in zip(fam, active)])
        res = linprog(cost, A_ub=A, b_ub=b, A_eq=np.array(Aeq) if Aeq else None,
                      b_eq=np.array(beq) if Aeq else None, bounds=bounds, method='highs')
        if res.status == 2:
            return {'status': 'infeasible', 'eps': eps_tot}
        if res.status == 3:
            # unbounded relaxation: add more points if any are left, else report
            grew = False
            for (C, c), a in zip(fam, active):
                if len(a) < len(c):
                    a.update(range(len(c)))
                    grew = True
            if grew:
                continue
            return {'status': 'unbounded', 'eps': eps_tot}
        if res.status != 0:
            return {'status': 'error%d' % res.status, 'eps': eps_tot}
        x = res.x
        added = False
        for (C, c), a in zip(fam, active):
            if len(a) == len(c):
                continue
            g = C @ x + c
            j = int(np.argmax(g))
            if g[j] > 1e-9 and j not in a:
                a.add(j)
                added = True
        if not added:
            sol = {'x': x[:nx].tolist(), 'y0': x[nx:nx + ny].tolist(),
                   'Y': x[nx + ny:nx + ny + ny * d].reshape(ny, d).tolist() if ny else []}
            return {'status': 'optimal', 'value': float(sgn * x[-1]), 'eps': eps_tot, 'sol': sol, 'iters': it + 1}
    return {'status': 'maxiter', 'eps': eps_tot}
