"""R-curv / R-atoms for C10 (no rsome import): atoms with closed forms, the chain alphabet, the reference
curvature calculus and the legality table of the final uses.

An expression reached by a chain is   G(x, y) = k * F(x) + cy * y + c0   where F is the atom's function,
k the tracked (signed) multiplier and cy*y + c0 the tracked affine offset.  Its curvature is
sign(k) * curv(F)  (0 for a zero multiple).  The right-hand side of a comparison is  A(w) = aw * w + a0.
"""
import math

import numpy as np

# ------------------------------------------------------------------------------------------ atoms
QMAT = np.array([[2.0, 0.5], [0.5, 1.0]])

# domain 'all': any x;  'pos': x0 > 0 and x1 > 0 (and the inner affine argument > 0)
X_ALL = [(0.5, 1.0), (1.0, 0.25), (-0.75, 0.5), (1.5, -1.0), (0.25, 0.25), (-1.0, -0.5)]
X_POS = [(0.5, 1.0), (1.0, 0.25), (0.25, 0.25), (1.5, 0.75), (2.0, 1.5), (0.75, 2.0)]


def _s(x):          # the scalar inner affine argument used by element-wise atoms:  s = x0 + 0.5*x1
    return x[0] + 0.5 * x[1]


def scale_value(x):
    """value the variable scale of the perspective atoms pexpv/plogv is pinned to at grid point x (dyadic, > 0)"""
    return 0.75 + 0.5 * abs(x[0])


def _pexpv(x):
    sv = scale_value(x)
    return sv * math.exp(_s(x) / sv)


def _plogv(x):
    sv = scale_value(x)
    return sv * math.log(_s(x) / sv)


def _ent(x):
    return -sum(v * math.log(v) for v in x)


ATOMS = {
    # name: (curvature, family, closed form F(x), domain, LP-representable, solvable with ECOS, front ends)
    'abs':      (+1, 'Convex', lambda x: abs(_s(x)), 'all', True, True, 'rd'),
    'norm1':    (+1, 'Convex', lambda x: abs(x[0]) + abs(x[1]), 'all', True, True, 'rd'),
    'norminf':  (+1, 'Convex', lambda x: max(abs(x[0]), abs(x[1])), 'all', True, True, 'rd'),
    'norm2':    (+1, 'Convex', lambda x: math.hypot(x[0], x[1]), 'all', False, True, 'rd'),
    'pnorm3':   (+1, 'Convex', lambda x: (abs(x[0]) ** 3 + abs(x[1]) ** 3) ** (1 / 3), 'all', False, True, 'rd'),
    'pnorm2.5': (+1, 'Convex', lambda x: (abs(x[0]) ** 2.5 + abs(x[1]) ** 2.5) ** 0.4, 'all', False, True, 'rd'),
    'square':   (+1, 'Convex', lambda x: _s(x) ** 2, 'all', False, True, 'rd'),
    'sumsqr':   (+1, 'Convex', lambda x: x[0] ** 2 + x[1] ** 2, 'all', False, True, 'rd'),
    'quadp':    (+1, 'Convex', lambda x: float(np.array(x) @ QMAT @ np.array(x)), 'all', False, True, 'rd'),
    'quadn':    (-1, 'Convex', lambda x: -float(np.array(x) @ QMAT @ np.array(x)), 'all', False, True, 'rd'),
    'power3':   (+1, 'Convex', lambda x: abs(_s(x)) ** 3, 'all', False, True, 'rd'),
    'power32':  (+1, 'Convex', lambda x: abs(_s(x)) ** 1.5, 'all', False, True, 'rd'),
    'gmean':    (-1, 'Convex', lambda x: math.sqrt(x[0] * x[1]), 'pos', False, True, 'rd'),
    'exp':      (+1, 'Convex', lambda x: math.exp(_s(x)), 'all', False, True, 'rd'),
    'log':      (-1, 'Convex', lambda x: math.log(_s(x)), 'pos', False, True, 'rd'),
    'softplus': (+1, 'Convex', lambda x: math.log1p(math.exp(_s(x))), 'all', False, True, 'rd'),
    'entropy':  (-1, 'Convex', _ent, 'pos', False, True, 'rd'),
    'logdet':   (-1, 'Convex', None, 'pos', False, False, 'rd'),      # acceptance only (no SDP solver installed)
    'rootdet':  (-1, 'Convex', None, 'pos', False, False, 'rd'),
    'pexp':     (+1, 'Persp', lambda x: x[1] * math.exp(x[0] / x[1]), 'pos', False, True, 'rd'),     # scale = x1
    'pexpc':    (+1, 'Persp', lambda x: 2.0 * math.exp(_s(x) / 2.0), 'all', False, True, 'rd'),      # scale = 2.0
    'plog':     (-1, 'Persp', lambda x: x[1] * math.log(x[0] / x[1]), 'pos', False, True, 'rd'),
    'plogc':    (-1, 'Persp', lambda x: 2.0 * math.log(_s(x) / 2.0), 'pos', False, True, 'rd'),
    # scale = a separate scalar decision variable (pinned to scale_value(x)); the `e` variants use an event-wise
    # (2-scenario) decision as the argument
    'pexpv':    (+1, 'Persp', _pexpv, 'all', False, True, 'rd'),
    'plogv':    (-1, 'Persp', _plogv, 'pos', False, True, 'rd'),
    'pexpve':   (+1, 'Persp', _pexpv, 'all', False, True, 'd'),
    'plogve':   (-1, 'Persp', _plogv, 'pos', False, True, 'd'),
    'maxof':    (+1, 'Piecewise', lambda x: max(x[0], 2 * x[1] - 1, 0.25 - 0.5 * x[0]), 'all', True, True, 'rd'),
    'minof':    (-1, 'Piecewise', lambda x: min(x[0], 2 * x[1] - 1, 0.25 - 0.5 * x[0]), 'all', True, True, 'rd'),
    # worst-case expectations over all distributions on the support z in [-1, 1]:
    #   sup_P E max(x0 + z, x1) = max(x0 + 1, x1);   inf_P E min(x0 + z, x1) = min(x0 - 1, x1)
    'Emaxof':   (+1, 'ExpPiecewise', lambda x: max(x[0] + 1.0, x[1]), 'all', True, True, 'd'),
    'Eminof':   (-1, 'ExpPiecewise', lambda x: min(x[0] - 1.0, x[1]), 'all', True, True, 'd'),
    # same functions without a random piece (the expectation of a deterministic piecewise function)
    'Emaxofd':  (+1, 'ExpPiecewise', lambda x: max(x[0], 2 * x[1] - 1, 0.25 - 0.5 * x[0]), 'all', True, True, 'd'),
    'Eminofd':  (-1, 'ExpPiecewise', lambda x: min(x[0], 2 * x[1] - 1, 0.25 - 0.5 * x[0]), 'all', True, True, 'd'),
}
# the same worst-case expectations with (part of) the chain applied INSIDE the expectation: the operations act on
# the piecewise expression, then E(.) is taken.  '@in': whole chain inside;  '@1': first symbol inside, rest outside
for _a in ('Emaxof', 'Eminof'):
    for _m in ('in', '1'):
        ATOMS['%s@%s' % (_a, _m)] = ATOMS[_a]
INSIDE_ATOMS = ['Emaxof@in', 'Eminof@in', 'Emaxof@1', 'Eminof@1']
ATOM_NAMES = [a for a in ATOMS if '@' not in a]
def atoms_of(fe):
    c = 'r' if fe == 'ro' else 'd'
    return [a for a in ATOM_NAMES if c in ATOMS[a][6]]


def atom_grid(atom):
    return X_POS if ATOMS[atom][3] == 'pos' else X_ALL


# ------------------------------------------------------------------------------------------ chain alphabet
# symbol: (kind, constant).  kind in: neg, lmul (k*f), rmul (f*k), add (f+c), radd (c+f), sub (f-c), rsub (c-f),
#         addy (f+y), raddy (y+f), suby (f-y), rsuby (y-f);  'np' variants use numpy scalar constants.
SYMBOLS = {
    'neg': ('neg', None),
    '2*f': ('lmul', 2.0), 'f*2': ('rmul', 2.0), 'f*-2': ('rmul', -2.0), '-2*f': ('lmul', -2.0),
    '.5*f': ('lmul', 0.5), 'f*.5': ('rmul', 0.5), '0*f': ('lmul', 0.0), 'f*0': ('rmul', 0.0),
    'f+1': ('add', 1.0), '1+f': ('radd', 1.0), 'f-1': ('sub', 1.0), '1-f': ('rsub', 1.0),
    'f+y': ('addy', None), 'y+f': ('raddy', None), 'f-y': ('suby', None), 'y-f': ('rsuby', None),
    'np2*f': ('lmulnp', 2.0), 'f*np-2': ('rmulnp', -2.0), 'f*i3': ('rmuli', 3), '-1*f': ('lmuli', -1),
    'f+np1': ('addnp', 1.0),
    '2.5*f': ('lmul', 2.5), 'f*.4': ('rmul', 0.4),
}
ALPHA12 = ['neg', '2*f', 'f*2', 'f*-2', '.5*f', '0*f', 'f+1', 'f-1', 'f+y', 'f-y', '1-f', 'y-f']
ALPHA_EXT = ['-2*f', 'f*.5', 'f*0', '1+f', 'y+f', 'np2*f', 'f*np-2', 'f*i3', '-1*f', 'f+np1']


# perspective family: [affine addition] [scaling] [affine addition] with multipliers {1, 2.5, 0.4, -1, -2, 2}
PERSP_ATOMS = {'ro': ['pexpv', 'plogv'], 'dro': ['pexpv', 'plogv', 'pexpve', 'plogve']}
PERSP_PRE = [None, 'f+1', 'f-y', '1-f']
PERSP_MUL = [None, '2.5*f', 'f*.4', 'neg', 'f*-2', '2*f']
PERSP_POST = [None, 'f+1', 'y+f', 'f-y']


def persp_chains():
    out = []
    for a in PERSP_PRE:
        for b in PERSP_MUL:
            for c in PERSP_POST:
                out.append([t for t in (a, b, c) if t is not None])
    seen, uniq = set(), []
    for ch in out:
        if tuple(ch) not in seen:
            seen.add(tuple(ch))
            uniq.append(ch)
    return uniq


def chain_state(chain):
    """(k, cy, c0) of G = k*F + cy*y + c0 after the chain."""
    k, cy, c0 = 1.0, 0.0, 0.0
    for s in chain:
        kind, c = SYMBOLS[s]
        if kind == 'neg':
            k, cy, c0 = -k, -cy, -c0
        elif kind in ('lmul', 'rmul', 'lmulnp', 'rmulnp', 'rmuli', 'lmuli'):
            k, cy, c0 = k * c, cy * c, c0 * c
        elif kind in ('add', 'radd', 'addnp'):
            c0 += c
        elif kind == 'sub':
            c0 -= c
        elif kind == 'rsub':
            k, cy, c0 = -k, -cy, c - c0
        elif kind in ('addy', 'raddy'):
            cy += 1.0
        elif kind == 'suby':
            cy -= 1.0
        elif kind == 'rsuby':
            k, cy, c0 = -k, 1.0 - cy, -c0
        else:
            raise ValueError(s)
    return k + 0.0, cy + 0.0, c0 + 0.0


def curvature(atom, chain):
    k = chain_state(chain)[0]
    return 0 if k == 0 else int(math.copysign(1, k)) * ATOMS[atom][0]


# ------------------------------------------------------------------------------------------ final uses
# name: (kind, rhs kind)   kind in le (g <= a), ge (g >= a), eq (g == a), rle (a <= g), rge (a >= g), min, max
USES = {
    'le_c': ('le', 'c'), 'ge_c': ('ge', 'c'), 'eq_c': ('eq', 'c'), 'cle': ('rle', 'c'), 'cge': ('rge', 'c'),
    'le_a': ('le', 'a'), 'ge_a': ('ge', 'a'), 'eq_a': ('eq', 'a'), 'ale': ('rle', 'a'), 'age': ('rge', 'a'),
    'min': ('min', None), 'max': ('max', None),
}
USE_NAMES = list(USES)
USES7 = ['le_c', 'ge_a', 'eq_c', 'cle', 'age', 'min', 'max']

# right-hand sides per palette (VERIF_SEED % 4):  constant c, affine a = aw*w + a0
PALETTES = [
    {'c': 0.75, 'aw': 0.5, 'a0': 0.25},
    {'c': -0.5, 'aw': -1.0, 'a0': 0.5},
    {'c': 1.25, 'aw': 2.0, 'a0': -0.75},
    {'c': 0.0, 'aw': 1.0, 'a0': 0.0},
]


def legality(atom, chain, use):
    """'accept' | 'reject' | 'either' (zero multiple) according to the convexity rules of the statement."""
    cv = curvature(atom, chain)
    kind = USES[use][0]
    if cv == 0:
        return 'either'
    if kind == 'eq':
        return 'reject'
    need = {'le': +1, 'rge': +1, 'min': +1, 'ge': -1, 'rle': -1, 'max': -1}[kind]
    return 'accept' if cv == need else 'reject'


def rhs_coeffs(use, pal):
    rk = USES[use][1]
    p = PALETTES[pal]
    if rk == 'c':
        return 0.0, p['c']
    if rk == 'a':
        return p['aw'], p['a0']
    return 0.0, 0.0


def value(atom, chain, x, y):
    k, cy, c0 = chain_state(chain)
    F = ATOMS[atom][2](x)
    return k * F + cy * y + c0


def written_holds(use, G, A):
    """Truth value of the written comparison and its margin |G - A|."""
    kind = USES[use][0]
    if kind in ('le', 'rge'):
        return G <= A, abs(G - A)
    if kind in ('ge', 'rle'):
        return G >= A, abs(G - A)
    if kind == 'eq':
        return G == A, abs(G - A)
    raise ValueError(use)


def grid_points(atom, chain, use, pal, n=6):
    """Up to n points (x, y, w) placed around the written inequality with margin 0.1 (>= 0.05).

    When the written inequality depends on y (or on w) the point is put at distance 0.1 on either side of the
    boundary by moving y (w); otherwise x runs over the atom's grid and points closer than 0.05 are dropped."""
    k, cy, c0 = chain_state(chain)
    aw, a0 = rhs_coeffs(use, pal)
    F = ATOMS[atom][2]
    pts = []
    xs = atom_grid(atom)
    rot = pal % len(xs)
    xs = xs[rot:] + xs[:rot]
    if cy != 0:
        for x in xs[:(n + 1) // 2]:
            w = 0.5
            ystar = (aw * w + a0 - k * F(x) - c0) / cy
            for d in (+0.1, -0.1):
                pts.append((x, ystar + d / cy, w))
    elif aw != 0:
        for x in xs[:(n + 1) // 2]:
            y = 0.5
            wstar = (k * F(x) + c0 - a0) / aw
            for d in (+0.1, -0.1):
                pts.append((x, y, wstar + d / aw))
    else:
        for x in xs:
            pts.append((x, 0.5, 0.5))
    out = []
    for x, y, w in pts[:n]:
        G = k * F(x) + cy * y + c0
        A = aw * w + a0
        if USES[use][0] in ('min', 'max'):
            out.append((x, y, w, None, G))
            continue
        holds, margin = written_holds(use, G, A)
        if USES[use][0] == 'eq':
            if margin != 0 and margin < 0.05:
                continue
        elif margin < 0.05:
            continue
        out.append((x, y, w, bool(holds), G - A))
    return out


def self_test():
    """Cross-check the calculus against direct evaluation of the chain on numbers (start-up sanity)."""
    import itertools
    for atom in ('exp', 'log'):
        F = ATOMS[atom][2]
        x = atom_grid(atom)[0]
        yv = 0.375
        for chain in itertools.product(list(SYMBOLS), repeat=2):
            g = F(x)
            for s in chain:
                kind, c = SYMBOLS[s]
                if kind == 'neg':
                    g = -g
                elif kind in ('lmul', 'rmul', 'lmulnp', 'rmulnp', 'rmuli', 'lmuli'):
                    g = g * c
                elif kind in ('add', 'radd', 'addnp'):
                    g = g + c
                elif kind == 'sub':
                    g = g - c
                elif kind == 'rsub':
                    g = c - g
                elif kind in ('addy', 'raddy'):
                    g = g + yv
                elif kind == 'suby':
                    g = g - yv
                elif kind == 'rsuby':
                    g = yv - g
            assert abs(g - value(atom, chain, x, yv)) < 1e-12, (atom, chain)
    return True
