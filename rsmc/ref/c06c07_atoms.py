"""Closed-form NumPy evaluation of every rsome atom (R-atoms), shared by the C06 and C07 checks.

Nothing here imports rsome.  All evaluators are *batched*: an argument array has shape
(P,) + arg_shape, P >= 1 being a batch of points; reductions run over the trailing axes only.

An atom is described by ATOMS[name]:
  curv  : +1 convex, -1 concave (quad_* fixed by the name), 0 for constraint-only atoms
  ar    : 'elem' (element-wise, output shape = argument shape), 'vec' (1-D argument, scalar
          output), 'pw' (maxof/minof over scalar affine pieces), 'cons' (constraint-only)
  cone  : 'LP', 'SOC' or 'EXP' - the cheapest cone class that represents the atom
  dom   : None, 'pos' (argument > 0) or 'nonneg' (argument >= 0) - implicit domain of the atom
"""
import math
import numpy as np

ATOMS = {
    'abs':       dict(curv=1, ar='elem', cone='LP', dom=None),
    'norm1':     dict(curv=1, ar='vec', cone='LP', dom=None),
    'norminf':   dict(curv=1, ar='vec', cone='LP', dom=None),
    'norm2':     dict(curv=1, ar='vec', cone='SOC', dom=None),
    'pnorm_soc': dict(curv=1, ar='vec', cone='SOC', dom=None),
    'pnorm_exc': dict(curv=1, ar='vec', cone='EXP', dom=None),
    'square':    dict(curv=1, ar='elem', cone='SOC', dom=None),
    'sumsqr':    dict(curv=1, ar='vec', cone='SOC', dom=None),
    'quad_psd':  dict(curv=1, ar='vec', cone='SOC', dom=None),
    'quad_nsd':  dict(curv=-1, ar='vec', cone='SOC', dom=None),
    'power':     dict(curv=1, ar='elem', cone='SOC', dom=None),
    'gmean':     dict(curv=-1, ar='vec', cone='SOC', dom='nonneg'),
    'exp':       dict(curv=1, ar='elem', cone='EXP', dom=None),
    'log':       dict(curv=-1, ar='elem', cone='EXP', dom='pos'),
    'pexp':      dict(curv=1, ar='elem', cone='EXP', dom=None),
    'plog':      dict(curv=-1, ar='elem', cone='EXP', dom='pos'),
    'entropy':   dict(curv=-1, ar='vec', cone='EXP', dom='nonneg'),
    'softplus':  dict(curv=1, ar='elem', cone='EXP', dom=None),
    'maxof':     dict(curv=1, ar='pw', cone='LP', dom=None),
    'minof':     dict(curv=-1, ar='pw', cone='LP', dom=None),
    'kldiv':     dict(curv=0, ar='cons', cone='EXP', dom=None),
    'rsocone':   dict(curv=0, ar='cons', cone='SOC', dom=None),
    'expcone':   dict(curv=0, ar='cons', cone='EXP', dom=None),
}
CONE_RANK = {'LP': 0, 'SOC': 1, 'EXP': 2}
DOM_EPS = 1e-7          # arguments this close below the domain boundary are clamped onto it


def pdeg(par):
    """p-norm degree as a float from an int / float / [a, b] parameter."""
    if isinstance(par, (list, tuple)):
        return par[0] / par[1]
    return float(par)


def xlogy(a, b):
    """a*log(b) with 0*log(0) = 0, batched."""
    a = np.asarray(a, dtype=float)
    b = np.asarray(b, dtype=float)
    out = np.zeros(np.broadcast(a, b).shape)
    a_, b_ = np.broadcast_arrays(a, b)
    nz = a_ != 0
    with np.errstate(all='ignore'):
        out[nz] = a_[nz] * np.log(b_[nz])
    return out


def f_value(atom, par, U, S=None):
    """Closed form of atom(U).  U: (P,)+arg_shape.  S: scale for pexp/plog, shape (P,) (or broadcastable
    to U).  Returns (value, domviol): value of shape (P,)+out_shape, domviol (P,) >= 0 measuring by how much
    the implicit domain is left (0 = inside).  Values outside the domain are nan."""
    U = np.asarray(U, dtype=float)
    P = U.shape[0]
    tail = tuple(range(1, U.ndim))
    dom0 = np.zeros(P)
    with np.errstate(all='ignore'):
        if atom == 'abs':
            return np.abs(U), dom0
        if atom == 'norm1':
            return np.abs(U).sum(axis=-1), dom0
        if atom == 'norminf':
            return np.abs(U).max(axis=-1), dom0
        if atom == 'norm2':
            return np.sqrt((U * U).sum(axis=-1)), dom0
        if atom in ('pnorm_soc', 'pnorm_exc'):
            p = pdeg(par)
            a = np.abs(U)
            mx = a.max(axis=-1)
            safe = np.where(mx > 0, mx, 1.0)
            val = safe * ((a / safe[..., None]) ** p).sum(axis=-1) ** (1.0 / p)
            return np.where(mx > 0, val, 0.0), dom0
        if atom == 'square':
            return U * U, dom0
        if atom == 'sumsqr':
            return (U * U).sum(axis=-1), dom0
        if atom in ('quad_psd', 'quad_nsd'):
            Q = np.asarray(par, dtype=float)
            return np.einsum('...i,ij,...j->...', U, Q, U), dom0
        if atom == 'power':
            p = np.asarray(par[0], dtype=float)
            q = np.asarray(par[1], dtype=float)
            return np.abs(U) ** (p / q), dom0
        if atom == 'gmean':
            beta = np.asarray(par if par is not None else [1] * U.shape[-1], dtype=float)
            dv = np.maximum(-U, 0).max(axis=-1)
            Uc = np.where((U < 0) & (U >= -DOM_EPS), 0.0, U)
            val = np.prod(np.where(Uc >= 0, Uc, np.nan) ** beta, axis=-1) ** (1.0 / beta.sum())
            return val, np.where(dv > DOM_EPS, dv, 0.0)
        if atom == 'exp':
            return np.exp(U), dom0
        if atom == 'log':
            dv = np.maximum(-U, 0).max(axis=tail) if tail else np.maximum(-U, 0)
            val = np.where(U > 0, np.log(np.where(U > 0, U, 1.0)), -np.inf)
            bad = (U <= 0).any(axis=tail) if tail else (U <= 0)
            return val, np.where(bad, np.maximum(dv, DOM_EPS * 10), 0.0)
        if atom == 'softplus':
            return np.logaddexp(0.0, U), dom0
        if atom in ('pexp', 'plog'):
            S = np.asarray(S, dtype=float)
            Sb = S.reshape((P,) + (1,) * (U.ndim - 1)) if S.ndim == 1 and S.shape[0] == P else S
            sbad = np.broadcast_to(Sb <= 0, U.shape)
            dvs = np.maximum(-S, 0) if S.ndim == 1 else np.zeros(P)
            if atom == 'pexp':
                val = np.where(sbad, np.nan, Sb * np.exp(U / np.where(Sb > 0, Sb, 1.0)))
                bad = sbad.any(axis=tail) if tail else sbad
                return val, np.where(bad, np.maximum(dvs, DOM_EPS * 10), 0.0)
            ubad = (U <= 0) | sbad
            val = np.where(ubad, -np.inf, Sb * np.log(np.where(ubad, 1.0, U / np.where(Sb > 0, Sb, 1.0))))
            bad = ubad.any(axis=tail) if tail else ubad
            dv = np.maximum(-U, 0).max(axis=tail) if tail else np.maximum(-U, 0)
            return val, np.where(bad, np.maximum(np.maximum(dv, dvs), DOM_EPS * 10), 0.0)
        if atom == 'entropy':
            if U.ndim == 1:
                U = U[:, None]
            dv = np.maximum(-U, 0).max(axis=-1)
            Uc = np.where((U < 0) & (U >= -DOM_EPS), 0.0, U)
            val = -xlogy(np.where(Uc >= 0, Uc, np.nan), np.where(Uc > 0, Uc, 1.0)).sum(axis=-1)
            return val, np.where(dv > DOM_EPS, dv, 0.0)
    raise ValueError('no closed form for atom %r' % (atom,))


def kl_value(Pm, Q):
    """sum p log(p/q), batched over the leading axis; returns (value, domviol)."""
    Pm = np.asarray(Pm, dtype=float)
    Q = np.broadcast_to(np.asarray(Q, dtype=float), Pm.shape)
    dv = np.maximum(np.maximum(-Pm, 0).max(axis=-1), np.maximum(-Q, 0).max(axis=-1))
    Pc = np.where((Pm < 0) & (Pm >= -DOM_EPS), 0.0, Pm)
    with np.errstate(all='ignore'):
        ratio = np.where((Pc > 0) & (Q > 0), Pc / np.where(Q > 0, Q, 1.0), 1.0)
        val = xlogy(np.where(Pc >= 0, Pc, np.nan), ratio).sum(axis=-1)
        # p > 0 with q == 0 -> +inf
        val = np.where(((Pc > 0) & (Q <= 0)).any(axis=-1), np.inf, val)
    return val, np.where(dv > DOM_EPS, dv, 0.0)


def rsocone_resid(U, Y, Z):
    """Violation of sumsqr(U) <= Y*Z, Y >= 0, Z >= 0 (batched); <= 0 means satisfied."""
    U = np.asarray(U, dtype=float)
    if U.ndim == 1:
        U = U[:, None]
    return np.maximum.reduce([(U * U).sum(axis=-1) - Y * Z, -Y, -Z])


def expcone_resid(Y, X, Z):
    """Violation of Z*exp(X/Z) <= Y with Z > 0 (closure: Z = 0, X <= 0, Y >= 0); batched."""
    Y, X, Z = (np.asarray(a, dtype=float) for a in (Y, X, Z))
    with np.errstate(all='ignore'):
        main = np.where(Z > DOM_EPS, Z * np.exp(X / np.where(Z > DOM_EPS, Z, 1.0)) - Y, 0.0)
    closure = np.maximum.reduce([X, -Y, np.zeros_like(X)])
    out = np.where(Z > DOM_EPS, main, np.where(Z >= -DOM_EPS, closure, -Z))
    return out


# ---------------------------------------------------------------------------------------------
# building the same atoms with rsome (rso = the imported rsome package, passed in by the worker)
def build_atom(rso, atom, par, arg, scale=None):
    if atom == 'abs':
        return abs(arg)
    if atom == 'norm1':
        return rso.norm(arg, 1)
    if atom == 'norminf':
        return rso.norm(arg, 'inf')
    if atom == 'norm2':
        return rso.norm(arg)
    if atom == 'pnorm_soc':
        return rso.pnorm(arg, tuple(par) if isinstance(par, list) else par, 'soc')
    if atom == 'pnorm_exc':
        return rso.pnorm(arg, tuple(par) if isinstance(par, list) else par, 'exc')
    if atom == 'square':
        return rso.square(arg)
    if atom == 'sumsqr':
        return rso.sumsqr(arg)
    if atom in ('quad_psd', 'quad_nsd'):
        return rso.quad(arg, np.asarray(par, dtype=float))
    if atom == 'power':
        p, q = par
        p = np.asarray(p) if isinstance(p, list) else p
        q = np.asarray(q) if isinstance(q, list) else q
        return rso.power(arg, p, q)
    if atom == 'gmean':
        return rso.gmean(arg, par)
    if atom == 'exp':
        return rso.exp(arg)
    if atom == 'log':
        return rso.log(arg)
    if atom == 'pexp':
        return rso.pexp(arg, scale)
    if atom == 'plog':
        return rso.plog(arg, scale)
    if atom == 'entropy':
        return rso.entropy(arg)
    if atom == 'softplus':
        return rso.softplus(arg)
    raise ValueError('cannot build atom %r' % (atom,))


def coprime_pairs(amax):
    return [(a, b) for a in range(2, amax + 1) for b in range(1, a) if math.gcd(a, b) == 1]


# ---------------------------------------------------------------------------------------------
# the same atoms through the METHOD spelling  arg.f(...)  (Vars / VarSub / Affine / DecVar / DecVarSub / DecAffine)
ATOM_METHODS = {'abs': 'abs', 'norm1': 'norm', 'norminf': 'norm', 'norm2': 'norm', 'pnorm_soc': 'pnorm',
                'pnorm_exc': 'pnorm', 'square': 'square', 'sumsqr': 'sumsqr', 'quad_psd': 'quad', 'quad_nsd': 'quad',
                'power': 'power', 'gmean': 'gmean', 'exp': 'exp', 'log': 'log', 'pexp': 'pexp', 'plog': 'plog',
                'entropy': 'entropy', 'softplus': 'softplus', 'kldiv': 'kldiv', 'rsocone': 'rsocone',
                'expcone': 'expcone'}
# public methods of the variable / expression classes that are not convex atoms (array algebra, bookkeeping: C05,
# C12, C13) and atoms that need an SDP solver (not installed)
NON_ATOM_METHODS = {'assign', 'diag', 'flatten', 'get', 'get_ind', 'iter', 'reshape', 'sum', 'to_affine', 'trace',
                    'tril', 'triu', 'concat', 'rand_to_roaffine', 'sv_array', 'adapt', 'affadapt', 'evtadapt'}
SDP_METHODS = {'logdet', 'rootdet'}


def build_atom_method(atom, par, arg, scale=None, via_norm=False, default_q=False):
    """arg.f(...) - the method spelling of build_atom.  via_norm: p-norms through .norm(degree, method);
    default_q: power(p) without the denominator when q == 1."""
    if atom == 'abs':
        return arg.abs()
    if atom == 'norm1':
        return arg.norm(1)
    if atom == 'norminf':
        return arg.norm('inf')
    if atom == 'norm2':
        return arg.norm(2)
    if atom in ('pnorm_soc', 'pnorm_exc'):
        deg = tuple(par) if isinstance(par, list) else par
        meth = 'soc' if atom == 'pnorm_soc' else 'exc'
        return arg.norm(deg, meth) if via_norm else arg.pnorm(deg, meth)
    if atom == 'square':
        return arg.square()
    if atom == 'sumsqr':
        return arg.sumsqr()
    if atom in ('quad_psd', 'quad_nsd'):
        return arg.quad(np.asarray(par, dtype=float))
    if atom == 'power':
        p, q = par
        p = np.asarray(p) if isinstance(p, list) else p
        q = np.asarray(q) if isinstance(q, list) else q
        return arg.power(p) if default_q else arg.power(p, q)
    if atom == 'gmean':
        return arg.gmean(par)
    if atom == 'exp':
        return arg.exp()
    if atom == 'log':
        return arg.log()
    if atom == 'pexp':
        return arg.pexp(scale)
    if atom == 'plog':
        return arg.plog(scale)
    if atom == 'entropy':
        return arg.entropy()
    if atom == 'softplus':
        return arg.softplus()
    raise ValueError('no method spelling for atom %r' % (atom,))


def build_atom_fn(rso, atom, par, arg, scale=None, via_norm=False, default_q=False):
    """rso.f(arg, ...) with the same optional spellings as build_atom_method."""
    if atom in ('pnorm_soc', 'pnorm_exc') and via_norm:
        deg = tuple(par) if isinstance(par, list) else par
        return rso.norm(arg, deg, 'soc' if atom == 'pnorm_soc' else 'exc')
    if atom == 'power' and default_q:
        p = par[0]
        return rso.power(arg, np.asarray(p) if isinstance(p, list) else p)
    if atom == 'norm2' and via_norm:
        return rso.fnorm(arg)
    return build_atom(rso, atom, par, arg, scale)
