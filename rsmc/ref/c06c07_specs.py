"""Deterministic model specs (DetSpec) for C06 / C07: pure data, a NumPy evaluator, and a builder that
turns a spec into rsome API calls.  Nothing at module level imports rsome.

Spec
  {'fe': 'ro'|'dro', 'n': int, 'vt': 'C' | vtype string, 'box': [lo, hi],
   'cons': [constraint, ...], 'obj': {'dir': 'min'|'max', 't': term}}
affine   {'A': m x n list, 'b': m list, 'shape': list}      value (A v + b).reshape(shape)
term     {'atom': name|None, 'par': .., 'u': affine, 's': affine|float (pexp/plog scale),
          'pieces': [affine,...] (maxof/minof), 'sum': None|'all'|0|1, 'order': 'sk'|'ks',
          'k': float, 'lin': affine|None}                    value k*f(u)[.sum] + lin
constraint
  {'kind': 'term', 't': term, 'rel': '<='|'>=', 'rhs': affine, 'flip': bool, 'tag': str}
  {'kind': 'lin', 'l': affine, 'rel': '<='|'>='|'==', 'rhs': affine}
  {'kind': 'rsocone', 'u': affine, 'y': affine, 'z': affine}          sumsqr(u) <= y*z
  {'kind': 'expcone', 'y': affine, 'x': affine, 'z': affine}          z*exp(x/z) <= y
  {'kind': 'kldiv', 'p': affine, 'q': list|affine, 'r': affine}        sum p log(p/q) <= r
  (the box  lo <= x <= hi  is always part of the user's model and is checked as well)
"""
import math
import numpy as np

from .c06c07_atoms import (ATOMS, CONE_RANK, f_value, kl_value, rsocone_resid, expcone_resid, build_atom)


# ---------------------------------------------------------------------------------------------
# evaluation (batched: V has shape (P, n))
def aff_eval(a, V):
    A = np.asarray(a['A'], dtype=float)
    b = np.asarray(a['b'], dtype=float)
    out = V @ A.T + b
    return out.reshape((V.shape[0],) + tuple(a['shape']))


def _sum(F, how):
    if how is None:
        return F
    if how == 'all':
        return F.reshape(F.shape[0], -1).sum(axis=1)
    return F.sum(axis=int(how) + 1)


def term_eval(t, V):
    """(value, domviol): value (P,)+out_shape."""
    P = V.shape[0]
    dv = np.zeros(P)
    if t.get('atom') is None:
        return aff_eval(t['lin'], V), dv
    atom = t['atom']
    if ATOMS[atom]['ar'] == 'pw':
        vals = np.stack([aff_eval(p, V).reshape(P) for p in t['pieces']], axis=0)
        F = vals.max(axis=0) if atom == 'maxof' else vals.min(axis=0)
    else:
        U = aff_eval(t['u'], V)
        S = None
        if atom in ('pexp', 'plog'):
            s = t['s']
            S = aff_eval(s, V).reshape(P) if isinstance(s, dict) else np.full(P, float(s))
        F, dv = f_value(atom, t.get('par'), U, S)
        F = _sum(F, t.get('sum'))
    val = t['k'] * F
    if t.get('lin') is not None:
        val = val + aff_eval(t['lin'], V)
    return val, dv


def _red(R):
    """max over trailing axes -> (P,)"""
    return R.reshape(R.shape[0], -1).max(axis=1)


def cons_eval(c, V):
    """(resid, scale): resid (P,) <= 0 iff the constraint holds (max over entries), scale (P,) typical
    magnitude of the two sides (for relative tolerances)."""
    kind = c['kind']
    P = V.shape[0]
    with np.errstate(all='ignore'):
        if kind == 'term':
            lhs, dv = term_eval(c['t'], V)
            rhs = aff_eval(c['rhs'], V)
            if rhs.ndim < lhs.ndim:            # one scalar right-hand side for all entries
                rhs = rhs.reshape((P,) + (1,) * (lhs.ndim - 1))
            R = (lhs - rhs) if c['rel'] == '<=' else (rhs - lhs)
            R = np.where(np.isnan(R), np.inf, R)
            res = np.maximum(_red(R), np.where(dv > 0, dv, -np.inf))
            sc = np.maximum(_red(np.abs(np.where(np.isfinite(lhs), lhs, 0.0)) + 0 * R), _red(np.abs(rhs) + 0 * R))
            return res, sc
        if kind == 'lin':
            lhs = aff_eval(c['l'], V)
            rhs = aff_eval(c['rhs'], V)
            if c['rel'] == '<=':
                R = lhs - rhs
            elif c['rel'] == '>=':
                R = rhs - lhs
            else:
                R = np.abs(lhs - rhs)
            return _red(R), np.maximum(_red(np.abs(lhs) + 0 * R), _red(np.abs(rhs) + 0 * R))
        if kind == 'rsocone':
            U = aff_eval(c['u'], V)
            Y = aff_eval(c['y'], V).reshape(P)
            Z = aff_eval(c['z'], V).reshape(P)
            return rsocone_resid(U.reshape(P, -1), Y, Z), np.abs(Y * Z)
        if kind == 'expcone':
            Y = aff_eval(c['y'], V).reshape(P)
            X = aff_eval(c['x'], V).reshape(P)
            Z = aff_eval(c['z'], V).reshape(P)
            return expcone_resid(Y, X, Z), np.abs(Y)
        if kind == 'kldiv':
            Pm = aff_eval(c['p'], V).reshape(P, -1)
            Q = aff_eval(c['q'], V).reshape(P, -1) if isinstance(c['q'], dict) else np.asarray(c['q'], dtype=float)
            r = aff_eval(c['r'], V).reshape(P)
            val, dv = kl_value(Pm, Q)
            res = np.maximum(np.where(np.isnan(val), np.inf, val - r), np.where(dv > 0, dv, -np.inf))
            return res, np.maximum(np.abs(np.where(np.isfinite(val), val, 0.0)), np.abs(r))
    raise ValueError(kind)


def box_resid(spec, V):
    lo, hi = spec['box']
    return np.maximum(lo - V, V - hi).max(axis=1)


def integrality_resid(spec, V):
    vt = spec.get('vt', 'C')
    vt = vt * spec['n'] if len(vt) == 1 else vt
    res = np.zeros(V.shape[0])
    for j, ch in enumerate(vt):
        if ch in 'IB':
            res = np.maximum(res, np.abs(V[:, j] - np.round(V[:, j])))
        if ch == 'B':
            res = np.maximum(res, np.maximum(-V[:, j], V[:, j] - 1))
    return res


def obj_eval(spec, V):
    val, dv = term_eval(spec['obj']['t'], V)
    return val.reshape(V.shape[0]), dv


def feasible_mask(spec, V, tol=1e-9):
    ok = box_resid(spec, V) <= tol
    ok &= integrality_resid(spec, V) <= tol
    for c in spec['cons']:
        res, _ = cons_eval(c, V)
        ok &= res <= tol
    return ok


def spec_cone(spec):
    """Cheapest cone class able to represent the spec: 'LP' | 'SOC' | 'EXP'."""
    rank = 0
    terms = [c['t'] for c in spec['cons'] if c['kind'] == 'term'] + [spec['obj']['t']]
    for t in terms:
        if t.get('atom'):
            rank = max(rank, CONE_RANK[ATOMS[t['atom']]['cone']])
    for c in spec['cons']:
        if c['kind'] in ('rsocone',):
            rank = max(rank, 1)
        if c['kind'] in ('expcone', 'kldiv'):
            rank = max(rank, 2)
    return ['LP', 'SOC', 'EXP'][rank]


def is_mip(spec):
    return any(ch in 'IB' for ch in spec.get('vt', 'C'))


# ---------------------------------------------------------------------------------------------
# rsome builder
def _aff(x, a):
    A = np.asarray(a['A'], dtype=float)
    b = np.asarray(a['b'], dtype=float)
    shape = tuple(a['shape'])
    if shape == ():
        return A[0] @ x + float(b[0])
    e = A @ x + b
    if shape != (A.shape[0],):
        e = e.reshape(shape)
    return e


def _rhs(x, a):
    """Right-hand sides / offsets: a plain constant when the affine part is zero (exercises Real/ndarray paths)."""
    A = np.asarray(a['A'], dtype=float)
    if not A.any():
        b = np.asarray(a['b'], dtype=float).reshape(tuple(a['shape']))
        return float(b) if b.ndim == 0 else b
    return _aff(x, a)


def build_term(rso, x, t):
    if t.get('atom') is None:
        return _aff(x, t['lin'])
    atom = t['atom']
    if ATOMS[atom]['ar'] == 'pw':
        pieces = [_rhs(x, p) for p in t['pieces']]
        F = rso.maxof(*pieces) if atom == 'maxof' else rso.minof(*pieces)
    else:
        s = t.get('s')
        scale = None
        if atom in ('pexp', 'plog'):
            scale = _aff(x, s) if isinstance(s, dict) else float(s)
        F = build_atom(rso, atom, t.get('par'), _aff(x, t['u']), scale)
    k = t['k']
    how = t.get('sum')

    def do_sum(G):
        if how is None:
            return G
        return G.sum() if how == 'all' else G.sum(axis=int(how))

    if t.get('order', 'sk') == 'sk':          # sum first, then scale
        F = do_sum(F)
        e = F if k == 1 else k * F
    else:                                      # scale first, then sum
        e = F if k == 1 else F * k
        e = do_sum(e)
    if t.get('lin') is not None:
        e = e + _rhs(x, t['lin'])
    return e


def build_cons(rso, x, c):
    kind = c['kind']
    if kind == 'term':
        lhs = build_term(rso, x, c['t'])
        rhs = _rhs(x, c['rhs'])
        if c['rel'] == '<=':
            return (rhs >= lhs) if c.get('flip') else (lhs <= rhs)
        return (rhs <= lhs) if c.get('flip') else (lhs >= rhs)
    if kind == 'lin':
        lhs = _aff(x, c['l'])
        rhs = _rhs(x, c['rhs'])
        return (lhs <= rhs) if c['rel'] == '<=' else ((lhs >= rhs) if c['rel'] == '>=' else (lhs == rhs))
    if kind == 'rsocone':
        return rso.rsocone(_aff(x, c['u']), _aff(x, c['y']), _aff(x, c['z']))
    if kind == 'expcone':
        return rso.expcone(_aff(x, c['y']), _aff(x, c['x']), _aff(x, c['z']))
    if kind == 'kldiv':
        q = _aff(x, c['q']) if isinstance(c['q'], dict) else np.asarray(c['q'], dtype=float)
        return rso.kldiv(_aff(x, c['p']), q, _rhs(x, c['r']))
    raise ValueError(kind)


def build_model(R, spec, skip_obj=False, keep=None):
    """R: dict with rso, ro, dro.  Returns (model, x, nops).  `keep` (a list) receives the user's own constraint
    and objective objects, in declaration order, so that a history check can snapshot them."""
    m = R['ro'].Model() if spec['fe'] == 'ro' else R['dro'].Model()
    x = m.dvar(spec['n'], vtype=spec.get('vt', 'C'))
    lo, hi = spec['box']
    blo, bhi = (x >= lo), (x <= hi)
    m.st(blo)
    m.st(bhi)
    if keep is not None:
        keep.extend([blo, bhi])
    nops = 4
    for c in spec['cons']:
        co = build_cons(R['rso'], x, c)
        m.st(co)
        if keep is not None:
            keep.append(co)
        nops += 2
    if not skip_obj:
        e = build_term(R['rso'], x, spec['obj']['t'])
        (m.min if spec['obj']['dir'] == 'min' else m.max)(e)
        if keep is not None:
            keep.append(e)
        nops += 2
    return m, x, nops


# ---------------------------------------------------------------------------------------------
# snapshots of the user's own constraint / expression objects (history checks): a compile must not edit them
SNAP_FIELDS = ('affine_in', 'affine_out', 'affine_scale', 'multiplier', 'params', 'sum_axis', 'xtype', 'sign', 'sense',
               'linear', 'const', 'indices', 'values', 'btype', 'expr1', 'expr2', 'expr3', 'p', 'phat', 'r', 'pieces',
               'raffine', 'affine', 'ctype', 'event_adapt', 'add_sign')


def snapshot(o, depth=0):
    """Deep, detached copy of the numeric content of an rsome constraint / expression object."""
    import scipy.sparse as sp
    if o is None or isinstance(o, (bool, int, float, str)):
        return o
    if isinstance(o, np.generic):
        return ('npscalar', o.dtype.str, o.item())
    if isinstance(o, np.ndarray):
        return ('ndarray', o.dtype.str, o.shape, o.copy())
    if sp.issparse(o):
        c = o.tocoo(copy=True)
        order = np.lexsort((c.col, c.row))
        nz = c.data[order] != 0
        return ('sparse', o.shape[0], c.row[order][nz].copy(), c.col[order][nz].copy(), c.data[order][nz].copy())
    if isinstance(o, (list, tuple)):
        return ('seq', tuple(snapshot(i, depth + 1) for i in o))
    if hasattr(o, '__dict__') and depth < 6:
        return ('obj', type(o).__name__,
                tuple((f, snapshot(o.__dict__[f], depth + 1)) for f in SNAP_FIELDS if f in o.__dict__))
    return ('opaque', type(o).__name__)


def snap_diff(a, b, path=''):
    """None when two snapshots agree numerically, else the path of the first difference.  ndarrays must agree in
    dtype, shape and every value; sparse coefficient matrices in their rows and non-zero entries (rsome widens the
    column count of stored matrices in place when auxiliary variables are added - not a numerical change)."""
    if type(a) is not type(b):
        return path + ':type'
    if isinstance(a, tuple) and a and isinstance(a[0], str) and a[0] in ('npscalar', 'ndarray', 'sparse', 'seq', 'obj', 'opaque'):
        if a[0] != b[0]:
            return path + ':kind'
        if a[0] == 'npscalar':
            return None if (a[1] == b[1] and (a[2] == b[2] or (a[2] != a[2] and b[2] != b[2]))) else path
        if a[0] == 'ndarray':
            ok = a[1] == b[1] and a[2] == b[2] and np.array_equal(a[3], b[3], equal_nan=a[3].dtype.kind == 'f')
            return None if ok else path
        if a[0] == 'sparse':
            ok = a[1] == b[1] and all(x.shape == y.shape and np.array_equal(x, y) for x, y in zip(a[2:], b[2:]))
            return None if ok else path
        if a[0] == 'seq':
            if len(a[1]) != len(b[1]):
                return path + ':len'
            for i, (x, y) in enumerate(zip(a[1], b[1])):
                d = snap_diff(x, y, '%s[%d]' % (path, i))
                if d:
                    return d
            return None
        if a[0] == 'obj':
            if a[1] != b[1] or len(a[2]) != len(b[2]):
                return path + ':class'
            for (fa, xa), (fb, xb) in zip(a[2], b[2]):
                if fa != fb:
                    return path + ':fields'
                d = snap_diff(xa, xb, '%s.%s' % (path, fa))
                if d:
                    return d
            return None
        return None
    if isinstance(a, float) and a != a and b != b:
        return None
    return None if a == b else path


def solve(R, m, solver):
    """Solve through one interface; returns (status, info) with status in
    'optimal' | 'fail' (solver says not optimal / inaccurate) | 'raise'."""
    mod = {'eco': R['eco'], 'grb': R['grb'], 'ort': R['ort'], 'def': None}[solver]
    try:
        if solver == 'grb':
            m.solve(mod, display=False, params={'Threads': 1})
        else:
            m.solve(mod, display=False)
    except Exception as ex:  # noqa
        return 'raise', '%s: %s' % (type(ex).__name__, str(ex)[:120])
    sol = m.solution
    if sol is None or sol.x is None:
        return 'fail', str(getattr(sol, 'status', None))
    try:
        if np.isnan(sol.objval):
            return 'fail', str(sol.status)
    except TypeError:
        return 'fail', str(sol.status)
    st = sol.status
    ok = {'eco': st in ('Optimal solution found', 'Optimal branch and bound solution found'), 'grb': st == 2, 'def': st == 0, 'ort': st == 0}[solver]
    return ('optimal' if ok else 'fail'), str(st)


def solvers_for(spec, thorough=False):
    """Interfaces that can solve the spec's cone class (ECOS for everything; Gurobi for SOC/LP; default and
    OR-tools for LP).  ECOS_BB only with <= 3 integer variables."""
    cone = spec_cone(spec)
    nint = sum(ch in 'IB' for ch in (spec.get('vt', 'C') * spec['n'] if len(spec.get('vt', 'C')) == 1 else spec['vt']))
    out = []
    if nint == 0 or (nint <= 3 and cone == 'LP'):
        out.append('eco')       # ECOS_BB spins on tiny mixed-integer SOC/EXP models: integers + cones go to Gurobi only
    if cone in ('LP', 'SOC'):
        out.append('grb')
    if cone == 'LP':
        out.append('def')
        if thorough:
            out.append('ort')
    return out


# ---------------------------------------------------------------------------------------------
# value palettes (dyadic), selected by VERIF_SEED % 4
def _pal(seed):
    k = seed % 4
    A2 = [[[1.0, 0.5], [-0.5, 1.0]],
          [[1.0, -0.5], [0.5, 1.0]],
          [[0.5, 1.0], [1.0, -0.5]],
          [[1.0, 0.25], [0.25, -1.0]]][k]
    row3 = [[0.5, 0.5], [0.5, -0.5], [-0.5, 0.5], [0.75, 0.5]][k]
    return {
        'id': k,
        'A2': A2,
        'row3': row3,
        'b': [[0.25, -0.5, 0.5], [-0.25, 0.5, 0.25], [0.5, 0.25, -0.5], [-0.5, -0.25, 0.5]][k],
        'bpos': [[1.5, 2.0, 1.75], [2.0, 1.5, 1.25], [1.75, 1.25, 2.0], [1.25, 1.75, 1.5]][k],
        'a': [[1.0, -0.5], [0.5, 1.0], [-1.0, 0.5], [0.5, -1.0]][k],
        'c': [[0.5, -0.25], [-0.25, 0.5], [0.25, 0.5], [-0.5, -0.25]][k],
        'C2': [[[0.5, -0.25], [0.25, 0.5]], [[-0.25, 0.5], [0.5, 0.25]],
               [[0.25, 0.5], [-0.5, 0.25]], [[-0.5, -0.25], [0.25, -0.5]]][k],
        'd': [0.25, -0.25, 0.5, -0.5][k],
        'rc': [[0.25, 0.5], [0.5, -0.25], [-0.25, 0.25], [-0.5, 0.5]][k],
        'dirs': [[1.0, 0.5], [-1.0, -0.5], [-0.5, 1.0], [0.5, -1.0]],
    }


def _pad(vec, n, fill):
    return list(vec) + [fill] * (n - len(vec))


def _padA(A, n, fills):
    return [list(r) + [fills[i % len(fills)]] * (n - len(r)) for i, r in enumerate(A)]


def _r8_up(v):
    return math.ceil(v * 8 - 1e-9) / 8.0


def _r8_dn(v):
    return math.floor(v * 8 + 1e-9) / 8.0


class Gen:
    """Enumerates the C06 grammar.  All numeric data come from the palette; right-hand sides are computed by the
    closed forms so that the origin is strictly feasible (margin >= 0.375) for every constraint."""

    K_ABS = [1.0, 2.5, 0.5]

    def __init__(self, seed, n=2):
        self.p = _pal(seed)
        self.n = n

    # -- affine pieces ------------------------------------------------------------------------
    def arg(self, m, shape, pos):
        p, n = self.p, self.n
        rows = (p['A2'] + [p['row3']] + [[-r for r in p['A2'][0]]])[:m]
        A = _padA(rows, n, [0.5, -0.25, 0.25])
        b = (p['bpos'] if pos else p['b'])
        b = (b + b)[:m]
        return {'A': A, 'b': list(b), 'shape': list(shape)}

    def scal(self, pos, alt=0):
        p, n = self.p, self.n
        a = p['a'] if alt == 0 else [p['a'][1], -p['a'][0]]
        return {'A': [_pad(a, n, 0.25)], 'b': [p['bpos'][alt] if pos else p['b'][alt]], 'shape': []}

    def lin(self, shape, scale=1.0):
        p, n = self.p, self.n
        if not shape:
            return {'A': [_pad([scale * v for v in p['c']], n, 0.25 * scale)], 'b': [p['d'] * scale], 'shape': []}
        m = int(np.prod(shape))
        rows = (p['C2'] + [[-v for v in r] for r in p['C2']])[:m]
        A = _padA([[scale * v for v in r] for r in rows], n, [0.25 * scale])
        return {'A': A, 'b': [scale * (p['d'] if i % 2 == 0 else -p['d']) for i in range(m)], 'shape': list(shape)}

    def const(self, val, shape=()):
        m = int(np.prod(shape)) if shape else 1
        vals = list(np.broadcast_to(np.asarray(val, dtype=float), (m,)))
        return {'A': [[0.0] * self.n for _ in range(m)], 'b': [float(v) for v in vals], 'shape': list(shape)}

    def rhs_for(self, term, rel, out_shape, affine_rhs, broadcast=False):
        """Affine right-hand side making the origin strictly feasible with a margin."""
        V0 = np.zeros((1, self.n))
        val, dv = term_eval(term, V0)
        assert not dv.any() and np.all(np.isfinite(val)), ('origin outside the domain', term)
        val = np.asarray(val[0], dtype=float)
        margin = 0.375 + 0.25 * np.abs(val)
        if broadcast:
            # one scalar right-hand side for all entries
            tgt = (val + margin).max() if rel == '<=' else (val - margin).min()
            rd = [_r8_up(tgt) if rel == '<=' else _r8_dn(tgt)]
            shape = []
        else:
            tgt = (val + margin) if rel == '<=' else (val - margin)
            flat = np.atleast_1d(tgt).reshape(-1)
            rd = [(_r8_up(v) if rel == '<=' else _r8_dn(v)) for v in flat]
            shape = list(out_shape)
        m = len(rd)
        if affine_rhs:
            p = self.p
            rows = [p['rc'], [-p['rc'][1], p['rc'][0]], [p['rc'][1], -p['rc'][0]], [-v for v in p['rc']]]
            A = _padA([rows[i % 4] for i in range(m)], self.n, [-0.25])
        else:
            A = [[0.0] * self.n for _ in range(m)]
        return {'A': A, 'b': rd, 'shape': shape}

    def direction(self, i):
        g = _pad(self.p['dirs'][i % 4], self.n, 0.25 if i % 2 == 0 else -0.25)
        if i % 4 in (0, 2):
            return {'dir': 'max', 't': {'atom': None, 'lin': {'A': [g], 'b': [0.5], 'shape': []}}}
        return {'dir': 'min', 't': {'atom': None, 'lin': {'A': [[-v for v in g]], 'b': [-0.25], 'shape': []}}}

    def cut(self):
        """A linear user constraint that is part of every objective-position model."""
        p = self.p
        return {'kind': 'lin', 'l': {'A': [_pad(p['rc'], self.n, 0.25)], 'b': [0.0], 'shape': []},
                'rel': '<=', 'rhs': self.const(1.0)}


# ---------------------------------------------------------------------------------------------
# the C06 grammar
def _elem_variants(thorough):
    out = [('abs', None, None), ('square', None, None), ('power', [3, 1], None), ('power', [3, 2], None),
           ('exp', None, None), ('log', None, None), ('softplus', None, None),
           ('pexp', None, 'const'), ('pexp', None, 'var'), ('plog', None, 'const'), ('plog', None, 'var')]
    if thorough:
        out += [('power', [4, 3], None), ('power', [2, 1], None), ('power', [5, 2], None)]
    return out


def _vec_variants(m, thorough):
    Qp = {2: [[2.0, 0.5], [0.5, 1.0]], 3: [[2.0, 0.5, 0.0], [0.5, 1.0, 0.25], [0.0, 0.25, 1.5]]}[m]
    Qr = {2: [[1.0, -1.0], [-1.0, 1.0]], 3: [[1.0, -1.0, 0.0], [-1.0, 1.0, 0.0], [0.0, 0.0, 0.0]]}[m]
    Qn = [[-v for v in r] for r in Qp]
    out = [('norm1', None), ('norminf', None), ('norm2', None), ('pnorm_soc', 3), ('pnorm_soc', [5, 2]),
           ('pnorm_exc', 2.5), ('pnorm_exc', [3, 2]), ('sumsqr', None), ('quad_psd', Qp), ('quad_nsd', Qn),
           ('gmean', None), ('gmean', [1, 2, 3][:m]), ('entropy', None)]
    if thorough:
        out += [('pnorm_soc', 4), ('pnorm_soc', [7, 3]), ('pnorm_exc', 3), ('pnorm_exc', [7, 4]),
                ('quad_psd', Qr), ('quad_nsd', [[-v for v in r] for r in Qr]), ('gmean', [3, 1, 2][:m])]
    return out


def _parname(par):
    if par is None:
        return ''
    if isinstance(par, list) and par and isinstance(par[0], list):
        a = np.asarray(par, dtype=float)
        if a.ndim == 2 and a.shape[0] == a.shape[1]:
            ev = np.linalg.eigvalsh(a)
            return '[rank%d]' % int((np.abs(ev) > 1e-9).sum())
        return '[array]'
    return '[' + (','.join(str(v) for v in par) if isinstance(par, list) else str(par)) + ']'


def c06_specs(tier, seed, fes=('ro', 'dro'), ns=None):
    """Yields (tag, spec).  tag = 'atom|form|pos' identifies the input class (goes into signatures)."""
    thorough = tier == 'thorough'
    ns = ns or ([2, 3] if thorough else [2])
    seeds = [0, 1, 2, 3] if thorough else [seed % 4]
    ndir = 4
    for n in ns:
        for sd in seeds:
            g = Gen(sd, n)
            for fe in fes:
                for item in _c06_one(g, fe, thorough, ndir):
                    yield item


HISTORIES = ['solve,st,solve', 'domath,st,solve', 'solve,st,solve,st,solve']


def c06_hist_specs(tier, seed, fes=('ro', 'dro')):
    """The re-solve history family: yields (tag, ktag, spec); the histories themselves are in HISTORIES.
    quick: n = 2, one palette, element-wise shapes scalar and (2,), vectors of length 2;
    thorough: all four palettes, additionally shape (2,2), vectors of length 3 and the extra parameter variants."""
    thorough = tier == 'thorough'
    for sd in ([0, 1, 2, 3] if thorough else [seed % 4]):
        g = Gen(sd, 2)
        g.hist = True
        for fe in fes:
            for item in _c06_one(g, fe, thorough, 2):
                yield item


def _mk(g, fe, cons, obj, vt='C'):
    return {'fe': fe, 'n': g.n, 'vt': vt, 'box': [-2.0, 2.0], 'cons': cons, 'obj': obj, 'pal': g.p['id']}


def _combos():
    # (k, with_lin, affine_rhs, flip, broadcast_rhs)
    out = []
    for sign in (1, -1):
        out.append((1.0 * sign, False, True, False, False))
        out.append((2.5 * sign, True, True, False, False))
        out.append((0.5 * sign, True, False, True, True))
    return out


def _hist_term_cases(g, fe, tag, base, out_shape, curv, extra_cons):
    """History family: bare k*f(u) (no affine offset, so the stored offset is the plain right-hand side: a Python
    number, a 0-d or an n-d array for constant right-hand sides, an Affine otherwise) x k in +-{1, 0.5, 2.5} x
    constant / affine right-hand side; constraint position (2 fixed directions for a constant right-hand side, the
    adversarial direction for an affine one) and objective position (bare and with a constant offset)."""
    for sign in (1, -1):
        for kabs in (1.0, 0.5, 2.5):
            k = sign * kabs
            t = dict(base)
            t['k'] = k
            t['lin'] = None
            rel = '<=' if curv * k > 0 else '>='
            ktag = 'k=%g' % k
            for aff_rhs in (False, True):
                rhs = g.rhs_for(t, rel, out_shape, aff_rhs)
                c = {'kind': 'term', 't': t, 'rel': rel, 'rhs': rhs, 'flip': False, 'tag': 'main'}
                ptag = '%s|cons(rhs=%s)' % (tag, 'affine' if aff_rhs else 'const')
                if aff_rhs:
                    adv = {'dir': 'max' if rel == '>=' else 'min',
                           't': {'atom': None, 'lin': {'A': [list(rhs['A'][0])], 'b': [0.125], 'shape': []}}}
                    yield (ptag, ktag, _mk(g, fe, extra_cons + [c], adv))
                else:
                    for d in (0, 1):
                        yield (ptag, ktag, _mk(g, fe, extra_cons + [c], g.direction(d)))
            if len(out_shape) == 0:
                odir = 'min' if curv * k > 0 else 'max'
                yield ('%s|obj' % tag, ktag, _mk(g, fe, extra_cons + [g.cut()], {'dir': odir, 't': t}))
                t2 = dict(t)
                t2['lin'] = g.const(g.p['d'])
                yield ('%s|obj' % tag, ktag + '+d', _mk(g, fe, extra_cons + [g.cut()], {'dir': odir, 't': t2}))


def _term_cases(g, fe, tag, base, out_shape, curv, extra_cons, ndir, allow_obj=True, vts=('C',)):
    """All positions x compositions for one atom term skeleton `base` (dict without k / lin)."""
    if getattr(g, 'hist', False):
        for it in _hist_term_cases(g, fe, tag, base, out_shape, curv, extra_cons):
            yield it
        return
    for (k, with_lin, aff_rhs, flip, bc) in _combos():
        t = dict(base)
        t['k'] = k
        t['lin'] = g.lin(out_shape) if with_lin else None
        rel = '<=' if curv * k > 0 else '>='
        rhs = g.rhs_for(t, rel, out_shape, aff_rhs, broadcast=bc and len(out_shape) > 0)
        c = {'kind': 'term', 't': t, 'rel': rel, 'rhs': rhs, 'flip': flip, 'tag': 'main'}
        ktag = 'k=%g' % k
        for vt in vts:
            for d in range(ndir):
                if vt != 'C' and (d >= 2 or abs(k) != 1):
                    continue
                yield ('%s|cons' % tag, ktag, _mk(g, fe, extra_cons + [c], g.direction(d), vt))
            if aff_rhs and vt == 'C':
                # adversarial direction: push the affine right-hand side against the atom
                row = rhs['A'][0]
                adv = {'dir': 'max' if rel == '>=' else 'min',
                       't': {'atom': None, 'lin': {'A': [list(row)], 'b': [0.125], 'shape': []}}}
                yield ('%s|cons' % tag, ktag, _mk(g, fe, extra_cons + [c], adv, vt))
        if allow_obj and len(out_shape) == 0:
            odir = 'min' if curv * k > 0 else 'max'
            for vt in vts:
                if vt != 'C' and abs(k) != 1:
                    continue
                yield ('%s|obj' % tag, ktag, _mk(g, fe, extra_cons + [g.cut()], {'dir': odir, 't': t}, vt))


def _c06_one(g, fe, thorough, ndir):
    n = g.n
    int_vts = ('C', 'I', 'BC' + 'C' * (n - 2)) if True else ('C',)
    # ---- element-wise atoms: scalar and array arguments ------------------------------------
    for atom, par, smode in _elem_variants(thorough):
        info = ATOMS[atom]
        pos = info['dom'] is not None
        for shape in ([], [2]) + (([2, 2],) if thorough else ()):
            m = int(np.prod(shape)) if shape else 1
            base = {'atom': atom, 'par': par, 'u': g.arg(m, shape, pos) if shape else g.scal(pos)}
            extra = []
            if smode == 'const':
                base['s'] = 2.0
            elif smode == 'var':
                base['s'] = g.scal(True, alt=1)
                extra = [{'kind': 'lin', 'l': base['s'], 'rel': '>=', 'rhs': g.const(0.25)}]
            form = 'scalar' if not shape else 'elem%s' % (tuple(shape),)
            tag = '%s%s%s|%s' % (atom, _parname(par), ('(s=%s)' % smode) if smode else '', form)
            vts = int_vts if (atom in ('abs', 'square') and not shape) else ('C',)
            for it in _term_cases(g, fe, tag, base, shape, info['curv'], extra, ndir, vts=vts):
                yield it
    if thorough:
        # array-valued exponents
        base = {'atom': 'power', 'par': [[2, 3], [1, 2]], 'u': g.arg(2, [2], False)}
        for it in _term_cases(g, fe, 'power[array]|elem(2,)', base, [2], 1, [], ndir):
            yield it
    # ---- summed element-wise forms ------------------------------------------------------------
    for atom in ('exp', 'log'):
        info = ATOMS[atom]
        pos = info['dom'] is not None
        for shape, how in (([2], 'all'), ([2, 2], 'all'), ([2, 2], 0), ([2, 2], 1)):
            m = int(np.prod(shape))
            out_shape = [] if how == 'all' else [2]
            for order in ('sk', 'ks'):
                base = {'atom': atom, 'par': None, 'u': g.arg(m, shape, pos), 'sum': how, 'order': order}
                form = 'sum(%s)%s' % ('all' if how == 'all' else 'axis=%d' % how, tuple(shape))
                tag = '%s|%s|%s' % (atom, form, order)
                for it in _term_cases(g, fe, tag, base, out_shape, info['curv'], [], ndir):
                    yield it
    # ---- vector atoms -------------------------------------------------------------------------
    for m in ([2] if (getattr(g, 'hist', False) and not thorough) else [2, 3]):
        for atom, par in _vec_variants(m, thorough):
            info = ATOMS[atom]
            pos = info['dom'] is not None
            base = {'atom': atom, 'par': par, 'u': g.arg(m, [m], pos)}
            tag = '%s%s|vec(%d)' % (atom, _parname(par), m)
            vts = int_vts if atom in ('norm2', 'norm1') and m == 2 else ('C',)
            for it in _term_cases(g, fe, tag, base, [], info['curv'], [], ndir, vts=vts):
                yield it
    # entropy of a scalar argument
    base = {'atom': 'entropy', 'par': None, 'u': g.scal(True)}
    for it in _term_cases(g, fe, 'entropy|scalar', base, [], -1, [], ndir):
        yield it
    # ---- piecewise -----------------------------------------------------------------------------
    for atom in ('maxof', 'minof'):
        pieces = [g.scal(False, 0), g.scal(False, 1), g.const(0.25)]
        base = {'atom': atom, 'pieces': pieces}
        vts = int_vts if atom == 'maxof' else ('C',)
        for it in _term_cases(g, fe, '%s|pieces(3)' % atom, base, [], ATOMS[atom]['curv'], [], ndir, vts=vts):
            yield it
    # ---- constraint-only atoms ---------------------------------------------------------------
    V0 = np.zeros((1, n))
    for m in ([2, 3] if thorough else [2]):
        u = g.arg(m, [m], False)
        y, z = g.scal(True, 0), g.scal(True, 1)
        c = {'kind': 'rsocone', 'u': u, 'y': y, 'z': z, 'tag': 'main'}
        assert cons_eval(c, V0)[0][0] < -0.3
        for d in range(ndir):
            yield ('rsocone|vec(%d)|cons' % m, 'k=1', _mk(g, fe, [c], g.direction(d)))
        qs = [[0.5, 0.25, 0.25][:m], g.arg(m, [m], True)]
        qs[1] = {'A': [[-v for v in r] for r in qs[1]['A']], 'b': qs[1]['b'], 'shape': qs[1]['shape']}
        for qi, q in enumerate(qs):
            pa = g.arg(m, [m], True)
            c = {'kind': 'kldiv', 'p': pa, 'q': q, 'r': g.const(0.0), 'tag': 'main'}
            extra = []
            if isinstance(q, dict):
                extra = [{'kind': 'lin', 'l': q, 'rel': '>=', 'rhs': g.const(0.25, [m])}]
            val = cons_eval(c, V0)[0][0]
            for aff_r in (True, False):
                r = g.rhs_for({'atom': None, 'lin': g.const(val)}, '<=', [], aff_r)
                cc = dict(c)
                cc['r'] = r
                for d in range(ndir):
                    yield ('kldiv(q=%s,r=%s)|vec(%d)|cons' % ('const' if qi == 0 else 'var', 'aff' if aff_r else 'const', m),
                           'k=1', _mk(g, fe, extra + [cc], g.direction(d)))
    xs, zs = g.scal(False, 0), g.scal(True, 1)
    c = {'kind': 'expcone', 'y': g.const(0.0), 'x': xs, 'z': zs, 'tag': 'main'}
    val = cons_eval(c, V0)[0][0]
    for aff_y in (True, False):
        # y >= z exp(x/z):  y = rhs with margin (here the affine side is the LARGER one, so use '<=' rounding)
        yv = g.rhs_for({'atom': None, 'lin': g.const(val)}, '<=', [], aff_y)
        cc = dict(c)
        cc['y'] = yv
        extra = [{'kind': 'lin', 'l': zs, 'rel': '>=', 'rhs': g.const(0.25)}]
        for d in range(ndir):
            yield ('expcone(y=%s)|scalar|cons' % ('aff' if aff_y else 'const'), 'k=1',
                   _mk(g, fe, extra + [cc], g.direction(d)))
