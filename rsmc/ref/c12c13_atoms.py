"""R-atoms for C12: closed forms of every convex/concave atom that RSOME can evaluate, and of the
multiplier / sign / offset chains wrapped around them.  Pure NumPy; never imports rsome.

An atom spec is a dict {'a': name, ...params}.  `atom_value(spec, v)` is the mathematical value of the atom at
the (already evaluated) inner argument v.  A chain is applied to (F, O) -> value = K*F + O with K the total factor on
the atom term and O the accumulated affine offset, so that failures can be diagnosed (term negated, offset counted
twice, ...).
"""
import numpy as np

# name -> (input kind, domain)   input kind: 'any' elementwise on any shape, 'vec' needs 1-D
ATOMS = {
    'abs':      ('any', 'R'),
    'square':   ('any', 'R'),
    'exp':      ('any', 'R'),
    'softplus': ('any', 'R'),
    'log':      ('any', '+'),
    'power3':   ('any', '+'),      # x**3
    'power32':  ('any', '+'),      # x**(3/2)
    'powerv':   ('any', '+'),      # x**[2,3,4] (array exponents)
    'pexp2':    ('any', 'R'),      # 2*exp(x/2)
    'plog2':    ('any', '+'),      # 2*log(x/2)
    'pexpv':    ('any', 'R'),      # s*exp(x/s), s a decision variable
    'norm1':    ('vec', 'R'),
    'norm2':    ('vec', 'R'),
    'norminf':  ('vec', 'R'),
    'pnorm3':   ('vec', 'R'),      # integer degree  -> SOC representable form
    'pnorm25':  ('vec', 'R'),      # float degree    -> exponential-cone form
    'pnorm52':  ('vec', 'R'),      # degree as the pair (5, 2)
    'pnorm3x':  ('vec', 'R'),      # integer degree, method='exc'
    'sumsqr':   ('vec', 'R'),
    'quadp':    ('vec', 'R'),      # x'Qx, Q positive definite
    'quadn':    ('vec', 'R'),      # x'Qx, Q negative definite
    'entropy':  ('vec', '+'),
    'expsum':   ('vec', 'R'),      # exp(x).sum()
    'logsum':   ('vec', '+'),      # log(x).sum()
    'fnorm':    ('any', 'R'),      # Frobenius norm of the array
    'gmean':    ('vec', '+'),      # no evaluation implemented -> must raise, never return a number
}
QP = np.array([[2.0, 0.5, 0.0], [0.5, 1.0, 0.25], [0.0, 0.25, 1.5]])
POWV = np.array([2, 3, 4])


def atom_value(name, v, scale=None):
    v = np.asarray(v, dtype=float)
    if name == 'abs':
        return np.abs(v)
    if name == 'square':
        return v ** 2
    if name == 'exp':
        return np.exp(v)
    if name == 'softplus':
        return np.log1p(np.exp(v))
    if name == 'log':
        return np.log(v)
    if name == 'power3':
        return v ** 3
    if name == 'power32':
        return v ** 1.5
    if name == 'powerv':
        return v ** POWV[:v.shape[-1]] if v.ndim else v ** 2
    if name == 'pexp2':
        return 2.0 * np.exp(v / 2.0)
    if name == 'plog2':
        return 2.0 * np.log(v / 2.0)
    if name == 'pexpv':
        return scale * np.exp(v / scale)
    if name == 'norm1':
        return np.abs(v).sum()
    if name == 'norm2':
        return np.sqrt((v ** 2).sum())
    if name == 'fnorm':
        return np.sqrt((v ** 2).sum())
    if name == 'norminf':
        return np.abs(v).max()
    if name in ('pnorm3', 'pnorm3x'):
        return (np.abs(v) ** 3).sum() ** (1 / 3)
    if name in ('pnorm25', 'pnorm52'):
        return (np.abs(v) ** 2.5).sum() ** (1 / 2.5)
    if name == 'sumsqr':
        return (v ** 2).sum()
    if name == 'quadp':
        q = QP[:v.size, :v.size]
        return float(v @ q @ v)
    if name == 'quadn':
        q = -QP[:v.size, :v.size]
        return float(v @ q @ v)
    if name == 'entropy':
        return -(v * np.log(v)).sum()
    if name == 'expsum':
        return np.exp(v).sum()
    if name == 'logsum':
        return np.log(v).sum()
    raise KeyError(name)


# ---------------------------------------------------------------- chains
CHAINS = ('f', 'k*f', 'f*k', 'k*f+c', 'c+k*f', 'k*f+a', 'a+k*f', 'c-k*f', 'k*f-a', 'k*(f+c)', '(k*f+c)*h+g', '-(k*f)',
          'k*(f+a)', 'k*f+s')
KS = (1.0, 2.0, 0.5, -1.0, -2.0, -0.5)
C1, H1, G1 = 0.75, -1.5, 0.25


def chain_KO(chain, k, a):
    """Total factor K on the atom term and offset O (a = value of the affine operand, array or scalar)."""
    if chain == 'f':
        return 1.0, 0.0
    if chain in ('k*f', 'f*k'):
        return k, 0.0
    if chain in ('k*f+c', 'c+k*f'):
        return k, C1
    if chain in ('k*f+a', 'a+k*f', 'k*f+s'):
        return k, a
    if chain == 'c-k*f':
        return -k, C1
    if chain == 'k*f-a':
        return k, -a
    if chain == 'k*(f+c)':
        return k, k * C1
    if chain == '(k*f+c)*h+g':
        return k * H1, C1 * H1 + G1
    if chain == '-(k*f)':
        return -k, 0.0
    if chain == 'k*(f+a)':
        return k, k * a
    raise KeyError(chain)


def apply_chain(chain, k, f, a):
    """Build the chained expression from an rsome convex object f (or a NumPy value: same operators)."""
    if chain == 'f':
        return f
    if chain == 'k*f':
        return k * f
    if chain == 'f*k':
        return f * k
    if chain == 'k*f+c':
        return k * f + C1
    if chain == 'c+k*f':
        return C1 + k * f
    if chain in ('k*f+a', 'k*f+s'):
        return k * f + a
    if chain == 'a+k*f':
        return a + k * f
    if chain == 'c-k*f':
        return C1 - k * f
    if chain == 'k*f-a':
        return k * f - a
    if chain == 'k*(f+c)':
        return k * (f + C1)
    if chain == '(k*f+c)*h+g':
        return (k * f + C1) * H1 + G1
    if chain == '-(k*f)':
        return -(k * f)
    if chain == 'k*(f+a)':
        return k * (f + a)
    raise KeyError(chain)


def diagnose(observed, K, F, O, alts=None):
    """Classify a wrong value.  observed/F/O broadcastable arrays; alts: {failure name: alternative atom value}."""
    alts = alts or {}
    try:
        obs = np.asarray(observed, dtype=float)
        exp = K * np.asarray(F, dtype=float) + O
        for name, fa in alts.items():
            alt = K * np.asarray(fa, dtype=float) + O
            if obs.shape == np.shape(alt) and np.allclose(obs, alt, rtol=1e-9, atol=1e-9):
                return name
        if obs.shape != np.shape(exp):
            return 'shape'
        if np.allclose(obs, -K * np.asarray(F) + O, rtol=1e-9, atol=1e-9):
            return 'atom term negated'
        if np.any(np.asarray(O) != 0) and np.allclose(obs, exp + O, rtol=1e-9, atol=1e-9):
            return 'offset counted twice'
    except Exception:  # noqa
        pass
    return 'value'


def alternatives(name, v):
    """Named wrong readings of an atom, used only to label a failure."""
    v = np.asarray(v, dtype=float)
    if name == 'expsum':
        return {'sum over entries lost': np.exp(v)}
    if name == 'logsum':
        return {'sum over entries lost': np.log(v)}
    if name in ('pexp2', 'pexpv'):
        return {'perspective scale ignored': np.exp(v)}
    if name == 'plog2':
        return {'perspective scale ignored': np.log(v)}
    return {}
