"""Shared helpers of the C08 / C18 / C19 checks: solver wrappers and standard-form snapshots.

Nothing here imports rsome at module import time (gen_cases runs in the parent); `load()` does.
"""
import copy
import numpy as np

_rs = {}


def load():
    """Import rsome and the installed solver interfaces once per process."""
    if _rs:
        return _rs
    import rsome
    from rsome import ro, dro, lp, E
    from rsome import eco_solver, grb_solver, ort_solver
    import scipy.sparse as sp
    _rs.update(rso=rsome, ro=ro, dro=dro, lp=lp, E=E, eco=eco_solver, grb=grb_solver, ort=ort_solver, sp=sp)
    return _rs


# ------------------------------------------------------------------------------------------------
# solving a compiled formula through one interface, with a uniform verdict
# ------------------------------------------------------------------------------------------------
def solve_formula(formula, iface):
    """-> (verdict, value, x, raw_status).  verdict in {'optimal','inaccurate','infeasible','unbounded','fail','error:<T>'}.

    The interface functions are called exactly as `formula.solve(solver)` calls them, except for
    display=False (display=True only prints and sleeps 0.2 s).
    """
    rs = load()
    try:
        if iface == 'def':
            sol = rs['lp'].def_sol(formula, display=False)
        elif iface == 'grb':
            # NonConvex=1 + time limit: a non-convex model (possible only after a faulty dualisation) is refused at once
            # instead of being handed to Gurobi's spatial branch and bound
            sol = rs[iface].solve(formula, display=False, params={'TimeLimit': 5, 'NonConvex': 1})
        else:
            sol = rs[iface].solve(formula, display=False)
    except Exception as ex:  # noqa
        return 'error:' + type(ex).__name__, float('nan'), None, str(ex)[:120]
    st = sol.status
    val = sol.objval
    ok = sol.x is not None and val is not None and not np.isnan(val)
    if iface == 'eco':
        s = str(st)
        if ok and s.startswith('Optimal'):
            v = 'optimal'
        elif ok:
            v = 'inaccurate'
        elif 'Primal infeasible' in s:
            v = 'infeasible'
        elif 'Dual infeasible' in s or 'nbounded' in s:
            v = 'unbounded'
        else:
            v = 'fail'
    elif iface == 'def':
        v = {0: 'optimal', 2: 'infeasible', 3: 'unbounded'}.get(st, 'fail')
        if v == 'optimal' and not ok:
            v = 'fail'
    elif iface == 'grb':
        v = {2: 'optimal', 3: 'infeasible', 4: 'infeasible', 5: 'unbounded', 13: 'inaccurate'}.get(st, 'fail')
        if v == 'optimal' and not ok:
            v = 'fail'
    elif iface == 'ort':
        v = 'optimal' if ok else 'fail'
    else:
        raise ValueError(iface)
    return v, (float(val) if ok else float('nan')), (np.array(sol.x, dtype=float) if ok else None), str(st)


def formula_kind(formula):
    if getattr(formula, 'xmat', None):
        return 'exp'
    if getattr(formula, 'qmat', None):
        return 'soc'
    return 'lp'


# ------------------------------------------------------------------------------------------------
# deep snapshots of standard forms and their numerical comparison
# ------------------------------------------------------------------------------------------------
FIELDS = ('linear', 'const', 'sense', 'vtype', 'ub', 'lb', 'obj', 'qmat', 'xmat')


def _canon(a):
    a = np.array(a, dtype=float, copy=True)
    a = a + 0.0              # maps -0.0 to +0.0
    return a


def snapshot(formula):
    """Deep copy of every numeric field of a compiled program (independent of the formula object)."""
    snap = {'cls': type(formula).__name__}
    lin = formula.linear
    snap['shape'] = tuple(int(i) for i in lin.shape)
    snap['linear'] = _canon(lin.toarray())
    for f in ('const', 'sense', 'ub', 'lb', 'obj'):
        v = getattr(formula, f, None)
        snap[f] = None if v is None else _canon(np.asarray(v).reshape(-1))
    snap['vtype'] = ''.join(str(c) for c in np.asarray(formula.vtype).reshape(-1))
    snap['qmat'] = [[int(i) for i in q] for q in getattr(formula, 'qmat', [])]
    snap['xmat'] = [[int(i) for i in q] for q in getattr(formula, 'xmat', [])]
    snap['nlmi'] = len(getattr(formula, 'lmi', []) or [])
    return snap


def snap_diff(a, b, rtol=0.0):
    """First differing field of two snapshots ('' if numerically identical; -0.0 == 0.0, inf == inf).

    rtol > 0 (used only for float32 user data, whose arithmetic rsome may legitimately carry out in single
    precision) accepts entries with |x - y| <= rtol * (1 + |y|)."""
    if a['shape'] != b['shape']:
        return 'shape %s vs %s' % (a['shape'], b['shape'])
    for f in ('linear', 'const', 'sense', 'ub', 'lb', 'obj'):
        x, y = a[f], b[f]
        if x is None or y is None:
            if x is not y:
                return f + ' None'
            continue
        if x.shape != y.shape:
            return '%s shape %s vs %s' % (f, x.shape, y.shape)
        if not np.array_equal(x, y):
            same = (x == y) | (np.isnan(x) & np.isnan(y))
            if rtol:
                with np.errstate(invalid='ignore'):
                    same = same | (np.abs(x - y) <= rtol * (1 + np.abs(y)))
            idx = np.argwhere(~same)
            if len(idx) == 0:
                continue
            i = tuple(int(j) for j in idx[0])
            return '%s%s %r vs %r' % (f, list(i), float(x[i]), float(y[i]))
    if a['vtype'] != b['vtype']:
        return 'vtype %s vs %s' % (a['vtype'], b['vtype'])
    for f in ('qmat', 'xmat'):
        if a[f] != b[f]:
            return '%s %s vs %s' % (f, str(a[f])[:60], str(b[f])[:60])
    if a['nlmi'] != b['nlmi']:
        return 'lmi count'
    return ''


def snap_field(diff):
    """Stable name of the differing field (first token of a snap_diff message)."""
    tok = diff.split(' ')[0]
    return tok.split('[')[0]


def snap_digest(snap):
    """Process-independent digest of a snapshot (exact float reprs; -0.0 already mapped to 0.0)."""
    import hashlib
    h = hashlib.sha256()
    h.update(repr(snap['shape']).encode())
    for f in ('linear', 'const', 'sense', 'ub', 'lb', 'obj'):
        v = snap[f]
        h.update(f.encode())
        if v is not None:
            h.update(np.ascontiguousarray(v, dtype=np.float64).tobytes())
    h.update(snap['vtype'].encode())
    h.update(repr(snap['qmat']).encode())
    h.update(repr(snap['xmat']).encode())
    return h.hexdigest()[:24]


def deepcopy_snapshot(snap):
    return copy.deepcopy(snap)
