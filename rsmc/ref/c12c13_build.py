"""Worker-side helpers shared by C12/C13: turn pure-data specs into RSOME API calls.

Only this module (of the c12c13 helpers) touches rsome, and only inside functions called from a worker.
Nothing here judges anything: the oracles live in the property modules and in c12c13_part / c12c13_atoms.
"""
import numpy as np

_rs = {}


def init():
    if _rs:
        return _rs
    import rsome
    from rsome import ro, dro, E
    import rsome.lp as lp
    import pandas as pd
    _rs.update(rso=rsome, ro=ro, dro=dro, E=E, lp=lp, pd=pd)
    try:
        from rsome import eco_solver
        _rs['eco'] = eco_solver
    except Exception:  # noqa
        _rs['eco'] = None
    return _rs


class Ops:
    """Counts RSOME API operations applied by a case."""

    def __init__(self):
        self.n = 0

    def __call__(self, k=1):
        self.n += k


def errname(ex):
    return type(ex).__name__


# ------------------------------------------------------------------ dro model with labelled scenarios
def dro_model(kind, n, labels):
    dro = _rs['dro']
    if kind == 'int':
        return dro.Model(n)
    return dro.Model(list(labels))


CORE_FORMS = ('auto', 'list', 'tuple')
SCEN_FORMS = ('scen', 'loc', 'iloc')
FORMS = CORE_FORMS + SCEN_FORMS


def block_arg(form, block, labels, fset):
    """The argument of x.adapt() that designates the scenarios at positions `block`, in the given surface form."""
    labs = [labels[i] for i in block]
    if form == 'auto':
        return labs[0] if len(labs) == 1 else labs
    if form == 'list':
        return labs
    if form == 'tuple':
        return tuple(labs)
    if form == 'scen':
        return fset[labs[0]] if len(labs) == 1 else fset[labs]
    if form == 'loc':
        return fset.loc[labs[0]] if len(labs) == 1 else fset.loc[labs]
    if form == 'iloc':
        return fset.iloc[block[0]] if len(block) == 1 else fset.iloc[list(block)]
    raise ValueError(form)


def idx_of(ids, total):
    """Index expression selecting positions `ids` of a 1-D array of length `total`: whole -> None (use the array
    itself), single -> int, contiguous -> slice, otherwise list."""
    ids = list(ids)
    if ids == list(range(total)):
        return None
    if len(ids) == 1:
        return ids[0]
    if ids == list(range(ids[0], ids[-1] + 1)):
        return slice(ids[0], ids[-1] + 1)
    return ids


def sub(obj, ids, total, style='nat'):
    """obj restricted to positions ids.  style 'nat': natural form (whole array when ids is everything),
    'idx': always index (obj[0:total])."""
    ix = idx_of(ids, total)
    if ix is None:
        if style == 'idx':
            return obj[0:total]
        return obj
    return obj[ix]


# ------------------------------------------------------------------ random layouts for mask models
RAND_LAYOUTS = {
    'z3': [3],            # one array of three components
    'z2w': [2, 0],        # an array of two and a scalar (shape ())
    'z2': [2],
    'wz2': [0, 2],
    'z1': [1],
}


def rand_dim(layout):
    return sum(max(s, 1) for s in RAND_LAYOUTS[layout])


def make_rvars(m, layout):
    """Declare the random variables of a layout; returns list of (rvar, [global component ids])."""
    out = []
    k = 0
    for s in RAND_LAYOUTS[layout]:
        if s == 0:
            out.append((m.rvar(), [k]))
            k += 1
        else:
            out.append((m.rvar(s), list(range(k, k + s))))
            k += s
    return out


def declare_rect(y, rows, cols, rvars, nrows, style='nat'):
    """Declare dependence of decision rows on global random components `cols` (one adapt call per random
    variable touched).  Returns the number of adapt calls."""
    calls = 0
    for rv, comps in rvars:
        hit = [c for c in cols if c in comps]
        if not hit:
            continue
        if rv.shape == ():
            rsel = rv
        else:
            rsel = sub(rv, [c - comps[0] for c in hit], len(comps), style)
        ysel = y if tuple(getattr(y, 'shape', (1,))) == () else sub(y, rows, nrows, style)
        ysel.adapt(rsel)
        calls += 1
    return calls


def rand_expr(rvars, coef):
    """sum_j coef[:, j] * z_j as an RSOME expression (coef: nrows x d ndarray)."""
    e = None
    for rv, comps in rvars:
        c = coef[:, comps]
        if rv.shape == ():
            t = c[:, 0] * rv
        else:
            t = c @ rv
        e = t if e is None else e + t
    return e


def box_constraints(rvars, r=1.0):
    out = []
    for rv, _ in rvars:
        out.append(rv >= -r)
        out.append(rv <= r)
    return out


def assign_all(rvars, vec):
    """RandVal list assigning global realisation vector vec."""
    out = []
    for rv, comps in rvars:
        v = np.array([vec[c] for c in comps], dtype=float)
        if rv.shape == ():
            out.append(rv.assign(float(v[0])))
        else:
            out.append(rv.assign(v))
    return out


def is_optimal(m):
    sol = m.solution
    if sol is None:
        return False
    try:
        return bool(np.isfinite(sol.objval)) and sol.x is not None
    except Exception:  # noqa
        return False


# ------------------------------------------------------------------ pinned models (C12)
def pinned_values(shape, k0, pal, positive=True):
    """Distinct dyadic values for the entries of one variable; k0 = global index of its first entry."""
    size = int(np.prod(shape)) if len(shape) else 1
    k = np.arange(k0, k0 + size, dtype=float)
    if pal % 4 == 0:
        v = 0.25 + 0.5 * k
    elif pal % 4 == 1:
        v = 12.0 - 0.5 * k
    elif pal % 4 == 2:
        v = 0.375 + 0.75 * ((k * 5) % 13)
    else:
        v = 0.5 + 0.25 * k * k
    if not positive:
        v = v * np.where(k % 2 == 0, 1.0, -1.0)
    return v.reshape(shape)


class Env:
    """A solved model whose every variable entry is pinned to a known, distinct value.

    fe 'ro'  : ro.Model, `x == V` (pin 'eq'), tight bounds (pin 'bnd') or a linear objective over one-sided bounds ('obj')
    fe 'droN': dro.Model with N scenarios; a variable with an adapt history `hist` is pinned per event through an
               indicator random variable u_v whose support in scenario s is the singleton {sigma_v[block of s]}:
               x == A + C*u_v, so x(s) = A + C*sigma_v[block(s)]  (pin 'eq'); pin 'obj' uses x >= A + C*u_v with
               an expectation objective under fixed probabilities.
    Values: self.val[name][s] (ndarray) for scenario position s (ro: s = 0).
    """

    def __init__(self, fe, varspecs, pal=0, pin='eq', sense='min', lab='int', rand=None, positive=True, objform='wc'):
        from . import c12c13_part as P
        rs = _rs
        self.fe, self.pin, self.sense, self.pal = fe, pin, sense, pal
        self.ops = Ops()
        self.is_ro = fe in ('ro', 'lp', 'socp', 'gcp')
        self.n = 1 if self.is_ro else int(fe[3:])
        n = self.n
        self.labels = P.labels_for(lab, n) if not self.is_ro else [0]
        if fe == 'ro':
            m = rs['ro'].Model()
        elif self.is_ro:
            import importlib
            m = importlib.import_module('rsome.' + fe).Model()       # the deterministic front ends
        else:
            m = dro_model(lab, n, self.labels)
        self.m = m
        self.ops()
        self.vars, self.val, self.spec, self.hist, self.part = {}, {}, {}, {}, {}
        self.order = []
        k0 = 0
        self.rand = {}
        self.randspec = rand or []
        fset = None
        if not self.is_ro:
            fset = m.ambiguity()
            self.ops()
        self.fset = fset
        sup = [[] for _ in range(n)]
        cons = []
        robust = []
        costs = {}
        pend = []
        for vs in varspecs:
            name, shape = vs['name'], tuple(vs['shape'])
            hist = [list(b) for b in (vs.get('hist') or [])]
            x = m.dvar(shape) if shape != () else m.dvar()
            self.ops()
            self.vars[name] = x
            self.order.append(name)
            self.spec[name] = vs
            self.hist[name] = hist
            self.part[name] = P.declared_partition(hist, n)
            if not self.is_ro:
                for blk in hist:
                    labs = [self.labels[i] for i in blk]
                    x.adapt(labs if vs.get('form', 'list') == 'list' or len(labs) > 1 else labs[0])
                    self.ops()
        # all decisions are declared before any constraint is built (dro expressions do not grow with later dvars)
        for vs in varspecs:
            name, shape = vs['name'], tuple(vs['shape'])
            x, hist, part = self.vars[name], self.hist[name], self.part[name]
            A = pinned_values(shape, k0, pal, positive)
            size = A.size
            C = (0.125 * (1 + (np.arange(k0, k0 + size) % 3))).reshape(shape)
            k0 += size
            cost = (1.0 + (np.arange(size) % 3)).reshape(shape)
            costs[name] = cost
            if self.is_ro or (not hist and not vs.get('ind')):
                V = A + C
                self.val[name] = [V.copy() for _ in range(n)]
                if pin == 'eq':
                    cons.append(x == V)
                elif pin == 'bnd':
                    cons.append(x >= V)
                    cons.append(x <= V)
                else:
                    cons.append(x >= V)
                self.ops()
            else:
                u = m.rvar()
                self.ops()
                blocks = sorted(part, key=min)
                sig = {}
                for bi, b in enumerate(blocks):
                    for s in b:
                        sig[s] = 1.0 + bi * (1 + (k0 % 2))
                for s in range(n):
                    sup[s].append(u == sig[s])
                self.val[name] = [A + C * sig[s] for s in range(n)]
                pend.append((x, A, C, u))
        for x, A, C, u in pend:
            if pin == 'eq':
                robust.append(x == A + C * u)
            else:
                robust.append(x >= A + C * u)
            self.ops()
        # extra random variables (for bi-affine expressions): box support
        for rsp in self.randspec:
            z = m.rvar(tuple(rsp['shape'])) if tuple(rsp['shape']) != () else m.rvar()
            self.rand[rsp['name']] = z
            self.ops()
            for s in range(n):
                sup[s].append(z >= -4)
                sup[s].append(z <= 4)
        if not self.is_ro and objform == 'E' and not pend and not self.randspec:
            z = m.rvar()                 # an expectation objective needs at least one random variable to exist
            self.rand['_dummy'] = z
            self.ops()
            for s in range(n):
                sup[s].append(z >= -1)
                sup[s].append(z <= 1)
        self.costs = costs
        # ---- objective
        lin = 1.5
        for name in self.order:
            x = self.vars[name]
            cst = costs[name] if sense == 'min' or pin != 'obj' else -costs[name]
            lin = lin + ((cst * x).sum() if self.spec[name]['shape'] != () and tuple(self.spec[name]['shape']) != () else cst * x)
        self.sign_cost = {nm: (costs[nm] if sense == 'min' or pin != 'obj' else -costs[nm]) for nm in self.order}
        if self.is_ro:
            (m.min if sense == 'min' else m.max)(lin)
            if self.rand:
                sup_all = sup[0]
                cons = [c for c in cons]
                self.uset = sup_all
            if fe == 'ro':
                m.st(cons)
            else:
                for c in cons:
                    m.st(c)
            self.ops(2)
            self.objform = 'det'
        else:
            for s in range(n):
                if sup[s]:
                    fset.iloc[s].suppset(*sup[s])
                    self.ops()
            p, _ = P.palette_pd(n, pal)
            self.p = p
            self.objform = objform
            if objform == 'wc':
                (m.min if sense == 'min' else m.max)(lin)
            else:
                fset.probset(m.p == p)
                E = rs['E']
                (m.minsup if sense == 'min' else m.maxinf)(E(lin), fset)
            if cons:
                m.st(cons)
            for rc in robust:
                m.st(rc.forall(fset) if objform == 'wc' else rc)
            self.ops(2 + len(robust))
        self.lin_at = lambda s: 1.5 + sum(float((self.sign_cost[nm] * self.val[nm][s]).sum()) for nm in self.order)

    def solve(self):
        self.m.solve(display=False)
        self.ops()
        return is_optimal(self.m)

    def expected_objective(self):
        vals = [self.lin_at(s) for s in range(self.n)]
        if self.is_ro:
            return vals[0]
        if self.objform == 'wc':
            return max(vals) if self.sense == 'min' else min(vals)
        return float(np.dot(self.p, vals))

    # ---- reference index arithmetic into the raw solver vector
    def raw(self, name, s):
        from . import c12c13_part as P
        sol = np.asarray(self.m.solution.x, dtype=float)
        shape = tuple(self.spec[name]['shape'])
        size = int(np.prod(shape)) if shape else 1
        if self.is_ro:
            first = 1
            for nm in self.order:
                if nm == name:
                    break
                sh = tuple(self.spec[nm]['shape'])
                first += int(np.prod(sh)) if sh else 1
            return sol[first:first + size].reshape(shape)
        off = 1 + 1                     # epigraph variable of the compiled model + the internal objective decision
        for nm in self.order:
            sh = tuple(self.spec[nm]['shape'])
            sz = int(np.prod(sh)) if sh else 1
            order = P.reference_event_order(self.hist[nm], self.n)
            if nm == name:
                e = [i for i, b in enumerate(order) if s in b][0]
                return sol[off + e * sz: off + (e + 1) * sz].reshape(shape)
            off += sz * len(order)
        raise KeyError(name)

    def check_raw(self, tol=1e-6):
        """None if the raw vector holds the pinned values where the reference arithmetic expects them."""
        for nm in self.order:
            for s in range(self.n):
                r = self.raw(nm, s)
                v = self.val[nm][s]
                if r.shape != v.shape or not np.allclose(r, v, rtol=0, atol=tol * (1 + np.abs(v).max())):
                    return 'variable %s scenario %d: raw %s pinned %s' % (nm, s, r.tolist(), v.tolist())
        return None
