"""C09 family 2: cache protocol.  Histories over the alphabet

    st:<decl>   declare (build the expressions now and hand the constraint to st); each declaration at most once
    P           f = m.do_math()                 -> checkpoint: optimum of f
    D           f = m.do_math(primal=False)     -> checkpoint: optimum of the dual program
    S / Sd      m.solve(eco_solver) / m.solve() -> checkpoint: m.get(), x.get()
    Q           m.soc_solve(eco_solver)         -> checkpoint: m.get()
    G           m.get(), x.get()                -> must repeat the values of the last solve

Every checkpoint is compared with a *fresh* model in which the declarations made so far are applied in canonical
order and the same operation is applied once.  seq: one word per case, no abstraction.  graph: BFS over the
abstract key to a fixpoint (deep copies of live states, honest replay before anything is reported).
"""
import copy
import numpy as np
from . import c09c15_common as C

NX = 16
W = 1.0 + 0.25 * np.arange(NX)
C0 = np.array([0.5, -1.0])
C1 = np.array([1.0, 0.5])
C2 = np.array([-0.5, 1.0])
C3 = np.array([1.0, -1.0])

RO_DECL = ['lin', 'bnd', 'soc', 'ipc', 'exp', 'rown', 'rdef', 'late', 'adapt', 'pow', 'rsoc', 'ent', 'refor']
DRO_DECL = ['lin', 'bnd', 'soc', 'ipc', 'exp', 'rob', 'ecn', 'late', 'evt', 'pow', 'rsoc', 'ent', 'lsupp', 'lsuppb',
            'lsuppw', 'lexp', 'lexpe', 'lprob', 'lprob0', 'reford']
# RE-DEFINITIONS: a declaration that replaces an earlier definition.  The declared model holds, per slot, the LAST
# definition of the history; the canonical fresh build writes that final definition once, directly.
REDEF = {'dro': {'lsupp': ('supp0',), 'lsuppb': ('supp0',), 'lsuppw': ('supp0', 'supp1'), 'lprob': ('prob',),
                 'lprob0': ('prob',), 'reford': ('robset',)},
         'ro': {'refor': ('rownset',)}, 'rox': {}}
REQUIRES = {'refor': 'rown', 'reford': 'rob'}      # 'forall again' needs the stated constraint


def final_slots(fe, declared):
    slots = {}
    for name in declared:
        for slot in REDEF[fe].get(name, ()):
            slots[slot] = name
    return slots


def _supp(rso, z, ident, scen):
    if ident == 'lsupp':
        return [rso.norm(z, 1) <= 1.25, z <= 0.75]
    if ident == 'lsuppb':
        return [z <= np.array([0.5, 1.25]), z >= np.array([-1.25, -0.5])]
    if ident == 'lsuppw':
        return [rso.norm(z, 2) <= 0.875, z[0] - z[1] <= 1.0]
    return [z <= 1, z >= -1] if scen == 0 else [z <= 0.5, z >= -0.5]


def _prob(p, ident):
    if ident == 'lprob':
        return [p <= np.array([0.5, 0.875])]
    if ident == 'lprob0':
        return []
    return [p <= np.array([0.625, 0.75])]


def _rownset(rso, z, ident):
    if ident == 'refor':
        return [rso.norm(z, 2) <= 0.75, z[0] <= 0.25]
    return [rso.norm(z, 1) <= 0.5]


def _robset(z):
    return [z <= np.array([0.5, 0.75]), z >= np.array([-0.25, -0.5])]
OPS = ['P', 'D', 'S', 'Sd', 'Q', 'G']
# 'rox': an ro model whose deterministic part has ONLY exp-type constraints (no LinConstr / Bounds / norm at all)
RX_DECL = ['x0', 'x1', 'x2', 'x3']
DECLS = {'ro': RO_DECL, 'dro': DRO_DECL, 'rox': RX_DECL}


class Env(object):
    pass


def base(fe, late_first=False, slots=None):
    """Base model.  late_first: canonical builds declare the 'late' variable together with the other variables."""
    R = C.R
    rso = R['rso']
    e = Env()
    e.fe = fe
    e.declared = []
    e.nops = 0
    e.reform = 0
    e.soc = False
    e.solved = None          # (value, x) recorded at the last solve
    e.last_primal = None
    e.w = None
    e.slots = dict(slots or {})      # canonical builds: final definition of every re-definable slot
    e.canonical = slots is not None
    if fe == 'rox':
        m = R['ro'].Model()
        e.m = m
        e.x = m.dvar(4)
        m.st(rso.exp(-e.x) <= 1.0)              # x >= 0, written with an exp-type row only
        m.min(W[:4] @ e.x)
        e.nops += 4
        return e
    if fe == 'ro':
        m = R['ro'].Model()
        e.m = m
        e.x = m.dvar(NX)
        e.z = m.rvar(2)
        e.y = m.ldr()
        if late_first:
            e.w = m.dvar()
        m.st(e.x >= 0)
        m.minmax(W @ e.x + e.z @ C0, rso.norm(e.z, 'inf') <= 1)
        e.nops += 6
    else:
        m = R['dro'].Model(2)
        e.m = m
        e.x = m.dvar(NX)
        e.v = m.dvar()
        if late_first:
            e.w = m.dvar()
        e.z = m.rvar(2)
        f = m.ambiguity()
        f[0].suppset(*_supp(rso, e.z, e.slots.get('supp0'), 0))
        f[1].suppset(*_supp(rso, e.z, e.slots.get('supp1'), 1))
        f.exptset(rso.E(e.z) <= 0.25, rso.E(e.z) >= -0.25)
        f.probset(*_prob(m.p, e.slots.get('prob')))
        e.f = f
        m.st(e.x >= 0)
        m.st(e.v >= 0)
        m.minsup(rso.E(rso.maxof(e.z @ C0 + 0.5, -0.5 * (e.z @ C0))) + W @ e.x + 4 * e.v, f)
        e.nops += 11
    return e


def declare(e, name):
    """Apply one declaration: expressions are created *now* (after whatever happened before)."""
    rso = C.R['rso']
    m, x, z = e.m, e.x, getattr(e, "z", None)
    if e.canonical and name in REDEF[e.fe]:
        pass                # the final definition was written directly (base / the stated constraint)
    elif name == 'x0':
        m.st(rso.exp(-x[0]) <= 0.5)
    elif name == 'x1':
        m.st(rso.log(x[1]) >= 0.25)
    elif name == 'x2':
        m.st(rso.softplus(-x[2]) <= 0.25)
    elif name == 'x3':
        m.st(rso.exp(1 - 2 * x[3]) <= 1.0, rso.entropy(0.25 * x[2:4] + 0.125) >= 0.5)
    elif name == 'lin':
        m.st(2 * x[0] >= 2.5)
    elif name == 'bnd':
        m.st(x[1] >= 0.75)
    elif name == 'soc':
        m.st(rso.square(x[2] - 2) <= 1)
    elif name == 'ipc':
        m.st(rso.pnorm(1 - x[3:5], 3) <= 0.5)
    elif name == 'exp':
        m.st(rso.exp(-x[5]) <= 0.5)
    elif name == 'pow':
        m.st(rso.power(2 - x[10], 3) <= 1)
    elif name == 'rsoc':
        m.st(rso.pnorm(1 - x[13:15], 4) <= 0.5)
    elif name == 'ent':
        m.st(rso.entropy(x[11:13]) >= 0.625, x[11:13] >= 0.125)
    elif e.fe == 'ro':
        if name == 'rown':
            e.rown_c = m.st((x[6] >= 1 + z @ C1).forall(*_rownset(rso, z, e.slots.get('rownset'))))
        elif name == 'refor':       # forall again on the stated constraint
            e.rown_c.forall(*_rownset(rso, z, 'refor'))
        elif name == 'rdef':
            m.st(x[7] >= 1 + z @ C2)
        elif name == 'late':
            w = e.w if e.w is not None else m.dvar()
            m.st(w >= 1.25)
            m.st(x[8] >= w + 0.25)
        elif name == 'adapt':
            y = e.y
            y.adapt(z)
            m.st(y >= z @ C3)
            m.st(x[9] >= y - z @ C3 + 0.5)
        else:
            raise ValueError(name)
    else:
        if name == 'rob':
            e.rob_c = (x[6] >= 1 + z @ C1)
            if e.slots.get('robset'):
                e.rob_c = e.rob_c.forall(_robset(z))
            m.st(e.rob_c)
        elif name == 'reford':      # forall again (support constraints) on the stated constraint
            e.rob_c.forall(_robset(z))
        elif name == 'ecn':
            m.st(rso.E(rso.maxof(z @ C2, 0.5 - z @ C2)) + 1 <= x[7])
        elif name == 'late':
            w = e.w if e.w is not None else m.dvar()
            m.st(w >= 1.25)
            m.st(x[8] >= w + 0.25)
        elif name == 'evt':
            e.v.adapt(0)
            m.st(e.v >= 1 + z @ C3)
        elif name in ('lsupp', 'lsuppb'):     # the support of scenario 0 is re-defined (event level)
            e.f[0].suppset(*_supp(rso, z, name, 0))
        elif name == 'lsuppw':      # whole-level re-definition: every scenario gets the new support
            e.f.suppset(*_supp(rso, z, name, 0))
        elif name == 'lexpe':       # one more expectation constraint, event level (cumulative by design)
            e.f[1].exptset(rso.E(z)[0] - rso.E(z)[1] <= 0.0625)
        elif name == 'lexp':        # one more (tighter) expectation constraint
            e.f.exptset(rso.E(z) <= 0.0625, rso.E(z) >= -0.0625)
        elif name in ('lprob', 'lprob0'):     # the probability set is re-defined / reset with no arguments
            e.f.probset(*_prob(m.p, name))
        else:
            raise ValueError(name)
    e.declared.append(name)
    e.nops += 2


def _xvals(e):
    xv = e.x.get()
    if hasattr(xv, 'values') and not isinstance(xv, np.ndarray):
        xv = np.concatenate([np.asarray(v, dtype=float).ravel() for v in xv.values])
    return np.asarray(xv, dtype=float).ravel()


def apply_op(e, sym):
    """Apply one alphabet symbol.  Returns an observation tuple or None (declarations)."""
    m = e.m
    eco = C.R['eco']
    if sym.startswith('st:'):
        declare(e, sym[3:])
        return None
    e.nops += 1
    if sym == 'P':
        f = m.do_math()
        _track(e)
        return ('P', C.solve_formula(f))
    if sym == 'D':
        f = m.do_math(primal=False)
        _track(e)
        return ('D', C.solve_formula(f))
    if sym in ('S', 'Sd', 'Q'):
        if sym == 'S':
            m.solve(eco, display=False)
        elif sym == 'Sd':
            m.solve(display=False)
        else:
            m.soc_solve(eco, display=False)
            e.soc = True
        _track(e)
        st = C.status_of(m.solution)
        xv = None
        if st[0] == 'opt':
            st = ('opt', float(m.get()))
            xv = _xvals(e)
        e.solved = (st, xv)
        return (sym, st, xv)
    if sym == 'G':
        if e.solved is None or e.solved[0][0] != 'opt':
            try:
                m.get()
            except RuntimeError:
                pass
            return ('G', None)
        val = float(m.get())
        xv = _xvals(e)
        return ('G', ('opt', val), xv)
    raise ValueError(sym)


def _track(e):
    p = e.m.primal
    if p is not None and p is not e.last_primal:
        e.reform += 1
        e.last_primal = p


_FRESH = {}


def fresh(fe, declared, sym):
    """Observation of `sym` on a fresh canonical build of the declared set."""
    order = DECLS[fe]
    names = tuple(n for n in order if n in declared)
    slots = final_slots(fe, declared)
    key = (fe, names, tuple(sorted(slots.items())), sym)
    if key in _FRESH:
        return _FRESH[key]
    try:
        e = base(fe, late_first='late' in names, slots=slots)
        for n in names:
            declare(e, n)
        obs = apply_op(e, sym)
    except Exception as ex:  # noqa
        obs = ('raise', C.exc_class(ex), str(ex)[:80])
    if len(_FRESH) > 4000:
        _FRESH.clear()
    _FRESH[key] = obs
    return obs


def compare(sym, obs, ref, e):
    """None if the observation agrees with the fresh reference, else (how, detail).  'vacuous' how for solver noise."""
    if ref[0] == 'raise':
        return ('fresh_raises:' + ref[1], 'fresh build raises %s: %s' % (ref[1], ref[2]))
    if sym in ('P', 'D'):
        tol = C.TOL_CONE
        c = C.compare_status(obs[1], ref[1], tol)
        if c == 'vacuous':
            return ('vacuous', '')
        if c == 'differ':
            return ('value', '%s optimum %s, fresh %s' % (sym, C.fmt(obs[1]), C.fmt(ref[1])))
        return None
    if sym in ('S', 'Sd', 'Q'):
        tol = {'S': C.TOL_CONE, 'Sd': C.TOL_LP * 10, 'Q': C.TOL_SOC_APPROX}[sym]
        c = C.compare_status(obs[1], ref[1], tol)
        if c == 'vacuous':
            return ('vacuous', '')
        if c == 'differ':
            return ('value', '%s optimum %s, fresh %s' % (sym, C.fmt(obs[1]), C.fmt(ref[1])))
        if obs[2] is not None and ref[2] is not None:
            a, b = obs[2], ref[2]
            n = min(len(a), len(b))
            if len(a) != len(b) or not np.allclose(a[:n], b[:n], rtol=0, atol=5e-3 if sym != 'Q' else 2e-2):
                return ('xvalue', 'x.get() %s, fresh %s' % (np.round(a, 4).tolist(), np.round(b, 4).tolist()))
        return None
    return None


def check_get(obs, e):
    if obs[1] is None or e.solved is None:
        return None
    st0, x0 = e.solved
    if st0[0] != 'opt':
        return None
    if not C.close(obs[1][1], st0[1], 1e-9) or (x0 is not None and not np.allclose(obs[2], x0, rtol=0, atol=1e-9)):
        return ('get_changed', 'get() %s / %s differs from the values right after the solve %s / %s' % (
            C.fmt(obs[1]), np.round(obs[2], 5).tolist(), C.fmt(st0), np.round(x0, 5).tolist()))
    return None


def run_word(fe, word, final=True):
    """Honest execution of one word on fresh objects.  Returns dict(first disagreement or None, counters)."""
    e = base(fe)
    word = list(word) + (['S'] if final else [])
    checks = 0
    decl_sets = set()
    vac = 0
    for k, sym in enumerate(word):
        try:
            obs = apply_op(e, sym)
        except Exception as ex:  # noqa
            if sym.startswith('st:') and isinstance(ex, SyntaxError):
                # a declaration refused loudly at hand-over by an order-of-declaration contract of the API
                # ("Adaptation must be defined before ..."): the history does not lead to a declared model
                return {'fail': None, 'both_raise': 'contract:' + C.exc_class(ex), 'k': k, 'checks': checks,
                        'env': e, 'sets': len(decl_sets), 'vac': vac}
            if sym.startswith('st:'):
                # would a fresh canonical build accept this declaration?
                ref = fresh(fe, tuple(e.declared) + (sym[3:],), 'P')
            else:
                ref = fresh(fe, tuple(e.declared), sym)
            if ref[0] == 'raise':
                return {'fail': None, 'both_raise': C.exc_class(ex), 'k': k, 'checks': checks, 'env': e,
                        'sets': len(decl_sets), 'vac': vac}
            return {'fail': ('history_raises:' + C.exc_class(ex), '%s raised %s: %s' % (
                sym, C.exc_class(ex), str(ex)[:100])), 'k': k, 'checks': checks, 'env': e,
                'sets': len(decl_sets), 'vac': vac}
        if obs is None:
            continue
        if sym == 'G':
            bad = check_get(obs, e)
        else:
            ref = fresh(fe, tuple(e.declared), sym)
            bad = compare(sym, obs, ref, e)
            checks += 1
            decl_sets.add(tuple(sorted(e.declared)))
        if bad is not None:
            if bad[0] == 'vacuous':
                vac += 1
                continue
            return {'fail': bad, 'k': k, 'checks': checks, 'env': e, 'sets': len(decl_sets), 'vac': vac}
    return {'fail': None, 'k': len(word), 'checks': checks, 'env': e, 'sets': len(decl_sets), 'vac': vac}


_MINI = {}


def _subseq(small, big):
    it = iter(big)
    return all(any(x == y for y in it) for x in small)


def minimise(fe, word, how):
    """Shortest sub-word (by greedy one-symbol deletion, honest replays) that still fails the same way at its end.
    A minimal failing word found earlier (same front end, same failure, same last symbol) that is a subsequence of
    this word is re-used without further replays."""
    for m_ in _MINI.get((fe, how, word[-1]), []):
        if _subseq(m_[:-1], word[:-1]):
            return list(m_)
    cur = _minimise(fe, word, how)
    _MINI.setdefault((fe, how, word[-1]), []).append(list(cur))
    return cur


def _minimise(fe, word, how):
    cur = list(word)
    changed = True
    while changed and len(cur) > 1:
        changed = False
        for i in range(len(cur) - 1):       # never delete the failing (last) symbol
            cand = cur[:i] + cur[i + 1:]
            try:
                r = run_word(fe, cand, final=False)
            except Exception:  # noqa
                continue
            if r['fail'] is not None and r['fail'][0] == how and r['k'] == len(cand) - 1:
                cur = cand
                changed = True
                break
    return cur


def run_seq(case):
    fe = case['fe']
    word = case['word']
    r = run_word(fe, word, final=True)
    e = r['env']
    res = {'ops': e.nops, 'states': r['checks'], 'transitions': e.nops}
    if r['fail'] is None:
        if r.get('both_raise'):
            res.update(status='unsupported', outcome='both_raise:' + r['both_raise'])
            return res
        if r['checks'] == 0:
            res.update(status='vacuous', outcome='no conclusive checkpoint (%d inconclusive)' % r['vac'])
            return res
        res.update(status='pass', outcome='agree:%d checkpoints' % min(r['checks'], 5),
                   nontrivial=bool(r['sets'] >= 2 or (r['checks'] >= 2 and len(e.declared) >= 1)), validated=1)
        return res
    how, detail = r['fail']
    full = (list(word) + ['S'])[:r['k'] + 1]
    mini = minimise(fe, full, how)
    res.update(status='violation', sig='seq|%s|min:%s|%s' % (fe, '>'.join(mini), how),
               detail='word %s fails at symbol %d (%s): %s' % (' '.join(full), r['k'], full[-1], detail))
    return res


# ------------------------------------------------------------------------------------------------ graph
def state_key(e):
    m = e.m
    if e.fe in ('ro', 'rox'):
        rc = m.rc_model
        impl = (m.pupdate, m.dupdate, m.primal is not None, m.dual is not None,
                rc.pupdate, rc.dupdate, rc.primal is not None, rc.dual is not None)
    else:
        ro = m.ro_model
        rc = ro.rc_model
        impl = (m.pupdate, m.dupdate, m.primal is not None, m.dual is not None,
                ro.pupdate, ro.dupdate, ro.primal is not None, ro.dual is not None,
                rc.pupdate, rc.dupdate, rc.primal is not None, rc.dual is not None,
                m.var_ev_list is not None, e.f.update, e.f.mix_model is not None)
    return (tuple(sorted(e.declared)), tuple(sorted(final_slots(e.fe, e.declared).items())), impl, min(e.reform, 3),
            e.soc, e.solved is not None)


def _step(e, sym):
    """Apply sym to env e with checkpoint comparison.  Returns (fail|None, alive)."""
    try:
        obs = apply_op(e, sym)
    except Exception as ex:  # noqa
        if sym.startswith('st:') and isinstance(ex, SyntaxError):
            return None, False
        if sym.startswith('st:'):
            ref = fresh(e.fe, tuple(e.declared) + (sym[3:],), 'P')
        else:
            ref = fresh(e.fe, tuple(e.declared), sym)
        if ref[0] == 'raise':
            return None, False
        return ('history_raises:' + C.exc_class(ex), str(ex)[:100]), False
    if obs is None:
        return None, True
    if sym == 'G':
        bad = check_get(obs, e)
    else:
        bad = compare(sym, obs, fresh(e.fe, tuple(e.declared), sym), e)
    if bad is not None and bad[0] == 'vacuous':
        return None, True
    return bad, True


def run_graph(case):
    fe = case['fe']
    alphabet = ['st:' + d for d in case['decl']] + list(case['ops'])
    max_states = case.get('max_states', 100000)
    max_trans = case.get('max_transitions', 1000000)
    root = base(fe)
    visited = {state_key(root): ()}
    frontier = [(root, ())]
    transitions = 0
    checks = 0
    sigs = {}
    capped = False
    cross = 0
    depth = 0
    while frontier:
        nxt = []
        depth += 1
        for env, path in frontier:
            for sym in alphabet:
                if sym.startswith('st:') and sym[3:] in env.declared:
                    continue
                if sym.startswith('st:') and REQUIRES.get(sym[3:]) and REQUIRES[sym[3:]] not in env.declared:
                    continue
                e2 = copy.deepcopy(env)
                bad, alive = _step(e2, sym)
                transitions += 1
                if not sym.startswith('st:') and sym != 'G':
                    checks += 1
                word = path + (sym,)
                if bad is not None:
                    # honest replay before believing it
                    r = run_word(fe, word, final=False)
                    if r['fail'] is not None and r['fail'][0] == bad[0] and r['k'] == len(word) - 1:
                        mini = minimise(fe, list(word), bad[0])
                        sig = 'min:%s|%s' % ('>'.join(mini), bad[0])
                        sigs.setdefault(sig, 'word %s: %s' % (' '.join(word), bad[1]))
                    else:
                        raise RuntimeError('deepcopy exploration and honest replay disagree on %s: %r vs %r' % (
                            word, bad, r['fail']))
                    continue            # a disagreeing state is not expanded
                if not alive:
                    continue
                k = state_key(e2)
                if k not in visited:
                    visited[k] = word
                    nxt.append((e2, word))
                    if len(visited) % 5 == 0:      # cross-check the abstraction against an honest replay
                        r = run_word(fe, word, final=False)
                        if r['fail'] is None and state_key(r['env']) != k:
                            raise RuntimeError('state key after deepcopy exploration differs from honest replay '
                                               'for %s' % (word,))
                        cross += 1
            if len(visited) >= max_states or transitions >= max_trans:
                capped = True
                break
        if capped:
            break
        frontier = nxt
    res = {'ops': transitions, 'states': len(visited), 'transitions': transitions, 'validated': checks + cross}
    outcome = ('fixpoint' if not capped else 'capped') + ':depth%d' % depth
    if sigs:
        comp = ' && '.join(sorted(sigs))
        res.update(status='violation', sig='graph|%s|%s' % (fe, comp),
                   detail='; '.join('%s [%s]' % (k, v) for k, v in sorted(sigs.items()))[:1500] +
                   ' states=%d transitions=%d %s' % (len(visited), transitions, outcome))
        return res
    if capped:
        res.update(status='vacuous', outcome=outcome)
        return res
    res.update(status='pass', outcome=outcome, nontrivial=bool(checks > 0 and len(visited) > 10))
    return res
