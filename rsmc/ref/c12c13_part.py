"""R-part: reference partition calculus for C12/C13 (pure Python/NumPy/SciPy, never imports rsome).

Scenarios are *positions* 0..S-1.  A partition is a frozenset of frozensets.  An *adapt history* is an
ordered sequence of pairwise disjoint non-empty blocks (each one `x.adapt(block)` call); the partition it
declares is {declared blocks} + {remainder, if non-empty}.
"""
import itertools
import numpy as np


# ------------------------------------------------------------------ enumeration
def set_partitions(n):
    """All set partitions of range(n) as lists of sorted blocks, blocks sorted by minimum (canonical)."""
    if n == 0:
        return [[]]
    out = []

    def rec(i, blocks):
        if i == n:
            out.append([list(b) for b in blocks])
            return
        for b in blocks:
            b.append(i)
            rec(i + 1, blocks)
            b.pop()
        blocks.append([i])
        rec(i + 1, blocks)
        blocks.pop()
    rec(0, [])
    return out


def subsets_nonempty(items):
    items = list(items)
    for r in range(1, len(items) + 1):
        for c in itertools.combinations(items, r):
            yield list(c)


def adapt_histories(n):
    """Every ordered sequence of pairwise disjoint non-empty blocks of range(n) (incl. the empty sequence).

    These are exactly all ordered prefixes of all orderings of all set partitions.  Shortest first,
    deterministic order.  Counts: n=1: 2, n=2: 6, n=3: 26, n=4: 150.
    """
    out = [[]]
    frontier = [[]]
    while frontier:
        nxt = []
        for seq in frontier:
            used = set(itertools.chain.from_iterable(seq))
            rest = [s for s in range(n) if s not in used]
            for blk in subsets_nonempty(rest):
                nxt.append(seq + [blk])
        out.extend(nxt)
        frontier = nxt
    return out


def listing_histories(n):
    """Every set partition of range(n) in every listing order of its events, as a history that declares all blocks in
    that order (the event list then IS that order).  Counts: n=2: 3, n=3: 13, n=4: 75."""
    out = []
    for part in set_partitions(n):
        for perm in itertools.permutations(part):
            out.append([list(b) for b in perm])
    return out


def canonical_history(part, n):
    """A history declaring `part` (list of blocks): declare every block except the one containing scenario 0."""
    return [list(b) for b in part if 0 not in b]


# ------------------------------------------------------------------ calculus
def declared_partition(history, n):
    """Reference: partition (frozenset of frozensets) declared by the history."""
    used = set(itertools.chain.from_iterable(history))
    blocks = [frozenset(b) for b in history]
    rest = frozenset(s for s in range(n) if s not in used)
    if rest:
        blocks.append(rest)
    return frozenset(blocks)


def reference_event_order(history, n):
    """Reference order of the event list: remainder first (if any), then declared blocks in call order.

    This is the documented bookkeeping (tests/test_dro_dvar.py: `[[0,1,4,7,8,9],[3],[2,5,6]]`).  Used only for
    the raw solver-vector cross-check.
    """
    used = set(itertools.chain.from_iterable(history))
    rest = [s for s in range(n) if s not in used]
    out = [rest] if rest else []
    # a declared block that exhausts the remainder replaces it at the *end* of the list
    return out + [list(b) for b in history]


def as_partition(list_of_lists):
    return frozenset(frozenset(int(i) for i in b) for b in list_of_lists)


def is_partition_of(list_of_lists, n):
    flat = [int(i) for b in list_of_lists for i in b]
    return sorted(flat) == list(range(n)) and all(len(b) > 0 for b in list_of_lists)


def meet(p1, p2):
    """Coarsest common refinement of two partitions (frozenset of frozensets)."""
    out = set()
    for a in p1:
        for b in p2:
            c = a & b
            if c:
                out.add(frozenset(c))
    return frozenset(out)


def block_of(part, s):
    for b in part:
        if s in b:
            return b
    raise KeyError(s)


def same_block(part, s, t):
    return t in block_of(part, s)


def fmt_part(part):
    return '|'.join(''.join(str(i) for i in sorted(b)) for b in sorted(part, key=lambda b: min(b)))


def fmt_hist(history):
    return '>'.join(''.join(str(i) for i in b) for b in history) or '-'


# ------------------------------------------------------------------ labels
LABEL_KINDS = ('int', 'str', 'perm')


def labels_for(kind, n):
    """Scenario labels by position.  'int': default 0..n-1 (model built from the integer n);
    'str': unordered strings; 'perm': the integers 0..n-1 in a non-identity order."""
    if kind == 'int':
        return list(range(n))
    if kind == 'str':
        return ['c', 'a', 'd', 'b'][:n] if n > 1 else ['c']
    if kind == 'perm':
        return {1: [0], 2: [1, 0], 3: [2, 0, 1], 4: [2, 0, 3, 1]}[n]
    raise ValueError(kind)


# ------------------------------------------------------------------ discriminating model (closed form + LP)
def palette_pd(n, seed):
    """Probabilities p (dyadic, distinct, sum 1) and demands d (distinct) such that all partitions of n
    scenarios give pairwise distinct optima sum_s p_s max_{t in block(s)} d_t (asserted by the caller)."""
    ps = {1: [1.0], 2: [0.625, 0.375], 3: [0.5, 0.3125, 0.1875], 4: [0.4375, 0.3125, 0.15625, 0.09375]}[n]
    ds = [[3.0, 1.0, 6.0, 4.0], [1.0, 4.0, 2.0, 7.0], [6.0, 1.0, 3.0, 2.0], [2.0, 9.0, 5.0, 3.0]][seed % 4][:n]
    return np.array(ps), np.array(ds)


def closed_form_event_max(part, d):
    """x(s) = max of d over the block of s (minimal x >= d_s sharing one value per block)."""
    n = len(d)
    x = np.zeros(n)
    for b in part:
        v = max(d[t] for t in b)
        for s in b:
            x[s] = v
    return x


def optimum_event_max(part, p, d):
    return float(np.dot(p, closed_form_event_max(part, d)))


def all_distinct(values, gap=1e-3):
    v = sorted(values)
    return all(b - a > gap for a, b in zip(v, v[1:]))


def lp_two_partitions(p1, p2, p, h, cx=1.0, cy=2.0, lbx=None, lby=None, form='sum'):
    """Independent LP (scipy/HiGHS) for the coupled two-decision model.

    variables: one x per block of p1, one y per block of p2.
      form 'sum': min sum_s p_s (cx x(s) + cy y(s))  s.t.  x(s) + y(s) >= h_s,  x >= lbx_s, y >= lby_s
      form 'abs': min sum_s p_s (cx x(s) + cy y(s))  s.t.  y(s) >= |x(s)|,      x(s) >= h_s
    Returns the optimal value.
    """
    from scipy.optimize import linprog
    n = len(p)
    b1 = sorted(p1, key=min)
    b2 = sorted(p2, key=min)
    nx, ny = len(b1), len(b2)
    ix = {s: k for k, b in enumerate(b1) for s in b}
    iy = {s: nx + k for k, b in enumerate(b2) for s in b}
    c = np.zeros(nx + ny)
    for s in range(n):
        c[ix[s]] += p[s] * cx
        c[iy[s]] += p[s] * cy
    A, rhs = [], []
    lo = [-np.inf] * (nx + ny)
    for s in range(n):
        if form == 'sum':
            row = np.zeros(nx + ny)
            row[ix[s]] -= 1
            row[iy[s]] -= 1
            A.append(row)
            rhs.append(-h[s])
            lo[ix[s]] = max(lo[ix[s]], lbx[s])
            lo[iy[s]] = max(lo[iy[s]], lby[s])
        else:
            row = np.zeros(nx + ny)
            row[ix[s]] += 1
            row[iy[s]] -= 1
            A.append(row)
            rhs.append(0.0)
            row = np.zeros(nx + ny)
            row[ix[s]] -= 1
            row[iy[s]] -= 1
            A.append(row)
            rhs.append(0.0)
            lo[ix[s]] = max(lo[ix[s]], h[s])
    res = linprog(c, A_ub=np.array(A), b_ub=np.array(rhs), bounds=[(l, None) for l in lo], method='highs')
    if res.status != 0:
        return None
    return float(res.fun)


def _event_columns(parts):
    """Column index of the LP variable of decision k in scenario s: one column per (decision, event)."""
    col, ncol = [], 0
    for part in parts:
        blocks = sorted(part, key=min)
        col.append({s: ncol + j for j, b in enumerate(blocks) for s in b})
        ncol += len(blocks)
    return col, ncol


def lp_event_decisions(parts, p, cost, rows, erows, lo):
    """Independent LP (scipy/HiGHS) for K scalar event-wise decisions under fixed scenario probabilities p.

    parts[k]: partition of decision k (one LP variable per event);  v_k(s) = value of decision k in scenario s.
      min   sum_s p_s sum_k cost[k] v_k(s)
      s.t.  sum_k a[k] v_k(s) >= rhs[s]              for every scenario s and every (a, rhs) in rows
            sum_s p_s sum_k a[k] v_k(s) >= rhs       for every (a, rhs) in erows (expectation rows)
            v_k(s) >= lo[k][s]
    Returns (optimal value, per-scenario values K x n) or None when the LP is not solved to optimality.
    """
    from scipy.optimize import linprog
    n, K = len(p), len(parts)
    col, ncol = _event_columns(parts)
    c = np.zeros(ncol)
    for s in range(n):
        for k in range(K):
            c[col[k][s]] += p[s] * cost[k]
    A, b = [], []
    for a, rhs in rows:
        for s in range(n):
            row = np.zeros(ncol)
            for k in range(K):
                row[col[k][s]] -= a[k]
            A.append(row)
            b.append(-float(rhs[s]))
    for a, rhs in erows:
        row = np.zeros(ncol)
        for s in range(n):
            for k in range(K):
                row[col[k][s]] -= p[s] * a[k]
        A.append(row)
        b.append(-float(rhs))
    lows = [-np.inf] * ncol
    for k in range(K):
        for s in range(n):
            lows[col[k][s]] = max(lows[col[k][s]], float(lo[k][s]))
    res = linprog(c, A_ub=np.array(A) if A else None, b_ub=np.array(b) if A else None,
                  bounds=[(l, None) for l in lows], method='highs')
    if res.status != 0:
        return None
    vals = np.array([[res.x[col[k][s]] for s in range(n)] for k in range(K)])
    return float(res.fun), vals


def check_event_solution(vals, parts, p, cost, rows, erows, lo, tol=1e-6):
    """Is a *reported* per-scenario solution vals[k][s] a solution of the model of lp_event_decisions?  (pure NumPy)

    Returns (message or None, objective of the reported values): the values must be identical inside every event of
    parts[k], satisfy every row / bound in every scenario (tolerance tol*(1+|rhs|)).  The caller compares the objective."""
    vals = np.asarray(vals, dtype=float)
    n, K = len(p), len(parts)
    for k in range(K):
        for b in parts[k]:
            v = [vals[k][s] for s in sorted(b)]
            if max(v) - min(v) > tol * (1 + abs(max(v))):
                return 'decision %d takes different values %s inside the event %s' % (k, v, sorted(b)), None
        for s in range(n):
            if vals[k][s] < lo[k][s] - tol * (1 + abs(lo[k][s])):
                return 'decision %d scenario %d: value %r below its bound %r' % (k, s, vals[k][s], lo[k][s]), None
    for a, rhs in rows:
        for s in range(n):
            lhs = sum(a[k] * vals[k][s] for k in range(K))
            if lhs < rhs[s] - tol * (1 + abs(rhs[s])):
                return 'scenario %d: %s . values %s = %r < %r' % (s, list(a), vals[:, s].tolist(), lhs, float(rhs[s])), None
    for a, rhs in erows:
        lhs = sum(p[s] * a[k] * vals[k][s] for k in range(K) for s in range(n))
        if lhs < rhs - tol * (1 + abs(rhs)):
            return 'expectation row %s: %r < %r' % (list(a), lhs, float(rhs)), None
    return None, float(sum(p[s] * cost[k] * vals[k][s] for k in range(K) for s in range(n)))


# ------------------------------------------------------------------ masks
def all_masks(rows, cols):
    """Every 0/1 matrix rows x cols as nested lists, all-zero first."""
    out = []
    for bits in itertools.product((0, 1), repeat=rows * cols):
        out.append([list(bits[r * cols:(r + 1) * cols]) for r in range(rows)])
    out.sort(key=lambda m: (sum(map(sum, m)), m))
    return out


def rectangles(rows, cols):
    """All (row-subset, col-subset) rectangles, as (rows_list, cols_list)."""
    out = []
    for rs in subsets_nonempty(range(rows)):
        for cs in subsets_nonempty(range(cols)):
            out.append((rs, cs))
    return out


def rect_cells(rect):
    return {(r, c) for r in rect[0] for c in rect[1]}


def disjoint_rect_sequences(rows, cols, max_len):
    """Every ordered sequence (length 1..max_len) of pairwise cell-disjoint rectangles."""
    rects = rectangles(rows, cols)
    cells = [rect_cells(r) for r in rects]
    out = []

    def rec(seq, used):
        if seq:
            out.append(list(seq))
        if len(seq) == max_len:
            return
        for k, r in enumerate(rects):
            if cells[k] & used:
                continue
            seq.append(r)
            rec(seq, used | cells[k])
            seq.pop()
    rec([], set())
    out.sort(key=len)
    return out


def mask_of_rects(seq, rows, cols):
    m = [[0] * cols for _ in range(rows)]
    for r in seq:
        for (i, j) in rect_cells(r):
            m[i][j] = 1
    return m
