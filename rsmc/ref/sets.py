"""Reference model of uncertainty sets (R-sets): pure NumPy, never imports rsome.

A set is an intersection of *pieces* (dicts).  For each set we provide
  * member(P)        vectorised closed-form membership residual (<= 0 inside) for points P (n x d)
  * points(set)      a finite list V of members such that max_{v in V} a.v approximates the support
                     function from below: exact vertex list for polytopes (brute-force active-set
                     enumeration), the two end points for 1-D sets, a dense polar boundary lattice obtained by
                     bisection on the membership test for 2-D (relative interior) convex bodies.
Pieces (c = centre, all lists of floats):
  box   {k, lo, hi}            lo <= z <= hi
  n1    {k, c, r}              ||z-c||_1 <= r
  ninf  {k, c, r}              ||z-c||_inf <= r
  lin   {k, A, b}              A z <= b
  eq    {k, A, b}              A z == b
  n2    {k, c, r, M?}          ||M (z-c)||_2 <= r
  pn    {k, c, r, p}           ||z-c||_p <= r   (p = float or [a, b] meaning a/b)
  ent   {k, e}                 -sum z log z >= e      (z > 0)
  kl    {k, q, r}              sum z log(z/q) <= r    (z > 0)
  expc  {k, i, j}              exp(z_i) <= z_j
"""
import itertools
import functools
import json
import numpy as np

NDIR = 40000


def _p(piece):
    p = piece.get('p')
    return p[0] / p[1] if isinstance(p, (list, tuple)) else float(p)


def is_poly(piece):
    return piece['k'] in ('box', 'n1', 'ninf', 'lin', 'eq')


def piece_resid(piece, P):
    """max residual of the piece's inequalities at points P (n x d); <= 0 means inside. eq pieces -> |.|."""
    k = piece['k']
    P = np.atleast_2d(P)
    with np.errstate(all='ignore'):
        if k == 'box':
            lo, hi = np.array(piece['lo'], float), np.array(piece['hi'], float)
            return np.maximum((lo - P).max(axis=1), (P - hi).max(axis=1))
        if k == 'n1':
            return np.abs(P - np.array(piece['c'])).sum(axis=1) - piece['r']
        if k == 'ninf':
            return np.abs(P - np.array(piece['c'])).max(axis=1) - piece['r']
        if k == 'lin':
            return (P @ np.array(piece['A'], float).T - np.array(piece['b'], float)).max(axis=1)
        if k == 'eq':
            return np.abs(P @ np.array(piece['A'], float).T - np.array(piece['b'], float)).max(axis=1) - 1e-9
        if k == 'n2':
            D = P - np.array(piece['c'])
            if 'M' in piece:
                D = D @ np.array(piece['M'], float).T
            return np.sqrt((D ** 2).sum(axis=1)) - piece['r']
        if k == 'pn':
            p = _p(piece)
            return (np.abs(P - np.array(piece['c'])) ** p).sum(axis=1) ** (1.0 / p) - piece['r']
        if k == 'ent':
            Q = np.where(P > 0, P, np.nan)
            val = piece['e'] + (Q * np.log(Q)).sum(axis=1)
            return np.where(np.isnan(val), 1.0, val)
        if k == 'kl':
            q = np.array(piece['q'], float)
            Q = np.where(P > 0, P, np.nan)
            val = (Q * np.log(Q / q)).sum(axis=1) - piece['r']
            return np.where(np.isnan(val), 1.0, val)
        if k == 'expc':
            return np.exp(P[:, piece['i']]) - P[:, piece['j']]
    raise ValueError(k)


def resid(pieces, P):
    P = np.atleast_2d(np.asarray(P, float))
    out = np.full(P.shape[0], -np.inf)
    for pc in pieces:
        out = np.maximum(out, piece_resid(pc, P))
    return out


def _hrep(pieces, d):
    """(A, b, Aeq, beq) of the polyhedral pieces."""
    A, b, Ae, be = [], [], [], []
    for pc in pieces:
        k = pc['k']
        if k == 'box':
            for i in range(d):
                e = np.zeros(d)
                e[i] = 1
                A.append(e.copy()); b.append(pc['hi'][i])
                A.append(-e); b.append(-pc['lo'][i])
        elif k == 'ninf':
            for i in range(d):
                e = np.zeros(d)
                e[i] = 1
                A.append(e.copy()); b.append(pc['c'][i] + pc['r'])
                A.append(-e); b.append(-pc['c'][i] + pc['r'])
        elif k == 'n1':
            c = np.array(pc['c'], float)
            for s in itertools.product((-1.0, 1.0), repeat=d):
                s = np.array(s)
                A.append(s); b.append(pc['r'] + s @ c)
        elif k == 'lin':
            for row, rhs in zip(pc['A'], pc['b']):
                A.append(np.array(row, float)); b.append(rhs)
        elif k == 'eq':
            for row, rhs in zip(pc['A'], pc['b']):
                Ae.append(np.array(row, float)); be.append(rhs)
    return (np.array(A, float).reshape(-1, d), np.array(b, float),
            np.array(Ae, float).reshape(-1, d), np.array(be, float))


def _vertices(pieces, d):
    A, b, Ae, be = _hrep(pieces, d)
    neq = np.linalg.matrix_rank(Ae) if len(Ae) else 0
    need = d - neq
    verts = []
    for comb in itertools.combinations(range(len(A)), need):
        M = np.vstack([Ae] + [A[list(comb)]]) if len(Ae) else A[list(comb)]
        rhs = np.concatenate([be, b[list(comb)]]) if len(Ae) else b[list(comb)]
        if np.linalg.matrix_rank(M) < d:
            continue
        v = np.linalg.lstsq(M, rhs, rcond=None)[0]
        if np.abs(M @ v - rhs).max() > 1e-9:
            continue
        if (len(A) == 0 or (A @ v - b).max() <= 1e-9) and (len(Ae) == 0 or np.abs(Ae @ v - be).max() <= 1e-9):
            if not any(np.abs(v - u).max() < 1e-9 for u in verts):
                verts.append(v)
    return np.array(verts).reshape(-1, d)


def _affine_hull(pieces, d, centre):
    _, _, Ae, be = _hrep([p for p in pieces if p['k'] == 'eq'], d)
    if len(Ae) == 0:
        return np.eye(d)
    _, s, vt = np.linalg.svd(Ae)
    rank = int((s > 1e-10).sum())
    return vt[rank:].T          # d x k, orthonormal basis of the null space


@functools.lru_cache(maxsize=256)
def _points_cached(key):
    spec = json.loads(key)
    pieces, d, centre = spec['pieces'], spec['d'], np.array(spec['centre'], float)
    if all(is_poly(p) for p in pieces):
        V = _vertices(pieces, d)
        return V, 0.0
    N = _affine_hull(pieces, d, centre)
    k = N.shape[1]
    if resid([p for p in pieces if p['k'] != 'eq'], centre)[0] > -1e-6 or resid(pieces, centre)[0] > 0:
        raise ValueError('centre is not strictly inside the set')
    if k == 1:
        dirs = np.array([[1.0], [-1.0]])
    elif k == 2:
        th = np.linspace(0, 2 * np.pi, NDIR, endpoint=False)
        dirs = np.stack([np.cos(th), np.sin(th)], axis=1)
    else:
        raise ValueError('curved sets are supported up to relative dimension 2')
    D = dirs @ N.T                      # n x d directions in z-space
    lo = np.zeros(len(D))
    hi = np.full(len(D), 1.0)
    # grow hi until outside
    for _ in range(60):
        out = resid(pieces, centre + hi[:, None] * D) > 0
        if out.all():
            break
        hi = np.where(out, hi, hi * 2)
    for _ in range(60):
        mid = 0.5 * (lo + hi)
        inside = resid(pieces, centre + mid[:, None] * D) <= 0
        lo = np.where(inside, mid, lo)
        hi = np.where(inside, hi, mid)
    V = centre + lo[:, None] * D
    if k == 1:
        return V, 1e-7
    ncurved = sum(1 for p in pieces if not is_poly(p))
    npolyineq = sum(1 for p in pieces if is_poly(p) and p['k'] != 'eq')
    eps = 1e-6 if ncurved == 1 else 5e-4
    if k == 2 and d == 2:
        # exact corners between a facet of a polyhedral piece and the rest: bisection along the facet line
        A, b, _, _ = _hrep(pieces, d)
        extra = []
        for a_i, b_i in zip(A, b):
            act = np.flatnonzero(np.abs(V @ a_i - b_i) < 1e-7)
            if len(act) == 0:
                continue
            p0 = V[act[len(act) // 2]]
            p0 = p0 - a_i * ((a_i @ p0 - b_i) / (a_i @ a_i))
            if resid(pieces, p0)[0] > 1e-9:
                continue
            u = np.array([-a_i[1], a_i[0]]) / np.linalg.norm(a_i)
            for sgn in (1.0, -1.0):
                lo_t, hi_t = 0.0, 1.0
                for _ in range(60):
                    if resid(pieces, p0 + sgn * hi_t * u)[0] > 1e-12:
                        break
                    hi_t *= 2
                for _ in range(80):
                    mid = 0.5 * (lo_t + hi_t)
                    if resid(pieces, p0 + sgn * mid * u)[0] <= 1e-12:
                        lo_t = mid
                    else:
                        hi_t = mid
                extra.append(p0 + sgn * lo_t * u)
        if extra:
            V = np.vstack([V, np.array(extra)])
    elif npolyineq:
        eps = max(eps, 5e-4)
    return V, eps


def hull_basis(pieces, d, centre):
    """Orthonormal basis N (d x k) of the direction space of the affine hull of the set."""
    return _affine_hull(pieces, d, np.asarray(centre, float))


def points(pieces, d, centre):
    """(V, eps): member points approximating the support function from below within eps (0 for polytopes)."""
    key = json.dumps({'pieces': pieces, 'd': d, 'centre': list(centre)}, sort_keys=True)
    return _points_cached(key)
