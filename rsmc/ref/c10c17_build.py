"""rsome-side builders shared by C10 and C17 (imports rsome lazily: only inside worker processes)."""
import numpy as np

from . import c10c17_curv as R

_rs = {}


def init():
    if _rs:
        return _rs
    import rsome
    from rsome import ro, dro, E
    from rsome import eco_solver, ort_solver, grb_solver
    import rsome.lp as lp
    _rs.update(rso=rsome, ro=ro, dro=dro, E=E, lp=lp, eco=eco_solver, ort=ort_solver, grb=grb_solver)
    return _rs


class Env:
    """A fresh model with decision x (2,), y, w (scalars), X (2x2), a random z and (dro) an ambiguity set."""

    def __init__(self, fe):
        rs = init()
        self.fe = fe
        self.ops = 0
        if fe == 'ro':
            m = rs['ro'].Model()
            self.z = m.rvar()
            self.zset = (self.z >= -1, self.z <= 1)
            self.fset = None
        else:
            m = rs['dro'].Model(2)
            self.z = m.rvar()
            self.fset = m.ambiguity()
            self.fset.suppset(self.z >= -1, self.z <= 1)
            self.zset = None
        self.m = m
        self.x = m.dvar(2)
        self.y = m.dvar()
        self.w = m.dvar()
        self.s = m.dvar()          # scale variable of the perspective atoms pexpv / plogv
        self.xe = None
        self.uses_s = False
        self.X = None
        self.ops += 7

    def eventwise_var(self):
        """a scalar decision that adapts to the scenarios (event {0} | event {1})"""
        if self.xe is None:
            self.xe = self.m.dvar()
            self.xe.adapt(0)
            self.ops += 2
        return self.xe

    def matrix_var(self):
        if self.X is None:
            self.X = self.m.dvar((2, 2))
            self.ops += 1
        return self.X


def build_atom(env, atom):
    rs = init()
    rso, E = rs['rso'], rs['E']
    x = env.x
    s = x[0] + 0.5 * x[1]
    env.ops += 1
    if atom == 'abs':
        return abs(s)
    if atom == 'norm1':
        return rso.norm(x, 1)
    if atom == 'norminf':
        return rso.norm(x, 'inf')
    if atom == 'norm2':
        return rso.norm(x)
    if atom == 'pnorm3':
        return rso.pnorm(x, 3)
    if atom == 'pnorm2.5':
        return rso.pnorm(x, 2.5)
    if atom == 'square':
        return rso.square(s)
    if atom == 'sumsqr':
        return rso.sumsqr(x)
    if atom == 'quadp':
        return rso.quad(x, R.QMAT)
    if atom == 'quadn':
        return rso.quad(x, -R.QMAT)
    if atom == 'power3':
        return rso.power(s, 3)
    if atom == 'power32':
        return rso.power(s, 3, 2)
    if atom == 'gmean':
        return rso.gmean(x)
    if atom == 'exp':
        return rso.exp(s)
    if atom == 'log':
        return rso.log(s)
    if atom == 'softplus':
        return rso.softplus(s)
    if atom == 'entropy':
        return rso.entropy(x)
    if atom == 'logdet':
        return rso.logdet(env.matrix_var())
    if atom == 'rootdet':
        return rso.rootdet(env.matrix_var())
    if atom == 'pexp':
        return rso.pexp(x[0], x[1])
    if atom == 'pexpc':
        return rso.pexp(s, 2.0)
    if atom == 'plog':
        return rso.plog(x[0], x[1])
    if atom == 'plogc':
        return rso.plog(s, 2.0)
    if atom in ('pexpv', 'plogv'):
        env.uses_s = True
        return rso.pexp(s, env.s) if atom == 'pexpv' else rso.plog(s, env.s)
    if atom in ('pexpve', 'plogve'):
        env.uses_s = True
        xe = env.eventwise_var()
        return rso.pexp(xe, env.s) if atom == 'pexpve' else rso.plog(xe, env.s)
    if atom == 'maxof':
        return rso.maxof(x[0], 2 * x[1] - 1, 0.25 - 0.5 * x[0])
    if atom == 'minof':
        return rso.minof(x[0], 2 * x[1] - 1, 0.25 - 0.5 * x[0])
    if atom == 'PWmaxof':
        return rso.maxof(x[0] + env.z, x[1])
    if atom == 'PWminof':
        return rso.minof(x[0] + env.z, x[1])
    if atom == 'Emaxof':
        return E(rso.maxof(x[0] + env.z, x[1]))
    if atom == 'Eminof':
        return E(rso.minof(x[0] + env.z, x[1]))
    if atom == 'Emaxofd':
        return E(rso.maxof(x[0], 2 * x[1] - 1, 0.25 - 0.5 * x[0]))
    if atom == 'Eminofd':
        return E(rso.minof(x[0], 2 * x[1] - 1, 0.25 - 0.5 * x[0]))
    raise ValueError(atom)


def apply_symbol(env, g, sym):
    kind, c = R.SYMBOLS[sym]
    y = env.y
    env.ops += 1
    if kind == 'neg':
        return -g
    if kind == 'lmul':
        return c * g
    if kind == 'rmul':
        return g * c
    if kind == 'lmulnp':
        return np.float64(c) * g
    if kind == 'rmulnp':
        return g * np.float64(c)
    if kind == 'rmuli':
        return g * int(c)
    if kind == 'lmuli':
        return int(c) * g
    if kind == 'add':
        return g + c
    if kind == 'addnp':
        return g + np.float64(c)
    if kind == 'radd':
        return c + g
    if kind == 'sub':
        return g - c
    if kind == 'rsub':
        return c - g
    if kind == 'addy':
        return g + y
    if kind == 'raddy':
        return y + g
    if kind == 'suby':
        return g - y
    if kind == 'rsuby':
        return y - g
    raise ValueError(sym)


def rhs(env, use, pal):
    rk = R.USES[use][1]
    p = R.PALETTES[pal]
    if rk == 'c':
        return p['c']
    env.ops += 1
    return p['aw'] * env.w + p['a0']


def compare(env, g, use, pal):
    kind = R.USES[use][0]
    a = rhs(env, use, pal)
    env.ops += 1
    if kind == 'le':
        return g <= a
    if kind == 'ge':
        return g >= a
    if kind == 'eq':
        return g == a
    if kind == 'rle':
        return a <= g
    if kind == 'rge':
        return a >= g
    raise ValueError(use)


def set_objective(env, g, kind, is_E):
    """min / max objective; expressions of worst-case expectations use minsup / maxinf with the ambiguity set."""
    env.ops += 1
    m = env.m
    if env.fe == 'dro' and is_E:
        if kind == 'min':
            m.minsup(g, env.fset)
        else:
            m.maxinf(g, env.fset)
    else:
        if kind == 'min':
            m.min(g)
        else:
            m.max(g)


def neutral_objective(env):
    """An objective that keeps every model compilable: min y (dro: with the default ambiguity set)."""
    env.ops += 1
    if env.fe == 'dro':
        env.m.minsup(env.y, env.fset)
    else:
        env.m.min(env.y)


def pin(env, x, y, w):
    m = env.m
    m.st(env.x == np.array(x, dtype=float))
    m.st(env.y == float(y))
    m.st(env.w == float(w))
    env.ops += 3
    if env.uses_s:
        m.st(env.s == R.scale_value(x))
        env.ops += 1
    if env.xe is not None:
        m.st(env.xe == x[0] + 0.5 * x[1])
        env.ops += 1


def exc_name(ex):
    return type(ex).__name__


def snapshot(formula):
    """Numerical snapshot of a compiled standard form (signed zeros identified)."""
    def z(a):
        a = np.array(a, dtype=float)
        return a + 0.0
    out = {}
    lin = formula.linear
    out['linear'] = z(lin.toarray() if hasattr(lin, 'toarray') else lin)
    for k in ('const', 'ub', 'lb', 'obj'):
        out[k] = z(getattr(formula, k))
    out['sense'] = np.array(formula.sense).astype(int)
    out['vtype'] = ''.join(list(np.array(formula.vtype).astype(str)))
    out['qmat'] = [list(map(int, q)) for q in (getattr(formula, 'qmat', None) or [])]
    out['xmat'] = [list(map(int, q)) for q in (getattr(formula, 'xmat', None) or [])]
    return out


def snap_equal(a, b):
    """None when equal, else the name of the first differing field."""
    for k in ('linear', 'const', 'sense', 'ub', 'lb', 'obj'):
        if a[k].shape != b[k].shape or not np.array_equal(a[k], b[k]):
            return k
    for k in ('vtype', 'qmat', 'xmat'):
        if a[k] != b[k]:
            return k
    return None
