"""C15: builders that take a spec and the set of ACTIVE REWRITES and write the same mathematical model in the
rewritten surface form.  Every rewrite is applied by the builder wherever the spec offers an opportunity, so all
combinations of rewrites are enumerable.

Rewrites (variant in brackets):
  R1 [1]            min f  ->  max -f   (value = -get());  minmax -> maxmin, minsup -> maxinf
  R2 [v|c|vc]       reverse the declaration order of variables / of constraints / both
  R3 [neg|flip|sub] a <= b  ->  -b <= -a   |   b >= a   |   a - b <= 0   (rows, cone and norm constraints, robust
                    constraints, rows and norm constraints of uncertainty sets / supports)
  R4 [1]            equality -> pair of inequalities (deterministic rows, rows of the uncertainty set)
  R5 [lin|ninf]     bounds as Bounds objects -> linear constraints 1*x <= u | infinity-norm norm(x-c,'inf') <= r
                    (variable boxes and the box of the uncertainty set / supports)
  R6 [loop|elem]    array expressions -> one constraint per row | element-wise python sums
  R7 [2|0.4|2.5]    positive rescaling of every inequality / equality, including the infinity-norm / linear writing of a
                    box (k*norm(e,'inf') <= k*r, -k*r <= -k*norm(e,'inf'), norm(e,'inf')*k - k*r <= 0); Bounds objects cannot
                    be rescaled and stay as they are
  R8 [args|gen|tup|bl|ll|lb]  a collection given as one list -> all bare arguments | a generator | a tuple |
                    bare+list (c1, [c2, c3]) | list+list ([c1], [c2, c3]) | list+bare ([c1, c2], c3)
                    at EVERY set-taking entry point: st, minmax, maxmin, forall (ro: *args; dro: forall(support
                    constraints) takes ONE object, the mixed shapes become nested lists), suppset (whole / event-level),
                    exptset, probset (base dro_pl only: its base form is bare arguments, the only accepted one)
  R9 [1]            ro model -> single-scenario dro model (deterministic bases: dro front end)

Family ro_own_<rel>_<where> (OWN SETS): ro models (single-scenario dro twins under R9) in which robust constraints carry
their OWN forall set, different from the default set Z0 of the worst-case objective (minmax / maxmin / minsup / maxinf):
  rel    in    own set Z1 strictly inside Z0 (boxes)          out   Z1 strictly contains Z0 (boxes)
         shift Z0, Z1 shifted boxes, neither contains the other
         n1    Z0 a box, Z1 = box with a 1-norm cut            n1r   Z0 = box with a 1-norm cut, Z1 the box
  where  f     only the FIRST constraint handed to st carries Z1      l    only the LAST one
         a     EVERY robust constraint carries Z1 (Z0 is the set of the objective only)
         two   the first carries Z1 and the last a third set Z2 (box | box with an equality), the others Z0
These bases have, besides the base-versus-rewritten comparison, an ABSOLUTE reference that never touches rsome: every
row is affine in z and every set a polytope, so the robust counterpart is the LP over the vertex lists (rsmc/ref/sets.py)
of each row's own / default set, solved with scipy.optimize.linprog (own_reference).
"""
import numpy as np
from . import c09c15_common as C
from . import sets as S

VARIANTS = {'R1': ['1'], 'R2': ['v', 'c', 'vc'], 'R3': ['neg', 'flip', 'sub'], 'R4': ['1'], 'R5': ['lin', 'ninf'],
            'R6': ['loop', 'elem'], 'R7': ['2', '0.4', '2.5'], 'R8': ['args', 'gen', 'tup', 'bl', 'll', 'lb'], 'R9': ['1']}
BASES = ['lp', 'milp', 'socp', 'ro_box', 'ro_norm', 'ro_ball', 'ro_boxeq', 'ro_zbox', 'ro_zmir', 'dro', 'dro_pl']
# (+ the own-set family OWN_BASES below: 'def' in the quick tier, 'def' and 'eco' in the thorough tier)
HOWS = {'lp': ['def', 'eco'], 'milp': ['def', 'ort'], 'socp': ['eco', 'grb'], 'ro_box': ['def', 'eco'], 'ro_norm': ['def', 'eco'],
        'ro_ball': ['eco'], 'ro_boxeq': ['def'], 'ro_zbox': ['def', 'eco'], 'ro_zmir': ['def'], 'dro': ['def', 'eco'], 'dro_pl': ['def']}
NOT_APPLICABLE = {('dro', 'R9'), ('dro_pl', 'R9'), ('milp', 'R9')}


def palettes(k):
    """Four vetted value palettes (dyadic, strictly feasible, bounded)."""
    k = k % 4
    s = [1.0, 1.25, 0.75, 1.5][k]
    return {'k': k, 'c': np.array([1.0, 2.0, 1.5]) * s, 'cl': np.array([1.0, -0.5, 1.5]) * s, 'u': np.array([2.0, 2.0, 2.5]),
            'A': np.array([[1.0, 0.0, 1.0], [-1.0, -1.0, 0.0]]), 'b': np.array([1.5 * s, -3.5]),
            'd': np.array([1.0, -0.5]) * s, 'r1': [1.5, 1.25, 1.75, 1.0][k], 'r2': [1.25, 1.0, 1.5, 0.75][k],
            'shift': [0.25, 0.5, 0.125, 0.375][k]}


class Builder(object):
    def __init__(self, base, act, pal):
        self.base = base
        self.act = dict(act)
        self.p = palettes(pal)
        self.cons = []
        self.nops = 0
        R = C.R
        self.rso = R['rso']
        self.dro_fe = base in ('dro', 'dro_pl') or ('R9' in self.act)
        if self.dro_fe:
            self.m = R['dro'].Model(2 if base in ('dro', 'dro_pl') else 1)
        else:
            self.m = R['ro'].Model()
        self.sign = 1

    # ---- rewrite helpers -------------------------------------------------------------------------
    def has(self, r):
        return self.act.get(r)

    def scale(self):
        v = self.has('R7')
        return float(v) if v else 1.0

    def leq(self, a, b):
        """a <= b honouring R3 and R7 (a, b: expressions or numbers; at least one an expression)."""
        k = self.scale()
        if k != 1.0:
            a, b = a * k, b * k
        v = self.has('R3')
        self.nops += 1
        if v == 'neg':
            return -b <= -a
        if v == 'flip':
            return b >= a
        if v == 'sub':
            return a - b <= 0
        return a <= b

    def geq(self, a, b):
        return self.leq(b, a)

    def eq(self, a, b):
        k = self.scale()
        if k != 1.0:
            a, b = a * k, b * k
        self.nops += 1
        if self.has('R4'):
            return [self.leq_raw(a, b), self.leq_raw(b, a)]
        return [a == b]

    def leq_raw(self, a, b):
        v = self.has('R3')
        if v == 'neg':
            return -b <= -a
        if v == 'flip':
            return b >= a
        if v == 'sub':
            return a - b <= 0
        return a <= b

    def box(self, x, lo, hi):
        """lo <= x <= hi for a whole variable array x (R5)."""
        v = self.has('R5')
        lo = np.asarray(lo, dtype=float)
        hi = np.asarray(hi, dtype=float)
        self.nops += 2
        if v == 'lin':           # linear rows, themselves subject to R3 / R7
            return [self.leq(1.0 * x, hi), self.leq(lo, 1.0 * x)]
        if v == 'ninf':          # the norm constraint itself is rescaled / re-oriented by R7 / R3
            c = 0.5 * (lo + hi)
            r = 0.5 * (hi - lo)
            if np.allclose(r, r.flat[0]):
                return [self.leq(self.rso.norm(x - c, 'inf'), float(r.flat[0]))]
            return [self.leq(self.rso.norm((x - c) * (1.0 / r), 'inf'), 1.0)]
        return [x <= hi, x >= lo]

    def upper(self, x, hi):
        """x <= hi for a whole variable array (R5 forms); used for a second, looser bound on the same variable."""
        v = self.has('R5')
        hi = np.asarray(hi, dtype=float)
        self.nops += 1
        if v == 'lin':
            return [self.leq(1.0 * x, hi)]
        if v == 'ninf':
            return [self.leq(1.0 * x + 0.0, hi)]
        return [x <= hi]

    def rows_leq(self, A, x, b):
        """A @ x <= b (R6, R3, R7)."""
        v = self.has('R6')
        if v == 'loop':
            return [self.leq(A[i] @ x, float(b[i])) for i in range(A.shape[0])]
        if v == 'elem':
            out = []
            for i in range(A.shape[0]):
                e = 0
                for j in range(A.shape[1]):
                    if A[i, j] != 0:
                        e = e + float(A[i, j]) * x[j]
                out.append(self.leq(e, float(b[i])))
            return out
        return [self.leq(A @ x, b)]

    def collect(self, items):
        for it in items:
            self.cons.append(it)

    def coll(self, lst):
        """A collection handed to st/forall/minmax/suppset: returns (args tuple) according to R8."""
        v = self.has('R8')
        lst = list(lst)
        if v == 'args':
            return tuple(lst)
        if v == 'gen':
            return ((c for c in lst),)
        if v == 'tup':
            return (tuple(lst),)
        if len(lst) > 1:
            if v == 'bl':
                return (lst[0], lst[1:])
            if v == 'll':
                return ([lst[0]], lst[1:])
            if v == 'lb':
                return (lst[:-1], lst[-1])
        return (lst,)

    def coll1(self, lst):
        """A collection for an entry point that takes ONE object (dro forall(support constraints))."""
        v = self.has('R8')
        lst = list(lst)
        if v == 'gen':
            return (c for c in lst)
        if v == 'tup':
            return tuple(lst)
        if len(lst) > 1:
            if v == 'bl':
                return [lst[0], lst[1:]]
            if v == 'll':
                return [[lst[0]], lst[1:]]
            if v == 'lb':
                return [lst[:-1], lst[-1]]
        return lst

    def finish(self, obj, wc_set=None):
        """Hand constraints over (R2 order, R8 style) and set the objective (R1)."""
        cons = list(self.cons)
        if self.has('R2') in ('c', 'vc'):
            cons = cons[::-1]
        m = self.m
        if self.has('R8') == 'args':
            m.st(*cons)
        else:
            m.st(*self.coll(cons))
        self.nops += 1
        flip = bool(self.has('R1'))
        self.sign = -1 if flip else 1
        if self.dro_fe:
            if wc_set is not None:
                if flip:
                    m.maxinf(-obj, wc_set)
                else:
                    m.minsup(obj, wc_set)
            elif flip:
                m.max(-obj)
            else:
                m.min(obj)
        else:
            if wc_set is not None:
                if flip:
                    m.maxmin(-obj, *self.coll(wc_set))
                else:
                    m.minmax(obj, *self.coll(wc_set))
            elif flip:
                m.max(-obj)
            else:
                m.min(obj)
        self.nops += 1

    def declare(self, specs):
        """specs: list of (name, kind, shape) with kind in dvar/rvar; declared in R2 order; returns dict."""
        order = list(specs)
        if self.has('R2') in ('v', 'vc'):
            order = order[::-1]
        out = {}
        for name, kind, shape in order:
            if kind == 'dvar':
                out[name] = self.m.dvar(shape)
            elif kind in ('ivar', 'bvar'):
                out[name] = self.m.dvar(shape, 'I' if kind == 'ivar' else 'B')
            elif kind == 'rvar':
                out[name] = self.m.rvar(shape)
            elif kind == 'ldr':
                out[name] = self.m.dvar(shape) if self.dro_fe else self.m.ldr(shape)
            self.nops += 1
        return out


# ---- base models --------------------------------------------------------------------------------
def build_det(b, socp):
    p = b.p
    rso = b.rso
    v = b.declare([('x', 'dvar', 3), ('w', 'dvar', 2), ('v', 'dvar', 2)])
    x, w, vv = v['x'], v['w'], v['v']
    b.collect(b.box(vv, np.array([-0.5, -0.5]), np.array([1.5, 1.5])))     # upper side active on v0, lower on v1
    b.collect(b.box(x, np.zeros(3), p['u']))
    b.collect(b.box(w, -np.ones(2), np.ones(2)))
    b.collect(b.upper(x, p['u'] + 1.0))                          # a second, looser bound on the same variables
    b.collect(b.rows_leq(-p['A'], x, -p['b']))                   # A x >= b
    b.collect(b.eq(x[0] - x[2] + w[0], p['shift']))
    b.collect([b.leq(x.sum() + w[1], 4.5)])
    b.collect([b.geq(w[0] + w[1], -0.5)])
    if socp:
        b.collect([b.leq(rso.norm(x[0:2] - np.array([1.0, 1.0])), x[2] + 0.5)])
        if b.has('R6'):
            for i in range(2):
                b.collect([b.leq(rso.square(w[i] - 0.5), x[i] + 0.25)])
        else:
            b.collect([b.leq(rso.square(w - 0.5), x[0:2] + 0.25)])
    obj = p['cl'] @ x + 0.5 * w[0] + 0.25 * w[1] - 0.25 * vv[0] + 0.375 * vv[1]
    if b.has('R6') == 'elem':
        obj = sum(float(p['cl'][j]) * x[j] for j in range(3)) + 0.5 * w[0] + 0.25 * w[1] - 0.25 * vv[0] + 0.375 * vv[1]
    b.finish(obj)


def build_milp(b):
    """Mixed-integer base: continuous + integer + binary columns; the continuous ones carry FRACTIONAL lower and upper
    bounds that are active at the optimum (as bound objects / rows / infinity-norm under R5)."""
    p = b.p
    v = b.declare([('x', 'dvar', 2), ('n', 'ivar', 2), ('q', 'bvar', 2)])
    x, n, q = v['x'], v['n'], v['q']
    sh = p['shift']
    b.collect(b.box(x, np.array([0.5, -0.75]), np.array([3.5, 2.5 + sh])))     # lower active on x0, upper on x1
    b.collect(b.box(n, np.array([0.0, -2.0]), np.array([4.0, 3.0])))
    b.collect(b.rows_leq(np.array([[1.0, 0.0], [0.0, 1.0]]), x, np.array([3.25, 3.0])))
    b.collect([b.geq(n[0], x[0] + 0.75)])             # n0 >= 1.25 -> 2
    b.collect([b.leq(x[1], 1.25 + n[1] + 0.5 * q[0])])
    b.collect([b.geq(q[0] + q[1], 1)])
    b.collect(b.eq(n[1] - q[1], 1))
    obj = p['c'][0] * x[0] - p['c'][1] * x[1] + 0.75 * n[0] + 0.5 * n[1] + 0.25 * q[0] + 0.375 * q[1]
    if b.has('R6') == 'elem':
        obj = float(p['c'][0]) * x[0] - float(p['c'][1]) * x[1] + 0.75 * n[0] + 0.5 * n[1] + 0.25 * q[0] + 0.375 * q[1]
    b.finish(obj)


def zset(b, z, kind):
    """Uncertainty set / support as a list of constraints on z (R5 for the box, R4 for the equality, R3/R7 rows)."""
    p = b.p
    rso = b.rso
    cons = list(b.box(z, -np.ones(2), np.ones(2)))
    if kind == 'norm':
        cons.append(b.leq(rso.norm(z, 1), p['r1']))
    elif kind == 'ball':
        cons.append(b.leq(rso.norm(z, 2), p['r2']))
    elif kind == 'boxeq':
        cons.extend(b.eq(z[0] + z[1], p['shift']))
    return cons


def robust(b, con, zs, fset, aslist=False):
    """Attach the set to a robust constraint (ro: forall(collection) ; dro: forall(ambiguity set), or with aslist
    forall(support constraints) which takes one object)."""
    b.nops += 1
    if b.dro_fe:
        if aslist:
            return con.forall(b.coll1(zs))
        return con.forall(fset) if fset is not None else con
    return con.forall(*b.coll(zs))


def build_ro(b, kind):
    """RO model with a 2-entry decision rule (rows with different coefficients) and a further random variable w that
    is part of the set and of a constraint.  Under R2 (variable order) w is declared AFTER y.adapt(z) and before the
    first use of the rule (ro front end only: the dro front end refuses / mishandles that order, a C09 finding)."""
    p = b.p
    late_w = b.has('R2') in ('v', 'vc') and not b.dro_fe
    specs = [('x', 'dvar', 2), ('y', 'ldr', 2), ('u', 'ldr', ()), ('z', 'rvar', 2)] + \
        ([] if late_w else [('w', 'rvar', 1)])
    v = b.declare(specs)
    x, y, u, z = v['x'], v['y'], v['u'], v['z']
    y.adapt(z)
    u.adapt(z)
    w = b.m.rvar(1) if late_w else v['w']

    def zs_():
        return zset(b, z, kind) + list(b.box(w, np.array([-1.0]), np.array([0.5])))
    fset = None
    zs = zs_()
    if b.dro_fe:
        fset = b.m.ambiguity()
        fset.suppset(*b.coll(zs))
    d = p['d']
    b.collect(b.box(x, np.zeros(2), np.array([2.0, 2.0])))
    b.collect(b.upper(x, np.array([3.0, 2.5])))
    b.collect([b.leq(x[1] - x[0], 1.5)])
    # robust rows: own set (forall) on the first, default set on the others
    if b.has('R6'):
        e1 = d[0] * z[0] + d[1] * z[1] + 1 - x[0]
    else:
        e1 = d @ z + 1 - x[0]
    b.collect([robust(b, b.geq(y[0], e1), zs_(), fset, aslist=True)])
    b.collect([b.geq(y[0], 0.5 * z[1] + 0.25)])
    b.collect([b.geq(y[1], 0.5 * z[0] - 1.0 * z[1] + 0.125 * w.sum())])
    b.collect([b.geq(y[1], -0.25 * z[0] - 0.75)])
    b.collect([b.geq(x[0], y[1] - 0.5 * z[0] + 1.0 * z[1] - 0.25)])     # pays only if row 1 follows its own target
    b.collect(b.eq(u - 0.5 * x[0], 0.75))                               # equality, adaptive decision, constant != 0
    if b.has('R6'):
        e2 = 0.5 * x[0] * z[0] + 0.5 * x[1] * z[1] + 2 * x[0] - x[1] + 0.25 * w[0]
    else:
        e2 = (0.5 * x * z).sum() + 2 * x[0] - x[1] + 0.25 * w.sum()
    b.collect([b.geq(e2, -1.0)])
    obj = p['c'][0] * x[0] - 0.5 * x[1] + y[0] + 0.5 * y[1] + 0.75 * u + 0.5 * z[0] + 0.25 * w.sum()
    if b.dro_fe:
        b.finish(obj, fset)
    else:
        b.finish(obj, zs)


ZB = {'zbox': (np.array([-1.0, 0.0, -0.75]), np.array([0.0, 1.5, 1.25])),      # zero upper | zero lower | free sign
      'zmir': (np.array([0.0, -1.25, -0.5]), np.array([1.0, 0.5, 0.0]))}       # zero lower | free sign | zero upper


MZ = np.array([[1.0, -0.5, 0.5], [-0.5, 1.0, 0.25]])
QZ = np.array([0.25, 0.5])


def zbset(b, z, zu, kind):
    lo, hi = ZB[kind]
    cons = list(b.box(z, lo, hi))
    cons.extend(b.upper(zu, np.array([0.0])))        # one-sided: zero upper bound, no lower bound
    return cons


def build_roz(b, kind):
    """Robust model over a box with exactly-zero bounds; the objective (c - z)@x puts the worst case on the LOWER
    side of every component, the robust row on the UPPER side, so zero lower and zero upper bounds are both active."""
    p = b.p
    v = b.declare([('x', 'dvar', 3), ('z', 'rvar', 3), ('zu', 'rvar', 1)])
    x, z, zu = v['x'], v['z'], v['zu']
    fset = None
    zs = zbset(b, z, zu, kind)
    if b.dro_fe:
        fset = b.m.ambiguity()
        fset.suppset(*b.coll(zs))
    b.collect(b.box(x, np.zeros(3), np.array([4.0, 4.0, 4.0])))
    dpos = np.array([1.0, 1.0, 0.5]) * (p['d'][0])
    if b.has('R6'):
        up = dpos[0] * z[0] + dpos[1] * z[1] + dpos[2] * z[2] + 0.75 * zu[0]
    else:
        up = dpos @ z + 0.75 * zu.sum()
    b.collect([robust(b, b.leq(up + 0.5, x.sum()), zbset(b, z, zu, kind), fset)])
    b.collect([b.leq(x[0] - x[1], 0.75)])
    # ARRAY-valued robust constraints (2 rows; own set and default set): array form versus one constraint per row
    if b.has('R6'):
        for i in range(2):
            b.collect([robust(b, b.leq(MZ[i] @ z + QZ[i], x[i]), zbset(b, z, zu, kind), fset, aslist=True)])
            b.collect([b.leq(MZ[1 - i] @ z * 0.5 + QZ[i], x[i + 1])])
    else:
        b.collect([robust(b, b.leq(MZ @ z + QZ, x[0:2]), zbset(b, z, zu, kind), fset, aslist=True)])
        b.collect([b.leq(MZ[::-1] @ z * 0.5 + QZ, x[1:3])])
    c = p['c']
    if b.has('R6'):
        obj = (c[0] - z[0]) * x[0] + (c[1] - z[1]) * x[1] + (c[2] - z[2]) * x[2] + 0.5 * zu[0]
    else:
        obj = (c - z) @ x + 0.5 * zu.sum()
    if b.dro_fe:
        b.finish(obj, fset)
    else:
        b.finish(obj, zs)


def build_dro(b):
    p = b.p
    rso = b.rso
    v = b.declare([('x', 'dvar', 2), ('y', 'dvar', ()), ('u', 'dvar', 2), ('z', 'rvar', 2)])
    x, y, u, z = v['x'], v['y'], v['u'], v['z']
    y.adapt(z)
    y.adapt(1)
    u.adapt(z)
    m = b.m
    f = m.ambiguity()
    f[0].suppset(*b.coll(zset(b, z, 'norm')))
    # scenario 1: z[0] has an exactly-zero lower bound, z[1] a two-sided non-zero box (mixed dual senses)
    f[1].suppset(*b.coll(b.box(z, np.array([0.0, -1.0]), np.array([1.0, 0.75]))))
    ez = rso.E(z)
    f.exptset(*b.coll([b.leq(ez, np.array([0.25, 0.5])), b.geq(ez, np.array([-0.25, -0.125]))]))
    pl = [b.leq(m.p, np.array([0.75, 0.625])), b.geq(m.p, np.array([0.125, 0.1875]))]
    if b.base == 'dro_pl':
        f.probset(*b.coll(pl)) if b.has('R8') else f.probset(*pl)
    else:
        f.probset(*pl)
    d = p['d']
    b.collect(b.box(x, np.zeros(2), np.array([2.0, 2.0])))
    b.collect([b.leq(x[1] - x[0], 1.5)])
    if b.has('R6'):
        e1 = d[0] * z[0] + d[1] * z[1] + 1 - x[0]
    else:
        e1 = d @ z + 1 - x[0]
    b.collect([b.geq(y, e1)])
    b.collect([b.geq(y, 0.5 * z[1] + 0.25)])
    b.collect([b.geq(rso.E(x[1] + 0.5 * z[1]), 0.75)])
    # equalities on adaptive decisions with non-zero constants (scalar rows and a z-term)
    b.collect(b.eq(u[0] - 0.5 * x[0], 0.75))
    b.collect(b.eq(u[1] - 0.25 * x[1] - 0.5 * z[0] + 0.25 * z[1], 1.25))
    # array-valued robust constraint (2 rows) under the default ambiguity set: array form versus loop
    MD = np.array([[1.0, -0.5], [-0.75, 0.5]])
    if b.has('R6'):
        for i in range(2):
            b.collect([b.leq(MD[i] @ z * 0.25 + 0.125, x[i]).forall(b.coll1(zset(b, z, 'norm')))])
    else:
        b.collect([b.leq(MD @ z * 0.25 + 0.125, x).forall(b.coll1(zset(b, z, 'norm')))])
    obj = rso.E(p['c'][0] * x[0] - 0.5 * x[1] + 2 * y + 0.75 * u[0] + 0.5 * u[1] + 0.5 * z[0])
    b.finish(obj, f)


# ---- family OWN SETS: constraints with their own forall set next to a different default set ------------------------
OWN_RELS = ['in', 'out', 'shift', 'n1', 'n1r']
OWN_WHERES = ['f', 'l', 'a', 'two']
OWN_BASES = ['ro_own_%s_%s' % (r, w) for r in OWN_RELS for w in OWN_WHERES]
OWN_ROWS = ['r0', 'L', 'r1', 'Y', 'r2']            # robust rows in the order they are handed to st
OA = np.array([[2.0, 1.0, 1.0], [1.0, 2.0, 1.0], [1.0, 1.0, 2.0]])
OB0 = np.array([[0.5, 0.0, 0.25], [0.0, 0.25, 0.25], [0.25, 0.0, 0.5]])
OB1 = np.array([[0.0, 0.25, 0.0], [0.25, 0.5, 0.0], [0.0, 0.25, -0.5]])
OBB = np.array([4.0, 4.0, 4.0])
OG = np.array([[0.25, 0.0], [0.0, 0.25], [0.125, -0.125]])
OWN_N1 = [1.0, 0.75, 0.875, 0.5]          # radius of the 1-norm cut per palette


def own_parse(base):
    _, _, rel, where = base.split('_')
    return rel, where


def own_sets(rel, p):
    """The three sets (default Z0, own Z1, second own Z2) as pure data: dict(lo, hi, n1=radius|None, eq=value|None)."""
    def box(lo, hi, n1=None, eq=None):
        return {'lo': [float(v) for v in lo], 'hi': [float(v) for v in hi], 'n1': n1, 'eq': eq}
    if rel == 'in':
        return box([-1, -1], [1, 1]), box([-0.5, -0.5], [0.5, 0.5]), box([-0.75, -0.75], [0.75, 0.75])
    if rel == 'out':
        return box([-0.5, -0.5], [0.5, 0.5]), box([-1, -1], [1, 1]), box([-0.75, -0.75], [0.75, 0.75])
    if rel == 'shift':
        return box([-1, -0.5], [0.5, 1]), box([-0.5, -1], [1, 0.5]), box([-0.75, -0.75], [0.75, 0.75])
    if rel == 'n1':
        return box([-1, -1], [1, 1]), box([-1, -1], [1, 1], n1=OWN_N1[p['k']]), box([-1, -1], [1, 1], eq=p['shift'])
    if rel == 'n1r':
        return box([-1, -1], [1, 1], n1=OWN_N1[p['k']]), box([-1, -1], [1, 1]), box([-1, -1], [1, 1], eq=p['shift'])
    raise ValueError(rel)


def own_assign(where):
    """Row name -> index of its set (0 = default, no forall; 1 / 2 = own set given by forall)."""
    a = dict.fromkeys(OWN_ROWS, 0)
    if where == 'f':
        a['r0'] = 1
    elif where == 'l':
        a['r2'] = 1
    elif where == 'a':
        a = dict.fromkeys(OWN_ROWS, 1)
    elif where == 'two':
        a['r0'] = 1
        a['r2'] = 2
    else:
        raise ValueError(where)
    return a


def own_zset(b, z, st):
    cons = list(b.box(z, np.array(st['lo']), np.array(st['hi'])))
    if st['n1'] is not None:
        cons.append(b.leq(b.rso.norm(z, 1), st['n1']))
    if st['eq'] is not None:
        cons.extend(b.eq(z[0] + z[1], st['eq']))
    return cons


def build_own(b, rel, where):
    """min_x max_{z in Z0} (-c + G z)@x + 0.5 y(z) + 0.25 z0 + 0.25 u   (y a decision rule, u a free auxiliary) s.t.
         r_i:  (A_i + B0_i z0 + B1_i z1)@x <= 4          i = 0, 1, 2      for all z in S(r_i)
         L:    y(z) >= d@z + 0.5 - 0.25 x0                                 for all z in S(L)
         Y:    y(z) >= -0.5 z0 + 0.5 z1 + 0.25                             for all z in S(Y)
         0 <= x <= 4,  x0 - x1 <= 0.75,  u - 0.5 x0 == shift
    where S(row) is the row's own set (forall) or, without forall, the default set Z0 of the objective."""
    p = b.p
    sets = own_sets(rel, p)
    asg = own_assign(where)
    v = b.declare([('x', 'dvar', 3), ('u', 'dvar', ()), ('y', 'ldr', ()), ('z', 'rvar', 2)])
    x, u, y, z = v['x'], v['u'], v['y'], v['z']
    y.adapt(z)
    fset = None
    if b.dro_fe:
        fset = b.m.ambiguity()
        fset.suppset(*b.coll(own_zset(b, z, sets[0])))

    def attach(con, row, aslist):
        k = asg[row]
        if k == 0:
            return con                       # default set
        b.nops += 1
        if b.dro_fe:
            if aslist:                       # forall(support constraints): one object
                return con.forall(b.coll1(own_zset(b, z, sets[k])))
            f = b.m.ambiguity()              # forall(a further ambiguity set of the same model)
            f.suppset(*b.coll(own_zset(b, z, sets[k])))
            b.nops += 2
            return con.forall(f)
        return con.forall(*b.coll(own_zset(b, z, sets[k])))

    def res(i):
        r6 = b.has('R6')
        if r6 == 'elem':
            e = sum(float(OA[i, j]) * x[j] for j in range(3))
            e = e + sum(float(OB0[i, j]) * x[j] * z[0] for j in range(3) if OB0[i, j])
            e = e + sum(float(OB1[i, j]) * x[j] * z[1] for j in range(3) if OB1[i, j])
            return e
        if r6 == 'loop':
            return OA[i] @ x + (OB0[i] @ x) * z[0] + (OB1[i] @ x) * z[1]
        return (OA[i] + OB0[i] * z[0] + OB1[i] * z[1]) @ x

    d = p['d']
    dz = d[0] * z[0] + d[1] * z[1] if b.has('R6') else d @ z
    b.collect([attach(b.leq(res(0), float(OBB[0])), 'r0', True)])
    b.collect([attach(b.geq(y, dz + 0.5 - 0.25 * x[0]), 'L', False)])
    b.collect(b.box(x, np.zeros(3), np.array([4.0, 4.0, 4.0])))
    b.collect([b.leq(x[0] - x[1], 0.75)])
    b.collect(b.eq(u - 0.5 * x[0], p['shift']))
    b.collect([attach(b.leq(res(1), float(OBB[1])), 'r1', False)])
    b.collect([attach(b.geq(y, -0.5 * z[0] + 0.5 * z[1] + 0.25), 'Y', True)])
    b.collect([attach(b.leq(res(2), float(OBB[2])), 'r2', False)])
    c = np.array([1.25, 1.5, 1.25]) * float(p['c'][0])
    if b.has('R6'):
        obj = sum((-float(c[j]) + float(OG[j, 0]) * z[0] + float(OG[j, 1]) * z[1]) * x[j] for j in range(3))
    else:
        obj = (-c + OG[:, 0] * z[0] + OG[:, 1] * z[1]) @ x
    obj = obj + 0.5 * y + 0.25 * z[0] + 0.25 * u
    if b.dro_fe:
        b.finish(obj, fset)
    else:
        b.finish(obj, own_zset(b, z, sets[0]))


def own_vertices(st):
    pieces = [{'k': 'box', 'lo': st['lo'], 'hi': st['hi']}]
    if st['n1'] is not None:
        pieces.append({'k': 'n1', 'c': [0.0, 0.0], 'r': float(st['n1'])})
    if st['eq'] is not None:
        pieces.append({'k': 'eq', 'A': [[1.0, 1.0]], 'b': [float(st['eq'])]})
    V, eps = S.points(pieces, 2, [0.0, 0.0])
    assert eps == 0.0 and len(V) >= 2
    return V


def own_lp(rel, pal, asg):
    """Exact optimum of the model of build_own with the given row -> set assignment: LP over the vertex lists.
    Variables [x0 x1 x2 | u | y0 | Y0 Y1 | t]; pure NumPy / SciPy."""
    from scipy.optimize import linprog
    p = palettes(pal)
    V = [own_vertices(st) for st in own_sets(rel, p)]
    d = p['d']
    c = np.array([1.25, 1.5, 1.25]) * float(p['c'][0])
    rows, rhs = [], []
    for i, name in enumerate(['r0', 'r1', 'r2']):
        for v in V[asg[name]]:
            r = np.zeros(8)
            r[0:3] = OA[i] + OB0[i] * v[0] + OB1[i] * v[1]
            rows.append(r); rhs.append(OBB[i])
    for v in V[asg['L']]:            # d@v + 0.5 - 0.25 x0 - y0 - Y@v <= 0
        r = np.zeros(8)
        r[0] = -0.25; r[4] = -1.0; r[5:7] = -v
        rows.append(r); rhs.append(-(d @ v) - 0.5)
    for v in V[asg['Y']]:            # -0.5 v0 + 0.5 v1 + 0.25 - y0 - Y@v <= 0
        r = np.zeros(8)
        r[4] = -1.0; r[5:7] = -v
        rows.append(r); rhs.append(0.5 * v[0] - 0.5 * v[1] - 0.25)
    for v in V[0]:                   # objective epigraph over the default set
        r = np.zeros(8)
        r[0:3] = -c + OG @ v
        r[3] = 0.25; r[4] = 0.5; r[5:7] = 0.5 * v; r[7] = -1.0
        rows.append(r); rhs.append(-0.25 * v[0])
    r = np.zeros(8)
    r[0] = 1.0; r[1] = -1.0
    rows.append(r); rhs.append(0.75)
    aeq = np.zeros((1, 8))
    aeq[0, 3] = 1.0; aeq[0, 0] = -0.5
    cost = np.zeros(8)
    cost[7] = 1.0
    bnds = [(0.0, 4.0)] * 3 + [(None, None)] * 5
    out = linprog(cost, A_ub=np.array(rows), b_ub=np.array(rhs), A_eq=aeq, b_eq=[p['shift']], bounds=bnds, method='highs')
    if out.status != 0:
        raise RuntimeError('own-set reference LP: status %d' % out.status)
    return float(out.fun)


_OWN_REF = {}


def own_reference(base, pal):
    """(reference optimum, sensitive, smallest gap): sensitive = for EVERY resource row r_i that carries an own set,
    replacing that set by the default set (what a library ignoring / overriding forall would do) moves the optimum
    by more than 1e-3, and giving ALL rows the default set does so too."""
    key = (base, pal)
    if key not in _OWN_REF:
        rel, where = own_parse(base)
        asg = own_assign(where)
        val = own_lp(rel, pal, asg)
        gaps = []
        for row in ('r0', 'r1', 'r2'):
            if asg[row]:
                alt = dict(asg)
                alt[row] = 0
                gaps.append(abs(own_lp(rel, pal, alt) - val))
        gaps.append(abs(own_lp(rel, pal, dict.fromkeys(OWN_ROWS, 0)) - val))
        _OWN_REF[key] = (val, bool(min(gaps) > 1e-3), min(gaps))
    return _OWN_REF[key]


def build(base, act, pal):
    b = Builder(base, act, pal)
    if base == 'lp':
        build_det(b, False)
    elif base == 'socp':
        build_det(b, True)
    elif base == 'milp':
        build_milp(b)
    elif base in ('ro_zbox', 'ro_zmir'):
        build_roz(b, base[3:])
    elif base.startswith('ro_own_'):
        build_own(b, *own_parse(base))
    elif base.startswith('ro_'):
        build_ro(b, base[3:])
    elif base in ('dro', 'dro_pl'):
        build_dro(b)
    else:
        raise ValueError(base)
    return b


_BASE = {}


def solve(base, act, pal, how):
    try:
        b = build(base, act, pal)
        st = C.solve_model(b.m, how)
        if st[0] == 'opt':
            st = ('opt', b.sign * st[1])
        return st, b.nops
    except Exception as ex:  # noqa
        return ('raise', C.exc_class(ex)), 0


def run(case):
    base, act, pal, how = case['base'], case['act'], case['pal'], case['how']
    key = (base, pal, how)
    if key not in _BASE:
        _BASE[key] = solve(base, {}, pal, how)
    ref, n0 = _BASE[key]
    got, n1 = solve(base, act, pal, how)
    tag = '+'.join('%s=%s' % (k, act[k]) for k in sorted(act)) or 'none'
    res = {'ops': n1 + 1, 'states': 2, 'transitions': n0 + n1 + 2}
    detail = 'base %s (%s, palette %d): %s ; rewritten [%s]: %s' % (base, how, pal, C.fmt(ref), tag, C.fmt(got))
    if ref[0] == 'raise' or got[0] == 'raise':
        if ref[0] == 'raise' and got[0] == 'raise':
            res.update(status='unsupported', outcome='both_raise', detail=detail)
            return res
        side = 'rewritten' if got[0] == 'raise' else 'base'
        who = got if got[0] == 'raise' else ref
        res.update(status='violation', sig='c15|%s|%s|%s|%s_raises:%s' % (base, how, tag, side, who[1]),
                   detail=detail)
        return res
    tol = C.TOL_LP if how in ('def', 'ort') else C.TOL_CONE
    c = C.compare_status(got, ref, tol)
    if c == 'vacuous':
        res.update(status='vacuous', outcome='solver:%s/%s' % (got[0], ref[0]), detail=detail)
        return res
    if base.startswith('ro_own_'):
        # absolute oracle (vertex-list LP, SciPy): the optimum the model MEANS, with every row over its own / default set
        val, sensitive, gap = own_reference(base, pal)
        detail += ' ; vertex-LP reference %.6g (smallest own-versus-default gap %.3g)' % (val, gap)
        if C.compare_status(got, ('opt', val), tol) == 'differ':
            res.update(status='violation', sig='c15|%s|%s|%s|reference' % (base, how, tag), detail=detail)
            return res
        if c == 'differ':
            res.update(status='violation', sig='c15|%s|%s|%s|value' % (base, how, tag), detail=detail)
            return res
        res.update(status='pass', outcome='equal+reference' if sensitive else 'equal+reference(set-insensitive)',
                   nontrivial=bool(got[0] == 'opt' and sensitive), validated=2)
        return res
    if c == 'differ':
        res.update(status='violation', sig='c15|%s|%s|%s|value' % (base, how, tag), detail=detail)
        return res
    res.update(status='pass', outcome='equal', nontrivial=bool(got[0] == 'opt' and len(act) > 0), validated=1)
    return res
