"""Spec -> rsome API calls, shared by C11 / C16 (C14 has its own tiny builder).

A spec is pure JSON:
  {'fe': 'ro' | 'dro' | 'lp',            front end (lp = rsome.lp.Model, LP/MILP only)
   'n': 3, 'vt': 'C' | 'CIB' | ...,      one variable array x = m.dvar(n, vt)
   'items': [item, ...],                 in st() order
   'obj': [dir, c] | [dir, 'cvx', kind, ...]}
 items:
  ['row', A (k x n), sense '<='|'>='|'==', b (k), style]   style 'mat': A@x ; 'sum': python sum of A[0][j]*x[j] (k==1,
                                                            zero coefficients are multiplied in, so `0*x[0] <= -1`)
  ['bnd', 'U'|'L', None | [i0, i1], value (number | list), style]   style 'B': x <= v (Bounds object);
                                                            'R': 1.0*x <= v (row);  'A': x <= np.array (array value)
  ['soc', kind, ...] / ['exp', kind, ...]                   see _cone()
This module imports rsome lazily (workers only); gen_cases never calls into it.
"""
import numpy as np

_rs = {}


def load():
    if _rs:
        return _rs
    import rsome as rso
    from rsome import ro, dro, lp, ort_solver, eco_solver, grb_solver
    _rs.update(rso=rso, ro=ro, dro=dro, lp=lp,
               solvers={'def': None, 'ort': ort_solver, 'eco': eco_solver, 'grb': grb_solver})
    try:
        import gurobipy as gp
        _rs['gp'] = gp
    except Exception:  # noqa
        _rs['gp'] = None
    return _rs


def _target(x, idx):
    return x if idx is None else x[idx[0]:idx[1]]


def _aff(x, a, b):
    """a (k x n or n) @ x + b as an rsome expression."""
    a = np.array(a, dtype=float)
    e = a @ x
    if b is not None:
        e = e + (np.array(b, dtype=float) if not np.isscalar(b) else float(b))
    return e


def _cone(rso, x, it):
    kind = it[1]
    if it[0] == 'soc':
        if kind == 'norm':          # ['soc','norm', Ain, bin, cout, dout] : ||Ain x + bin|| <= cout.x + dout
            return rso.norm(_aff(x, it[2], it[3])) <= _aff(x, it[4], it[5])
        if kind == 'norm_r':        # reflected form  cout.x + dout >= norm(.)
            return _aff(x, it[4], it[5]) >= rso.norm(_aff(x, it[2], it[3]))
        if kind == 'square':        # element-wise: square(Ain x + bin) <= Cout x + dout
            return rso.square(_aff(x, it[2], it[3])) <= _aff(x, it[4], it[5])
        if kind == 'sumsqr':
            return rso.sumsqr(_aff(x, it[2], it[3])) <= _aff(x, it[4], it[5])
        if kind == 'rsocone':       # ['soc','rsocone', Ain, bin, cy, dy, cz, dz] : sumsqr(Ain x+bin) <= (cy.x+dy)(cz.x+dz)
            return rso.rsocone(_aff(x, it[2], it[3]), _aff(x, it[4], it[5]), _aff(x, it[6], it[7]))
    if it[0] == 'exp':
        if kind == 'exp':           # exp(a.x+b) <= c.x+d
            return rso.exp(_aff(x, it[2], it[3])) <= _aff(x, it[4], it[5])
        if kind == 'log':           # log(a.x+b) >= c.x+d
            return rso.log(_aff(x, it[2], it[3])) >= _aff(x, it[4], it[5])
        if kind == 'entropy':       # entropy(Ain x + bin) >= c.x + d
            return rso.entropy(_aff(x, it[2], it[3])) >= _aff(x, it[4], it[5])
        if kind == 'kldiv':         # ['exp','kldiv', [i0,i1], phat, r]
            return rso.kldiv(x[it[2][0]:it[2][1]], np.array(it[3], dtype=float), it[4])
    raise ValueError('unknown cone %r' % (it,))


def build(spec):
    """-> (model, x, handles) ; number of API operations in model._nops."""
    rs = load()
    rso = rs['rso']
    fe = spec.get('fe', 'ro')
    if fe == 'ro':
        m = rs['ro'].Model()
    elif fe == 'dro':
        m = rs['dro'].Model()
    elif fe == 'lp':
        m = rs['lp'].Model()
    elif fe == 'socp':
        from rsome import socp
        m = socp.Model()
    elif fe == 'gcp':
        from rsome import gcp
        m = gcp.Model()
    else:
        raise ValueError(fe)
    n = spec['n']
    x = m.dvar(n, spec.get('vt', 'C'))
    nops = 2
    handles = []
    for it in spec['items']:
        k = it[0]
        if k == 'row':
            _, A, s, b, style = it
            A = np.array(A, dtype=float)
            b = np.array(b, dtype=float)
            if style == 'mat':
                lhs = A @ x
                rhs = b
            elif style == 'sum':
                lhs = sum(float(A[0][j]) * x[j] for j in range(n))
                rhs = float(b[0])
            else:
                raise ValueError(style)
            c = (lhs <= rhs) if s == '<=' else (lhs >= rhs) if s == '>=' else (lhs == rhs)
        elif k == 'bnd':
            _, bt, idx, val, style = it
            t = _target(x, idx)
            if style == 'R':
                t = 1.0 * t
            v = float(val) if not isinstance(val, list) else None      # 'inf' / '-inf' strings allowed
            if isinstance(val, list) or style == 'A':
                v = np.array([float(t) for t in val]) if isinstance(val, list) else np.array(
                    [float(val)] * (n if idx is None else idx[1] - idx[0]))
            c = (t <= v) if bt == 'U' else (t >= v)
        elif k in ('soc', 'exp'):
            c = _cone(rso, x, it)
        else:
            raise ValueError(k)
        handles.append(m.st(c))
        nops += 2
    o = spec['obj']
    setter = m.min if o[0] == 'min' else m.max
    if len(o) > 2 and o[1] == 'cvx':
        kind = o[2]
        if kind == 'norm':
            e = rso.norm(_aff(x, o[3], o[4]))
        elif kind == 'sumsqr':
            e = rso.sumsqr(_aff(x, o[3], o[4]))
        elif kind == 'exp':
            e = rso.exp(_aff(x, o[3], o[4]))
        elif kind == 'log':
            e = rso.log(_aff(x, o[3], o[4]))
        elif kind == 'entropy':
            e = rso.entropy(_aff(x, o[3], o[4]))
        else:
            raise ValueError(kind)
        if len(o) > 5:
            e = e + _aff(x, o[5], None)
        setter(e)
    else:
        setter(np.array(o[1], dtype=float) @ x)
    nops += 1
    return m, x, handles, nops


def supports(kind, iface, nint):
    """Which installed interface supports which program class (ECOS_BB only with <= 3 integer variables)."""
    if kind in ('LP', 'MILP'):
        if iface == 'eco' and nint > 3:
            return False
        return True
    if kind in ('SOCP', 'MISOCP'):
        if iface == 'grb':
            return True
        return iface == 'eco' and nint <= 3
    if kind in ('EXP', 'MIEXP'):
        return iface == 'eco' and nint <= 3
    return False
