"""Reference model of event-wise distributionally robust specs (R-dro).  Pure NumPy/SciPy, never imports rsome.

Ambiguity set  F = { P over (s, z) :  P(z in Z_s | s) = 1,  p = (P(s))_s in Pset,
                     E[z | s in E_k] in Q_k  for every declared event E_k }
with polytopic supports Z_s and polyhedral Q_k, Pset.  For integrands that are maxima of affine pieces in z the worst
case over F is attained by distributions supported on the vertices of the Z_s, so with q[s,v] = P(s, z=v):

    sup_P E[f]  =  max  sum q[s,v] f_s(v)   s.t.  q >= 0, sum q = 1,  Pset rows on p_s = sum_v q[s,v],
                                                    C_k sum_{s in E_k} sum_v q[s,v] v  <=  d_k sum_{s in E_k} p_s .

`worst_expectation` solves that LP for given numbers f_s(v) (C03).  `solve` minimises over the decisions by joining
the LP dual of the inner problem (a generic dualiser, independent of rsome's support-level duality) with the
decision variables (C04).
"""
import itertools
import numpy as np
from scipy.optimize import linprog

from . import sets as S


def block_of(part, s):
    for b, blk in enumerate(part):
        if s in blk:
            return b
    raise ValueError('scenario %s not in partition %s' % (s, part))


NPOLY = 720


def mu_hrep(pieces, d):
    """H-representation of a set of means; a 2-norm ball is replaced by a regular 720-gon of mid radius
    (d == 2, error < 5e-6 r) or by its end points (d == 1)."""
    poly = [pc for pc in pieces if pc['k'] != 'n2']
    C, dd, Ce, de = S._hrep(poly, d)
    C, dd = list(C), list(dd)
    for pc in pieces:
        if pc['k'] != 'n2':
            continue
        c = np.array(pc['c'], float)
        if d == 1:
            C += [np.array([1.0]), np.array([-1.0])]
            dd += [c[0] + pc['r'], -c[0] + pc['r']]
        elif d == 2:
            rr = pc['r'] * (1 + np.cos(np.pi / NPOLY)) / 2
            for th in np.linspace(0, 2 * np.pi, NPOLY, endpoint=False):
                a = np.array([np.cos(th), np.sin(th)])
                C.append(a); dd.append(rr + a @ c)
        else:
            raise ValueError('2-norm expectation sets only for d <= 2')
    return np.array(C, float).reshape(-1, d), np.array(dd, float), Ce, de


def amb_data(spec, amb):
    """Vertex lists and the inner-LP rows of an ambiguity set {supp, expts, prob}."""
    d, ns = spec['d'], spec['S']
    Vs = []
    for s in range(ns):
        st = amb['supp'][s]
        V, eps = S.points(st['pieces'], d, st['centre'])
        if eps != 0.0:
            raise ValueError('supports must be polytopes')
        Vs.append(V)
    off = np.cumsum([0] + [len(V) for V in Vs])
    nq = off[-1]

    def pvec(s):
        r = np.zeros(nq)
        r[off[s]:off[s + 1]] = 1.0
        return r
    Aub, bub, Aeq, beq = [], [], [np.ones(nq)], [1.0]
    pr = amb.get('prob', {'kind': 'free'})
    kind = pr['kind']
    pcurved = None
    if kind in ('n2', 'kl') and amb.get('expts'):
        # curved probability set AND expectation sets: two scenarios with singleton supports.  The ambiguity set is then
        # an interval of p0 (every condition is convex in p0), found by a dense scan + bisection on the closed-form
        # membership tests; a linear functional of p attains its maximum at one of the two end points.
        if ns != 2 or any(len(V) != 1 for V in Vs):
            raise ValueError('curved probability sets with expectation sets: S == 2 and singleton supports only')
        ppc = ({'k': 'n2', 'c': list(pr['phat']), 'r': pr['r']} if kind == 'n2'
               else {'k': 'kl', 'q': list(pr['phat']), 'r': pr['r']})
        zh = np.array([Vs[0][0], Vs[1][0]], float)

        def inside(p0):
            pv = np.array([p0, 1.0 - p0])
            if S.piece_resid(ppc, pv[None, :])[0] > 0:
                return False
            for ex in amb['expts']:
                pe = sum(pv[s_] for s_ in ex['event'])
                if pe <= 0:
                    continue
                mean = sum(pv[s_] * zh[s_] for s_ in ex['event']) / pe
                if S.resid(ex['pieces'], mean[None, :])[0] > 1e-12:
                    return False
            return True
        grid = np.linspace(0.0, 1.0, 4001)
        ok = [g for g in grid if inside(g)]
        if not ok:
            raise ValueError('empty ambiguity set')
        ends = []
        for inner, outer in ((min(ok), max(0.0, min(ok) - 0.00025)), (max(ok), min(1.0, max(ok) + 0.00025))):
            if inside(outer):
                ends.append(outer)
                continue
            a_, b_ = inner, outer
            for _ in range(80):
                mid = 0.5 * (a_ + b_)
                if inside(mid):
                    a_ = mid
                else:
                    b_ = mid
            ends.append(a_)
        pcurved = np.array([[e_, 1.0 - e_] for e_ in ends])
    elif kind in ('n2', 'kl'):
        pcs = [{'k': 'eq', 'A': [[1.0] * ns], 'b': [1.0]}]
        pcs.append({'k': 'n2', 'c': list(pr['phat']), 'r': pr['r']} if kind == 'n2'
                   else {'k': 'kl', 'q': list(pr['phat']), 'r': pr['r']})
        if ns == 1:
            pcurved = np.array([[1.0]])
        else:
            Vp, eps = S.points(pcs, ns, list(pr['phat']))
            pcurved = Vp if len(Vp) <= 4000 else Vp[::len(Vp) // 2000]
    elif kind != 'free':
        phat = np.array(pr['phat'], float)
        if kind == 'fixed':
            for s in range(ns):
                Aeq.append(pvec(s)); beq.append(phat[s])
        elif kind in ('box', 'ninf'):
            for s in range(ns):
                Aub.append(pvec(s)); bub.append(phat[s] + pr['r'])
                Aub.append(-pvec(s)); bub.append(-phat[s] + pr['r'])
        elif kind == 'n1':
            for sg in itertools.product((-1.0, 1.0), repeat=ns):
                Aub.append(sum(sg[s] * pvec(s) for s in range(ns)))
                bub.append(pr['r'] + float(np.dot(sg, phat)))
        else:
            raise ValueError(kind)
    for ex in amb.get('expts', []):
        C, dd, Ce, de = mu_hrep(ex['pieces'], d)
        ev = ex['event']
        M = np.zeros((d, nq))       # sum_{s in ev} sum_v q[s,v] v
        pe = np.zeros(nq)
        for s in ev:
            M[:, off[s]:off[s + 1]] = Vs[s].T
            pe += pvec(s)
        for row, rhs in zip(C, dd):
            Aub.append(row @ M - rhs * pe); bub.append(0.0)
        for row, rhs in zip(Ce, de):
            Aeq.append(row @ M - rhs * pe); beq.append(0.0)
    return dict(Vs=Vs, off=off, nq=nq, pcurved=pcurved,
                Aub=np.array(Aub).reshape(-1, nq), bub=np.array(bub, float),
                Aeq=np.array(Aeq).reshape(-1, nq), beq=np.array(beq, float))


def worst_expectation(ad, fvals):
    """max sum q f  over the ambiguity set; fvals: array of length nq.  -> (status, value)."""
    if ad.get('pcurved') is not None:
        F = np.array([np.max(fvals[ad['off'][s]:ad['off'][s + 1]]) for s in range(len(ad['Vs']))])
        return 'optimal', float((ad['pcurved'] @ F).max())
    res = linprog(-np.asarray(fvals, float), A_ub=ad['Aub'] if len(ad['Aub']) else None,
                  b_ub=ad['bub'] if len(ad['Aub']) else None, A_eq=ad['Aeq'], b_eq=ad['beq'],
                  bounds=[(0, None)] * ad['nq'], method='highs')
    if res.status == 0:
        return 'optimal', -res.fun
    return {2: 'infeasible', 3: 'unbounded'}.get(res.status, 'error'), None


# ------------------------------------------------------------------------------------------------------------------
def layout(spec):
    nx, ny, d = spec['nx'], spec.get('ny', 0), spec['d']
    nxb = len(spec['xpart'])
    nyb = len(spec['ypart']) if ny else 0
    ox = 0
    oy0 = ox + nxb * nx
    oY = oy0 + nyb * ny
    ndec = oY + nyb * ny * d
    return dict(nx=nx, ny=ny, d=d, nxb=nxb, nyb=nyb, ox=ox, oy0=oy0, oY=oY, ndec=ndec)


def piece_row(spec, L, piece, s, v):
    """(coef over the decision block, const) of a bi-affine piece at scenario s and realisation v."""
    nx, ny, d = L['nx'], L['ny'], L['d']
    c = np.zeros(L['ndec'])
    ax = np.array(piece.get('ax', [0.0] * nx), float)
    Az = np.array(piece.get('Az', np.zeros((d, nx))), float).reshape(d, nx)
    bx = block_of(spec['xpart'], s)
    c[L['ox'] + bx * nx: L['ox'] + (bx + 1) * nx] = ax + v @ Az
    if ny:
        by = np.array(piece.get('by', [0.0] * ny), float)
        b = block_of(spec['ypart'], s)
        c[L['oy0'] + b * ny: L['oy0'] + (b + 1) * ny] = by
        mask = np.array(spec['mask'], float).reshape(ny, d)
        for j in range(ny):
            for i in range(d):
                if mask[j, i]:
                    c[L['oY'] + (b * ny + j) * d + i] = by[j] * v[i]
    const = float(np.dot(piece.get('cz', [0.0] * d), v)) + piece.get('c0', 0.0)
    return c, const


def amb_of(spec, name):
    if name in (None, 'F'):
        return spec['F']
    return spec[name]


def row_support_points(spec, row, s):
    """Realisations over which a robust (non-E) row must hold in scenario s."""
    name = row.get('set')
    if name == 'supp':
        st = row['supp']
        V, eps = S.points(st['pieces'], spec['d'], st['centre'])
        return V
    amb = amb_of(spec, name)
    st = amb['supp'][s]
    return S.points(st['pieces'], spec['d'], st['centre'])[0]


def decisions_vector(spec, dec):
    """dec = {'x': [per x-block lists], 'y0': [per y-block], 'Y': [per y-block ny x d]} -> vector."""
    L = layout(spec)
    vec = np.zeros(L['ndec'])
    vec[L['ox']:L['oy0']] = np.array(dec['x'], float).reshape(-1)
    if L['ny']:
        vec[L['oy0']:L['oY']] = np.array(dec['y0'], float).reshape(-1)
        vec[L['oY']:] = np.nan_to_num(np.array(dec['Y'], float)).reshape(-1)
    return vec


def pieces_of(row):
    """A row is one bi-affine piece, or a piecewise row  max_k piece_k <= 0  /  min_k piece_k >= 0."""
    return row['pieces'] if 'pieces' in row else [row]


def evaluate(spec, dec):
    """C03 oracle: worst-case expectations / worst cases of the objective and of every row at the given decisions."""
    L = layout(spec)
    vec = decisions_vector(spec, dec)
    cache = {}

    def ad_of(name):
        key = name or 'F'
        if key not in cache:
            cache[key] = amb_data(spec, amb_of(spec, name))
        return cache[key]
    out = {'rows': []}
    for row in spec['rows']:
        sgn = -1.0 if row['sense'] == '>=' else 1.0
        if row.get('E'):
            ad = ad_of(row.get('set'))
            f = np.full(ad['nq'], -np.inf)
            for s in range(spec['S']):
                for vi, v in enumerate(ad['Vs'][s]):
                    for pc in pieces_of(row):
                        c, k = piece_row(spec, L, pc, s, v)
                        f[ad['off'][s] + vi] = max(f[ad['off'][s] + vi], sgn * (c @ vec + k))
            st, val = worst_expectation(ad, f)
            out['rows'].append({'kind': 'E', 'status': st, 'worst': val})
        else:
            worst = -np.inf
            mx, mn = -np.inf, np.inf
            for s in range(spec['S']):
                for v in row_support_points(spec, row, s):
                    for pc in pieces_of(row):
                        c, k = piece_row(spec, L, pc, s, v)
                        g = c @ vec + k
                        mx, mn = max(mx, g), min(mn, g)
            out['rows'].append({'kind': 'R', 'max': mx, 'min': mn})
    o = spec['obj']
    sgn = 1.0 if o['kind'] in ('min', 'minsup') else -1.0
    if o.get('E'):
        ad = ad_of(None)
        f = np.full(ad['nq'], -np.inf)
        for s in range(spec['S']):
            for vi, v in enumerate(ad['Vs'][s]):
                for piece in o['pieces']:
                    c, k = piece_row(spec, L, piece, s, v)
                    f[ad['off'][s] + vi] = max(f[ad['off'][s] + vi], sgn * (c @ vec + k))
        st, val = worst_expectation(ad, f)
        out['obj'] = {'status': st, 'worst': None if val is None else sgn * val}
    else:
        worst = -np.inf
        for s in range(spec['S']):
            pts = (S.points(spec['F']['supp'][s]['pieces'], spec['d'], spec['F']['supp'][s]['centre'])[0]
                   if spec.get('F') else np.zeros((1, spec['d'])))
            for v in pts:
                for piece in o['pieces']:
                    c, k = piece_row(spec, L, piece, s, v)
                    worst = max(worst, sgn * (c @ vec + k))
        out['obj'] = {'status': 'optimal', 'worst': sgn * worst}
    return out


def solve(spec):
    """C04 oracle: optimal worst-case expectation under the declared event-wise affine adaptation (one LP)."""
    L = layout(spec)
    nx, ny, d = L['nx'], L['ny'], L['d']
    blocks = []          # extra variable blocks: (size, lb) ; decisions first
    nvar = L['ndec']
    lb = [None] * nvar
    ub = [None] * nvar
    for b in range(L['nxb']):
        for j in range(nx):
            lb[L['ox'] + b * nx + j] = spec['xlo'][j]
            ub[L['ox'] + b * nx + j] = spec['xhi'][j]
    if ny:
        mask = np.array(spec['mask'], float).reshape(ny * d)
        for b in range(L['nyb']):
            for k in range(ny * d):
                if not mask[k]:
                    lb[L['oY'] + b * ny * d + k] = 0.0
                    ub[L['oY'] + b * ny * d + k] = 0.0
    rows_ub, rhs_ub, rows_eq, rhs_eq = [], [], [], []

    def new_vars(n, lo, hi):
        nonlocal nvar
        start = nvar
        nvar += n
        lb.extend([lo] * n)
        ub.extend([hi] * n)
        return start

    cache = {}

    def ad_of(name):
        key = name or 'F'
        if key not in cache:
            cache[key] = amb_data(spec, amb_of(spec, name))
        return cache[key]

    def add_sup_E(ad, pieces_fn, bound_row):
        """sup_P E[max_k piece_k] <= bound  where bound_row is (coef dict over existing vars, const):
        introduce multipliers lam>=0 (ub rows), mu free (eq rows): b.lam + beq.mu <= bound ;
        for every (s,v), k:  piece_k(s,v) - (A'lam + Aeq'mu)_{s,v} <= 0."""
        if ad.get('pcurved') is not None:
            # sup_p sum_s p_s F_s with F_s >= piece_k(s, v): rows for every listed boundary point p
            oF = new_vars(spec['S'], None, None)
            coef, const = bound_row
            for pvec in ad['pcurved']:
                r = {oF + s_: pvec[s_] for s_ in range(spec['S'])}
                for k_, val in coef.items():
                    r[k_] = r.get(k_, 0.0) - val
                rows_ub.append(r); rhs_ub.append(const)
            for s_ in range(spec['S']):
                for v in ad['Vs'][s_]:
                    for c, k_ in pieces_fn(s_, v):
                        r = {j: c[j] for j in np.flatnonzero(c)}
                        r[oF + s_] = r.get(oF + s_, 0.0) - 1.0
                        rows_ub.append(r); rhs_ub.append(-k_)
            return
        nl, nm = len(ad['bub']), len(ad['beq'])
        ol = new_vars(nl, 0.0, None)
        om = new_vars(nm, None, None)
        r = {}
        for i in range(nl):
            r[ol + i] = ad['bub'][i]
        for i in range(nm):
            r[om + i] = ad['beq'][i]
        coef, const = bound_row
        for k, val in coef.items():
            r[k] = r.get(k, 0.0) - val
        rows_ub.append(r); rhs_ub.append(const)
        for s in range(spec['S']):
            for vi, v in enumerate(ad['Vs'][s]):
                qi = ad['off'][s] + vi
                for c, k in pieces_fn(s, v):
                    r = {j: c[j] for j in np.flatnonzero(c)}
                    for i in range(nl):
                        if ad['Aub'][i, qi]:
                            r[ol + i] = r.get(ol + i, 0.0) - ad['Aub'][i, qi]
                    for i in range(nm):
                        if ad['Aeq'][i, qi]:
                            r[om + i] = r.get(om + i, 0.0) - ad['Aeq'][i, qi]
                    rows_ub.append(r); rhs_ub.append(-k)

    o = spec['obj']
    sgn = 1.0 if o['kind'] in ('min', 'minsup') else -1.0
    t = new_vars(1, None, None)
    if o.get('E'):
        ad = ad_of(None)

        def obj_pieces(s, v):
            out = []
            for piece in o['pieces']:
                c, k = piece_row(spec, L, piece, s, v)
                out.append((sgn * c, sgn * k))
            return out
        add_sup_E(ad, obj_pieces, ({t: 1.0}, 0.0))
    else:
        for s in range(spec['S']):
            pts = (S.points(spec['F']['supp'][s]['pieces'], d, spec['F']['supp'][s]['centre'])[0]
                   if spec.get('F') else np.zeros((1, d)))
            for v in pts:
                for piece in o['pieces']:
                    c, k = piece_row(spec, L, piece, s, v)
                    r = {j: sgn * c[j] for j in np.flatnonzero(c)}
                    r[t] = -1.0
                    rows_ub.append(r); rhs_ub.append(-sgn * k)
    for row in spec['rows']:
        if row.get('E'):
            ad = ad_of(row.get('set'))
            sg = -1.0 if row['sense'] == '>=' else 1.0

            def row_pieces(s, v, row=row, sg=sg):
                out = []
                for pc in pieces_of(row):
                    c, k = piece_row(spec, L, pc, s, v)
                    out.append((sg * c, sg * k))
                return out
            add_sup_E(ad, row_pieces, ({}, 0.0))
        else:
            for s in range(spec['S']):
                for v in row_support_points(spec, row, s):
                    for pc in pieces_of(row):
                        c, k = piece_row(spec, L, pc, s, v)
                        r = {j: c[j] for j in np.flatnonzero(c)}
                        if row['sense'] == '<=':
                            rows_ub.append(r); rhs_ub.append(-k)
                        elif row['sense'] == '>=':
                            rows_ub.append({j: -a for j, a in r.items()}); rhs_ub.append(k)
                        else:
                            rows_eq.append(r); rhs_eq.append(-k)

    def dense(rows):
        M = np.zeros((len(rows), nvar))
        for i, r in enumerate(rows):
            for j, a in r.items():
                M[i, j] = a
        return M
    cost = np.zeros(nvar)
    cost[t] = 1.0
    res = linprog(cost, A_ub=dense(rows_ub) if rows_ub else None, b_ub=np.array(rhs_ub) if rows_ub else None,
                  A_eq=dense(rows_eq) if rows_eq else None, b_eq=np.array(rhs_eq) if rows_eq else None,
                  bounds=list(zip(lb, ub)), method='highs')
    if res.status == 0:
        x = res.x
        dec = {'x': x[L['ox']:L['oy0']].reshape(L['nxb'], nx).tolist()}
        if ny:
            dec['y0'] = x[L['oy0']:L['oY']].reshape(L['nyb'], ny).tolist()
            dec['Y'] = x[L['oY']:L['ndec']].reshape(L['nyb'], ny, d).tolist()
        return {'status': 'optimal', 'value': float(sgn * x[t]), 'dec': dec}
    return {'status': {2: 'infeasible', 3: 'unbounded'}.get(res.status, 'error%d' % res.status)}
