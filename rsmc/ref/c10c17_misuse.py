"""C17 tables: cross-model uses, misuse list, interleaved builds (rsome imported lazily through c10c17_build)."""
import numpy as np

from . import c10c17_build as B


class M:
    """A model with a standard set of objects.  ro: x,y,w,u,X (decisions), z,zs (random), ldr.
    dro (2 scenarios): the same plus v (decision to be adapted), fset (ambiguity set, created first), p."""

    def __init__(self, fe, tag=0):
        rs = B.init()
        self.fe = fe
        self.ops = 0
        if fe == 'ro':
            m = rs['ro'].Model()
        else:
            m = rs['dro'].Model(2)
        self.m = m
        self.z = m.rvar(2)
        self.zs = m.rvar()
        if fe == 'dro':
            self.fset = m.ambiguity()
            self.p = m.p
            self.fset.suppset(self.z >= -1, self.z <= 1, self.zs >= -1, self.zs <= 1)
        self.x = m.dvar(2)
        self.y = m.dvar()
        self.w = m.dvar()
        self.u = m.dvar()
        self.X = m.dvar((2, 2))
        self.v = m.dvar(2)
        if fe == 'ro':
            self.ldr = m.ldr(2)
        self.ops = 12

    # uncertainty set of this model as constraints on its own random variables
    def zset(self):
        return [self.z >= -1, self.z <= 1, self.zs >= -1, self.zs <= 1]

    def has_obj(self):
        return self.m.obj is not None

    def finish(self):
        """Make the model compilable (objective + one ordinary constraint) and compile it."""
        m = self.m
        if not self.has_obj():
            if self.fe == 'ro':
                m.minmax(self.u, self.zset())
            else:
                m.minsup(self.u, self.fset)
        m.st(self.u >= 0)
        f = m.do_math()
        if f is None:
            raise RuntimeError('do_math returned None')
        return f


# ------------------------------------------------------------------------------------------------------------
# (i) cross-model table.  Every entry performs ONE API use on model A with one operand taken from model B and
# hands the result to A.  need: which front end B (resp. A) must be ('*' = any).
def _st_le1(A, e):
    A.m.st((e.sum() if getattr(e, 'size', 1) > 1 and hasattr(e, 'sum') else e) <= 1)


def _rs():
    return B.init()['rso']


def _E():
    return B.init()['E']


CROSS = {}


def entry(name, a='*', b='*'):
    def deco(fn):
        CROSS[name] = (a, b, fn)
        return fn
    return deco


# ---- operators
@entry('op:xA+xB')
def _(A, Bm): _st_le1(A, A.x + Bm.x)
@entry('op:xB+xA')
def _(A, Bm): _st_le1(A, Bm.x + A.x)
@entry('op:xA-xB')
def _(A, Bm): _st_le1(A, A.x - Bm.x)
@entry('op:affA+affB')
def _(A, Bm): _st_le1(A, (2 * A.x + 1) + 3 * Bm.x)
@entry('op:yA+xB[0]')
def _(A, Bm): _st_le1(A, A.y + Bm.x[0])
@entry('op:xA+zB')
def _(A, Bm): _st_le1(A, A.x + Bm.z)
@entry('op:zA+xB')
def _(A, Bm): _st_le1(A, A.z + Bm.x)
@entry('op:zB+xA')
def _(A, Bm): _st_le1(A, Bm.z + A.x)
@entry('op:xA*zB')
def _(A, Bm): _st_le1(A, A.x * Bm.z)
@entry('op:zB*xA')
def _(A, Bm): _st_le1(A, Bm.z * A.x)
@entry('op:zA*xB')
def _(A, Bm): _st_le1(A, A.z * Bm.x)
@entry('op:xA@zB')
def _(A, Bm): _st_le1(A, A.x @ Bm.z)
@entry('op:zA@xB')
def _(A, Bm): _st_le1(A, A.z @ Bm.x)
@entry('op:zB@xA')
def _(A, Bm): _st_le1(A, Bm.z @ A.x)
@entry('op:(xz)A+(xz)B')
def _(A, Bm): _st_le1(A, A.x * A.z + Bm.x * Bm.z)
@entry('op:(xz)A+xB')
def _(A, Bm): _st_le1(A, A.x * A.z + Bm.x)
@entry('op:(xz)A+zB')
def _(A, Bm): _st_le1(A, A.x * A.z + Bm.z)
@entry('op:(xz)A-xB')
def _(A, Bm): _st_le1(A, A.x * A.z - Bm.x)
@entry('op:xB+(xz)A')
def _(A, Bm): _st_le1(A, Bm.x + A.x * A.z)
@entry('op:ldrA+xB', a='ro')
def _(A, Bm):
    A.ldr.adapt(A.z)
    _st_le1(A, A.ldr + Bm.x)
@entry('op:ldrA+zB', a='ro')
def _(A, Bm):
    A.ldr.adapt(A.z)
    _st_le1(A, A.ldr + Bm.z)
@entry('op:xA<=xB')
def _(A, Bm): A.m.st(A.x <= Bm.x)
@entry('op:xA>=xB')
def _(A, Bm): A.m.st(A.x >= Bm.x)
@entry('op:xA==xB')
def _(A, Bm): A.m.st(A.x == Bm.x)
@entry('op:xB<=xA')
def _(A, Bm): A.m.st(Bm.x <= A.x)
@entry('op:(xz)A<=xB')
def _(A, Bm): A.m.st(A.x @ A.z <= Bm.y)
@entry('op:exp(yA)+yB')
def _(A, Bm): A.m.st(_rs().exp(A.y) + Bm.y <= 1)
@entry('op:exp(yA)<=yB')
def _(A, Bm): A.m.st(_rs().exp(A.y) <= Bm.y)
@entry('op:yB>=abs(yA)')
def _(A, Bm): A.m.st(Bm.y >= abs(A.y))
@entry('op:norm(xA)<=yB')
def _(A, Bm): A.m.st(_rs().norm(A.x) <= Bm.y)
@entry('op:log(yA)>=yB')
def _(A, Bm): A.m.st(_rs().log(A.y) >= Bm.y)
@entry('op:maxof(A)+yB')
def _(A, Bm): A.m.st(_rs().maxof(A.x[0], A.x[1]) + Bm.y <= 1)
@entry('op:maxof(A)<=yB')
def _(A, Bm): A.m.st(_rs().maxof(A.x[0], A.x[1]) <= Bm.y)
@entry('op:Emaxof(A)<=yB', a='dro')
def _(A, Bm): A.m.st(_E()(_rs().maxof(A.x[0] + A.zs, A.x[1])) <= Bm.y)
@entry('op:E(xz)A+yB', a='dro')
def _(A, Bm): A.m.st(_E()(A.x @ A.z) + Bm.y <= 1)


# ---- st(): a constraint of B handed to A
def _cons_of(Bm, kind):
    rso = _rs()
    if kind == 'lin':
        return Bm.x[0] + Bm.x[1] <= 1
    if kind == 'eq':
        return Bm.x[0] + Bm.x[1] == 1
    if kind == 'bounds':
        return Bm.x >= 0
    if kind == 'abs':
        return abs(Bm.y) <= 1
    if kind == 'norm2':
        return rso.norm(Bm.x) <= 1
    if kind == 'square':
        return rso.square(Bm.y) <= 1
    if kind == 'pnorm3':
        return rso.pnorm(Bm.x, 3) <= 1
    if kind == 'exp':
        return rso.exp(Bm.y) <= 1
    if kind == 'pexp':
        return rso.pexp(Bm.y, Bm.w) <= Bm.u
    if kind == 'robust':
        return Bm.x @ Bm.z <= 1
    if kind == 'robusteq':
        return Bm.x * Bm.z == 0
    if kind == 'maxof':
        return rso.maxof(Bm.x[0], Bm.x[1]) <= 1
    if kind == 'expcone':
        return rso.expcone(Bm.y, Bm.w, Bm.u)
    if kind == 'kldiv':
        return rso.kldiv(Bm.x, 0.5, 0.1)
    if kind == 'rsocone':
        return rso.rsocone(Bm.x, Bm.y, Bm.w)
    if kind == 'lmi':
        return Bm.X >> 0
    if kind == 'rand':
        return Bm.z <= 1
    if kind == 'randlin':
        return Bm.z[0] + Bm.z[1] <= 1
    if kind == 'Epw':
        return _E()(rso.maxof(Bm.x[0] + Bm.zs, Bm.x[1])) <= 1
    if kind == 'Elin':
        return _E()(Bm.x @ Bm.z) <= 1
    raise ValueError(kind)


ST_KINDS = ['lin', 'eq', 'bounds', 'abs', 'norm2', 'square', 'pnorm3', 'exp', 'pexp', 'robust', 'robusteq', 'maxof',
            'expcone', 'kldiv', 'rsocone', 'lmi', 'rand', 'randlin']
for _k in ST_KINDS + ['Epw', 'Elin']:
    def _mk(k):
        def f(A, Bm): A.m.st(_cons_of(Bm, k))
        def g(A, Bm): A.m.st([A.y <= 1, _cons_of(Bm, k)])
        return f, g
    _f, _g = _mk(_k)
    CROSS['st:' + _k] = ('*', 'dro' if _k in ('Epw', 'Elin') else '*', _f)
    CROSS['st:[own,%s]' % _k] = ('*', 'dro' if _k in ('Epw', 'Elin') else '*', _g)


# ---- forall / uncertainty sets attached to constraints
@entry('forall:robustA.forall(zsetB)')
def _(A, Bm): A.m.st((A.x @ A.z <= 1).forall(Bm.zset()))
@entry('forall:robustA.forall(zB<=1,zA>=-1)')
def _(A, Bm): A.m.st((A.x @ A.z <= 1).forall(A.z >= -1, Bm.z <= 1))
@entry('forall:robustA.forall(fsetB)', a='dro', b='dro')
def _(A, Bm): A.m.st((A.x @ A.z <= 1).forall(Bm.fset))
@entry('forall:linA.forall(fsetB)', a='dro', b='dro')
def _(A, Bm): A.m.st((A.x[0] + A.x[1] <= 1).forall(Bm.fset))
@entry('forall:adaptlinA.forall(fsetB)', a='dro', b='dro')
def _(A, Bm):
    A.v.adapt(A.z)
    A.m.st((A.v[0] + A.v[1] <= 1).forall(Bm.fset))
@entry('forall:E(xz)A.forall(fsetB)', a='dro', b='dro')
def _(A, Bm): A.m.st((_E()(A.x @ A.z) <= 1).forall(Bm.fset))
@entry('forall:EpwA.forall(fsetB)', a='dro', b='dro')
def _(A, Bm): A.m.st((_E()(_rs().maxof(A.x[0] + A.zs, A.x[1])) <= 1).forall(Bm.fset))
@entry('forall:pwA.forall(zsetB)')
def _(A, Bm): A.m.st((_rs().maxof(A.x[0] * A.zs, A.x[1]) <= 1).forall(Bm.zset()))


# sets of B made of constraint kinds that the lower model layers do not re-check (only forall/minmax/suppset do)
def _bset(Bm, kind):
    rso = _rs()
    if kind == 'norm':
        return [rso.norm(Bm.z) <= 1]
    if kind == 'exp':
        return [rso.exp(Bm.zs) <= 2, Bm.zs >= -1]
    if kind == 'entropy':
        return [rso.entropy(Bm.z) >= 0.1, Bm.z <= 1]
    if kind == 'kldiv':
        return [rso.kldiv(Bm.z, 0.5, 0.1)]
    if kind == 'expcone':
        return [rso.expcone(Bm.z[0], Bm.z[1], 1), Bm.z <= 1, Bm.z >= -1]
    if kind == 'pnorm3':
        return [rso.pnorm(Bm.z, 3) <= 1]
    if kind == 'softplus':
        return [rso.softplus(Bm.zs) <= 1, Bm.zs >= -1]
    raise ValueError(kind)


BSET_KINDS = ['norm', 'exp', 'entropy', 'kldiv', 'expcone', 'pnorm3', 'softplus']
for _k in BSET_KINDS:
    def _mk2(k):
        def f1(A, Bm): A.m.st((A.x @ A.z <= 1).forall(_bset(Bm, k)))
        def f2(A, Bm): A.m.minmax(A.x @ A.z, _bset(Bm, k))
        def f3(A, Bm): A.fset.suppset(_bset(Bm, k))
        def f4(A, Bm): A.m.st((_rs().maxof(A.x[0] * A.zs, A.x[1]) <= 1).forall(_bset(Bm, k)))
        return f1, f2, f3, f4
    _f1, _f2, _f3, _f4 = _mk2(_k)
    CROSS['forall:robustA.forall(%s-set of B)' % _k] = ('*', '*', _f1)
    CROSS['obj:minmax((xz)A,%s-set of B)' % _k] = ('ro', '*', _f2)
    CROSS['set:suppset(%s-set of B)' % _k] = ('dro', '*', _f3)
    CROSS['forall:pwA.forall(%s-set of B)' % _k] = ('*', '*', _f4)


# ---- objectives
@entry('obj:min(yB)')
def _(A, Bm): A.m.min(Bm.y)
@entry('obj:max(yB)')
def _(A, Bm): A.m.max(Bm.y)
@entry('obj:min(sum xB)')
def _(A, Bm): A.m.min(Bm.x.sum())
@entry('obj:min(2*yB+1)')
def _(A, Bm): A.m.min(2 * Bm.y + 1)
@entry('obj:min(exp(yB))')
def _(A, Bm): A.m.min(_rs().exp(Bm.y))
@entry('obj:min(abs(yB))')
def _(A, Bm): A.m.min(abs(Bm.y))
@entry('obj:min(maxof(xB))')
def _(A, Bm): A.m.min(_rs().maxof(Bm.x[0], Bm.x[1]))
@entry('obj:min(yA+yB)')
def _(A, Bm): A.m.min(A.y + Bm.y)
@entry('obj:minmax(yB,zsetA)', a='ro')
def _(A, Bm): A.m.minmax(Bm.y, A.zset())
@entry('obj:minmax((xz)B,zsetA)', a='ro')
def _(A, Bm): A.m.minmax(Bm.x @ Bm.z, A.zset())
@entry('obj:maxmin((xz)B,zsetA)', a='ro')
def _(A, Bm): A.m.maxmin(Bm.x @ Bm.z, A.zset())
@entry('obj:minmax((xz)A,zsetB)', a='ro')
def _(A, Bm): A.m.minmax(A.x @ A.z, Bm.zset())
@entry('obj:maxmin((xz)A,zsetB)', a='ro')
def _(A, Bm): A.m.maxmin(A.x @ A.z, Bm.zset())
@entry('obj:minmax(yA,zB<=1)', a='ro')
def _(A, Bm): A.m.minmax(A.y, Bm.z <= 1)
@entry('obj:minsup(yB,fsetA)', a='dro')
def _(A, Bm): A.m.minsup(Bm.y, A.fset)
@entry('obj:minsup(E(xz)B,fsetA)', a='dro', b='dro')
def _(A, Bm): A.m.minsup(_E()(Bm.x @ Bm.z), A.fset)
@entry('obj:maxinf((xz)B,fsetA)', a='dro')
def _(A, Bm): A.m.maxinf(Bm.x @ Bm.z, A.fset)
@entry('obj:minsup(E(xz)A,fsetB)', a='dro', b='dro')
def _(A, Bm): A.m.minsup(_E()(A.x @ A.z), Bm.fset)
@entry('obj:maxinf(E(xz)A,fsetB)', a='dro', b='dro')
def _(A, Bm): A.m.maxinf(_E()(A.x @ A.z), Bm.fset)
@entry('obj:minsup(yA,fsetB)', a='dro', b='dro')
def _(A, Bm): A.m.minsup(A.y, Bm.fset)


# expressions built with a foreign operand and handed over as the objective (st() is not involved)
def _as_obj(A, e):
    e = e.sum() if getattr(e, 'size', 1) > 1 and hasattr(e, 'sum') else e
    if A.fe == 'ro':
        A.m.minmax(e, A.zset())
    else:
        A.m.minsup(_E()(e) if hasattr(e, 'E') else e, A.fset)


for _nm, _fn in [('xA+xB', lambda A, Bm: A.x + Bm.x), ('xA*zB', lambda A, Bm: A.x * Bm.z),
                 ('zB*xA', lambda A, Bm: Bm.z * A.x), ('zA*xB', lambda A, Bm: A.z * Bm.x),
                 ('xA@zB', lambda A, Bm: A.x @ Bm.z), ('zA@xB', lambda A, Bm: A.z @ Bm.x),
                 ('(xz)A+(xz)B', lambda A, Bm: A.x * A.z + Bm.x * Bm.z), ('(xz)A+zB', lambda A, Bm: A.x * A.z + Bm.z),
                 ('(xz)A+xB', lambda A, Bm: A.x * A.z + Bm.x)]:
    def _mk3(fn):
        return lambda A, Bm: _as_obj(A, fn(A, Bm))
    CROSS['obj:worst-case(%s)' % _nm] = ('*', '*', _mk3(_fn))


# ---- adaptation
@entry('adapt:ldrA.adapt(zB)', a='ro')
def _(A, Bm):
    A.ldr.adapt(Bm.z)
    _st_le1(A, A.ldr)
@entry('adapt:ldrA[0].adapt(zB[0])', a='ro')
def _(A, Bm):
    A.ldr[0].adapt(Bm.z[0])
    _st_le1(A, A.ldr)
@entry('adapt:vA.adapt(zB)', a='dro')
def _(A, Bm):
    A.v.adapt(Bm.z)
    _st_le1(A, A.v)
@entry('adapt:vA[0].adapt(zB[0])', a='dro')
def _(A, Bm):
    A.v[0].adapt(Bm.z[0])
    _st_le1(A, A.v)


# ---- second calls of stateful declarations: a legal first call, then one with an object of model B
# (B.zs has random index 2, which the legal first call on A.z / A.z[0] leaves free, so only an ownership check
#  can reject the second call)
@entry('2nd:ldrA.adapt(zA);ldrA.adapt(zsB)', a='ro')
def _(A, Bm):
    A.ldr.adapt(A.z)
    A.ldr.adapt(Bm.zs)
    _st_le1(A, A.ldr)
@entry('2nd:ldrA[0].adapt(zA[0]);ldrA[0].adapt(zsB)', a='ro')
def _(A, Bm):
    A.ldr[0].adapt(A.z[0])
    A.ldr[0].adapt(Bm.zs)
    _st_le1(A, A.ldr)
@entry('2nd:ldrA[0].adapt(zA[0]);ldrA[1].adapt(zB[1])', a='ro')
def _(A, Bm):
    A.ldr[0].adapt(A.z[0])
    A.ldr[1].adapt(Bm.z[1])
    _st_le1(A, A.ldr)
@entry('2nd:ldrA.adapt(zA[0]);ldrA.adapt(zB[1])', a='ro')
def _(A, Bm):
    A.ldr.adapt(A.z[0])
    A.ldr.adapt(Bm.z[1])
    _st_le1(A, A.ldr)
@entry('2nd:vA.adapt(zA);vA.adapt(zsB)', a='dro')
def _(A, Bm):
    A.v.adapt(A.z)
    A.v.adapt(Bm.zs)
    _st_le1(A, A.v)
@entry('2nd:vA[0].adapt(zA[0]);vA[0].adapt(zsB)', a='dro')
def _(A, Bm):
    A.v[0].adapt(A.z[0])
    A.v[0].adapt(Bm.zs)
    _st_le1(A, A.v)
@entry('2nd:vA[0].adapt(zA[0]);vA[1].adapt(zB[1])', a='dro')
def _(A, Bm):
    A.v[0].adapt(A.z[0])
    A.v[1].adapt(Bm.z[1])
    _st_le1(A, A.v)
@entry('2nd:vA.adapt(zA[0]);vA.adapt(zB[1])', a='dro')
def _(A, Bm):
    A.v.adapt(A.z[0])
    A.v.adapt(Bm.z[1])
    _st_le1(A, A.v)
@entry('2nd:vA.adapt(zA);yA.adapt(zsB)', a='dro')
def _(A, Bm):
    A.v.adapt(A.z)
    A.y.adapt(Bm.zs)
    _st_le1(A, A.y + A.v.sum())
@entry('2nd:xA.adapt(sA[0]);vA.adapt(sB[1])', a='dro', b='dro')
def _(A, Bm):
    A.x.adapt(A.fset[0])
    A.v.adapt(Bm.fset[1])
    _st_le1(A, A.v)
@entry('2nd:vA.adapt(sA[0]);vA.adapt(sB[1])', a='dro', b='dro')
def _(A, Bm):
    A.v.adapt(A.fset[0])
    A.v.adapt(Bm.fset[1])
    _st_le1(A, A.v)
@entry('1st:vA.adapt(sB[0])', a='dro', b='dro')
def _(A, Bm):
    A.v.adapt(Bm.fset[0])
    _st_le1(A, A.v)
@entry('2nd:s[0].suppset(own);s[1].suppset(zB)', a='dro')
def _(A, Bm):
    A.fset[0].suppset(A.z >= -1, A.z <= 1, A.zs >= -1, A.zs <= 1)
    A.fset[1].suppset(Bm.z >= -1, Bm.z <= 1, Bm.zs >= -1, Bm.zs <= 1)
@entry('2nd:exptset(own);exptset(E(zB))', a='dro', b='dro')
def _(A, Bm):
    A.fset.exptset(_E()(A.z) <= 0.5, _E()(A.z) >= -0.5)
    A.fset.exptset(_E()(Bm.z) <= 0.25, _E()(Bm.z) >= -0.25)
@entry('2nd:exptset(own);s[0].exptset(E(zsB))', a='dro', b='dro')
def _(A, Bm):
    A.fset.exptset(_E()(A.z) <= 0.5, _E()(A.z) >= -0.5)
    A.fset[0].exptset(_E()(Bm.zs) == 0)
@entry('2nd:probset(own);probset(pB)', a='dro', b='dro')
def _(A, Bm):
    A.fset.probset(A.p <= 0.75)
    A.fset.probset(Bm.p <= 0.75)
@entry('2nd:probset(own);probset(norm(pB-.5))', a='dro', b='dro')
def _(A, Bm):
    A.fset.probset(_rs().norm(A.p - 0.5) <= 0.2)
    A.fset.probset(_rs().norm(Bm.p - 0.5) <= 0.2)
@entry('2nd:c.forall(zsetA);c.forall(zsetB)')
def _(A, Bm):
    c = (A.x @ A.z <= 1)
    c.forall(A.zset())
    c.forall(Bm.zset())
    A.m.st(c)
@entry('2nd:c.forall(fsetA);c.forall(fsetB)', a='dro', b='dro')
def _(A, Bm):
    c = (A.x @ A.z <= 1)
    c.forall(A.fset)
    c.forall(Bm.fset)
    A.m.st(c)
@entry('2nd:Ec.forall(fsetA);Ec.forall(fsetB)', a='dro', b='dro')
def _(A, Bm):
    c = (_E()(A.x @ A.z) <= 1)
    c.forall(A.fset)
    c.forall(Bm.fset)
    A.m.st(c)
@entry('2nd:pw.forall(zsetA).forall(zsetB)')
def _(A, Bm):
    c = (_rs().maxof(A.x[0] * A.zs, A.x[1]) <= 1)
    A.m.st(c.forall(A.zset()).forall(Bm.zset()))
@entry('2nd:c1.forall(zsetA);c2.forall(zsetB)')
def _(A, Bm):
    A.m.st((A.x @ A.z <= 1).forall(A.zset()))
    A.m.st((A.x @ A.z <= 2).forall(Bm.zset()))
@entry('2nd:st(own);st(linB)')
def _(A, Bm):
    A.m.st(A.x[0] + A.x[1] <= 1)
    A.m.st(Bm.x[0] + Bm.x[1] <= 1)


# ---- stacking
@entry('stack:concat(xA,xB)')
def _(A, Bm): _st_le1(A, _rs().concat([A.x, Bm.x]))
@entry('stack:concat(xB,xA)')
def _(A, Bm): _st_le1(A, _rs().concat([Bm.x, A.x]))
@entry('stack:concat(affA,affB)')
def _(A, Bm): _st_le1(A, _rs().concat([2 * A.x, 3 * Bm.x + 1]))
@entry('stack:rstack(xA,xB)')
def _(A, Bm): _st_le1(A, _rs().rstack(A.x, Bm.x))
@entry('stack:rstack([xA,xB])')
def _(A, Bm): _st_le1(A, _rs().rstack([A.x, Bm.x]))
@entry('stack:cstack(xA,xB)')
def _(A, Bm): _st_le1(A, _rs().cstack(A.x, Bm.x))
@entry('stack:vec(yA,yB)')
def _(A, Bm): _st_le1(A, _rs().vec(A.y, Bm.y))
@entry('stack:vec(yB,yA)')
def _(A, Bm): _st_le1(A, _rs().vec(Bm.y, A.y))
@entry('stack:concat(zA,zB)')
def _(A, Bm): _st_le1(A, A.x @ _rs().concat([A.z, Bm.z])[:2])


# ---- cone helpers
@entry('cone:rsocone(xA,yB,wA)')
def _(A, Bm): A.m.st(_rs().rsocone(A.x, Bm.y, A.w))
@entry('cone:rsocone(xA,yA,wB)')
def _(A, Bm): A.m.st(_rs().rsocone(A.x, A.y, Bm.w))
@entry('cone:rsocone(xB,yA,wA)')
def _(A, Bm): A.m.st(_rs().rsocone(Bm.x, A.y, A.w))
@entry('cone:expcone(yA,wB,uA)')
def _(A, Bm): A.m.st(_rs().expcone(A.y, Bm.w, A.u))
@entry('cone:expcone(yA,wA,uB)')
def _(A, Bm): A.m.st(_rs().expcone(A.y, A.w, Bm.u))
@entry('cone:expcone(yB,wA,uA)')
def _(A, Bm): A.m.st(_rs().expcone(Bm.y, A.w, A.u))
@entry('cone:pexp(yA,wB)<=uA')
def _(A, Bm): A.m.st(_rs().pexp(A.y, Bm.w) <= A.u)
@entry('cone:plog(yA,wB)>=uA')
def _(A, Bm): A.m.st(_rs().plog(A.y, Bm.w) >= A.u)
@entry('cone:pexp(yA,2*wB+1)<=uA')
def _(A, Bm): A.m.st(_rs().pexp(A.y, 2 * Bm.w + 1) <= A.u)
@entry('cone:pexp(xA,wB)<=1')
def _(A, Bm): A.m.st(_rs().pexp(A.x, Bm.w) <= 1)
@entry('cone:kldiv(xA,xB,0.1)')
def _(A, Bm): A.m.st(_rs().kldiv(A.x, Bm.x, 0.1))
@entry('cone:kldiv(xA,0.5,yB)')
def _(A, Bm): A.m.st(_rs().kldiv(A.x, 0.5, Bm.y))
@entry('cone:kldiv(xA,yB,0.1)')
def _(A, Bm): A.m.st(_rs().kldiv(A.x, Bm.y, 0.1))
@entry('cone:quad-form-sumsqr(xA,xB)')
def _(A, Bm): A.m.st(_rs().sumsqr(A.x, Bm.x) <= 1)
@entry('cone:fnorm(xA,xB)')
def _(A, Bm): A.m.st(_rs().fnorm(A.x, Bm.x) <= 1)


# ---- piecewise
@entry('pw:maxof(xA,xB)<=1')
def _(A, Bm): A.m.st(_rs().maxof(A.x[0], Bm.x[0]) <= 1)
@entry('pw:maxof(xB,xA)<=1')
def _(A, Bm): A.m.st(_rs().maxof(Bm.x[0], A.x[0]) <= 1)
@entry('pw:minof(xA,xB)>=1')
def _(A, Bm): A.m.st(_rs().minof(A.x[0], Bm.x[0]) >= 1)
@entry('pw:maxof((xz)A,xB)<=1')
def _(A, Bm): A.m.st((_rs().maxof(A.x[0] * A.zs, Bm.x[0]) <= 1).forall(A.zset()) if A.fe == 'ro' else
                     (_rs().maxof(A.x[0] * A.zs, Bm.x[0]) <= 1))
@entry('pw:maxof(xA,(xz)B)<=1')
def _(A, Bm): A.m.st(_rs().maxof(A.x[0], Bm.x[0] * Bm.zs) <= 1)
@entry('pw:maxof((xz)A,(xz)B)<=1')
def _(A, Bm): A.m.st(_rs().maxof(A.x[0] * A.zs, Bm.x[0] * Bm.zs) <= 1)
@entry('pw:Emaxof(xA+zA,xB)<=1', a='dro')
def _(A, Bm): A.m.st(_E()(_rs().maxof(A.x[0] + A.zs, Bm.x[0])) <= 1)
@entry('pw:min(maxof(xA,xB))')
def _(A, Bm): A.m.min(_rs().maxof(A.x[0], Bm.x[0]))


# ---- ambiguity-set pieces (A is dro)
@entry('set:suppset(zB<=1)', a='dro')
def _(A, Bm): A.fset.suppset(A.z >= -1, Bm.z <= 1)
@entry('set:suppset(list zsetB)', a='dro')
def _(A, Bm): A.fset.suppset(Bm.zset())
@entry('set:s[0].suppset(zB)', a='dro')
def _(A, Bm): A.fset[0].suppset(Bm.z <= 1, Bm.z >= -1)
@entry('set:suppset(norm(zB)<=1)', a='dro')
def _(A, Bm): A.fset.suppset(_rs().norm(Bm.z) <= 1)
@entry('set:suppset(xB<=1)', a='dro')
def _(A, Bm): A.fset.suppset(Bm.x <= 1)
@entry('set:exptset(E(zB)<=1)', a='dro', b='dro')
def _(A, Bm): A.fset.exptset(_E()(Bm.z) <= 1, _E()(A.z) >= -1)
@entry('set:s[0].exptset(E(zB)==0)', a='dro', b='dro')
def _(A, Bm): A.fset[0].exptset(_E()(Bm.z) == 0)
@entry('set:exptset(zB<=1)', a='dro')
def _(A, Bm): A.fset.exptset(Bm.z <= 1)
@entry('set:probset(pB<=.7)', a='dro', b='dro')
def _(A, Bm): A.fset.probset(Bm.p <= 0.7)
@entry('set:probset(norm(pB-.5)<=.1)', a='dro', b='dro')
def _(A, Bm): A.fset.probset(_rs().norm(Bm.p - 0.5) <= 0.1)
@entry('set:probset(kldiv(pA,pB))', a='dro', b='dro')
def _(A, Bm): A.fset.probset(_rs().kldiv(A.p, Bm.p, 0.1))
@entry('set:probset(xB<=1)', a='dro')
def _(A, Bm): A.fset.probset(Bm.x <= 1)


def cross_entries(fa, fb):
    out = []
    for name, (a, b, fn) in CROSS.items():
        if a in ('*', fa) and b in ('*', fb):
            out.append(name)
    return out


def run_cross(name, fa, fb):
    """Returns (accepted: bool, info).  accepted == the whole use including the hand-over did not raise."""
    A, Bm = M(fa), M(fb)
    fn = CROSS[name][2]
    try:
        fn(A, Bm)
    except RecursionError:
        return False, 'RecursionError', A
    except Exception as ex:  # noqa
        return False, type(ex).__name__, A
    return True, None, A


# ------------------------------------------------------------------------------------------------------------
# (ii) misuse list
RO_OBJ = ['min', 'max', 'minmax', 'maxmin']
DRO_OBJ = ['min', 'max', 'minsup', 'maxinf']


def call_obj(A, meth, expr=None):
    m = A.m
    e = A.y if expr is None else expr
    if meth in ('min', 'max'):
        getattr(m, meth)(e)
    elif meth in ('minmax', 'maxmin'):
        getattr(m, meth)(e, A.zset())
    else:
        getattr(m, meth)(e, A.fset)


# first objectives of the redefinition family (several are falsy Python values: a guard written with truthiness
# instead of `is not None` forgets them).  name: builder(A, maximise) -> objective legal for the direction
FIRST_OBJ = {
    'int0': lambda A, mx: 0,
    'float0': lambda A, mx: 0.0,
    'negzero': lambda A, mx: -0.0,
    'npfloat0': lambda A, mx: np.float64(0),
    'npint0': lambda A, mx: np.int64(0),
    'array0(1,)': lambda A, mx: np.zeros(1),
    'false': lambda A, mx: False,
    'int3': lambda A, mx: 3,
    'var': lambda A, mx: A.y,
    'affine': lambda A, mx: 2 * A.y + 1,
    'zero-affine': lambda A, mx: 0 * A.x.sum(),
    'piecewise': lambda A, mx: (_rs().minof(A.x[0], A.x[1]) if mx else _rs().maxof(A.x[0], A.x[1])),
    'convex': lambda A, mx: (-abs(A.y) if mx else abs(A.y)),
    'expcone-atom': lambda A, mx: (_rs().log(A.y) if mx else _rs().exp(A.y)),
}
SECOND_OBJ = {'affine': lambda A: A.w, 'int0': lambda A: 0}
MAXIMISING = ('max', 'maxmin', 'maxinf')
DIRECT_MODELS = ['lp', 'socp', 'gcp']
DIRECT_FIRST = ['int0', 'float0', 'negzero', 'npfloat0', 'npint0', 'array0(1,)', 'false', 'int3', 'var', 'affine',
                'zero-affine', 'convex']


class D:
    """A deterministic model built directly on rsome.lp / rsome.socp / rsome.gcp."""

    def __init__(self, kind):
        import importlib
        B.init()
        self.fe = kind
        self.m = importlib.import_module('rsome.' + kind).Model()
        self.x = self.m.dvar(2)
        self.y = self.m.dvar()
        self.w = self.m.dvar()

    def finish(self):
        self.m.st(self.w >= 0)
        f = self.m.do_math()
        if f is None:
            raise RuntimeError('do_math returned None')
        return f


NONSCALAR = {
    # name: (front ends, builder(A) -> expression of size > 1)
    'vars(2,)': ('rd', lambda A: A.x),
    'vars(2,2)': ('rd', lambda A: A.X),
    'slice(2,)': ('rd', lambda A: A.X[0]),
    'slice(1,2)': ('rd', lambda A: A.X[0:1, :]),
    'affine(2,)': ('rd', lambda A: 2 * A.x + 1),
    'affine(2,2)': ('rd', lambda A: A.X + A.X.T),
    'affine(2,1,2)': ('rd', lambda A: (2 * A.X).reshape((2, 1, 2))),
    'ndarray(2,)': ('rd', lambda A: np.array([1.0, 2.0])),
    'abs(2,)': ('rd', lambda A: abs(A.x)),
    'exp(2,)': ('rd', lambda A: _rs().exp(A.x)),
    'square(2,2)': ('rd', lambda A: _rs().square(A.X)),
    'log(2,)': ('rd', lambda A: _rs().log(A.x)),
    'pexp(2,)': ('rd', lambda A: _rs().pexp(A.x, A.w)),
    'biaffine(2,)': ('rd', lambda A: A.x * A.z),
    'biaffine(2,2)': ('rd', lambda A: A.X * A.zs),
    'rand(2,)': ('rd', lambda A: A.z),
    'ldr(2,)': ('r', lambda A: A.ldr),
    'ldr-adapted(2,)': ('r', lambda A: (A.ldr.adapt(A.z), A.ldr)[1]),
    'ldrsub(2,)': ('r', lambda A: A.ldr[0:2]),
    'adaptive(2,)': ('d', lambda A: (A.v.adapt(A.z), A.v)[1]),
    'E(xz)(2,)': ('d', lambda A: _E()(A.x * A.z)),
    'E(x)(2,)': ('d', lambda A: _E()(A.x)),
    # element-wise atoms with an array-valued argument
    'abs(2,2)': ('rd', lambda A: abs(A.X)),
    'abs(affine)(2,)': ('rd', lambda A: abs(2 * A.x + 1)),
    'square(2,)': ('rd', lambda A: _rs().square(A.x)),
    'exp(2,2)': ('rd', lambda A: _rs().exp(A.X)),
    'softplus(2,)': ('rd', lambda A: _rs().softplus(A.x)),
    'power(2,)': ('rd', lambda A: _rs().power(A.x, 3)),
    'plog(2,)': ('rd', lambda A: _rs().plog(A.x, A.w)),
    'pexp(2,)num-scale': ('rd', lambda A: _rs().pexp(A.x, 2.0)),
    'pexp()vec-scale': ('rd', lambda A: _rs().pexp(A.y, A.x)),
    'norm2(axis-kept)(2,)+vec': ('rd', lambda A: _rs().norm(A.x) + A.v),
    'abs()+vec': ('rd', lambda A: abs(A.y) + A.v),
    'abs()+arr': ('rd', lambda A: abs(A.y) + np.array([0.0, 10.0])),
    'maxof(vec,vec)': ('rd', lambda A: _rs().maxof(A.x, A.v)),
    'maxof(arr(2,),var)': ('rd', lambda A: _rs().maxof(np.array([0.0, 10.0]), A.y)),
    'maxof([vec])': ('rd', lambda A: _rs().maxof([A.x])),
    'maxof(var,vec-biaffine)': ('rd', lambda A: _rs().maxof(A.y, A.x * A.z)),
    'E(maxof(vec,vec))': ('d', lambda A: _E()(_rs().maxof(A.x, A.v))),
    'X@z(2,)': ('rd', lambda A: A.X @ A.z),
    'biaffine+arr(2,)': ('rd', lambda A: A.x @ A.z + np.array([0.0, 10.0])),
    'E(xz)+arr(2,)': ('d', lambda A: _E()(A.x @ A.z) + np.array([0.0, 10.0])),
}
SCALAR_OK = {
    'vars()': lambda A: A.y, 'slice[0]': lambda A: A.x[0], 'affine(1,)': lambda A: (2 * A.x + 1)[0:1],
    'affine(1,1)': lambda A: A.X[0:1, 0:1] * 2, 'sum': lambda A: A.x.sum(), 'xz': lambda A: A.x @ A.z,
    'abs()': lambda A: abs(A.y), 'float': lambda A: 1.5,
}

# ------------------------------------------------------------------------------------------------------------
# (ii') non-scalar objectives as a grammar:  SCALAR base expression of every expression class  x  ROUTE that makes
# it non-scalar  x  objective method.  The base is built in the curvature that is legal for the direction of the
# method (cc = concave wanted), so the ONLY thing wrong with the objective is its size; routes that flip the
# curvature (arr - b, b * negative array, -(...)) ask for the opposite base.
# name: (front ends 'r' ro / 'd' dro / 'l' direct lp, socp, gcp;  builder(A, cc) -> scalar expression)
NS_BASES = {
    'var': ('rdl', lambda A, cc: A.y),
    'slice': ('rdl', lambda A, cc: A.x[1]),
    'affine': ('rdl', lambda A, cc: 2 * A.y + 1),
    'sum': ('rdl', lambda A, cc: A.x.sum()),
    'rand': ('rd', lambda A, cc: A.zs),
    'abs': ('rdl', lambda A, cc: -abs(A.y) if cc else abs(A.y)),
    'square': ('rdl', lambda A, cc: -_rs().square(A.y) if cc else _rs().square(A.y)),
    'sumsqr': ('rdl', lambda A, cc: -_rs().sumsqr(A.x) if cc else _rs().sumsqr(A.x)),
    'norm2': ('rdl', lambda A, cc: -_rs().norm(A.x) if cc else _rs().norm(A.x)),
    'norm1': ('rdl', lambda A, cc: -_rs().norm(A.x, 1) if cc else _rs().norm(A.x, 1)),
    'exp|log': ('rdl', lambda A, cc: _rs().log(A.y) if cc else _rs().exp(A.y)),
    'entropy': ('rdl', lambda A, cc: _rs().entropy(A.x) if cc else -_rs().entropy(A.x)),
    'pexp|plog': ('rdl', lambda A, cc: _rs().plog(A.y, A.w) if cc else _rs().pexp(A.y, A.w)),
    'pexp|plog(num-scale)': ('rdl', lambda A, cc: _rs().plog(A.y, 2.0) if cc else _rs().pexp(A.y, 2.0)),
    'maxof|minof': ('rd', lambda A, cc: (_rs().minof if cc else _rs().maxof)(2 * A.x[0] - 1, 1 - A.x[0])),
    'maxof|minof(const)': ('rd', lambda A, cc: (_rs().minof if cc else _rs().maxof)(A.y, 0.5)),
    'maxof|minof(3)': ('rd', lambda A, cc: (_rs().minof if cc else _rs().maxof)(A.x[0], A.x[1], A.y + 1)),
    'maxof|minof(rand)': ('rd', lambda A, cc: (_rs().minof if cc else _rs().maxof)(A.x[0] + A.zs, A.x[1])),
    'maxof|minof(biaffine)': ('rd', lambda A, cc: (_rs().minof if cc else _rs().maxof)(A.x[0] * A.zs, A.x[1])),
    '-minof|-maxof': ('rd', lambda A, cc: -(_rs().maxof if cc else _rs().minof)(A.x[0], A.x[1])),
    '2*maxof|minof': ('rd', lambda A, cc: 2 * (_rs().minof if cc else _rs().maxof)(A.x[0], A.x[1])),
    'maxof|minof+var': ('rd', lambda A, cc: (_rs().minof if cc else _rs().maxof)(A.x[0], A.x[1]) + A.w),
    'E(maxof|minof)': ('d', lambda A, cc: _E()((_rs().minof if cc else _rs().maxof)(A.x[0], A.x[1]))),
    'E(maxof|minof(rand))': ('d', lambda A, cc: _E()((_rs().minof if cc else _rs().maxof)(A.x[0] + A.zs, A.x[1]))),
    'E(maxof|minof(biaffine))': ('d', lambda A, cc: _E()((_rs().minof if cc else _rs().maxof)(A.x[0] * A.zs, A.x[1]))),
    'biaffine': ('rd', lambda A, cc: A.x @ A.z),
    'biaffine(scalar)': ('rd', lambda A, cc: A.y * A.zs + A.w),
    'E(biaffine)': ('d', lambda A, cc: _E()(A.x @ A.z)),
    'E(var)': ('d', lambda A, cc: _E()(A.y)),
    'ldr': ('r', lambda A, cc: A.ldr[0]),
    'ldr(adapted)': ('r', lambda A, cc: (A.ldr.adapt(A.z), A.ldr[0])[1]),
    'adaptive': ('d', lambda A, cc: (A.v.adapt(A.z), A.v[0])[1]),
}

_ARR = np.array([0.0, 10.0])
_POS = np.array([1.0, 2.0])


def _iadd(b, a):
    b += a
    return b


def _isub(b, a):
    b -= a
    return b


# name: (flip, fn(A, b) -> expression);  flip: the route turns a convex base into a concave expression.
# Routes marked 'scalar' in NS_CONTROL_ROUTES are controls (size 1: must stay usable, counted only).
NS_ROUTES = {
    'b+arr': (False, lambda A, b: b + _ARR),
    'arr+b': (False, lambda A, b: _ARR + b),
    'b-arr': (False, lambda A, b: b - _ARR),
    'arr-b': (True, lambda A, b: _ARR - b),
    'b*arr': (False, lambda A, b: b * _POS),
    'arr*b': (False, lambda A, b: _POS * b),
    'b*(-arr)': (True, lambda A, b: b * (-_POS)),
    'b/arr': (False, lambda A, b: b / _POS),
    'b+zeros(2)': (False, lambda A, b: b + np.zeros(2)),
    'b+int-arr': (False, lambda A, b: b + np.array([0, 10])),
    'b+bool-arr': (False, lambda A, b: b + np.array([False, True])),
    'b+arr(3,)': (False, lambda A, b: b + np.array([0.0, 10.0, -4.0])),
    'b+arr(1,2)': (False, lambda A, b: b + _ARR.reshape((1, 2))),
    'b+arr(2,1)': (False, lambda A, b: b + _ARR.reshape((2, 1))),
    'b+arr(2,2)': (False, lambda A, b: b + np.array([[0.0, 10.0], [1.0, 2.0]])),
    'arr(2,2)+b': (False, lambda A, b: np.array([[0.0, 10.0], [1.0, 2.0]]) + b),
    'b-arr(2,2)': (False, lambda A, b: b - np.array([[0.0, 10.0], [1.0, 2.0]])),
    'b+list': (False, lambda A, b: b + [0.0, 10.0]),
    'b+=arr': (False, lambda A, b: _iadd(b, _ARR)),
    'b-=arr': (False, lambda A, b: _isub(b, _ARR)),
    'np.add(b,arr)': (False, lambda A, b: np.add(b, _ARR)),
    'np.add(arr,b)': (False, lambda A, b: np.add(_ARR, b)),
    'np.subtract(b,arr)': (False, lambda A, b: np.subtract(b, _ARR)),
    'sum([b,arr])': (False, lambda A, b: sum([b, _ARR])),
    '(b+1)+arr': (False, lambda A, b: (b + 1) + _ARR),
    '(b+arr)+1': (False, lambda A, b: (b + _ARR) + 1),
    '(b+arr)-arr': (False, lambda A, b: (b + _ARR) - _ARR),
    '(b+arr)*2': (False, lambda A, b: (b + _ARR) * 2),
    '2*(b-arr)': (False, lambda A, b: 2 * (b - _ARR)),
    '(2*b)+arr': (False, lambda A, b: (2 * b) + _ARR),
    '-(b+arr)': (True, lambda A, b: -(b + _ARR)),
    '-(arr-b)': (False, lambda A, b: -(_ARR - b)),
    'b+vec': (False, lambda A, b: b + A.x),
    'vec+b': (False, lambda A, b: A.x + b),
    'b-vec': (False, lambda A, b: b - A.x),
    'vec-b': (True, lambda A, b: A.x - b),
    'b+vec-affine': (False, lambda A, b: b + (2 * A.x + 1)),
    'vec-affine+b': (False, lambda A, b: (2 * A.x + 1) + b),
    'b+mat': (False, lambda A, b: b + A.X),
    'b+vec-rand': (False, lambda A, b: b + A.z),
    'vec-rand+b': (False, lambda A, b: A.z + b),
    'b+vec-biaffine': (False, lambda A, b: b + A.x * A.z),
    'vec-biaffine+b': (False, lambda A, b: A.x * A.z + b),
    'concat([b,b])': (False, lambda A, b: _rs().concat([b, b])),
    'rstack(b,b)': (False, lambda A, b: _rs().rstack(b, b)),
    'vec(b,b)': (False, lambda A, b: _rs().vec(b, b)),
    # controls: the same routes with ONE element stay scalar
    'b+arr(1,)': (False, lambda A, b: b + np.array([10.0])),
    'b-arr(1,1)': (False, lambda A, b: b - np.array([[10.0]])),
    'b+1': (False, lambda A, b: b + 1.0),
    '2*b': (False, lambda A, b: 2 * b),
    'b+var': (False, lambda A, b: b + A.w),
}
NS_CONTROL_ROUTES = ('b+arr(1,)', 'b-arr(1,1)', 'b+1', '2*b', 'b+var')
NS_DIRECT_SKIP = ('b+mat', 'b+vec-rand', 'vec-rand+b', 'b+vec-biaffine', 'vec-biaffine+b')   # D has no X / z


def ns_size(e):
    """Number of objective values denoted by expression e, measured on the object (None when unknown)."""
    try:
        if hasattr(e, 'pieces'):
            return max(int(ns_size(p) or 1) for p in e.pieces)
        if hasattr(e, 'indices') and hasattr(e.indices, 'size') and not hasattr(e, 'size'):
            return int(e.indices.size)
        if hasattr(e, 'size'):
            s = e.size
            return int(s() if callable(s) else s)
        if hasattr(e, 'to_affine'):
            return int(e.to_affine().size)
        return int(np.size(e))
    except Exception:  # noqa
        return None


def ns_objects(fe):
    return D(fe) if fe in DIRECT_MODELS else M(fe)


def ns_call_obj(A, meth, e):
    if A.fe in DIRECT_MODELS:
        getattr(A.m, meth)(e)
    else:
        call_obj(A, meth, e)

READBACK = {
    # name: (front ends, fn(A, ctx) -> value)   ctx: dict with the constraints returned by st()
    'model.get()': ('rdl', lambda A, c: A.m.get()),
    'x.get()': ('rdl', lambda A, c: A.x.get()),
    'y.get()': ('rdl', lambda A, c: A.y.get()),
    'x[0].get()': ('rl', lambda A, c: A.x[0].get()),
    'x()': ('rdl', lambda A, c: A.x()),
    'x[0]()': ('rdl', lambda A, c: A.x[0]()),
    'affine()': ('rdl', lambda A, c: (2 * A.x + 1)()),
    'sum()': ('rdl', lambda A, c: A.x.sum()()),
    'abs()': ('rdl', lambda A, c: abs(A.y)()),
    'norm()': ('rd', lambda A, c: _rs().norm(A.x)()),
    'biaffine()': ('rd', lambda A, c: (A.x @ A.z)(A.z.assign(np.zeros(2)))),
    'lin.dual()': ('rl', lambda A, c: c['lin'].dual()),
    'bounds.dual()': ('rl', lambda A, c: c['bnd'].dual()),
    'ldr.get()': ('r', lambda A, c: A.ldr.get()),
    'ldr.get(z)': ('r', lambda A, c: A.ldr.get(A.z)),
    'ldr()': ('r', lambda A, c: A.ldr(A.z.assign(np.zeros(2)))),
    'v.get()': ('d', lambda A, c: A.v.get()),
    'v.get(z)': ('d', lambda A, c: A.v.get(A.z)),
    'v()': ('d', lambda A, c: A.v(A.z.assign(np.zeros(2)))),
}
READBACK['optimal()'] = ('rdl', lambda A, c: (A.m.optimal() or None))      # False is the only honest answer
# failure kinds and the interfaces that support the program class (def / ort ignore cones: LP and MILP only)
STATES = ['unsolved', 'infeasible', 'unbounded']
SOLVERS = ['def', 'ort', 'eco', 'grb']
FAIL_STATES = {
    'infeasible': ('rdl', SOLVERS),            # infeasible LP
    'unbounded': ('rdl', SOLVERS),             # unbounded LP
    'stale-infeasible': ('rdl', SOLVERS),      # solved, then made infeasible and solved again
    'infeasible-milp': ('rdl', SOLVERS),       # binaries b0 + b1 >= 3
    'infeasible-robust': ('rd', SOLVERS),      # x@z >= 1 for all z in a box containing 0
    'infeasible-socp': ('rds', ['eco', 'grb']),  # norm(x) <= 1 and x0 >= 2   (s: direct socp model, not lp)
}


def failed_model(fe, state, solver):
    """A model that is in the given state BY CONSTRUCTION (with adaptive pieces so that every read-back method is
    meaningful).  fe in ro / dro / lp / socp (direct deterministic models)."""
    rs = B.init()
    rso = rs['rso']
    direct = fe in DIRECT_MODELS
    A = D(fe) if direct else M(fe)
    m = A.m
    ctx = {}
    x, y, w = A.x, A.y, A.w
    b = m.dvar(2, 'B') if state == 'infeasible-milp' else None      # (declared before any constraint)
    if fe == 'ro':
        A.ldr.adapt(A.z)
        m.st((A.ldr <= 5).forall(A.zset()), (A.ldr >= -5).forall(A.zset()))
    elif fe == 'dro':
        A.v.adapt(A.z)
        m.st(A.v <= 5, A.v >= -5)
    ctx['lin'] = m.st(x[0] + x[1] >= 1)
    ctx['bnd'] = m.st(x <= 5)
    m.st(y >= -5)
    m.st(y <= 5)
    if state == 'infeasible':
        m.st(x[0] + x[1] <= 0)
    elif state == 'infeasible-milp':
        m.st(b[0] + b[1] >= 3)
    elif state == 'infeasible-socp':
        m.st(rso.norm(x) <= 1)
        m.st(x[0] >= 2)
    elif state == 'infeasible-robust':
        con = (x @ A.z >= 1)
        m.st(con.forall(A.zset()) if fe == 'ro' else con.forall(A.fset))
    obj = (x[0] - w) if state == 'unbounded' else (x[0] + x[1])
    if fe == 'dro':
        m.minsup(obj, A.fset)
    else:
        m.min(obj)

    def solve():
        if solver == 'def':
            m.solve(display=False)
        else:
            m.solve(rs[solver], display=False)

    if state == 'stale-infeasible':
        # a successful solve first, then the model is made infeasible and solved again: nothing stale may be readable
        solve()
        ctx['first_solve_optimal'] = bool(m.optimal())
        m.st(A.x[0] + A.x[1] <= 0)
        solve()
    elif state != 'unsolved':
        solve()
    return A, ctx


def zero_model(fe, solver):
    """A solved model whose optimum and optimal decisions are exactly 0 (falsy values that must stay readable)."""
    rs = B.init()
    A = M(fe)
    m = A.m
    ctx = {}
    if fe == 'ro':
        A.ldr.adapt(A.z)
        ctx['lin'] = m.st(A.x[0] + A.x[1] >= 0)
        ctx['bnd'] = m.st(A.x <= 5)
        m.st(A.x >= 0, (A.ldr <= 5).forall(A.zset()), (A.ldr >= -5).forall(A.zset()), A.y >= 0, A.y <= 5)
        m.min(A.x[0] + A.x[1] + A.y)
    else:
        A.v.adapt(A.z)
        m.st(A.x >= 0, A.x <= 5, A.v <= 5, A.v >= -5, A.y >= 0, A.y <= 5)
        m.minsup(A.x[0] + A.x[1] + A.y, A.fset)
    if solver == 'def':
        m.solve(display=False)
    else:
        m.solve(rs[solver], display=False)
    return A, ctx


# ------------------------------------------------------------------------------------------------------------
# solver parameters given for one model must not stay in force for the next solve of any model
LEAK_PARAMS = {
    'SolutionLimit=1': {'SolutionLimit': 1},
    'Cutoff=-1e6': {'Cutoff': -1e6},
    'TimeLimit=0': {'TimeLimit': 0},
    'BestObjStop=-1': {'BestObjStop': -1.0},
    'NodeLimit=0+Heuristics=0': {'NodeLimit': 0, 'Heuristics': 0},
}
KNAP = [
    {'v': [10, 13, 18, 31, 7, 15], 'w': [2, 3, 4, 6, 1, 3], 'cap': 10},
    {'v': [24, 13, 23, 15, 16, 11], 'w': [12, 7, 11, 8, 9, 6], 'cap': 26},
    {'v': [9, 11, 13, 15, 17, 19], 'w': [3, 4, 5, 6, 7, 8], 'cap': 17},
    {'v': [20, 5, 10, 40, 15, 25], 'w': [1, 2, 3, 8, 7, 4], 'cap': 12},
]


def knap_optimum(d):
    """brute force over all 2^n selections"""
    import itertools
    best = 0
    for sel in itertools.product((0, 1), repeat=len(d['v'])):
        if sum(a * b for a, b in zip(sel, d['w'])) <= d['cap']:
            best = max(best, sum(a * b for a, b in zip(sel, d['v'])))
    return float(best)


class Knap:
    def __init__(self, fe, d):
        rs = B.init()
        self.fe = fe
        if fe == 'ro':
            self.m = rs['ro'].Model()
        elif fe == 'dro':
            self.m = rs['dro'].Model(2)
        else:
            import importlib
            self.m = importlib.import_module('rsome.' + fe).Model()
        self.b = self.m.dvar(len(d['v']), 'B')
        self.m.st(np.array(d['w'], dtype=float) @ self.b <= d['cap'])
        self.m.max(np.array(d['v'], dtype=float) @ self.b)

    def solve(self, solver, params=None):
        rs = B.init()
        kw = {} if params is None else {'params': params}
        if solver == 'def':
            self.m.solve(display=False, **kw)
        else:
            self.m.solve(rs[solver], display=False, **kw)
        return float(self.m.get())


# ------------------------------------------------------------------------------------------------------------
# systematic operator table: (operand class of A) op (operand class of B), both operand orders, handed over through
# st() and through every objective method of A's front end
OP_CLASSES = ['x', 'x[1]', '2*x', '2*x+1', 'z', 'z[1]', '2*z[1]', '2*z+1', 'rule', 'x*z']
OP_OPS = ['add', 'sub', 'mul', 'matmul']
OP_HANDOVER = {'ro': ['st', 'min', 'max', 'minmax', 'maxmin'], 'dro': ['st', 'min', 'max', 'minsup', 'maxinf']}


def op_operand(Mo, cls):
    if cls == 'x':
        return Mo.x
    if cls == 'x[1]':
        return Mo.x[1]
    if cls == '2*x':
        return 2 * Mo.x
    if cls == '2*x+1':
        return 2 * Mo.x + 1
    if cls == 'z':
        return Mo.z
    if cls == 'z[1]':
        return Mo.z[1]
    if cls == '2*z[1]':
        return 2 * Mo.z[1]
    if cls == '2*z+1':
        return 2 * Mo.z + 1
    if cls == 'rule':
        if Mo.fe == 'ro':
            if Mo.ldr.depend is None:
                Mo.ldr.adapt(Mo.z)
            return Mo.ldr
        if Mo.v.rand_adapt is None:
            Mo.v.adapt(Mo.z)
        return Mo.v
    if cls == 'x*z':
        return Mo.x * Mo.z
    raise ValueError(cls)


def run_op(fa, fb, ca, cb, op, order, ho):
    """(accepted, exception name, A)"""
    A, Bm = M(fa), M(fb)
    try:
        a, b = op_operand(A, ca), op_operand(Bm, cb)
        l, r = (a, b) if order == 'AB' else (b, a)
        if op == 'add':
            e = l + r
        elif op == 'sub':
            e = l - r
        elif op == 'mul':
            e = l * r
        else:
            e = l @ r
        if e is None or e is NotImplemented:
            return False, 'returns-None', A
        if ho == 'st':
            _st_le1(A, e)
        else:
            e = e.sum() if getattr(e, 'size', 1) > 1 and hasattr(e, 'sum') else e
            if ho in ('min', 'max'):
                getattr(A.m, ho)(e)
            elif ho in ('minmax', 'maxmin'):
                getattr(A.m, ho)(e, A.zset())
            else:
                getattr(A.m, ho)(_E()(e) if hasattr(e, 'E') else e, A.fset)
    except RecursionError:
        return False, 'RecursionError', A
    except Exception as ex:  # noqa
        return False, type(ex).__name__, A
    return True, None, A
