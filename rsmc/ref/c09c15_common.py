"""Shared helpers of the C09 / C15 checks: solver wrappers, status classes, tolerances, the palette of
uncertainty-set kinds.  Imports rsome lazily (init()), so property modules may import this file in the
parent process for the pure-data parts (KINDS, palettes)."""
import hashlib
import numpy as np

R = {}          # rsome handles, filled by init()

TOL_LP = 1e-6       # default solver (HiGHS) answers
TOL_CONE = 1e-4     # ECOS answers of two *different* formulations of the same conic program (cone towers of
                    # pnorm/power/gmean and exp cones are solved to ~1e-6..1e-5; designed leak margins are >= 1e-2)
TOL_SOC_APPROX = 2e-3   # soc_solve (degree 4) versus itself on an equivalent formulation


def init():
    if R:
        return R
    import warnings
    warnings.simplefilter('ignore')
    import rsome as rso
    from rsome import ro, dro, eco_solver, grb_solver, ort_solver
    import rsome.lp as lp
    R.update(rso=rso, ro=ro, dro=dro, eco=eco_solver, grb=grb_solver, ort=ort_solver, lp=lp)
    return R


# ------------------------------------------------------------------------------------------------
# solving and classifying

def status_of(solution):
    """('opt', value) | ('infeasible',None) | ('unbounded',None) | ('other',str) for an rsome Solution."""
    if solution is None:
        return ('other', 'no solution object')
    st = solution.status
    val = solution.objval
    if solution.x is not None and val is not None and not np.isnan(val):
        if isinstance(st, str):
            if st.startswith('Optimal'):
                return ('opt', float(val))
            return ('other', st)
        return ('opt', float(val))
    if isinstance(st, str):
        if st.startswith('Primal infeasible'):
            return ('infeasible', None)
        if st.startswith('Dual infeasible'):
            return ('unbounded', None)
        return ('other', st)
    if st == 2:
        return ('infeasible', None)
    if st == 3:
        return ('unbounded', None)
    return ('other', str(st))


def model_status(m):
    """Status of a solved ro/dro model in the *user's* sense: ('opt', m.get()) ..."""
    st = status_of(m.solution)
    if st[0] == 'opt':
        return ('opt', float(m.get()))
    if m.sign == -1 and st[0] in ('infeasible', 'unbounded'):
        return st
    return st


def solve_model(m, how='eco'):
    """Apply one solving operation to a model; returns the status tuple."""
    r = R
    if how == 'eco':
        m.solve(r['eco'], display=False)
    elif how == 'def':
        m.solve(display=False)
    elif how == 'soc':
        m.soc_solve(r['eco'], display=False)
    elif how == 'grb':
        m.solve(r['grb'], display=False)
    elif how == 'ort':
        m.solve(r['ort'], display=False)
    else:
        raise ValueError(how)
    return model_status(m)


def formula_fingerprint(f):
    h = hashlib.sha1()
    lin = f.linear.tocsr()
    lin.sort_indices()
    for a in (lin.data, lin.indices, lin.indptr, np.asarray(lin.shape), f.const, f.sense, f.ub, f.lb, f.obj):
        a = np.ascontiguousarray(np.asarray(a, dtype=float) + 0.0)
        h.update(a.tobytes())
        h.update(b'|')
    h.update(''.join(str(v) for v in f.vtype).encode())
    for name in ('qmat', 'xmat'):
        h.update(repr([[int(i) for i in q] for q in getattr(f, name, [])]).encode())
    h.update(str(len(getattr(f, 'lmi', []) or [])).encode())
    return h.hexdigest()


_FORMULA_MEMO = {}


def solve_formula(f, memo=True):
    """Optimum of a compiled program (min form) through ECOS; memoised on the numerical content of the program
    (solving is a pure function of the program, ECOS is deterministic)."""
    key = formula_fingerprint(f) if memo else None
    if memo and key in _FORMULA_MEMO:
        return _FORMULA_MEMO[key]
    sol = R['eco'].solve(f, display=False, log=False, params={})
    st = status_of(sol)
    if memo:
        if len(_FORMULA_MEMO) > 20000:
            _FORMULA_MEMO.clear()
        _FORMULA_MEMO[key] = st
    return st


def close(a, b, tol):
    return abs(a - b) <= tol * (1.0 + max(abs(a), abs(b)))


def compare_status(sa, sb, tol):
    """Compare two status tuples.  Returns 'equal' | 'differ' | 'vacuous'."""
    if sa[0] == 'other' or sb[0] == 'other':
        return 'vacuous'
    if sa[0] != sb[0]:
        return 'differ'
    if sa[0] == 'opt':
        return 'equal' if close(sa[1], sb[1], tol) else 'differ'
    return 'equal'


def fmt(st):
    if st[0] == 'opt':
        return '%.6g' % st[1]
    if st[0] == 'raise':
        return 'raise:' + str(st[1])
    return st[0] if st[1] is None else '%s(%s)' % (st[0], st[1])


def exc_class(ex):
    """Stable description of an exception: class name plus the message with all digits masked."""
    import re
    msg = re.sub(r'[0-9]+', '#', str(ex))
    msg = re.sub(r'[^A-Za-z# ]+', ' ', msg)
    msg = ' '.join(msg.split())[:40].strip()
    return '%s(%s)' % (type(ex).__name__, msg)


# ------------------------------------------------------------------------------------------------
# uncertainty-set kinds over a 2-dimensional random vector.  Every kind lands in a different internal list of
# the shared random-variable model (bounds, lin_constr, pws_constr, cvx_constr, ip_constr, exp_constr/other_constr).

KIND_LIST = {
    'bnd': 'bounds', 'lin': 'lin_constr', 'eq': 'lin_constr(eq)+bounds', 'abs': 'pws_constr(A)',
    'n1': 'pws_constr(M)', 'ninf': 'pws_constr(I)', 'n2': 'cvx_constr(E)', 'sq': 'cvx_constr(S)',
    'ssq': 'cvx_constr(Q)', 'quad': 'cvx_constr(Q,matrix)', 'p3': 'ip_constr(G)', 'p52': 'ip_constr(G,5/2)',
    'pow': 'ip_constr(T)', 'gm': 'ip_constr(C)+bounds', 'gm12': 'ip_constr(C,beta=[1,2])+bounds', 'exp': 'other_constr(X)->exp_constr',
    'ent': 'other_constr(P)+lin', 'kl': 'other_constr(KL)+lin', 'xonly': 'other_constr(X) only',
    'entonly': 'other_constr(P) only', 'klonly': 'other_constr(KL,P) only',
}
KINDS_LP = ['bnd', 'lin', 'eq', 'abs', 'n1', 'ninf']
KINDS_SOC = ['n2', 'sq', 'ssq', 'quad']
KINDS_IP = ['p3', 'p52', 'pow', 'gm']
KINDS_EXP = ['exp', 'ent', 'kl', 'xonly', 'entonly', 'klonly']       # ..only: NO linear row / bound in the set
KINDS = KINDS_LP + KINDS_SOC + KINDS_IP + KINDS_EXP

SIZES = {'s': (np.array([0.25, -0.25]), 0.5), 'L': (np.array([0.0, 0.0]), 2.0),
         'm': (np.array([-0.25, 0.125]), 1.0)}
A4 = np.array([[1.0, 1.0], [1.0, -1.0], [-1.0, 1.0], [-1.0, -1.0]])
QM = np.array([[2.0, 0.5], [0.5, 1.0]])


def mkset(z, kind, size):
    """List of constraints on the 2-vector z (random variable of ro/dro, or E(z)) of the given kind and size."""
    rso = R['rso']
    c, r = SIZES[size]
    if kind == 'empty':         # no constraint at all: forall() / minmax(obj) with an empty set definition
        return []
    if kind == 'bnd':
        return [z <= c + r, z >= c - r]
    if kind == 'lin':
        return [A4 @ z <= r + A4 @ c]
    if kind == 'eq':
        return [z <= c + r, z >= c - r, z.sum() == float(c.sum())]
    if kind == 'abs':
        return [abs(z - c) <= r]
    if kind == 'n1':
        return [rso.norm(z - c, 1) <= r]
    if kind == 'ninf':
        return [rso.norm(z - c, 'inf') <= r]
    if kind == 'n2':
        return [rso.norm(z - c, 2) <= r]
    if kind == 'sq':
        return [rso.square(z - c) <= r * r]
    if kind == 'ssq':
        return [rso.sumsqr(z - c) <= r * r]
    if kind == 'quad':
        return [rso.quad(z - c, QM) <= r * r]
    if kind == 'p3':
        return [rso.pnorm(z - c, 3) <= r]
    if kind == 'p52':
        return [rso.pnorm(z - c, (5, 2)) <= r]
    if kind == 'pow':
        return [rso.power(z - c, 3) <= r ** 3]
    if kind == 'gm':
        return [rso.gmean(z - (c - r)) >= 0.5 * r, z <= c + r]
    if kind == 'gm12':
        return [rso.gmean(z - (c - r), [1, 2]) >= 0.5 * r, z <= c + r]
    if kind == 'exp':
        return [rso.exp((z[0] - c[0]) * (1.0 / r)) <= (z[1] - c[1]) * (1.0 / r) + 2.0,
                z[1] <= float(c[1] + r), z[0] >= float(c[0] - r)]
    if kind == 'xonly':         # exp(z_i - c_i) <= e^r , exp(c_i - z_i) <= e^r : a box written with exp-type rows only
        return [rso.exp(z - c) <= float(np.exp(r)), rso.exp(c - z) <= float(np.exp(r))]
    if kind == 'entonly':       # entropy-only: {z' >= 0 implied, entropy(z') >= 0.55}, z' affine image of z (bounded)
        zp = (z - c) * (0.25 / r) + 0.5
        return [rso.entropy(zp) >= 0.55]
    if kind == 'klonly':
        zp = (z - c) * (0.25 / r) + 0.5
        return [rso.kldiv(zp, np.array([0.5, 0.5]), 0.05), rso.entropy(zp) >= 0.3]
    if kind == 'ent':
        zp = (z - c) * (0.25 / r) + 0.5
        return [rso.entropy(zp) >= 0.6, zp.sum() == 1.0]
    if kind == 'kl':
        zp = (z - c) * (0.25 / r) + 0.5
        return [rso.kldiv(zp, np.array([0.5, 0.5]), 0.05), zp.sum() == 1.0]
    raise ValueError(kind)


PKINDS = ['pbox', 'pn1', 'pninf', 'pn2', 'pp3', 'pkl']


def mkpset(p, kind):
    """Constraints on the probability vector p (2 scenarios)."""
    rso = R['rso']
    h = np.array([0.5, 0.5])
    if kind == 'pnone':         # probset() without arguments: reset to the whole simplex
        return []
    if kind == 'pbox':
        return [p <= np.array([0.75, 0.625])]
    if kind == 'pn1':
        return [rso.norm(p - h, 1) <= 0.25]
    if kind == 'pninf':
        return [rso.norm(p - h, 'inf') <= 0.25]
    if kind == 'pn2':
        return [rso.norm(p - h, 2) <= 0.125]
    if kind == 'pp3':
        return [rso.pnorm(p - h, 3) <= 0.0625]
    if kind == 'pkl':
        return [rso.kldiv(p, h, 0.02)]
    raise ValueError(kind)
