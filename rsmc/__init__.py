"""rsmc - bounded exhaustive exploration (model checking) of RSOME's semantic properties.

Everything here runs against the *real* rsome package imported from the working tree
(RSMC_REPO, default /repo).  See /verif/DESIGN.md.
"""
import os
import sys

REPO = os.environ.get('RSMC_REPO', '/repo')
VERIF = os.path.dirname(os.path.dirname(os.path.abspath(__file__)))


def use_repo():
    """Make `import rsome` resolve to the working tree under test."""
    if REPO not in sys.path:
        sys.path.insert(0, REPO)
