"""Collects the one-line mechanism headings of every kept seed (seeded/<id>/notes.md, '## A - ...' / '## B - ...') per
property, as the 'already used' list handed to the next round's seeding agents.
usage: python -m rsmc.selftest.used_mechanisms > /tmp/used.json"""
import glob
import json
import os
import re
import sys

from .. import VERIF


def main():
    out = {}
    for d in sorted(glob.glob(os.path.join(VERIF, 'seeded', 'C*'))):
        sid = os.path.basename(d)
        pid = sid.split('-')[0]
        letter = sid[-1]
        notes = os.path.join(d, 'notes.md')
        if not os.path.exists(notes):
            continue
        txt = open(notes).read()
        m = re.search(r'^#+\s*(?:Change\s+|Seed\s+)?%s\b[^\n]*' % letter, txt, re.M)
        head = m.group(0).lstrip('# ').strip() if m else ''
        # first 'Change:' / 'Mechanism' line after the heading, for context
        extra = ''
        if m:
            rest = txt[m.end():m.end() + 1500]
            m2 = re.search(r'^\*?\s*\**(?:Change|Mechanism)[^\n]*', rest, re.M)
            if m2:
                extra = ' | ' + m2.group(0).strip('* ').strip()[:300]
        if head:
            out.setdefault(pid, []).append((head + extra)[:480])
    json.dump(out, sys.stdout, indent=1)


if __name__ == '__main__':
    main()
