"""Mutation self-test: apply one small textual slip to a scratch copy of /repo, run the relevant quick checks with
RSMC_REPO pointing at the copy, expect a VIOLATION (exit 1).  Usage:

    /venv/bin/python -m rsmc.selftest.run [--only NAME_SUBSTR] [--props C01,C02] [--jobs N]

Scratch copies live under $TMPDIR/rsmc_selftest and are removed after each mutant.  Evidence and replay files of self-test runs go to the
scratch directory (RSMC_EVIDENCE_DIR / RSMC_REPLAY_DIR), never to /verif/evidence.
"""
import argparse
import os
import shutil
import subprocess
import sys
import tempfile
import time

from .. import VERIF
from .mutants import MUTANTS


def main():
    ap = argparse.ArgumentParser()
    ap.add_argument('--only', default=None)
    ap.add_argument('--props', default=None)
    ap.add_argument('--jobs', type=int, default=None)
    ap.add_argument('--limit', type=int, default=None)
    args = ap.parse_args()
    base = os.path.join(tempfile.gettempdir(), 'rsmc_selftest')
    shutil.rmtree(base, ignore_errors=True)
    os.makedirs(base)
    rows = []
    try:
        for mu in MUTANTS:
            if args.only and args.only not in mu['name']:
                continue
            props = mu['props']
            if args.props:
                props = [p for p in props if p in args.props.split(',')]
            if not props:
                continue
            dst = os.path.join(base, 'repo')
            shutil.rmtree(dst, ignore_errors=True)
            shutil.copytree('/repo', dst, ignore=shutil.ignore_patterns('.git', 'docs', '__pycache__', 'extra_tests'))
            path = os.path.join(dst, mu['file'])
            src = open(path).read()
            if src.count(mu['old']) != 1:
                rows.append((mu['name'], ','.join(props), 'PATCH DOES NOT APPLY (%d matches)' % src.count(mu['old'])))
                print(rows[-1], flush=True)
                continue
            open(path, 'w').write(src.replace(mu['old'], mu['new']))
            for p in props:
                if not os.path.exists(os.path.join(VERIF, 'rsmc', 'props', p.lower() + '.py')):
                    continue
                env = dict(os.environ, RSMC_REPO=dst, RSMC_EVIDENCE_DIR=os.path.join(base, 'evidence'),
                           RSMC_REPLAY_DIR=os.path.join(base, 'replays'))
                cmd = [os.path.join(VERIF, 'check'), p, '--tier', 'quick', '--no-confirm']
                if args.jobs:
                    cmd += ['--jobs', str(args.jobs)]
                if args.limit:
                    cmd += ['--limit', str(args.limit)]
                t0 = time.time()
                r = subprocess.run(cmd, cwd=VERIF, env=env, capture_output=True, text=True)
                nviol = sum(1 for l in r.stdout.splitlines() if l.startswith('VIOLATION'))
                verdict = 'CAUGHT' if r.returncode == 1 and nviol else ('MISSED (exit %d)' % r.returncode)
                rows.append((mu['name'], p, '%s  [%d violation lines, %.0fs]' % (verdict, nviol, time.time() - t0)))
                print(rows[-1], flush=True)
            shutil.rmtree(dst, ignore_errors=True)
    finally:
        shutil.rmtree(base, ignore_errors=True)
    print('\n| mutant | check | result |\n|---|---|---|')
    for r in rows:
        print('| %s | %s | %s |' % r)


if __name__ == '__main__':
    sys.exit(main())
