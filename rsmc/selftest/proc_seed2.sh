#!/bin/bash
# usage: proc_seed2.sh C10 [extra props]   -> imports /tmp/seed2_C10/_seed/{A,B} as C10-r2A/B, runs the checks, confirms, removes the worktree
P=$1; shift
cd /verif
for x in A B; do
  /venv/bin/python -m rsmc.selftest.seeds import $P-r2$x $P /tmp/seed2_$P/_seed/$x.diff /tmp/seed2_$P/_seed/demo_$x.py "round 2; see notes.md" > /dev/null
  cp /tmp/seed2_$P/_seed/notes.md seeded/$P-r2$x/notes.md
done
git -C /repo worktree remove --force /tmp/seed2_$P
for x in A B; do
  /venv/bin/python -m rsmc.selftest.seeds run $P-r2$x --props ${1:-$P} --jobs 8
  /venv/bin/python -m rsmc.selftest.seeds confirm $P-r2$x | head -1
done
