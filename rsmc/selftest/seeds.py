"""Seeded-defect bookkeeping.

  python -m rsmc.selftest.seeds import  <seed_id> <property> <diff> <demo.py> "<needs>"   # copy into /verif/seeded/<id>/
  python -m rsmc.selftest.seeds confirm <seed_id>     # scratch worktree: demo passes without / fails with; repo tests pass with
  python -m rsmc.selftest.seeds run     <seed_id>|all [--props C01,C02] [--jobs N]   # run quick checks against the seed

`run` applies the patch to a scratch COPY of /repo (RSMC_REPO) so that concurrently running checks are not disturbed;
the equivalent manual procedure is `git -C /repo apply seeded/<id>/patch.diff; ./check Cxx; git -C /repo checkout -- .`.
"""
import json
import os
import shutil
import subprocess
import sys
import tempfile
import time

from .. import VERIF

SEEDED = os.path.join(VERIF, 'seeded')
# tests/test_dro_affine.py has random parametrize ids: xdist cannot collect it, so it is run separately without -n
PYTEST = ['/venv/bin/python', '-m', 'pytest', '-q', '-p', 'no:cacheprovider', '--timeout=900', '-n', '6', 'tests',
          '--ignore=tests/test_dro_affine.py']
PYTEST2 = ['/venv/bin/python', '-m', 'pytest', '-q', '-p', 'no:cacheprovider', '--timeout=900', 'tests/test_dro_affine.py']
FLAKY = ('test_mat_roaffine_mul[array11', 'test_random_adaptive_array_mul[', 'test_roaffine_mat_mul[array11')


def sh(cmd, cwd=None, env=None, timeout=7200):
    return subprocess.run(cmd, cwd=cwd, env=env, capture_output=True, text=True, timeout=timeout)


def do_import(sid, prop, diff, demo, needs):
    d = os.path.join(SEEDED, sid)
    os.makedirs(d, exist_ok=True)
    shutil.copy(diff, os.path.join(d, 'patch.diff'))
    shutil.copy(demo, os.path.join(d, 'demo.py'))
    meta = {'id': sid, 'property': prop, 'needs_to_manifest': needs, 'confirmed': None, 'detected_by': {}}
    json.dump(meta, open(os.path.join(d, 'meta.json'), 'w'), indent=1)
    print('imported', d)


def do_confirm(sid):
    d = os.path.join(SEEDED, sid)
    meta = json.load(open(os.path.join(d, 'meta.json')))
    wt = os.path.join(tempfile.gettempdir(), 'confirm_' + sid)
    sh(['git', '-C', '/repo', 'worktree', 'remove', '--force', wt])
    r = sh(['git', '-C', '/repo', 'worktree', 'add', '-q', wt, 'HEAD'])
    ran = []
    try:
        shutil.copy(os.path.join(d, 'demo.py'), os.path.join(wt, '_demo.py'))
        env = dict(os.environ, PYTHONPATH=wt)
        r0 = sh(['/venv/bin/python', '_demo.py'], cwd=wt, env=env, timeout=1800)
        ran.append('demo on unchanged tree: exit %d' % r0.returncode)
        ra = sh(['git', 'apply', os.path.join(d, 'patch.diff')], cwd=wt)
        ran.append('git apply: exit %d %s' % (ra.returncode, ra.stderr.strip()[:200]))
        if ra.returncode != 0:      # the repository moved on since the seed was written: allow offsets/fuzz
            ra = sh(['patch', '-p1', '-s', '-i', os.path.join(d, 'patch.diff')], cwd=wt)
            ran.append('patch -p1 (fallback): exit %d %s' % (ra.returncode, (ra.stdout + ra.stderr).strip()[:200]))
        r1 = sh(['/venv/bin/python', '_demo.py'], cwd=wt, env=env, timeout=1800)
        ran.append('demo with the change: exit %d' % r1.returncode)
        t0 = time.time()
        rt = sh(PYTEST, cwd=wt, env=env)
        tail = [l for l in rt.stdout.splitlines() if l.strip()][-1:] or ['']
        failed = [l for l in rt.stdout.splitlines() if l.startswith('FAILED') and not any(f in l for f in FLAKY)]
        ran.append('repo test suite with the change (%s): %s ; non-flaky failures: %d (%.0fs)'
                   % (' '.join(PYTEST), tail[0].strip(), len(failed), time.time() - t0))
        rt2 = sh(PYTEST2, cwd=wt, env=env)
        tail2 = [l for l in rt2.stdout.splitlines() if l.strip()][-1:] or ['']
        failed += [l for l in rt2.stdout.splitlines() if l.startswith('FAILED') and not any(f in l for f in FLAKY)]
        ran.append('  + %s: %s' % (' '.join(PYTEST2[-1:]), tail2[0].strip()))
        ok = (r0.returncode == 0 and ra.returncode == 0 and r1.returncode != 0 and not failed
              and ('passed' in tail[0]) and 'error' not in tail[0] and 'passed' in tail2[0])
        meta['confirmed'] = bool(ok)
        meta['what_i_ran'] = ran
        if failed:
            meta['test_failures'] = failed[:10]
    finally:
        sh(['git', '-C', '/repo', 'worktree', 'remove', '--force', wt])
        shutil.rmtree(wt, ignore_errors=True)
    json.dump(meta, open(os.path.join(d, 'meta.json'), 'w'), indent=1)
    print(sid, 'confirmed =', meta['confirmed'])
    for l in ran:
        print('   ', l)


def do_run(sid, props=None, jobs=None):
    ids = sorted(os.listdir(SEEDED)) if sid == 'all' else [sid]
    base = os.path.join(tempfile.gettempdir(), 'rsmc_seedrun_%d' % os.getpid())
    for s in ids:
        d = os.path.join(SEEDED, s)
        if not os.path.exists(os.path.join(d, 'meta.json')):
            continue
        meta = json.load(open(os.path.join(d, 'meta.json')))
        plist = props or [meta['property']]
        shutil.rmtree(base, ignore_errors=True)
        dst = os.path.join(base, 'repo')
        shutil.copytree('/repo', dst, ignore=shutil.ignore_patterns('.git', 'docs', '__pycache__', 'extra_tests'))
        ra = sh(['patch', '-p1', '-s', '-i', os.path.join(d, 'patch.diff')], cwd=dst)
        if ra.returncode != 0:
            print(s, 'PATCH FAILED', ra.stdout[-300:], ra.stderr[-300:])
            continue
        for p in plist:
            env = dict(os.environ, RSMC_REPO=dst, RSMC_EVIDENCE_DIR=os.path.join(base, 'evidence'),
                       RSMC_REPLAY_DIR=os.path.join(base, 'replays'))
            cmd = [os.path.join(VERIF, 'check'), p, '--tier', 'quick']
            if jobs:
                cmd += ['--jobs', str(jobs)]
            t0 = time.time()
            r = sh(cmd, cwd=VERIF, env=env)
            nviol = sum(1 for l in r.stdout.splitlines() if l.startswith('VIOLATION'))
            first = next((l.split('#', 1)[-1].strip() for l in r.stdout.splitlines() if l.startswith('VIOLATION')), '')
            verdict = 'DETECTED' if r.returncode == 1 and nviol else 'missed (exit %d)' % r.returncode
            meta.setdefault('detected_by', {})[p] = '%s: %d violation line(s); first: %s' % (verdict, nviol, first[:160])
            print(s, p, verdict, nviol, '%.0fs' % (time.time() - t0), first[:120], flush=True)
        json.dump(meta, open(os.path.join(d, 'meta.json'), 'w'), indent=1)
    shutil.rmtree(base, ignore_errors=True)


def do_report():
    rows = []
    for sid in sorted(os.listdir(SEEDED)):
        mp = os.path.join(SEEDED, sid, 'meta.json')
        if not os.path.exists(mp):
            continue
        m = json.load(open(mp))
        det = '; '.join('%s: %s' % (k, v.split(';')[0]) for k, v in sorted(m.get('detected_by', {}).items()))
        rows.append('| %s | %s | %s | %s | %s |' % (sid, m['property'], m.get('confirmed'), det,
                                                     str(m.get('needs_to_manifest', ''))[:160].replace('|', '/')))
    txt = ('# Seeded defects (independent sub-agents, property text only)\n\n'
           'confirmed = demo exits 0 without / non-zero with the change AND the repository suite passes with it '
           '(checked by the lead in a scratch worktree, see meta.json "what_i_ran").\n\n'
           '| seed | property | confirmed | quick checks run against it (last run) | needs to manifest |\n|---|---|---|---|---|\n'
           + '\n'.join(rows) + '\n')
    open(os.path.join(SEEDED, 'RESULTS.md'), 'w').write(txt)
    print(txt)


if __name__ == '__main__':
    a = sys.argv[1:]
    if a[0] == 'report':
        do_report()
        sys.exit(0)
    if a[0] == 'import':
        do_import(*a[1:6])
    elif a[0] == 'confirm':
        do_confirm(a[1])
    elif a[0] == 'run':
        props = None
        jobs = None
        if '--props' in a:
            props = a[a.index('--props') + 1].split(',')
        if '--jobs' in a:
            jobs = int(a[a.index('--jobs') + 1])
        do_run(a[1], props, jobs)
