#!/bin/bash
# usage: proc_seedN.sh 3 C10 [props]  -> imports /tmp/seed3_C10/_seed/{A,B} as C10-r3A/B, runs the checks, confirms, removes the worktree
R=$1; P=$2; shift; shift
cd /verif
for x in A B; do
  /venv/bin/python -m rsmc.selftest.seeds import $P-r$R$x $P /tmp/seed${R}_$P/_seed/$x.diff /tmp/seed${R}_$P/_seed/demo_$x.py "round $R; see notes.md" > /dev/null
  cp /tmp/seed${R}_$P/_seed/notes.md seeded/$P-r$R$x/notes.md
done
git -C /repo worktree remove --force /tmp/seed${R}_$P
for x in A B; do
  /venv/bin/python -m rsmc.selftest.seeds run $P-r$R$x --props ${1:-$P} --jobs 8
  /venv/bin/python -m rsmc.selftest.seeds confirm $P-r$R$x | head -1
done
