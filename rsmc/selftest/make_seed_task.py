"""Writes the task file for an independent 'seeding' agent into its scratch worktree (only the property text, nothing
about how /verif checks it).  usage: python -m rsmc.selftest.make_seed_task C01 /tmp/seed_C01"""
import json
import sys

TEMPLATE = """# Task: seed a realistic defect that breaks ONE stated property of the `rsome` library

You work ONLY inside this directory: `{wt}` (a git worktree of the rsome repository; python: `/venv/bin/python`;
run things from this directory so that `import rsome` resolves to `{wt}/rsome`: check with
`cd {wt} && /venv/bin/python -c "import rsome; print(rsome.__file__)"`).  Do NOT read or touch `/verif`, `/repo`
or any other `/tmp/seed_*` directory.  Do not use the network.  Do not commit.

## The property (this is all you are told about it)
**{pid} - {title}**

{statement}

It is claimed to hold: {quant}

{used}## What to deliver
TWO independent source changes (A and B) to files under `{wt}/rsome/`, each of which
1. makes rsome violate the property above for some inputs / call histories,
2. keeps the package importable and keeps the repository's own test suite passing (all tests that pass without the
   change must still pass): `cd {wt} && /venv/bin/python -m pytest -q -p no:cacheprovider --timeout=900 -n 6 tests --ignore=tests/test_dro_affine.py` followed by `cd {wt} && /venv/bin/python -m pytest -q -p no:cacheprovider --timeout=900 tests/test_dro_affine.py` (that file has random test ids, xdist cannot collect it)
   (about 3-8 minutes; run the most relevant test files first, the full suite once per change before you finish; the
   tests listed as flaky `tests/test_dro_affine.py::test_mat_roaffine_mul[array11-...]`,
   `test_random_adaptive_array_mul[...]`, `test_roaffine_mat_mul[array11-...]` with random float ids may be ignored),
3. is *realistic* (the kind of slip a maintainer could make: a sign, an index, an off-by-one, a wrong branch condition,
   a stale cache, an in-place edit, a dropped term in ONE branch ...) and *needs something specific to manifest* - a
   particular kind of input, an unusual but legal way of writing the model, a multi-step sequence of API calls, or two
   cooperating sites that each look fine alone - NOT something that any ordinary use exposes at once,
4. comes with a small demonstration program `demo_A.py` / `demo_B.py` that exits 0 on the unchanged code and exits
   non-zero (assertion failure) with the change applied, and that demonstrates the violation of the PROPERTY (by an
   independent calculation of what the right answer is), not merely a difference.
A and B should hit different mechanisms (different functions/branches).  Prefer changes whose effect is a silently wrong
answer over ones that raise exceptions.

## Output files (create directory `{wt}/_seed/`)
* `_seed/A.diff`, `_seed/B.diff` - each produced with `git diff` against the unchanged worktree, containing ONLY that
  change (apply A, test, `git diff > _seed/A.diff`, `git checkout -- rsome`, then B).  Each must apply with
  `git apply` to a clean checkout.
* `_seed/demo_A.py`, `_seed/demo_B.py` - run as `cd {wt} && /venv/bin/python _seed/demo_A.py`.
* `_seed/notes.md` - for each change: which mechanism it breaks, what is needed for it to manifest, the exact commands
  you ran and their outcome (test suite summary line with the change applied; demo exit codes with and without).
Every demo must start with `import sys, os; sys.path.insert(0, os.path.dirname(os.path.dirname(os.path.abspath(__file__))))`
so that it imports THIS worktree's rsome (print `rsome.__file__` to be sure) - a script inside `_seed/` would otherwise
import the copy installed in the venv.
Leave the worktree with NO change applied at the end (`git status` clean except `_seed/`).
Solvers available through rsome: default (`model.solve()`, LP/MILP), `from rsome import eco_solver` (ECOS: LP/SOCP/exp
cone), `from rsome import grb_solver` (small models only), `from rsome import ort_solver`.  Always pass `display=False`.
"""


def main():
    pid, wt = sys.argv[1], sys.argv[2]
    for l in open('/verif/properties.jsonl'):
        p = json.loads(l)
        if p['id'] == pid:
            break
    used = ''
    if len(sys.argv) > 3:
        u = json.load(open(sys.argv[3])).get(pid, [])
        if u:
            used = ('## Changes already used in an earlier round - choose DIFFERENT mechanisms (other functions, other kinds of trigger)\n'
                    + ''.join('* %s\n' % x for x in u) + '\n')
    txt = TEMPLATE.format(wt=wt, pid=pid, title=p['title'], statement=p['statement'], quant=p['quantifier']['text'],
                          used=used)
    open(wt + '/_TASK.md', 'w').write(txt)
    print('wrote', wt + '/_TASK.md')


if __name__ == '__main__':
    main()
