"""fd-level silencing: ECOS and Gurobi print from C, contextlib.redirect_stdout is not enough."""
import os
import contextlib


def silence_fds():
    devnull = os.open(os.devnull, os.O_WRONLY)
    os.dup2(devnull, 1)
    os.dup2(devnull, 2)
    os.close(devnull)


@contextlib.contextmanager
def quiet():
    """Temporarily redirect fds 1 and 2 to /dev/null (used by in-process replay)."""
    import sys
    sys.stdout.flush()
    sys.stderr.flush()
    saved1, saved2 = os.dup(1), os.dup(2)
    devnull = os.open(os.devnull, os.O_WRONLY)
    try:
        os.dup2(devnull, 1)
        os.dup2(devnull, 2)
        yield
    finally:
        sys.stdout.flush()
        sys.stderr.flush()
        os.dup2(saved1, 1)
        os.dup2(saved2, 2)
        os.close(saved1)
        os.close(saved2)
        os.close(devnull)
