"""Regenerates /verif/MANIFEST.json from the table below:  /venv/bin/python -m rsmc.manifest"""
import json
import os

from . import VERIF

CHECKS = {
    'C05': dict(
        technique='explicit-state enumeration of expression trees (product bound) on the real classes; NumPy reference on basis assignments',
        text='Exhaustive bounded exploration: every expression tree up to depth 2 (thorough 3) over all leaf classes, '
             '12 (15) shapes, ~45 index expressions, all operators with all constant shapes/dtypes (float, int, unsigned)/sparse, is built on the '
             'real rsome classes and compared with NumPy on every basis assignment, which decides the affine/bi-affine '
             'function for all variable values. Right level: the defects live in shape/index branch selection, which the '
             'small-scope product covers by construction. A history family re-uses an intermediate object (index / sum, result '
             'discarded) before the chain continues, so lazily built caches carried between objects are exercised; operands are '
             'snapshotted and must keep their coefficients.',
        note='Trusted: NumPy semantics as reference, reading of Affine.linear/const and RoAffine.raffine/affine as the '
             'denotation. Bounds: rank<=3 (4 thorough), depth<=2 (3). RSOME raising where NumPy works is allowed (unsupported).',
        design='DESIGN.md 4/C05'),
}

CHECKS['C01'] = dict(
    technique='exhaustive enumeration of robust model specs from a grammar on the real rsome.ro; independent worst case over exact vertex lists / boundary lattices',
    text='Every RoSpec of a bounded grammar (36 set kinds incl. intersections and lower-dimensional sets, attachments via '
         'minmax/forall, all LDR dependency masks and declaration styles, constraint surface forms, senses, objective forms, '
         'dimensions 1-3, solver interfaces, scaled atoms c*f<=c*r, mirrored dependence on the random components, every way of '
         'handing a set to minmax/forall, piecewise functions written with offsets / scalings, late random variables, retarget histories: decoy sets, a first formulation, then forall(declared set) on the already stated constraint objects) is built and solved on the real code; the returned decisions are substituted '
         'into the spec and each constraint is evaluated on reference member points of its set (exact vertices / dense '
         'boundary lattice with exact facet corners). A positive value at a member point is a real violation, so alarms are sound.',
    note='Trusted: closed-form membership tests, NumPy, solver tolerances (2e-6 LP, 2e-5 ECOS, 2e-4 Gurobi). Bounds: d<=3, nx=2, '
         'ny<=2, 4 coefficient palettes (quick: one selected by VERIF_SEED). SDP sets not covered (no solver).',
    design='DESIGN.md 4/C01')
CHECKS['C02'] = dict(
    technique='same exhaustive spec enumeration; differential against an independent semi-infinite solver (vertex-scenario LP / cutting planes over a boundary lattice)',
    text='Same state space as C01. For every spec the optimum reported by rsome is compared with the optimum of the '
         'semi-infinite problem computed independently: scenario LP over the exact vertices of polytopic sets, cutting '
         'planes with exact argmax over a 40000-direction boundary lattice for curved sets, LDR coefficients restricted to the '
         'declared mask, robust equalities as identities on the affine hull. Detects both conservative and unsafe counterparts.',
    note='Trusted: SciPy HiGHS as reference LP solver, rsmc/ref/sets.py + roref.py (~300 lines). Curved-set reference is an inner '
         'approximation with stated eps (1e-6 smooth, 5e-4 curved-curved corners) included in the tolerance.',
    design='DESIGN.md 4/C02')

CHECKS['C03'] = dict(
    technique='exhaustive enumeration of event-wise DRO model specs on the real rsome.dro; independent worst-case expectation by a vertex-level moment LP',
    text='Every DroSpec of a bounded grammar (1-3 (4) scenarios with integer or unordered string labels, 7 support kinds per '
         'scenario incl. Wasserstein-style lifted supports, 9 expectation-set structures on events (sub-events, overlapping, '
         'non-contiguous), 5 probability sets, every set partition x affine mask x declaration order of the decisions, '
         'E / piecewise / bi-affine / robust objectives, E-, robust-, equality- and piecewise rows (also written with offsets inside / outside E), '
         'separate adaptive variables, mirrored dependence, scaled supports, array-valued rows, 2-norm / KL probability sets together with expectation sets (two scenarios, exact p-interval), late-declaration histories (decoy ambiguity set, first formulation, then the declared suppset / exptset / probset in every spelling), with default, forall(ambiguity) and '
         'forall(support) attachments) is built and solved on the real code; the returned decisions are read back through the '
         'public expression-call API and the worst-case expectation of the objective and of every E-row over the declared '
         'ambiguity set is computed by an independent LP over distributions on support vertices.',
    note='Exact for polytopic supports and max-of-affine integrands. Trusted: SciPy HiGHS, rsmc/ref/droref.py. Bounds: S<=3 (4 '
         'thorough), dz<=2, ny<=2.',
    design='DESIGN.md 4/C03')
CHECKS['C04'] = dict(
    technique='same exhaustive DroSpec enumeration; differential against an independently dualised vertex-level moment LP joined with the decisions',
    text='Same state space as C03; the reported optimum is compared with the optimum of ONE reference LP: decisions per declared '
         'event block (affine coefficients restricted to the mask) plus multipliers of a generic LP dual of the moment problem '
         'over support vertices. Covers the special cases of the statement (singleton supports + fixed probabilities = sample '
         'average; single scenario without expectation information = robust model). Partitions/masks/event structures give '
         'different optima, so structural slips change the value.',
    note='Trusted: SciPy HiGHS, rsmc/ref/droref.py (generic dualiser ~60 lines). Tolerance 1e-5 relative.',
    design='DESIGN.md 4/C04')

CHECKS['C06'] = dict(
    technique='exhaustive enumeration of deterministic model specs (atom x position x composition x shape x front end x vtype x interface) on the real rsome; closed-form re-evaluation of every user constraint and of the objective at the returned point',
    text='Full product of 30+ atoms (abs, norms, p-norms soc/exc, square, sumsqr, quad, power, gmean, exp/log and perspectives, '
         'entropy, softplus, KL, rotated/exp cones, maxof/minof) x constraint-or-objective position x k*f(Ax+b)+c\'x+d compositions '
         'x scalar/element-wise/vector/summed shapes x ro/dro x objective directions x C/I/B types x ECOS/Gurobi/default. '
         'The returned x.get() is substituted into closed-form NumPy atoms: every user constraint must hold and model.get() must '
         'equal the user objective there; an unbounded report for a box-bounded model whose epigraph form solves is a dropped objective.',
    note='Trusted: closed forms in rsmc/ref/c06c07_atoms.py, solver tolerances (1e-5 ECOS/LP, 1e-4 Gurobi). n<=3, 4 dyadic palettes, box [-2,2]. '
         'A form that raises is "unsupported" (loud), not alarmed. logdet/rootdet/LMI not covered (no SDP solver).',
    design='DESIGN.md 4/C06')
CHECKS['C07'] = dict(
    technique='three exhaustive sub-explorations on the real rsome: pinned-argument parameter grids vs closed forms; lattice "no better feasible point"; brute-force enumeration of integer points for MILPs',
    text='(pin) every atom at a pinned argument over complete bounded parameter grids (all integer p-norm degrees 3..9, all coprime a/b<=9 '
         'in both encodings, all power p/q, all gmean weights in {1..3}^k, PSD/NSD/rank-deficient quad matrices) against closed forms; '
         '(lat) for every C06 spec no lattice point of [-2,2]^n (step 1/4, refined to 1/64 near x*) that is feasible for the USER model beats the '
         'reported optimum; (milp) all integer points of small boxes vs the reported optimum for mixed vtype strings and user bounds on binaries/integers '
         'through default, OR-Tools, Gurobi (ECOS for pure-integer).',
    note='Trusted: closed forms, scipy linprog for the continuous part of the brute force. Lattice resolution 1/64 near the optimum; n<=3.',
    design='DESIGN.md 4/C07')
CHECKS['C11'] = dict(
    technique='exhaustive enumeration of compiled programs x solver interfaces (solo and ordered pairs on one model object) on the real rsome; residual checker + independent HiGHS/closed-form reference',
    text='LP/MILP/SOCP/exp-cone programs from a grammar (all sense mixes, 7 bound kinds as Bounds/rows/arrays, 9 bound kinds on binaries, 6 on integers, '
         'vtype strings, feasible/infeasible/unbounded variants incl. empty rows) are solved through every installed interface that supports the cones; '
         'checks: nothing fabricated on failure (x None, objval NaN, get() raises), same status class as the reference, optimum within tolerance, residuals of '
         'the returned vector against rows/bounds/integrality/binary domain/SOC/exp cones, and - for ordered pairs of interfaces on ONE model - a deep snapshot of '
         'the cached program is unchanged by a solve and the second answer equals a fresh solve.',
    note='Interfaces: default, OR-Tools, ECOS, Gurobi (clp/cplex/mosek/copt not installed). ECOS_BB limited to <=3 integer variables; its hangs are timeouts (inconclusive).',
    design='DESIGN.md 4/C11')
CHECKS['C14'] = dict(
    technique='exhaustive enumeration of continuous LPs x dual-capable interfaces on the real rsome; KKT certificate identities on the values of dual()',
    text='All LPs of a grammar (n<=3, 1-2 row blocks of 1-2 rows with every sense mix, three writing styles, 13 Bounds patterns on whole variables and slices, '
         'min and max, default/ECOS/Gurobi) are solved and constr.dual() of every user LinConstr/Bounds object is checked against stationarity, dual objective = '
         'optimum, sign pattern and shape, computed from the spec only. The identities hold for any optimal dual, so degeneracy cannot alarm.',
    note='Statement restricted (as the property says) to at most one upper and one lower bound constraint per entry. No dro, no convex rows.',
    design='DESIGN.md 4/C14')
CHECKS['C16'] = dict(
    technique='exhaustive enumeration of compiled LP/MILP/SOCP formulas; round trip through an independent LP-format reader (gurobipy.read) and cell-by-cell reference table for show()',
    text='Formulas over coefficient regions (+-1, +-0.5, 1e-7, -1.5e-7, 1e9, zero rows, equal/infinite bounds, all vtypes, SOC cones, exp cones for show()) with 6-8 objective '
         'directions, primal and dual: to_lp() is read back by Gurobi\'s reader and solved, status class and optimum compared with the direct solve; show() compared cell by cell with a '
         'table computed from the formula fields.',
    note='One independent reader (Gurobi) is all this sandbox has; ill-scaled regions decided Gurobi vs Gurobi. Exp-cone programs have no file oracle.',
    design='DESIGN.md 4/C16')

CHECKS['C09'] = dict(
    technique='explicit-state search over real API call histories (all words up to a depth, BFS of an abstract state graph to fixpoint, all linear extensions, aliasing matrix); differential oracle against a fresh canonical build',
    text='Five history explorations on the real rsome: (leak) ordered pairs/triples of set definitions over 17 set kinds (each landing in a different list of the shared set '
         'model) with decoys and EMPTY set definitions, for ro forall/minmax/maxmin and dro suppset/exptset/probset/forall; (seq) every word of length 4 (5) over declaration/formulate/solve/soc_solve/get '
         'alphabets for ro and dro with every checkpoint compared to a fresh build; (graph) BFS to fixpoint over (declared set, cache flags, reformulation count, soc flag) with honest '
         'replays; (order) all linear extensions of 7 declarations plus noise events; (alias) one expression object in ordered pairs of constructs vs fresh copies. An exception on one '
         'side only is a disagreement.',
    note='Graph pass relies on the stated abstraction key (guarded by the abstraction-free seq pass and replays). d=2, 2 scenarios, ECOS/HiGHS checkpoints. Open defects listed narrowly in known_findings.d/C09.json.',
    design='DESIGN.md 4/C09')
CHECKS['C15'] = dict(
    technique='exhaustive enumeration of (base model, subset of the rewrite group, variants) on the real rsome; differential optimum equality with the base build',
    text='7 base models (LP, SOCP, four RO models with LDR, a 2-scenario DRO model) x solver x every subset of size <=2 (3 thorough) of the nine rewrites of the statement in all '
         'variants (min/-max-, declaration order, a<=b forms, equality vs two inequalities, Bounds vs rows vs inf-norm, array vs loops, rescaling, list vs args vs generator, ro vs 1-scenario dro), '
         'applied by one builder wherever the spec offers the opportunity; optimum must equal the un-rewritten build.',
    note='Compares optimal values only; 4 palettes so that every row/bound binds somewhere.',
    design='DESIGN.md 4/C15')
CHECKS['C12'] = dict(
    technique='exhaustive enumeration of pinned-optimum models x every query class x partitions/adapt histories/labels/masks on the real rsome; NumPy closed forms at the raw solver vector',
    text='Models whose optimum is unique and known (every entry pinned to a distinct dyadic value, per event in dro through indicator random variables) are solved and EVERY query is exercised: '
         'model.get() in both senses, x.get(), x(), slices, 31 affine expression forms, 26 atoms x inner arguments x 14 offset chains x multipliers, 17 bi-affine forms x 8 assign patterns, ro rule '
         'coefficient queries under every mask, dro queries under every adapt history of S<=3 (4) with int/str/permuted labels, affinely adaptive event-wise decisions. Values, shapes, NaN patterns and '
         'Series label-to-scenario mapping are compared with NumPy at the raw solution vector.',
    note='Default LP solver only; queries that raise are "unsupported" (statement is about returned numbers).',
    design='DESIGN.md 4/C12')
CHECKS['C13'] = dict(
    technique='exhaustive enumeration of adapt() call sequences, dependency-mask declaration sequences and partition pairs on the real rsome; reference partition calculus, column-sharing inspection and closed-form optima',
    text='Every sequence of adapt(block) calls (all ordered prefixes of all set partitions, S<=3 (4), 3 label kinds, 6 block forms) and every illegal continuation; every ordered sequence of disjoint '
         'rectangle mask declarations (ro rules and dro decisions) and every overlapping one; every pair of partitions under 16 combiners; late declarations after use; integer decisions; adaptive x random '
         'products. Oracle: event_adapt equals the declared partition / coarsest common refinement as a set of blocks, scenarios share rule columns iff in one block, discriminating closed-form optima (all 15 '
         'partitions of 4 scenarios give distinct values), off-mask NaN and invariance, illegal declarations raise.',
    note='Masks <= 2x3, sequences <= 3 (4).',
    design='DESIGN.md 4/C13')

CHECKS['C08'] = dict(
    technique='exhaustive enumeration of bound patterns x row senses x cone mixes (and ro/dro models) on the real rsome; primal and dual formulas solved, values must be negatives',
    text='All 7 bound patterns per variable (free, >=0, <=0, finite lower, finite upper, both, fixed) ^ n x row-sense mixes x cone mixes (none, SOC kinds, exp kinds, SOC+EXP, shared cone variables) '
         'x min/max, plus ro models (box/1-norm/2-norm/ellipsoid sets, static and LDR) and dro models whose do_math(primal=False) goes through the robust-counterpart path; both do_math() and '
         'do_math(primal=False) are solved (ECOS; HiGHS/Gurobi for LP formulas) and |v_P + v_D| <= tol is required whenever the primal is optimal.',
    note='Boundedness/Slater guaranteed by extra rows independent of the bound pattern. SDP duals not covered (no solver).',
    design='DESIGN.md 4/C08')
CHECKS['C10'] = dict(
    technique='exhaustive enumeration of operator chains x atoms x final uses on the real rsome classes; reference curvature calculus for accept/reject, pinned-point feasibility solves for the meaning of accepted forms; bilinear operand-class table',
    text='29 atoms (ro and dro, perspective, piecewise, E of piecewise) x every chain up to depth 2 (3) over 22 scaling/negation/offset symbols x 12 final uses: the reference calculus decides accept / reject / either; '
         'a reject must raise no later than st()/min()/max(); accepted forms are compiled and their MEANING is checked by pinning the variables 0.1 either side of the written inequality (feasible iff it holds by closed form; '
         'objective value equals the closed form); every ordered operand-class pair under * and @ must raise when both depend on the same kind of variable.',
    note='Strict reading of "no later than hand-over" as the statement says. Meaning checks stop at depth 2; grid points 0.1 from the boundary.',
    design='DESIGN.md 4/C10')
CHECKS['C17'] = dict(
    technique='exhaustive cross-model table, misuse list and ALL interleavings of two model builds on the real rsome; expected-raise table and differential comparison with solo builds',
    text='(x) 506 API entries x front-end pairs with one operand from another model; (misuse) all ordered pairs of objective methods, non-scalar objectives, ambiguity() after constraints, every read-back method on '
         'unsolved/infeasible/unbounded models per interface; (il) all 70 (252) interleavings of two 4-op (5-op) builds x front-end pairs x set kinds: standard form, optimum and solution of each model equal its solo build. '
         'Violation = accepted AND compiled (or a number returned for a failed model); a raise anywhere up to do_math() is loud and passes.',
    note='Late raises (at do_math) are counted, not alarmed: the statement says "raises instead of producing a model".',
    design='DESIGN.md 4/C17')
CHECKS['C18'] = dict(
    technique='exhaustive grid of exponent x scale x degree x atom x cone position x interface on the real rsome; exact exp-cone optimum and closed form vs soc_solve; structural carry-over comparison of to_socp()',
    text='Every atom with an exp-cone encoding x exponents in [-4,4] x scales x degrees {4,5,6,8} x position of the cone among other cones/SOC rows/bounds/integer variables x {ECOS, Gurobi}: relative error of soc_solve '
         'against the exact optimum <= 1e-3; to_socp() restricted to the original rows/columns equals the original formula and the original formula object is unchanged.',
    note='Only the 1e-3 bound is checkable (solver noise 1e-4 at high degrees).',
    design='DESIGN.md 4/C18')
CHECKS['C19'] = dict(
    technique='exhaustive enumeration of models x repetition histories x user-array variants on the real rsome; numerical equality of standard-form snapshots across repetitions, fresh builds and subprocesses with different hash seeds',
    text='Models from small generators (LP/SOCP/exp, ro, dro) x histories over {do_math, do_math(False), solve(s), soc_solve} up to length 4 x user arrays as float64/float32/int/unsigned int/Fortran/strided/read-only/0-d/sparse at every entry point: '
         'formula snapshots equal across repetitions, two fresh builds and two subprocesses with different PYTHONHASHSEED; global RNG state and user arrays untouched; read-only arrays behave like writable ones.',
    note='-0.0 and 0.0 identified; non-float64 arrays compared with the float64 copy of the same values.',
    design='DESIGN.md 4/C19')

# families added in round 5 (see DESIGN.md 9.5)
EXTRA = {
    'C11': 'A history family solves two models five times in one worker with only one call passing solver parameters (Gurobi termination / tolerance sets): parameter-free solves must return the enumerated optimum, the parameterised call must match gurobipy called directly.',
    'C12': 'A margs family evaluates 13 expression forms with every combination of absent / common / scalar / scenario-wise realisations of three random variables in every argument order.',
    'C13': 'An order family places the construction / statement of a constraint coupling two decisions at every point of every adapt-call timeline (18 spellings) and judges optimum and per-scenario read-back by an independent LP over (decision, event) variables.',
    'C15': 'Twenty further ro bases carry per-constraint sets different from the default set and are also compared with an absolute vertex-LP reference.',
    'C17': 'An nsr family makes 32 scalar bases of every expression class non-scalar through 46 routes and hands them to every objective method of ro / dro / direct models: each must raise.',
    'C19': 'An rhs family re-formulates models whose atoms carry multipliers and constant-array right-hand sides after redundant declarations (compared with a fresh build), a soc2 family makes every ordered pair of to_socp / soc_solve calls over (degree, cuts) tuples and compares each with the same call alone in a fresh subprocess.',
}
for _k, _v in EXTRA.items():
    CHECKS[_k]['text'] = CHECKS[_k]['text'] + ' ' + _v

NOT_YET = {}


def build():
    with open(os.path.join(VERIF, 'properties.jsonl')) as f:
        props = [json.loads(l) for l in f if l.strip()]
    checks = []
    na = []
    for p in props:
        pid = p['id']
        c = CHECKS.get(pid)
        if c is None:
            na.append({'property_id': pid,
                       'reason': NOT_YET.get(pid, 'check not built yet in this round (planned, see DESIGN.md section 4); not claimed until it runs clean')})
            continue
        checks.append({
            'property_id': pid,
            'quick_cmd': f'./check {pid} --tier quick',
            'thorough_cmd': f'./check {pid} --tier thorough',
            'evidence_file': f'/verif/evidence/{pid}.json',
            'replay_cmd_template': f'./check {pid} --replay {{path}}',
            'engine': 'rsmc',
            'level_claimed': {'category': 'model_checking', 'text': c['text'], 'design_ref': c['design']},
            'level_note': c['note'],
            'technique': c['technique'],
        })
    man = {
        'version': 1,
        'setup_cmd': '/venv/bin/python -c "import sys; sys.path.insert(0, \'/verif\'); import rsmc.cli, rsmc.pool"',
        'hooks': {
            'guard': 'RSOME_VERIF',
            'enable': 'no hooks are needed: the explorer drives the public API and reads public fields; rsome is imported from /repo at every run',
            'baseline_off_cmd': 'cd /repo && /venv/bin/python -m pytest -ra -q -p no:cacheprovider --timeout=900 --continue-on-collection-errors',
            'source_commits': [],
            'add_only': True,
        },
        'engines': [{
            'name': 'rsmc', 'path': '/verif/rsmc',
            'serves_properties': sorted(CHECKS),
            'kind_free_text': 'hand-written explicit-state / bounded-exhaustive explorer over real rsome API call sequences and '
                              'model specs (16-process pool with watchdog), independent NumPy/SciPy reference models as oracles',
        }],
        'checks': checks,
        'not_applicable': na,
        'notes': 'All checks explore the implementation itself (no separate model): states = distinct canonical specs/histories '
                 'materialised on real objects, transitions = API operations applied. Known findings: /verif/known_findings.json.',
    }
    with open(os.path.join(VERIF, 'MANIFEST.json'), 'w') as f:
        json.dump(man, f, indent=1)
    return man


if __name__ == '__main__':
    m = build()
    print('checks:', [c['property_id'] for c in m['checks']], 'n/a:', len(m['not_applicable']))
