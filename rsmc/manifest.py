"""Regenerates /verif/MANIFEST.json from the table below:  /venv/bin/python -m rsmc.manifest"""
import json
import os

from . import VERIF

CHECKS = {
    'C05': dict(
        technique='explicit-state enumeration of expression trees (product bound) on the real classes; NumPy reference on basis assignments',
        text='Exhaustive bounded exploration: every expression tree up to depth 2 (thorough 3) over all leaf classes, '
             '12 (15) shapes, ~45 index expressions, all operators with all constant shapes/dtypes/sparse, is built on the '
             'real rsome classes and compared with NumPy on every basis assignment, which decides the affine/bi-affine '
             'function for all variable values. Right level: the defects live in shape/index branch selection, which the '
             'small-scope product covers by construction.',
        note='Trusted: NumPy semantics as reference, reading of Affine.linear/const and RoAffine.raffine/affine as the '
             'denotation. Bounds: rank<=3 (4 thorough), depth<=2 (3). RSOME raising where NumPy works is allowed (unsupported).',
        design='DESIGN.md 4/C05'),
}

CHECKS['C01'] = dict(
    technique='exhaustive enumeration of robust model specs from a grammar on the real rsome.ro; independent worst case over exact vertex lists / boundary lattices',
    text='Every RoSpec of a bounded grammar (36 set kinds incl. intersections and lower-dimensional sets, attachments via '
         'minmax/forall, all LDR dependency masks and declaration styles, constraint surface forms, senses, objective forms, '
         'dimensions 1-3, solver interfaces) is built and solved on the real code; the returned decisions are substituted '
         'into the spec and each constraint is evaluated on reference member points of its set (exact vertices / dense '
         'boundary lattice with exact facet corners). A positive value at a member point is a real violation, so alarms are sound.',
    note='Trusted: closed-form membership tests, NumPy, solver tolerances (2e-6 LP, 2e-5 ECOS, 2e-4 Gurobi). Bounds: d<=3, nx=2, '
         'ny<=2, 4 coefficient palettes (quick: one selected by VERIF_SEED). SDP sets not covered (no solver).',
    design='DESIGN.md 4/C01')
CHECKS['C02'] = dict(
    technique='same exhaustive spec enumeration; differential against an independent semi-infinite solver (vertex-scenario LP / cutting planes over a boundary lattice)',
    text='Same state space as C01. For every spec the optimum reported by rsome is compared with the optimum of the '
         'semi-infinite problem computed independently: scenario LP over the exact vertices of polytopic sets, cutting '
         'planes with exact argmax over a 40000-direction boundary lattice for curved sets, LDR coefficients restricted to the '
         'declared mask, robust equalities as identities on the affine hull. Detects both conservative and unsafe counterparts.',
    note='Trusted: SciPy HiGHS as reference LP solver, rsmc/ref/sets.py + roref.py (~300 lines). Curved-set reference is an inner '
         'approximation with stated eps (1e-6 smooth, 5e-4 curved-curved corners) included in the tolerance.',
    design='DESIGN.md 4/C02')

CHECKS['C03'] = dict(
    technique='exhaustive enumeration of event-wise DRO model specs on the real rsome.dro; independent worst-case expectation by a vertex-level moment LP',
    text='Every DroSpec of a bounded grammar (1-3 (4) scenarios with integer or unordered string labels, 7 support kinds per '
         'scenario incl. Wasserstein-style lifted supports, 9 expectation-set structures on events (sub-events, overlapping, '
         'non-contiguous), 5 probability sets, every set partition x affine mask x declaration order of the decisions, '
         'E / piecewise / bi-affine / robust objectives, E- and robust rows with default, forall(ambiguity) and '
         'forall(support) attachments) is built and solved on the real code; the returned decisions are read back through the '
         'public expression-call API and the worst-case expectation of the objective and of every E-row over the declared '
         'ambiguity set is computed by an independent LP over distributions on support vertices.',
    note='Exact for polytopic supports and max-of-affine integrands. Trusted: SciPy HiGHS, rsmc/ref/droref.py. Bounds: S<=3 (4 '
         'thorough), dz<=2, ny<=2.',
    design='DESIGN.md 4/C03')
CHECKS['C04'] = dict(
    technique='same exhaustive DroSpec enumeration; differential against an independently dualised vertex-level moment LP joined with the decisions',
    text='Same state space as C03; the reported optimum is compared with the optimum of ONE reference LP: decisions per declared '
         'event block (affine coefficients restricted to the mask) plus multipliers of a generic LP dual of the moment problem '
         'over support vertices. Covers the special cases of the statement (singleton supports + fixed probabilities = sample '
         'average; single scenario without expectation information = robust model). Partitions/masks/event structures give '
         'different optima, so structural slips change the value.',
    note='Trusted: SciPy HiGHS, rsmc/ref/droref.py (generic dualiser ~60 lines). Tolerance 1e-5 relative.',
    design='DESIGN.md 4/C04')

NOT_YET = {}


def build():
    with open(os.path.join(VERIF, 'properties.jsonl')) as f:
        props = [json.loads(l) for l in f if l.strip()]
    checks = []
    na = []
    for p in props:
        pid = p['id']
        c = CHECKS.get(pid)
        if c is None:
            na.append({'property_id': pid,
                       'reason': NOT_YET.get(pid, 'check not built yet in this round (planned, see DESIGN.md section 4); not claimed until it runs clean')})
            continue
        checks.append({
            'property_id': pid,
            'quick_cmd': f'./check {pid} --tier quick',
            'thorough_cmd': f'./check {pid} --tier thorough',
            'evidence_file': f'/verif/evidence/{pid}.json',
            'replay_cmd_template': f'./check {pid} --replay {{path}}',
            'engine': 'rsmc',
            'level_claimed': {'category': 'model_checking', 'text': c['text'], 'design_ref': c['design']},
            'level_note': c['note'],
            'technique': c['technique'],
        })
    man = {
        'version': 1,
        'setup_cmd': '/venv/bin/python -c "import sys; sys.path.insert(0, \'/verif\'); import rsmc.cli, rsmc.pool"',
        'hooks': {
            'guard': 'RSOME_VERIF',
            'enable': 'no hooks are needed: the explorer drives the public API and reads public fields; rsome is imported from /repo at every run',
            'baseline_off_cmd': 'cd /repo && /venv/bin/python -m pytest -ra -q -p no:cacheprovider --timeout=900 --continue-on-collection-errors',
            'source_commits': [],
            'add_only': True,
        },
        'engines': [{
            'name': 'rsmc', 'path': '/verif/rsmc',
            'serves_properties': sorted(CHECKS),
            'kind_free_text': 'hand-written explicit-state / bounded-exhaustive explorer over real rsome API call sequences and '
                              'model specs (16-process pool with watchdog), independent NumPy/SciPy reference models as oracles',
        }],
        'checks': checks,
        'not_applicable': na,
        'notes': 'All checks explore the implementation itself (no separate model): states = distinct canonical specs/histories '
                 'materialised on real objects, transitions = API operations applied. Known findings: /verif/known_findings.json.',
    }
    with open(os.path.join(VERIF, 'MANIFEST.json'), 'w') as f:
        json.dump(man, f, indent=1)
    return man


if __name__ == '__main__':
    m = build()
    print('checks:', [c['property_id'] for c in m['checks']], 'n/a:', len(m['not_applicable']))
