"""C07 - the deterministic optimum is the true optimum; conic atom encodings are exact.

Three exhaustive sub-explorations (field 'sub' of a case):
 pin  : min t s.t. k*f(x) <= t, x == x0 (max / >= for concave f; also the atom as objective) for every atom and
        every parameter of a bounded grid (p-norm degrees, power exponents, geometric-mean weights, quadratic
        matrices, scales) x argument grid x positive multipliers x interfaces.  Oracle: closed form k*f(x0).
 lat  : every C06 spec (n <= 2, thorough n <= 3): no point of the lattice [-2,2]^n step 1/4, nor of the fine
        lattice (step 1/64, radius 1/8) around x.get(), that the closed forms call feasible for the USER's model
        has a better objective than the reported optimum; a definite infeasibility report on a model whose origin
        is strictly feasible is a violation too; all-integer specs are compared with the brute-force optimum.
        The C06 re-solve histories (solve -> st(redundant) -> solve ...; quick: the 3-compile history) get the same
        lattice reference after EVERY solve.
 spell: every atom that exists as a method of lp.Vars / VarSub / Affine / DecVar / DecVarSub / DecAffine is called in
        both spellings rso.f(arg, ..) and arg.f(..) (plus .norm(p, method) / rso.norm for p-norms, fnorm, power(p) with
        the default denominator) on a raw variable, a slice / entry of a larger variable and an affine expression, ro
        and dro, at a pinned argument; closed-form oracle as in pin.  An inventory case (inspect) reports public
        methods of those classes that the table does not know.
 bnd  : the C06 family of several Bounds on overlapping entries: reported optimum = closed form over the intersection.
 milp : linear models with B/I/C variables (mixed vtype strings, several variables, user bounds on integers and
        binaries as Bounds): brute force over all integer points (continuous part by scipy linprog).
"""
import itertools
import math

import numpy as np

from ..ref import c06c07_specs as S
from ..ref import c06c07_atoms as A

PROPERTY = 'C07'
TIMEOUT = 30.0
CHUNK = 8
FLOOR = 0.45
RULE = ('pin: every (atom, parameter, x0, multiplier, position, front end, interface) of the grids in bounds(); '
        'non-trivial when the solve is optimal and the closed-form value is non-zero. '
        'lat: every C06 spec x interface; non-trivial when optimal, at least one lattice point is feasible and the best '
        'feasible lattice value is within 5% (1+|v|) of the reported optimum (the lattice resolves the optimum). '
        'milp: every spec of the MILP grammar; non-trivial when the brute-force optimum differs from the LP relaxation '
        '(integrality decides). distinct = distinct case')
ASSUMPTIONS = [
    'closed forms in rsmc/ref/c06c07_atoms.py are the meaning of the atoms',
    'pin tolerance: |v - k f(x0)| <= tol*(1+|k f(x0)|), tol = 1e-6 (HiGHS), 2e-6 (ECOS LP/SOC), 1e-5 (ECOS exp cone), '
    '1e-4 (Gurobi conic); calibrated on the unchanged tree (largest observed error is reported in the final report)',
    'lat: a lattice point is feasible when every user constraint residual <= 1e-9 by closed forms; better means '
    '> tol*(1+|v|), tol = 1e-5 ECOS / 1e-4 Gurobi / 1e-6 LP; infeasibility reports count only as definite '
    'certificates (ECOS "Primal infeasible", Gurobi 3, HiGHS 2) and only when the origin has margin >= 0.3',
    'milp: scipy.optimize.linprog (HiGHS) solves the continuous part for every fixed integer point; binaries range '
    'over {0,1} intersected with the user bounds',
    'a solve that does not report optimal is vacuous (conditional statement)',
]
TRUSTED = ['CPython', 'NumPy closed forms', 'scipy.optimize.linprog as reference LP solver',
           'ECOS / Gurobi / HiGHS / OR-tools as solvers under the interfaces']

PIN_TOL = {('eco', 'LP'): 2e-6, ('eco', 'SOC'): 2e-6, ('eco', 'EXP'): 1e-5, ('grb', 'LP'): 1e-6, ('grb', 'SOC'): 1e-4,
           ('def', 'LP'): 1e-6, ('ort', 'LP'): 1e-6}
LAT_TOL = {'eco': 1e-5, 'grb': 1e-4, 'def': 1e-6, 'ort': 1e-6}


# =================================================================================================
# case generation
def _solvers(cone, thorough=False):
    if cone == 'LP':
        return ['eco', 'grb', 'def'] + (['ort'] if thorough else [])
    if cone == 'SOC':
        return ['eco', 'grb']
    return ['eco']


X2 = [[1.0, 0.5], [-1.5, 0.5], [0.5, -2.0], [0.0, 1.0]]
X3 = [[1.0, -0.5, 0.25], [-1.0, 2.0, 0.0], [0.5, 0.5, 0.5]]
XPOS2 = [[1.0, 0.5], [2.0, 0.25], [0.75, 0.75]]
XPOS3 = [[1.0, 0.5, 2.0], [0.25, 1.5, 1.0]]
XPOS4 = [[1.0, 0.5, 2.0, 1.5]]
XS = [0.5, -1.5, 2.0, 0.0]          # scalar arguments
XSP = [0.25, 1.0, 2.5]              # positive scalar arguments
XE = [-2.0, -0.5, 0.0, 1.0, 2.5]    # exponent-type arguments


def _pin(atom, par, x0, k, cone, ar, curv, tier, pos='cons', extra=None, fes=('ro',), solvers=None):
    for fe in fes:
        for solver in (solvers or _solvers(cone, tier == 'thorough')):
            c = {'sub': 'pin', 'fe': fe, 'solver': solver, 'atom': atom, 'par': par, 'x0': x0, 'k': k,
                 'ar': ar, 'curv': curv, 'cone': cone, 'pos': pos}
            if extra:
                c.update(extra)
            yield c


def gen_pin(tier, seed):
    th = tier == 'thorough'
    ks = [1.0, 2.5, 0.5] if th else [1.0, 2.5]
    both = ('ro', 'dro')
    # ---- LP / simple SOC atoms ---------------------------------------------------------------
    for atom in ('abs', 'square'):
        info = A.ATOMS[atom]
        for k in ks:
            for x0 in [[v] for v in XS] + [X2[1], X3[1]]:
                for pos in ('cons',) + (('obj',) if len(x0) == 1 else ()):
                    for it in _pin(atom, None, x0, k, info['cone'], 'elem', 1, tier, pos, fes=both):
                        yield it
    for atom in ('norm1', 'norminf', 'norm2', 'sumsqr'):
        info = A.ATOMS[atom]
        for k in ks:
            for x0 in X2 + X3 + [[0.0, 0.0]]:
                for pos in ('cons', 'obj'):
                    for it in _pin(atom, None, x0, k, info['cone'], 'vec', 1, tier, pos, fes=both):
                        yield it
    # ---- p-norms: all integer degrees 3..9 and all coprime a/b, 1 <= b < a <= 9, both methods --
    degs = list(range(3, 10)) + [list(ab) for ab in A.coprime_pairs(9)]
    for par in degs:
        for atom in ('pnorm_soc', 'pnorm_exc'):
            info = A.ATOMS[atom]
            for k in ks:
                for x0 in X2 + (X3 if th else X3[:1]):
                    for it in _pin(atom, par, x0, k, info['cone'], 'vec', 1, tier):
                        yield it
            for x0 in X2[:2]:
                for it in _pin(atom, par, x0, 1.0, info['cone'], 'vec', 1, tier, 'obj',
                               fes=both if par in (3, [5, 2], [3, 2]) else ('ro',)):
                    yield it
    for it in _pin('pnorm_soc', 3, X2[0], 1.0, 'SOC', 'vec', 1, tier, fes=('dro',)):
        yield it
    for it in _pin('pnorm_exc', 2.5, X2[0], 1.0, 'EXP', 'vec', 1, tier, fes=both):
        yield it
    # ---- powers: all p/q with 1 <= q <= 5, q <= p <= 9 -----------------------------------------
    for q in range(1, 6):
        for p in range(q, 10):
            if p == q and q not in (1, 3):
                continue
            for k in ks:
                for v in XS:
                    for it in _pin('power', [p, q], [v], k, 'SOC', 'elem', 1, tier):
                        yield it
            for it in _pin('power', [p, q], [XS[1]], 1.0, 'SOC', 'elem', 1, tier, 'obj'):
                yield it
    for par, x0 in (([[2, 3, 5], [1, 2, 3]], [0.5, -1.5, 2.0]), ([[3, 3], [3, 1]], [-1.5, 0.5]),
                    ([[4, 7, 9], 1], [0.5, -1.5, 1.25]), ([3, [1, 2, 3]], [2.0, -0.5, 1.5]),
                    ([[5, 5, 5], [1, 2, 4]], [1.5, -1.5, 0.5])):
        for k in ks:
            for it in _pin('power', par, x0, k, 'SOC', 'elem', 1, tier, fes=both):
                yield it
    # ---- geometric means: all integer weight vectors -----------------------------------------
    grid = [(3, 2), (3, 3)] if not th else [(5, 2), (5, 3), (5, 4)]
    for bmax, kk in grid:
        xs = {2: XPOS2, 3: XPOS3, 4: XPOS4}[kk]
        for beta in itertools.product(range(1, bmax + 1), repeat=kk):
            for x0 in (xs if (not th or kk < 4) else xs[:1]):
                for it in _pin('gmean', list(beta), x0, 1.0, 'SOC', 'vec', -1, tier,
                               solvers=None if (not th or kk < 4) else ['eco']):
                    yield it
    for x0 in XPOS2 + XPOS3 + [[0.0, 1.0]]:
        for k in ks:
            for pos in ('cons', 'obj'):
                for it in _pin('gmean', None, x0, k, 'SOC', 'vec', -1, tier, pos, fes=both):
                    yield it
    # ---- quadratic forms -------------------------------------------------------------------------
    Q2 = [[[2.0, 0.5], [0.5, 1.0]], [[1.0, -1.0], [-1.0, 1.0]], [[4.0, 0.0], [0.0, 0.25]], [[1.0, 0.0], [0.0, 1.0]],
          [[0.0, 0.0], [0.0, 1.5]], [[2.5, 1.5], [1.5, 2.5]]]
    Q3 = [[[2.0, 0.5, 0.0], [0.5, 1.0, 0.25], [0.0, 0.25, 1.5]], [[1.0, -1.0, 0.0], [-1.0, 1.0, 0.0], [0.0, 0.0, 0.0]],
          [[1.0, 1.0, 1.0], [1.0, 1.0, 1.0], [1.0, 1.0, 1.0]], [[3.0, -1.0, 0.5], [-1.0, 2.0, -0.5], [0.5, -0.5, 1.0]]]
    for Qs, xs in ((Q2, X2), (Q3, X3)):
        for Q in Qs:
            for sgn in (1, -1):
                Qm = [[sgn * v for v in r] for r in Q]
                atom = 'quad_psd' if sgn == 1 else 'quad_nsd'
                for k in ks:
                    for x0 in xs:
                        for pos in ('cons', 'obj'):
                            for it in _pin(atom, Qm, x0, k, 'SOC', 'vec', sgn, tier, pos,
                                           fes=both if Q is Qs[0] else ('ro',)):
                                yield it
    # ---- exponential-cone atoms ---------------------------------------------------------------
    for atom, xs in (('exp', XE), ('softplus', XE), ('log', XSP)):
        info = A.ATOMS[atom]
        for k in ks:
            for v in xs:
                for pos in ('cons', 'obj'):
                    for it in _pin(atom, None, [v], k, 'EXP', 'elem', info['curv'], tier, pos, fes=both):
                        yield it
            for x0 in ([[-0.5, 1.0, 0.25]] if atom != 'log' else [[0.5, 1.0, 2.5]]):
                for it in _pin(atom, None, x0, k, 'EXP', 'elem', info['curv'], tier, fes=both):
                    yield it
    for atom, xs in (('pexp', XE), ('plog', XSP)):
        info = A.ATOMS[atom]
        for k in ks:
            for v in xs:
                for s in (0.5, 2.0):
                    for smode in ('const', 'var'):
                        for pos in ('cons', 'obj'):
                            for it in _pin(atom, None, [v], k, 'EXP', 'elem', info['curv'], tier, pos,
                                           extra={'s': s, 'smode': smode}, fes=both):
                                yield it
    for x0 in XPOS2 + XPOS3 + [[0.5], [0.2, 0.3, 0.5], [0.0, 1.0]]:
        for k in ks:
            for pos in ('cons', 'obj'):
                for it in _pin('entropy', None, x0, k, 'EXP', 'vec', -1, tier, pos, fes=both):
                    yield it
    # ---- constraint-only atoms -------------------------------------------------------------------
    for x0 in X2 + X3 + [[1.5]]:
        for y in (0.5, 2.0):
            for it in _pin('rsocone', None, x0, 1.0, 'SOC', 'cons', 0, tier, extra={'y': y}):
                yield it
    for x in XE:
        for z in (0.5, 2.0):
            for it in _pin('expcone', None, [x], 1.0, 'EXP', 'cons', 0, tier, extra={'z': z}, fes=both):
                yield it
    for p0, q in (([0.2, 0.3, 0.5], [0.5, 0.25, 0.25]), ([0.5, 0.5], [0.25, 0.75]), ([1.0, 0.5], [0.5, 2.0]),
                  ([0.25, 0.25, 0.25, 0.25], [0.1, 0.2, 0.3, 0.4]), ([0.0, 1.0], [0.5, 0.5])):
        for it in _pin('kldiv', None, p0, 1.0, 'EXP', 'cons', 0, tier, extra={'q': q}):
            yield it
    for x0 in X2 + X3:
        for atom in ('maxof', 'minof'):
            for k in ks:
                for pos in ('cons', 'obj'):
                    for it in _pin(atom, None, x0, k, 'LP', 'pw', A.ATOMS[atom]['curv'], tier, pos, fes=both):
                        yield it


def gen_spell(tier, seed):
    """Call spelling x receiver class: every atom that exists as a METHOD of the variable / expression classes is
    called as rso.f(arg, ..) and as arg.f(..) on a raw variable (Vars / DecVar), a subscripted variable
    (VarSub / DecVarSub: slice of a larger variable, single entry for scalar arguments) and an affine expression
    (Affine / DecAffine), in ro and dro, at a pinned argument.  One inventory case compares the list of atoms here
    with the public methods the classes actually define (inspect), so that a new method is not silently left out."""
    th = tier == 'thorough'
    yield {'sub': 'inventory'}
    ks = [1.0, 2.5]
    Qp = [[2.0, 0.5], [0.5, 1.0]]
    Qn = [[-2.0, -0.5], [-0.5, -1.0]]
    # (atom, par, x0 list, arity, curvature, cone, extra)
    table = [
        ('abs', None, [[-1.5], [0.5, -2.0]], 'elem', 1, 'LP', {}),
        ('norm1', None, [X2[1]], 'vec', 1, 'LP', {}), ('norminf', None, [X2[1]], 'vec', 1, 'LP', {}),
        ('norm2', None, [X2[1], X3[0]], 'vec', 1, 'SOC', {}), ('norm2', None, [X2[2]], 'vec', 1, 'SOC', {'via_norm': 1}),
        ('pnorm_soc', 3, [X2[1]], 'vec', 1, 'SOC', {}), ('pnorm_soc', [5, 2], [X2[1], X3[0]], 'vec', 1, 'SOC', {}),
        ('pnorm_soc', 3, [X2[2]], 'vec', 1, 'SOC', {'via_norm': 1}),
        ('pnorm_exc', 2.5, [X2[1]], 'vec', 1, 'EXP', {}), ('pnorm_exc', [3, 2], [X2[1]], 'vec', 1, 'EXP', {}),
        ('pnorm_exc', 2.5, [X2[2]], 'vec', 1, 'EXP', {'via_norm': 1}),
        ('square', None, [[-1.5], [0.5, -2.0]], 'elem', 1, 'SOC', {}), ('sumsqr', None, [X2[1], X3[0]], 'vec', 1, 'SOC', {}),
        ('quad_psd', Qp, [X2[1]], 'vec', 1, 'SOC', {}), ('quad_nsd', Qn, [X2[1]], 'vec', -1, 'SOC', {}),
        ('power', [3, 2], [[-1.5], [0.5, -2.0]], 'elem', 1, 'SOC', {}), ('power', [5, 3], [[0.5], [2.0]], 'elem', 1, 'SOC', {}),
        ('power', [3, 1], [[-1.5]], 'elem', 1, 'SOC', {'default_q': 1}), ('power', [3, 1], [[0.5, -2.0]], 'elem', 1, 'SOC', {}),
        ('power', [[2, 3], [1, 2]], [[0.5, -1.5]], 'elem', 1, 'SOC', {}), ('power', [7, 4], [[-1.5]], 'elem', 1, 'SOC', {}),
        ('gmean', None, [XPOS2[1]], 'vec', -1, 'SOC', {}), ('gmean', [1, 2], [XPOS2[1]], 'vec', -1, 'SOC', {}),
        ('gmean', [2, 1, 3], [XPOS3[0]], 'vec', -1, 'SOC', {}),
        ('exp', None, [[-0.5], [1.0, -2.0]], 'elem', 1, 'EXP', {}), ('log', None, [[2.5], [0.25, 1.0]], 'elem', -1, 'EXP', {}),
        ('softplus', None, [[-0.5], [1.0, -2.0]], 'elem', 1, 'EXP', {}),
        ('pexp', None, [[-0.5], [1.0]], 'elem', 1, 'EXP', {'s': 2.0, 'smode': 'const'}),
        ('pexp', None, [[1.0]], 'elem', 1, 'EXP', {'s': 0.5, 'smode': 'var'}),
        ('plog', None, [[2.5], [0.25]], 'elem', -1, 'EXP', {'s': 2.0, 'smode': 'const'}),
        ('plog', None, [[1.0]], 'elem', -1, 'EXP', {'s': 0.5, 'smode': 'var'}),
        ('entropy', None, [XPOS2[1], [0.2, 0.3, 0.5]], 'vec', -1, 'EXP', {}),
        ('rsocone', None, [X2[1], [1.5]], 'cons', 0, 'SOC', {'y': 2.0}),
        ('expcone', None, [[-0.5], [1.0]], 'cons', 0, 'EXP', {'z': 2.0}),
        ('kldiv', None, [[0.2, 0.3, 0.5]], 'cons', 0, 'EXP', {'q': [0.5, 0.25, 0.25]}),
    ]
    for atom, par, xs, ar, curv, cone, extra in table:
        for x0 in xs:
            for recv in ('vars', 'varsub', 'affine'):
                for spell in ('fn', 'meth'):
                    if atom == 'norm2' and extra.get('via_norm') and spell == 'meth':
                        continue            # fnorm exists as a function only
                    for k in (ks if ar != 'cons' else [1.0]):
                        for pos in (('cons', 'obj') if (ar == 'vec' or (ar == 'elem' and len(x0) == 1)) and (th or k == 1.0)
                                    else ('cons',)):
                            ex = dict(extra)
                            ex.update(recv=recv, spell=spell)
                            for it in _pin(atom, par, x0, k, cone, ar, curv, tier, pos, extra=ex, fes=('ro', 'dro'),
                                           solvers=_solvers(cone, th)[:1] if not th else None):
                                yield it


# ---- MILP grammar --------------------------------------------------------------------------------
def _nominal_box(vts, ib, cb):
    return [(ib if ch == 'I' else (cb if ch == 'C' else [0.0, 1.0])) for ch in vts]


def gen_milp(tier, seed):
    """Linear mixed-integer models.  Rows are built from the objective so that they cut off the corner of the box
    the objective pushes to (non-integer right-hand sides): the LP relaxation is fractional, integrality decides."""
    th = tier == 'thorough'
    pal = seed % 4
    layouts = [[('I', 2)], [('B', 2)], [('CIB', 3)], [('BIC', 3)], [('ICB', 3)], [('IC', 2), ('B', 1)],
               [('C', 1), ('IB', 2)], [('I', 3)], [('IIB', 3), ('C', 1)], [('B', 1), ('C', 1), ('I', 1)],
               [('CI', 2)], [('BC', 2), ('B', 1)], [('C', 1), ('II', 2)]]
    if th:
        layouts += [[('I', 3), ('B', 2)], [('CBI', 3), ('IB', 2)], [('IBICB', 5)], [('BB', 2), ('III', 3)]]
    ibounds = [[-1.0, 2.0], [0.0, 3.0], [-2.0, 1.0]]
    bbounds = ['none', 'unit', 'ub0', 'lb1', 'loose']
    wts = [[1.0, 0.5, 1.5, 0.75, 1.25], [0.75, 1.5, 1.0, 1.25, 0.5], [1.5, 1.0, 0.5, 1.0, 0.75], [0.5, 1.25, 0.75, 1.5, 1.0]]
    objs = [[1.0, -1.5, 0.75, 1.25, -0.5, 1.0], [-1.0, 1.25, -0.75, 0.5, 1.5, -1.25], [0.5, 1.0, 1.5, -1.0, 0.75, -0.5]]
    for li, lay in enumerate(layouts):
        nv = sum(sz for _, sz in lay)
        vts = ''.join(vt * sz if len(vt) == 1 else vt for vt, sz in lay)
        nint = sum(ch in 'IB' for ch in vts)
        for ib in (ibounds if 'I' in vts else ibounds[:1]):
            for bb in (bbounds if 'B' in vts else bbounds[:1]):
                for oi, oc in enumerate(objs if (th or bb in ('none', 'unit')) else objs[:2]):
                    for direction in ('min', 'max'):
                        c = [oc[(j + li) % 6] for j in range(nv)]
                        sgn = 1.0 if direction == 'min' else -1.0
                        box = _nominal_box(vts, ib, [-1.5, 2.25])
                        rows = []
                        for r in range(2):
                            w = wts[(pal + r) % 4]
                            a = [-sgn * c[j] * w[(j + r + oi) % 5] for j in range(nv)]
                            hi = sum(max(a[j] * box[j][0], a[j] * box[j][1]) for j in range(nv))
                            lo = sum(min(a[j] * box[j][0], a[j] * box[j][1]) for j in range(nv))
                            frac = 0.55 + 0.15 * r
                            rhs = math.floor((lo + frac * (hi - lo)) * 8) / 8.0 + 0.0625
                            rows.append({'a': a, 'rhs': rhs})
                        spec = {'lay': [[vt, sz] for vt, sz in lay], 'ib': ib, 'bb': bb, 'cb': [-1.5, 2.25],
                                'rows': rows, 'c': c, 'dir': direction}
                        solvers = ['def', 'ort', 'grb']
                        # ECOS_BB (ecos 2.0.14) returns non-binary "booleans" and sub-optimal points as soon as BOTH
                        # index lists (bool and int) are non-empty - reproducible with raw ecos.solve, i.e. below the
                        # interface under test - so it only sees pure-integer or pure-binary models
                        if nint <= 3 and not ('I' in vts and 'B' in vts):
                            solvers.append('eco')
                        for fe in ('ro', 'dro'):
                            if fe == 'dro' and not th and (oi > 0 or bb not in ('none', 'unit')):
                                continue
                            for solver in solvers:
                                yield {'sub': 'milp', 'fe': fe, 'solver': solver, 'spec': spec}


def gen_bnd(tier, seed):
    """The C06 family "several Bounds on overlapping entries" (ro; quick: objectives that push against the bounds):
    the reported optimum must equal the closed form with the INTERSECTION of all bounds."""
    from . import c06 as _c06
    th = tier == 'thorough'
    for c in _c06.gen_bounds(tier, seed):
        if not th and (c['fe'] != 'ro' or c['obj'] == 'lin-away'):
            continue
        c = dict(c)
        c['sub'] = 'bnd'
        yield c


def run_bnd(case):
    from . import c06 as _c06
    if not _c06._R:
        _c06._R.update(_R)
    return _c06.run_bounds(case, optimum_only=True)


def gen_lat_hist(tier, seed):
    """Re-solve histories of the C06 history family (quick: the 3-compile history only)."""
    th = tier == 'thorough'
    for tag, ktag, spec in S.c06_hist_specs(tier, seed):
        solvers = S.solvers_for(spec, th)
        for solver in solvers[:1]:
            if solver == 'ort':
                continue
            for hist in (S.HISTORIES if th else S.HISTORIES[-1:]):
                yield {'sub': 'lat', 'tag': tag, 'k': ktag, 'solver': solver, 'spec': spec, 'hist': hist}


def gen_lat(tier, seed):
    th = tier == 'thorough'
    for tag, ktag, spec in S.c06_specs(tier, seed):
        if not th and spec['fe'] == 'dro' and ktag not in ('k=1', 'k=-1'):
            continue            # quick tier: the dro front end only with unit multipliers (C06 runs all of them)
        for solver in S.solvers_for(spec, th):
            yield {'sub': 'lat', 'tag': tag, 'k': ktag, 'solver': solver, 'spec': spec}


def gen_cases(tier, seed):
    import os
    only = os.environ.get('RSMC_C07_SUB')          # development aid: run one sub-exploration only
    for name, g in (('pin', gen_pin), ('spell', gen_spell), ('milp', gen_milp), ('bnd', gen_bnd), ('lat', gen_lat),
                    ('lathist', gen_lat_hist)):
        if only and only != name:
            continue
        for c in g(tier, seed):
            yield c


def exhaustive(tier):
    return True


def bounds(tier):
    th = tier == 'thorough'
    return {'pin': {'pnorm_degrees': 'all integers 3..9 and all coprime a/b with 1<=b<a<=9, methods soc and exc',
                    'power': 'all p/q with 1<=q<=5, q<p<=9 (+ p==q for q in {1,3}) and 5 array-valued exponent sets',
                    'gmean_weights': '{1..5}^k, k<=4' if th else '{1..3}^k, k in {2,3}',
                    'quad': '6 2x2 + 4 3x3 matrices (PD, rank-deficient, diagonal, zero row) and their negatives',
                    'multipliers': [1, 2.5, 0.5] if th else [1, 2.5], 'front_ends': ['ro', 'dro(subset)']},
            'lat': {'n': [2, 3] if th else [2], 'step': 0.25, 'fine_step': 1 / 64, 'fine_radius': 0.125,
                    'specs': 'the C06 grammar' + ('' if th else ' (dro front end: multipliers +-1 only)')},
            'spell': {'receivers': ['Vars/DecVar', 'VarSub/DecVarSub (slice, entry)', 'Affine/DecAffine'],
                      'spellings': ['rso.f(arg,..)', 'arg.f(..)', 'norm(p,method) / fnorm / power(p) default q'],
                      'atoms': sorted(set(A.ATOM_METHODS)), 'not_covered': sorted(A.SDP_METHODS)},
            'lat_histories': {'sequences': S.HISTORIES if th else S.HISTORIES[-1:], 'specs': 'the C06 history family'},
            'milp': {'int_box': '4 values per integer variable, <= 3 integers (thorough: 3 integers x 2 binaries)',
                     'binary_bounds': ['none', '[0,1]', 'ub=0', 'lb=1', '[-1,3]'], 'layouts': 14 if th else 10,
                     'interfaces': ['def', 'ort', 'grb', 'eco(<=3 integer variables)']}}


# =================================================================================================
_R = {}


def worker_init():
    import rsome
    from rsome import ro, dro, eco_solver, grb_solver, ort_solver
    _R.update(rso=rsome, ro=ro, dro=dro, eco=eco_solver, grb=grb_solver, ort=ort_solver)


def run_case(case):
    return {'pin': run_pin, 'lat': run_lat, 'milp': run_milp, 'inventory': run_inventory, 'bnd': run_bnd}[case['sub']](case)


def run_inventory(case):
    """Every public method of the variable / expression classes is either an atom of the spelling table, a known
    array-algebra / bookkeeping method, or an SDP atom (no solver).  An unknown one is reported (inconclusive, not
    a violation of the property): the spelling table has to be extended."""
    import inspect
    lp = _R['rso'].lp
    known = set(A.ATOM_METHODS.values()) | A.NON_ATOM_METHODS | A.SDP_METHODS
    unknown = {}
    nm = 0
    for cls in (lp.Vars, lp.VarSub, lp.Affine, lp.DecVar, lp.DecVarSub, lp.DecAffine):
        for name, f in inspect.getmembers(cls, predicate=inspect.isfunction):
            if name.startswith('_'):
                continue
            nm += 1
            if name not in known:
                unknown.setdefault(name, []).append(cls.__name__)
        for meth in set(A.ATOM_METHODS.values()):
            if not callable(getattr(cls, meth, None)):
                unknown.setdefault(meth + '(missing)', []).append(cls.__name__)
    if unknown:
        return {'status': 'harness_error', 'outcome': 'inventory:uncovered-methods', 'ops': nm,
                'detail': 'methods not in the call-spelling table of C07: %s' % unknown}
    return {'status': 'pass', 'ops': nm, 'nontrivial': True, 'outcome': 'inventory:ok'}


# ---- pin ---------------------------------------------------------------------------------------------
def _pin_expected(case):
    atom, par, k = case['atom'], case['par'], case['k']
    x0 = np.asarray(case['x0'], dtype=float)
    if atom == 'rsocone':
        return float((x0 * x0).sum() / case['y'])
    if atom == 'expcone':
        return float(case['z'] * math.exp(x0[0] / case['z']))
    if atom == 'kldiv':
        return float(A.kl_value(x0[None, :], np.asarray(case['q']))[0][0])
    if atom in ('maxof', 'minof'):
        pieces = _pw_pieces(x0)
        return float(k * (max(pieces) if atom == 'maxof' else min(pieces)))
    S_ = np.array([case['s']]) if 's' in case else None
    val, dv = A.f_value(atom, par, x0[None, ...], S_)
    assert not dv.any()
    return float(k * np.sum(val[0]))


def _pw_pieces(x0):
    x0 = list(x0)
    return [x0[0] - 0.5 * x0[1] + 0.25, -x0[0] + 0.5, 0.25 + 0.5 * x0[-1], -0.125]


def run_pin(case):
    rso = _R['rso']
    atom, par, k, pos, fe, solver = (case[f] for f in ('atom', 'par', 'k', 'pos', 'fe', 'solver'))
    x0 = np.asarray(case['x0'], dtype=float)
    sig = 'pin|%s|%s%s|%s|%s' % (fe, atom, _parclass(case), pos, solver)
    expected = _pin_expected(case)
    nops = 0
    try:
        m = _R['ro'].Model() if fe == 'ro' else _R['dro'].Model()
        # all variables are declared before any expression is formed (dro expressions are sized at creation)
        recv, spell = case.get('recv'), case.get('spell', 'fn')
        n0 = len(x0)
        nout = n0 if (case['ar'] == 'elem' and n0 > 1) else 1
        if recv == 'varsub':
            X = m.dvar(n0 + 2)                 # the argument is a slice / entry of a larger variable
            T = m.dvar(nout + 1)
            t = T[1:] if nout > 1 else T[1]
        else:
            X = m.dvar(n0)
            t = m.dvar(nout) if nout > 1 else m.dvar()
        w = m.dvar() if (atom in ('rsocone', 'expcone') or case.get('smode') == 'var') else None
        if recv == 'varsub':
            m.st(X == np.concatenate([[0.75], x0, [-0.5]]))
            x = X[1:n0 + 1]
        elif recv == 'affine':
            m.st(X == 2.0 * x0 - 0.5)
            x = 0.5 * X + 0.25                  # a genuine Affine / DecAffine with value x0
        else:
            m.st(X == x0)
            x = X
        if recv is not None:
            sig = 'pin|%s|%s%s|%s|%s|recv=%s|spell=%s' % (fe, atom, _parclass(case), pos, solver, recv, spell)
        nops = 5
        curv = case['curv']
        if atom in ('rsocone', 'expcone', 'kldiv'):
            tt = (1.0 * t + 0.0) if recv == 'affine' else t
            if atom == 'rsocone':
                y = w
                m.st(y == case['y'])
                m.st(x.rsocone(y, tt) if spell == 'meth' else rso.rsocone(x, y, tt))
            elif atom == 'expcone':
                z = w
                m.st(z == case['z'])
                x1 = X[1] if recv == 'varsub' else x[0]
                m.st(tt.expcone(x1, z) if spell == 'meth' else rso.expcone(tt, x1, z))
            else:
                q = np.asarray(case['q'], dtype=float)
                m.st(x.kldiv(q, tt) if spell == 'meth' else rso.kldiv(x, q, tt))
            m.min(t * 1.0)
            nops += 4
        else:
            if atom in ('maxof', 'minof'):
                pcs = [x[0] - 0.5 * x[1] + 0.25, -x[0] + 0.5, 0.25 + 0.5 * x[len(x0) - 1], -0.125]
                F = rso.maxof(*pcs) if atom == 'maxof' else rso.minof(*pcs)
            else:
                scale = None
                if 's' in case:
                    if case['smode'] == 'const':
                        scale = float(case['s'])
                    else:
                        scale = w
                        m.st(scale == case['s'])
                if case['ar'] != 'elem' or n0 > 1 or recv == 'vars':
                    arg = x                     # recv 'vars': the raw variable itself, also for one entry
                else:
                    arg = X[1] if recv == 'varsub' else x[0]
                opts = dict(via_norm=bool(case.get('via_norm')), default_q=bool(case.get('default_q')))
                if spell == 'meth':
                    F = A.build_atom_method(atom, par, arg, scale, **opts)
                elif recv is not None:
                    F = A.build_atom_fn(rso, atom, par, arg, scale, **opts)
                else:
                    F = A.build_atom(rso, atom, par, arg, scale)
            e = F if k == 1 else k * F
            if pos == 'obj':
                (m.min if curv > 0 else m.max)(e)
                nops += 2
            else:
                m.st(e <= t if curv > 0 else e >= t)
                obj = t.sum() if nout > 1 else t * 1.0
                (m.min if curv > 0 else m.max)(obj)
                nops += 4
    except Exception as ex:  # noqa
        return {'status': 'unsupported', 'outcome': 'pin:raise@build:%s' % type(ex).__name__, 'ops': max(nops, 1),
                'detail': '%s %s' % (sig, str(ex)[:160])}
    st, info = S.solve(_R, m, solver)
    nops += 1
    if st == 'raise':
        return {'status': 'unsupported', 'outcome': 'pin:raise@solve:%s' % info.split(':')[0], 'ops': nops,
                'detail': '%s %s' % (sig, info)}
    if st != 'optimal':
        return {'status': 'vacuous', 'outcome': 'pin:not-optimal:%s' % solver, 'ops': nops, 'detail': '%s %s' % (sig, info)}
    v = float(m.get())
    nops += 1
    tol = PIN_TOL[(solver, case['cone'])]
    err = abs(v - expected) / (1.0 + abs(expected))
    if not (err <= tol):
        return {'status': 'violation', 'sig': sig + '|value', 'ops': nops,
                'detail': 'reported %.9g, closed form %.9g (par=%s x0=%s k=%s%s)' %
                          (v, expected, par, case['x0'], k, ''.join(' %s=%s' % (f, case[f]) for f in ('s', 'smode', 'y', 'z', 'q') if f in case))}
    return {'status': 'pass', 'ops': nops, 'nontrivial': abs(expected) > 1e-9, 'outcome': 'pin:ok:%s' % case['cone'],
            'err': err}


def _parclass(case):
    par = case['par']
    atom = case['atom']
    if atom in ('pnorm_soc', 'pnorm_exc'):
        return '[%s]' % ('int' if isinstance(par, int) else ('float' if isinstance(par, float) else 'a/b'))
    if atom == 'power':
        return '[array]' if any(isinstance(p, list) for p in par) else '[p/q]'
    if atom in ('pexp', 'plog'):
        return '(s=%s)' % case['smode']
    return ''


# ---- lat ---------------------------------------------------------------------------------------------
_LAT = {}


def _lattice(n):
    if n not in _LAT:
        ax = np.arange(-2.0, 2.0 + 1e-9, 0.25)
        _LAT[n] = np.array(list(itertools.product(ax, repeat=n)))
    return _LAT[n]


def _fine(v, n):
    c = np.round(v * 64.0) / 64.0
    ax = np.arange(-8, 9) / 64.0
    if n == 3:
        ax = np.arange(-4, 5) / 32.0
    D = np.array(list(itertools.product(ax, repeat=n)))
    return c[None, :] + D


def run_lat(case):
    spec, solver, tag = case['spec'], case['solver'], case['tag']
    sig = 'lat|%s|%s' % (spec['fe'], tag)
    try:
        m, x, nops = S.build_model(_R, spec)
    except Exception as ex:  # noqa
        return {'status': 'unsupported', 'outcome': 'lat:raise@build:%s' % type(ex).__name__, 'ops': 4, 'detail': str(ex)[:160]}
    if not case.get('hist'):
        st, info = S.solve(_R, m, solver)
        return _lat_judge(case, m, x, st, info, nops + 1, sig)
    # re-solve history: the lattice reference is applied to every solve of the (redundantly extended) model
    sig = '%s|hist=%s' % (sig, case['hist'])
    nsolve = nst = 0
    last = None
    later_fail = None
    total = 0
    for step in case['hist'].split(','):
        try:
            if step == 'st':
                if nst % 2 == 0:
                    m.st(x[0] <= 4.0)
                else:
                    m.st(np.array(([1.0, -0.5, 0.25] * 2)[:spec['n']]) @ x <= 8.0)
                nst += 1
                nops += 1
                continue
            if step == 'domath':
                m.do_math()
                nops += 1
                continue
        except Exception as ex:  # noqa
            return {'status': 'unsupported', 'outcome': 'lat:raise@%s:%s' % (step, type(ex).__name__), 'ops': nops,
                    'detail': str(ex)[:160]}
        nsolve += 1
        st, info = S.solve(_R, m, solver)
        nops += 1
        res = _lat_judge(case, m, x, st, info, nops, '%s|solve#%d' % (sig, nsolve))
        if res['status'] == 'violation':
            return res
        if res['status'] != 'pass':
            if last is None:
                return res
            later_fail = res
            continue
        total += res.get('states', 0)
        last = res
    if later_fail is not None:
        return {'status': 'vacuous', 'outcome': 'lat:hist:later-' + str(later_fail.get('outcome')), 'ops': nops,
                'detail': later_fail.get('detail')}
    out = dict(last)
    out['outcome'] = last['outcome'].replace('lat:', 'lat:hist:', 1)
    out['states'] = total
    out['ops'] = nops
    return out


def _lat_judge(case, m, x, st, info, nops, sig):
    spec, solver = case['spec'], case['solver']
    n = spec['n']
    if st == 'raise':
        return {'status': 'unsupported', 'outcome': 'lat:raise@solve:%s' % info.split(':')[0], 'ops': nops, 'detail': info}
    sense = 1.0 if spec['obj']['dir'] == 'min' else -1.0
    if st != 'optimal':
        definite = {'eco': info.startswith('Primal infeasible') and 'inacc' not in info.lower(),
                    'grb': info == '3', 'def': info == '2', 'ort': False}[solver]
        V0 = np.zeros((1, n))
        strictly = all(S.cons_eval(c, V0)[0][0] <= -0.3 for c in spec['cons'])
        if definite and strictly:
            return {'status': 'violation', 'sig': sig + '|reported-infeasible-but-feasible', 'ops': nops,
                    'detail': 'solver %s status %r, but x=0 satisfies every user constraint with margin >= 0.3 (%s)' %
                              (solver, info, case['k'])}
        return {'status': 'vacuous', 'outcome': 'lat:not-optimal:%s' % solver, 'ops': nops, 'detail': info}
    try:
        rep = float(m.get())
        xv = np.asarray(x.get(), dtype=float).reshape(n)
    except Exception as ex:  # noqa
        return {'status': 'vacuous', 'outcome': 'lat:get-raises', 'ops': nops, 'detail': str(ex)[:160]}
    tol = LAT_TOL[solver] * (1.0 + abs(rep))
    if solver == 'eco' and any(ch in 'IB' for ch in spec['vt']):
        tol = 2e-3 * (1.0 + abs(rep))      # ECOS_BB stops at a 1e-3 relative gap (mi_rel_eps default)
    best = None
    bestx = None
    nfeas = 0
    for V in (_lattice(n), _fine(xv, n)):
        ok = S.feasible_mask(spec, V)
        if not ok.any():
            continue
        ov, dv = S.obj_eval(spec, V[ok])
        fin = np.isfinite(ov) & (dv <= 0)
        if not fin.any():
            continue
        nfeas += int(fin.sum())
        vals = sense * ov[fin]
        i = int(np.argmin(vals))
        if best is None or vals[i] < best:
            best, bestx = float(vals[i]), V[ok][fin][i]
    if best is None:
        return {'status': 'pass', 'ops': nops, 'nontrivial': False, 'outcome': 'lat:ok:no-feasible-lattice-point'}
    if best < sense * rep - tol:
        return {'status': 'violation', 'sig': sig + '|better-feasible-point', 'ops': nops,
                'detail': 'reported %s %.9g but x=%s is feasible for the user model with objective %.9g (%s, %s)' %
                          (spec['obj']['dir'], rep, bestx.tolist(), sense * best, solver, case['k'])}
    allint = all(ch in 'IB' for ch in (spec['vt'] * n if len(spec['vt']) == 1 else spec['vt']))
    if allint and abs(best - sense * rep) > tol:
        return {'status': 'violation', 'sig': sig + '|integer-bruteforce', 'ops': nops,
                'detail': 'all-integer model: reported %.9g, brute force over the integer box %.9g at %s (%s)' %
                          (rep, sense * best, bestx.tolist(), solver)}
    close = abs(best - sense * rep) <= 0.05 * (1.0 + abs(rep))
    return {'status': 'pass', 'ops': nops, 'nontrivial': bool(close), 'states': nfeas,
            'outcome': 'lat:ok:%s' % ('resolved' if close else 'coarse'), 'gap': best - sense * rep}


# ---- milp --------------------------------------------------------------------------------------------
def _milp_layout(spec):
    """Per-column (vtype, lb, ub) in declaration order."""
    cols = []
    for vt, sz in spec['lay']:
        vts = vt * sz if len(vt) == 1 else vt
        for ch in vts:
            if ch == 'I':
                lb, ub = spec['ib']
            elif ch == 'C':
                lb, ub = spec['cb']
            else:
                lb, ub = {'none': (None, None), 'unit': (0.0, 1.0), 'ub0': (None, 0.0), 'lb1': (1.0, None),
                          'loose': (-1.0, 3.0)}[spec['bb']]
            cols.append((ch, lb, ub))
    return cols


def _milp_brute(spec):
    """Brute-force optimum (in the user's sense) or None when infeasible; also the LP-relaxation optimum."""
    from scipy.optimize import linprog
    cols = _milp_layout(spec)
    nv = len(cols)
    c = np.asarray(spec['c'], dtype=float)
    sgn = 1.0 if spec['dir'] == 'min' else -1.0
    Arows = np.array([r['a'] for r in spec['rows']], dtype=float)
    brhs = np.array([r['rhs'] for r in spec['rows']], dtype=float)
    icol = [j for j, (ch, _, _) in enumerate(cols) if ch in 'IB']
    ccol = [j for j, (ch, _, _) in enumerate(cols) if ch == 'C']
    doms = []
    for j in icol:
        ch, lb, ub = cols[j]
        if ch == 'I':
            doms.append(list(range(int(math.ceil(lb)), int(math.floor(ub)) + 1)))
        else:
            lo = 0 if lb is None else max(0, int(math.ceil(lb)))
            hi = 1 if ub is None else min(1, int(math.floor(ub)))
            doms.append(list(range(lo, hi + 1)))
    best = None
    for pt in itertools.product(*doms):
        xi = np.zeros(nv)
        xi[icol] = pt
        base = sgn * c[icol] @ np.asarray(pt, dtype=float)
        r = brhs - Arows[:, icol] @ np.asarray(pt, dtype=float)
        if ccol:
            res = linprog(sgn * c[ccol], A_ub=Arows[:, ccol], b_ub=r,
                          bounds=[(cols[j][1], cols[j][2]) for j in ccol], method='highs')
            if res.status != 0:
                continue
            val = base + res.fun
        else:
            if (r < -1e-12).any():
                continue
            val = base
        if best is None or val < best:
            best = val
    # LP relaxation
    bnds = []
    for ch, lb, ub in cols:
        if ch == 'B':
            lb = 0.0 if lb is None else max(0.0, lb)
            ub = 1.0 if ub is None else min(1.0, ub)
        bnds.append((lb, ub))
    rel = linprog(sgn * c, A_ub=Arows, b_ub=brhs, bounds=bnds, method='highs')
    relv = rel.fun if rel.status == 0 else None
    return (None if best is None else sgn * best), (None if relv is None else sgn * relv)


def run_milp(case):
    spec, fe, solver = case['spec'], case['fe'], case['solver']
    lay = '+'.join(vt if len(vt) > 1 else '%s%d' % (vt, sz) for vt, sz in spec['lay'])
    sig = 'milp|%s|%s|%s|bin-bounds=%s' % (fe, solver, lay, spec['bb'] if 'B' in lay else 'n/a')
    nops = 0
    try:
        m = _R['ro'].Model() if fe == 'ro' else _R['dro'].Model()
        vs = [m.dvar(sz, vtype=vt) for vt, sz in spec['lay']]     # all declarations first (dro sizes expressions at creation)
        for v, (vt, sz) in zip(vs, spec['lay']):
            vts = vt * sz if len(vt) == 1 else vt
            for ch in sorted(set(vts)):
                idx = [j for j, c_ in enumerate(vts) if c_ == ch]
                if ch == 'I':
                    lb, ub = spec['ib']
                elif ch == 'C':
                    lb, ub = spec['cb']
                else:
                    lb, ub = {'none': (None, None), 'unit': (0.0, 1.0), 'ub0': (None, 0.0), 'lb1': (1.0, None),
                              'loose': (-1.0, 3.0)}[spec['bb']]
                sub = v if len(idx) == sz else v[idx]
                if lb is not None:
                    m.st(sub >= lb)
                if ub is not None:
                    m.st(sub <= ub)
                nops += 2
        sizes = [sz for _, sz in spec['lay']]
        offs = np.cumsum([0] + sizes)

        def lin(coefs):
            e = None
            for v, o, sz in zip(vs, offs, sizes):
                term = np.asarray(coefs[o:o + sz], dtype=float) @ v
                e = term if e is None else e + term
            return e
        for r in spec['rows']:
            m.st(lin(r['a']) <= r['rhs'])
            nops += 1
        (m.min if spec['dir'] == 'min' else m.max)(lin(spec['c']))
        nops += 1
    except Exception as ex:  # noqa
        return {'status': 'unsupported', 'outcome': 'milp:raise@build:%s' % type(ex).__name__, 'ops': max(nops, 1),
                'detail': str(ex)[:160]}
    st, info = S.solve(_R, m, solver)
    nops += 1
    if st == 'raise':
        return {'status': 'unsupported', 'outcome': 'milp:raise@solve:%s' % info.split(':')[0], 'ops': nops, 'detail': info}
    ref, relax = _milp_brute(spec)
    if st != 'optimal':
        return {'status': 'vacuous', 'outcome': 'milp:not-optimal:%s:%s' % (solver, 'ref-infeasible' if ref is None else 'ref-feasible'),
                'ops': nops, 'detail': info}
    v = float(m.get())
    nops += 1
    if ref is None:
        return {'status': 'violation', 'sig': sig + '|optimal-but-infeasible', 'ops': nops,
                'detail': 'reported optimum %.9g but no integer point of the user box satisfies the rows' % v}
    tol = (2e-3 if solver == 'eco' else 1e-6) * (1.0 + abs(ref))   # ECOS_BB stops at a 1e-3 relative gap
    if abs(v - ref) > tol:
        return {'status': 'violation', 'sig': sig + '|optimum', 'ops': nops,
                'detail': 'reported %s %.9g, brute force %.9g (LP relaxation %s); layout %s ib=%s bb=%s' %
                          (spec['dir'], v, ref, relax, lay, spec['ib'], spec['bb'])}
    nontrivial = relax is not None and abs(relax - ref) > 1e-3
    return {'status': 'pass', 'ops': nops, 'nontrivial': bool(nontrivial),
            'outcome': 'milp:ok:%s' % ('integrality-decides' if nontrivial else 'relaxation-tight')}
