"""C09 - sets and expressions do not leak: results are independent of build history.

Four bounded explorations of *real API call sequences*, each judged by a differential oracle against a fresh
build of the same declared model in canonical order (see rsmc/ref/c09c15_*.py):

  leak   set-leak matrix (ordered pairs / triples of set definitions, real or decoy, over set kinds that land in
         different internal lists of the shared random-variable model; ro forall/minmax/maxmin, dro
         suppset/exptset/probset of two ambiguity sets, forall(fset2), forall(support constraints))
  seq    cache protocol, sequence-exhaustive: every word of length d over {st(d_i), do_math(), do_math(False),
         solve(default), solve(eco), soc_solve(eco), get}
  graph  cache protocol, state-graph BFS to a fixpoint over the abstract key (declared set, cache flags,
         re-formulation count capped at 3, soc_solve happened)
  order  all linear extensions of the dependency order of the declarations + noise events anywhere
  alias  one expression object used in ordered pairs of constructs versus fresh copies
"""
import itertools

PROPERTY = 'C09'
TIMEOUT = 900.0
CHUNK = 4
FLOOR = 0.45
RULE = ('leak: every ordered pair (thorough: triple) of (role, set kind) events in 2-4 orders; non-trivial = all '
        'solves optimal, optimum equals the sum of the only-that-set fresh models AND intersecting the other '
        "set into the used one would have changed its fresh optimum by > 1e-3 (measured).  seq: every word of the "
        'stated length over the cache-protocol alphabet (st of a declaration at most once); non-trivial = at '
        'least two checkpoints with different declared sets compared and agreed.  graph: BFS to closure over the '
        'abstract state key; one case per declaration universe; non-trivial = fixpoint reached and every transition '
        'checkpoint compared.  order: every linear extension x noise insertion; non-trivial = optimal and equal to '
        'the canonical-order optimum which is pinned to differ from the optimum of the model without the '
        'noise-sensitive constructs.  alias: every ordered pair of constructs; non-trivial = both builds optimal, '
        'equal, and both uses bind (dropping either changes the fresh optimum; measured).')
ASSUMPTIONS = [
    'declared models are separable over set groups by construction (one epigraph variable per use), so the '
    'fresh single-set optima add up to the optimum of the declared model',
    'conic optima of two different formulations of one program agree to 1e-4(1+|v|) under ECOS; LP optima to 1e-6; '
    'soc_solve (degree 4) answers to 2e-3',
    'graph pass: states are merged on the key (declared set, pupdate, dupdate, primal cached, dual cached, '
    'rc_model flags, re-formulations capped at 3, soc_solve happened, solved); successor states are materialised '
    'by deep-copying the live parent state, every disagreement is re-validated by an honest replay of the whole '
    'operation sequence on fresh objects before it is reported, and a sample of states is cross-checked against '
    'honest replays; the sequence-exhaustive pass uses no abstraction and no copies',
    'a compiled program is solved once per distinct numerical content (memo on a hash of all its arrays)',
    'an ECOS status other than Optimal / Primal infeasible / Dual infeasible is inconclusive (vacuous)',
    'a declaration that the API refuses loudly AT HAND-OVER with SyntaxError (its order-of-declaration contract, e.g. '
    '"Adaptation must be defined before the model is formulated") does not lead to a declared model: the history is '
    'counted unsupported, not a violation; any other exception, or one raised later at formulation, is a disagreement',
]
TRUSTED = ['CPython', 'NumPy', 'ECOS via rsome.eco_solver as the solver on both sides of the differential',
           'SciPy/HiGHS through rsome default solver on both sides', 'copy.deepcopy (graph pass only, guarded)']


# ------------------------------------------------------------------------------------------------
# pure-data copies of the kind palettes (this module must not import rsome)
KINDS_LP = ['bnd', 'lin', 'eq', 'abs', 'n1', 'ninf']
KINDS_SOC = ['n2', 'sq', 'ssq', 'quad']
KINDS_IP = ['p3', 'p52', 'pow', 'gm']
KINDS_EXP = ['exp', 'ent', 'kl', 'xonly', 'entonly', 'klonly']
KINDS = KINDS_LP + KINDS_SOC + KINDS_IP + KINDS_EXP
PKINDS = ['pbox', 'pn1', 'pninf', 'pn2', 'pp3', 'pkl']
TRIPLE_B = ['bnd', 'lin', 'abs', 'n2', 'p3', 'exp', 'kl']      # one used set per internal list (triples only)


def _ro_a(role, kind, g, i):
    if role == 'decoy':
        return [{'op': 'forall', 'i': 0, 'set': [kind, 's'], 'add': False, 'grp': None, 'pgrp': g}]
    if role == 'real':
        return [{'op': 'forall', 'i': i, 'set': [kind, 's'], 'grp': g}]
    if role == 'defsup':
        return [{'op': 'defobj', 'mode': 'minmax', 'set': [kind, 's'], 'grp': g}]
    raise ValueError(role)


def _ro_b(role, kind):
    if role == 'forall':
        return [{'op': 'forall', 'i': 0, 'set': [kind, 'L'], 'grp': 'B'}]
    return [{'op': 'defobj', 'mode': role, 'set': [kind, 'L'], 'grp': 'B'}, {'op': 'defuse', 'i': 0, 'grp': 'B'}]


def _leak_ro(thorough):
    for ka in KINDS:
        for kb in KINDS:
            for ra in ('decoy', 'real', 'defsup'):
                for rb in ('forall', 'minmax', 'maxmin'):
                    if ra == 'defsup' and rb != 'forall':
                        continue
                    a = _ro_a(ra, ka, 'A', 1)
                    b = _ro_b(rb, kb)
                    orders = {'AB': a + b, 'BA': b + a}
                    if len(b) == 2:
                        orders['BAB'] = b[:1] + a + b[1:]
                    probe = [['A', 'B']] + ([['B', 'A']] if ra != 'decoy' else [])
                    for o, ev in orders.items():
                        yield {'family': 'leak', 'fe': 'ro', 'ev': ev, 'probe': probe,
                               'tag': '%s:%s->%s:%s|%s' % (ra, ka, rb, kb, o)}
    # an EMPTY set definition (forall() / minmax(obj, []) without constraints) after / before every other kind: the
    # empty definition denotes all of R^n (the constraint under it cannot hold), never the set formulated before it
    # (solved through HiGHS / Gurobi, which report infeasible programs cleanly; ECOS does not)
    for ka in KINDS_LP + KINDS_SOC:
        for ra in ('decoy', 'real', 'defsup'):
            for rb in ('forall', 'minmax', 'maxmin'):
                if ra == 'defsup' and rb != 'forall':
                    continue
                a = _ro_a(ra, ka, 'A', 1)
                b = _ro_b(rb, 'empty')
                for o, ev in (('AB', a + b), ('BA', b + a)):
                    yield {'family': 'leak', 'fe': 'ro', 'ev': ev, 'probe': [], 'how': 'def' if ka in KINDS_LP else 'grb',
                           'tag': '%s:%s->%s:empty|%s' % (ra, ka, rb, o)}
    # a noise random variable declared between the two definitions (changes the width of the shared model)
    for ka in ('bnd', 'n1', 'n2', 'p3', 'exp'):
        for kb in ('bnd', 'lin', 'n2', 'kl'):
            for ra in ('decoy', 'real'):
                a = _ro_a(ra, ka, 'A', 1)
                b = _ro_b('forall', kb)
                yield {'family': 'leak', 'fe': 'ro', 'ev': a + [{'op': 'rvar', 'grp': None}] + b,
                       'probe': [['A', 'B']], 'tag': '%s:%s->rvar->forall:%s|AB' % (ra, ka, kb)}
    if thorough:
        for k1 in KINDS:
            for k2 in KINDS:
                for kb in TRIPLE_B:
                    for r1, r2 in itertools.product(('decoy', 'real'), repeat=2):
                        a1 = _ro_a(r1, k1, 'A', 1)
                        a2 = _ro_a(r2, k2, 'C', 2)
                        for rb in ('forall', 'minmax'):
                            b = _ro_b(rb, kb)
                            probe = [['A', 'B'], ['C', 'B']]
                            for o, ev in (('A1A2B', a1 + a2 + b), ('A1BA2', a1 + b + a2)):
                                yield {'family': 'leak', 'fe': 'ro', 'ev': ev, 'probe': probe,
                                       'tag': '%s:%s+%s:%s->%s:%s|%s' % (r1, k1, r2, k2, rb, kb, o)}


def _dro_specs_a():
    out = []
    for k in ('bnd', 'lin', 'n1', 'n2', 'p3', 'pow', 'exp', 'ent'):
        out.append(('supp:' + k, [{'op': 'supp', 'scen': 'all', 'set': [k, 's']}]))
    for k in ('n2', 'p3'):
        out.append(('supp1:' + k, [{'op': 'supp', 'scen': 0, 'set': ['bnd', 's']},
                                   {'op': 'supp', 'scen': 1, 'set': [k, 's']}]))
    for k in ('bnd', 'n1', 'n2', 'p3'):
        out.append(('expt:' + k, [{'op': 'supp', 'scen': 'all', 'set': ['bnd', 'm']},
                                  {'op': 'expt', 'scen': 'all', 'set': [k, 's']}]))
    for k in ('bnd', 'p3'):
        out.append(('expt0:' + k, [{'op': 'supp', 'scen': 'all', 'set': ['bnd', 'm']},
                                   {'op': 'expt', 'scen': 0, 'set': [k, 's']}]))
    for pk in PKINDS:
        out.append(('prob:' + pk, [{'op': 'supp', 'scen': 0, 'set': ['bnd', 's']},
                                   {'op': 'supp', 'scen': 1, 'set': ['bnd', 'm']},
                                   {'op': 'prob', 'set': pk}]))
    return out


def _dro_specs_b():
    out = []
    for k in ('bnd', 'n2', 'exp'):
        out.append(('supp:' + k, [{'op': 'supp', 'scen': 'all', 'set': [k, 'L']}]))
    out.append(('supp1:lin', [{'op': 'supp', 'scen': 0, 'set': ['bnd', 'L']},
                              {'op': 'supp', 'scen': 1, 'set': ['lin', 'L']}]))
    for k in ('bnd', 'n2'):
        out.append(('expt:' + k, [{'op': 'supp', 'scen': 'all', 'set': ['bnd', 'L']},
                                  {'op': 'expt', 'scen': 'all', 'set': [k, 'm']}]))
    for pk in ('pbox', 'pn2'):
        out.append(('prob:' + pk, [{'op': 'supp', 'scen': 0, 'set': ['bnd', 'L']},
                                   {'op': 'supp', 'scen': 1, 'set': ['bnd', 'm']},
                                   {'op': 'prob', 'set': pk}]))
    return out


def _with(evs, **kw):
    out = []
    for e in evs:
        e = dict(e)
        e.update(kw)
        out.append(e)
    return out


def _leak_dro(thorough):
    specs_a = _dro_specs_a()
    specs_b = _dro_specs_b()
    if not thorough:
        specs_b = [sb for sb in specs_b if sb[0] in ('supp:bnd', 'supp:n2', 'supp1:lin', 'expt:bnd', 'prob:pbox')]
    for na, da in specs_a:
        for ra in ('decoy', 'rc', 'ec'):
            if ra == 'decoy':
                adef = _with(da, F=1, grp=None, pgrp='A')
                ause = []
            else:
                adef = _with(da, F=1, grp='A')
                ause = [{'op': ra, 'F': 1, 'i': 1, 'grp': 'A'}]
            buses = [('rc', 'B:'), ('ec', 'B:'), ('obj', 'B:')]
            for nb, db in specs_b:
                for ub, _ in buses:
                    bdef = _with(db, F=2, grp='B')
                    if ub == 'obj':
                        buse = [{'op': 'defobj', 'mode': 'minsup', 'F': 2, 'grp': 'B'},
                                {'op': 'ec', 'F': 0, 'i': 0, 'grp': 'B'}]
                    else:
                        buse = [{'op': ub, 'F': 2, 'i': 0, 'grp': 'B'}]
                    probe = [['A', 'B']] + ([['B', 'A']] if ra != 'decoy' else [])
                    orders = {'AB': adef + bdef + ause + buse, 'BA': bdef + adef + buse + ause}
                    if thorough:
                        mix = [e for pair in itertools.zip_longest(adef, bdef) for e in pair if e is not None]
                        orders['mix'] = mix + ause + buse
                        orders['late'] = bdef + buse[:1] + adef + ause + buse[1:]
                    for o, ev in orders.items():
                        yield {'family': 'leak', 'fe': 'dro', 'ev': ev, 'probe': probe,
                               'tag': '%s:%s->%s:%s|%s' % (ra, na, ub, nb, o)}
            # B given as forall(support constraints)
            for kb in ('bnd', 'n2', 'kl'):
                buse = [{'op': 'rc', 'F': 'list', 'i': 0, 'set': [kb, 'L'], 'grp': 'B'}]
                probe = [['A', 'B']]
                for o, ev in (('AB', adef + ause + buse), ('BA', buse + adef + ause)):
                    yield {'family': 'leak', 'fe': 'dro', 'ev': ev, 'probe': probe,
                           'tag': '%s:%s->list:%s|%s' % (ra, na, kb, o)}
    # A given as forall(support constraints) (real or decoy), B an ambiguity set
    for ka in KINDS:
        for add in (True, False):
            ause = [{'op': 'rc', 'F': 'list', 'i': 1, 'set': [ka, 's'], 'add': add,
                     'grp': 'A' if add else None, 'pgrp': 'A'}]
            for nb, db in specs_b[:4]:
                bdef = _with(db, F=2, grp='B')
                for ub in ('rc', 'ec'):
                    buse = [{'op': ub, 'F': 2, 'i': 0, 'grp': 'B'}]
                    yield {'family': 'leak', 'fe': 'dro', 'ev': bdef + ause + buse, 'probe': [['A', 'B']],
                           'tag': '%s:list:%s->%s:%s|AB' % ('rc' if add else 'decoy', ka, ub, nb)}


# ------------------------------------------------------------------------------------------------ cache protocol
RO_FULL = ['lin', 'bnd', 'soc', 'ipc', 'exp', 'rown', 'rdef', 'late', 'adapt', 'refor']
RO_REFOR = ['rown', 'refor']                    # forall again on a stated constraint, after P / D / S (depth 4)
REQUIRES = {'refor': 'rown', 'reford': 'rob'}
RO_CORE = ['exp', 'rdef', 'late', 'adapt']
DRO_SMALL = ['rob', 'ecn', 'late', 'evt', 'lsupp', 'lexp', 'lprob']
DRO_Q1 = ['rob', 'ecn', 'late', 'reford', 'lsupp', 'lsuppw']       # forall again, support re-definitions
DRO_Q2 = ['ecn', 'lsuppb', 'lexp', 'lexpe', 'lprob', 'lprob0']     # re-declared probability / expectation sets
OPS_ALL = ['P', 'D', 'S', 'Sd', 'Q', 'G']
OPS_CORE = ['P', 'D', 'S', 'Q', 'G']
OPS_DRO = ['P', 'D', 'S', 'G']


def _words(decl, ops, depth):
    syms = ['st:' + d for d in decl] + list(ops)

    def rec(prefix, used):
        if len(prefix) == depth:
            yield list(prefix)
            return
        for s in syms:
            if s.startswith('st:'):
                if s in used:
                    continue
                req = REQUIRES.get(s[3:])
                if req and ('st:' + req) not in used:
                    continue
                for w in rec(prefix + [s], used | {s}):
                    yield w
            else:
                for w in rec(prefix + [s], used):
                    yield w
    return rec([], frozenset())


def _seq_cases(thorough):
    plans = [('ro', RO_FULL, OPS_ALL, 4 if thorough else 3), ('ro', RO_CORE, OPS_CORE, 5 if thorough else 4),
             ('ro', RO_REFOR, OPS_ALL, 5 if thorough else 4),
             ('dro', DRO_Q1, OPS_DRO, 4 if thorough else 3), ('dro', DRO_Q2, OPS_DRO, 4 if thorough else 3)]
    plans.append(('rox', ['x0', 'x1', 'x2', 'x3'], OPS_CORE, 4 if thorough else 3))   # exp-type constraints only
    if thorough:
        plans.append(('dro', DRO_SMALL, OPS_DRO, 4))
    for fe, decl, ops, depth in plans:
        for w in _words(decl, ops, depth):
            yield {'family': 'seq', 'fe': fe, 'word': w}


GRAPH_Q = [('ro', ['lin', 'exp', 'rdef', 'late'], ['P', 'D', 'S', 'Q', 'G']),
           ('ro', ['soc', 'ipc', 'rown', 'adapt'], ['P', 'D', 'S', 'Sd', 'G']),
           ('ro', ['refor', 'exp', 'adapt', 'rown'], ['P', 'D', 'Sd', 'Q']),
           ('dro', ['rob', 'ecn', 'lsupp'], ['P', 'D', 'S', 'G']),
           ('dro', ['lprob', 'lprob0', 'lexp'], ['P', 'D', 'S']),
           ('rox', ['x0', 'x1', 'x2'], ['P', 'D', 'S', 'Q'])]
GRAPH_T = [('ro', ['lin', 'bnd', 'exp', 'rdef', 'late', 'adapt'], ['P', 'D', 'S', 'Sd', 'Q', 'G']),
           ('ro', ['soc', 'ipc', 'exp', 'rown', 'rdef', 'adapt'], ['P', 'D', 'S', 'Sd', 'Q', 'G']),
           ('dro', ['lin', 'soc', 'rob', 'ecn', 'evt'], ['P', 'D', 'S', 'G']),
           ('dro', ['rob', 'ecn', 'lsupp', 'lexp', 'lprob'], ['P', 'D', 'S', 'G'])]


def _graph_cases(thorough):
    for fe, decl, ops in GRAPH_Q + (GRAPH_T if thorough else []):
        yield {'family': 'graph', 'fe': fe, 'decl': decl, 'ops': ops,
               'max_transitions': 40000 if thorough else 8000}


def _order_cases(thorough):
    from ..ref import c09c15_order as O       # pure-data part only (rsome is imported lazily inside build())
    for fe in ('ro', 'dro'):
        for ext in O.linear_extensions(fe):
            for k in ((0, 1, 2) if thorough else (0, 1)):
                for o in O.with_noise(fe, ext, k):
                    if not thorough and fe == 'dro' and 'ND' in o:
                        continue
                    yield {'family': 'order', 'fe': fe, 'order': o}
    # 2-entry decision rule + a further (real) random variable declared at every position, three dependency masks
    for fe in ('ro2', 'dro2'):
        for ext in O.linear_extensions(fe):
            for mask in O.MASKS:
                for k in ((0, 1) if (thorough and fe == 'ro2') else (0,)):
                    for o in O.with_noise(fe, ext, k):
                        if k == 1 and 'NX' in o:
                            continue            # the unused-dvar noise is covered by the ro / dro flavours
                        yield {'family': 'order', 'fe': fe, 'order': o, 'mask': mask}


def _alias_cases():
    from ..ref import c09c15_alias as A        # pure-data part only
    for fe, kind, order in A.pairs2():
        yield {'family': 'alias2', 'fe': fe, 'kind': kind, 'order': order}
    for fe, kind, u1, u2 in A.pairs():
        yield {'family': 'alias', 'fe': fe, 'kind': kind, 'u1': u1, 'u2': u2}


def _leak_pw(thorough):
    """Piecewise constraints (maxof(p1, p2, p3) <= t).forall(own set) with a piece that has no explicit random
    variable but contains a decision rule / affinely adaptive decision; own set != default set."""
    bk = KINDS if thorough else TRIPLE_B
    for ka in KINDS:
        for kb in bk:
            b = [{'op': 'pw', 'i': 0, 'set': [kb, 'L'], 'grp': 'B'}]
            for ra in ('decoy', 'real', 'defsup'):
                a = _ro_a(ra, ka, 'A', 1)
                if ra == 'defsup':
                    a = a + [{'op': 'defuse', 'i': 1, 'grp': 'A'}]
                probe = [['A', 'B']] + ([['B', 'A']] if ra == 'real' else [])
                for o, ev in (('AB', a + b), ('BA', b + a)):
                    yield {'family': 'leak', 'fe': 'ro', 'ev': ev, 'probe': probe,
                           'tag': '%s:%s->pw:%s|%s' % (ra, ka, kb, o)}
    specs_b = _dro_specs_b()
    if not thorough:
        specs_b = [sb for sb in specs_b if sb[0] in ('supp:bnd', 'supp:n2', 'supp1:lin', 'expt:bnd', 'prob:pbox')]
    for na, da in _dro_specs_a():
        for ra in ('defobj', 'rc', 'decoy'):
            if ra == 'decoy':
                adef = _with(da, F=1, grp=None, pgrp='A')
                ause = []
            elif ra == 'rc':
                adef = _with(da, F=1, grp='A')
                ause = [{'op': 'rc', 'F': 1, 'i': 1, 'grp': 'A'}]
            else:           # F1 is the DEFAULT ambiguity set (objective) and is used by a default-set constraint
                adef = _with(da, F=1, grp='A')
                ause = [{'op': 'defobj', 'mode': 'minsup', 'F': 1, 'grp': 'A'}, {'op': 'ec', 'F': 0, 'i': 1, 'grp': 'A'}]
            for nb, db in specs_b:
                bdef = _with(db, F=2, grp='B')
                buse = [{'op': 'pw', 'F': 2, 'i': 0, 'grp': 'B'}]
                probe = [['A', 'B']]
                for o, ev in (('AB', adef + bdef + ause + buse), ('BA', bdef + adef + buse + ause)):
                    yield {'family': 'leak', 'fe': 'dro', 'ev': ev, 'probe': probe,
                           'tag': '%s:%s->pw:%s|%s' % (ra, na, nb, o)}


def _leak_redef(thorough):
    """The same slot of ONE ambiguity set declared twice before the first solve: the earlier definition is overridden
    (it is a decoy: group None), the reference holds only the last one.  suppset whole / event level, probset (also
    probset() as reset).  exptset is cumulative by design and is covered by the ordinary pairs."""
    sk = ['bnd', 'lin', 'n1', 'n2', 'p3', 'exp', 'ent']
    uses = ['rc', 'ec']
    for k1 in sk:
        for k2 in sk:
            for lvl1, lvl2 in (('all', 'all'), (0, 0), (0, 'all')):
                # the FIRST definition is completely overridden by the LAST one (a decoy: group None); a preliminary
                # whole-level support keeps scenario 1 defined when both definitions are event-level
                first = {'op': 'supp', 'F': 2, 'scen': lvl1, 'set': [k1, 's'], 'grp': None, 'pgrp': 'A'}
                last = {'op': 'supp', 'F': 2, 'scen': lvl2, 'set': [k2, 'L'], 'grp': 'B'}
                pre = []
                if lvl1 == 0:
                    pre = [{'op': 'supp', 'F': 2, 'scen': 'all', 'set': ['bnd', 'm']}]
                    pre[0].update({'grp': 'B'} if lvl2 == 0 else {'grp': None, 'pgrp': 'A'})
                for u in uses:
                    ev = pre + [first, last] + [{'op': u, 'F': 2, 'i': 0, 'grp': 'B'}]
                    yield {'family': 'leak', 'fe': 'dro', 'ev': ev, 'probe': [['A', 'B']],
                           'tag': 'redef:supp%s:%s->%s:supp%s:%s|AB' % (lvl1, k1, u, lvl2, k2)}
    supp = [{'op': 'supp', 'F': 2, 'scen': 0, 'set': ['bnd', 'L'], 'grp': 'B'},
            {'op': 'supp', 'F': 2, 'scen': 1, 'set': ['bnd', 'm'], 'grp': 'B'}]
    for p1 in PKINDS + ['pnone']:
        for p2 in PKINDS + ['pnone']:
            if p1 == p2:
                continue
            for u in ('ec', 'obj'):
                first = {'op': 'prob', 'F': 2, 'set': p1, 'grp': None, 'pgrp': 'A'}
                last = {'op': 'prob', 'F': 2, 'set': p2, 'grp': 'B'}
                if u == 'obj':
                    use = [{'op': 'defobj', 'mode': 'minsup', 'F': 2, 'grp': 'B'}, {'op': 'ec', 'F': 0, 'i': 0, 'grp': 'B'}]
                else:
                    use = [{'op': 'ec', 'F': 2, 'i': 0, 'grp': 'B'}]
                yield {'family': 'leak', 'fe': 'dro', 'ev': supp + [first, last] + use, 'probe': [['A', 'B']],
                       'tag': 'redef:prob:%s->%s:prob:%s|AB' % (p1, u, p2)}


def gen_cases(tier, seed):
    thorough = tier == 'thorough'
    for c in _graph_cases(thorough):       # long single cases first so that they overlap with the short ones
        yield c
    for c in _leak_ro(False):
        yield c
    for c in _leak_dro(False):
        yield c
    for c in _leak_pw(False):
        yield c
    for c in _leak_redef(False):
        yield c
    for c in _seq_cases(False):
        yield c
    for c in _alias_cases():
        yield c
    for c in _order_cases(thorough):
        yield c
    if thorough:
        for c in _seq_cases(True):
            yield c
        for c in _leak_dro(True):
            yield c
        for c in _leak_pw(True):
            yield c
        for c in _leak_ro(True):
            yield c


def exhaustive(tier):
    return True


def bounds(tier):
    th = tier == 'thorough'
    return {'leak': {'set_kinds': len(KINDS), 'probability_set_kinds': len(PKINDS), 'tuple': 3 if th else 2, 'triple_used_set_kinds': TRIPLE_B if th else [],
                     'ro_roles': 'decoy|real|superseded-default x forall|minmax|maxmin, orders AB|BA|BAB (+rvar noise)',
                     'dro_orders': 'AB|BA|mix|late' if th else 'AB|BA'},
            'seq': {'ro_full_alphabet': ['st:' + d for d in RO_FULL] + OPS_ALL, 'ro_full_depth': 4 if th else 3,
                    'ro_core_alphabet': ['st:' + d for d in RO_CORE] + OPS_CORE, 'ro_core_depth': 5 if th else 4,
                    'ro_forall_again_alphabet': ['st:' + d for d in RO_REFOR] + OPS_ALL, 'ro_forall_again_depth': 5 if th else 4,
                    'dro_alphabets': [['st:' + d for d in a] + OPS_DRO for a in ([DRO_Q1, DRO_Q2] + ([DRO_SMALL] if th else []))],
                    'dro_depth': 4 if th else 3, 'implicit_final_checkpoint': 'solve(eco_solver)'},
            'graph': {'universes': [list(u) for u in (GRAPH_Q + (GRAPH_T if th else []))],
                      'bound': 'fixpoint of the abstract state graph (cap %d transitions per universe, a capped '
                               'universe is reported vacuous)' % (40000 if th else 8000)},
            'order': {'ro_declarations': 7, 'dro_declarations': 7, 'noise_events': 2 if th else 1,
                      'ro2_dro2': '2-entry rule (masks full|diag|part) + a real extra rvar at every position, 8/9 '
                                  'declarations, noise events %d' % (1 if th else 0)},
            'alias': {'expression_kinds': 5, 'ordered_pairs': 'all'}}


# ------------------------------------------------------------------------------------------------
def worker_init():
    from ..ref import c09c15_common as C
    C.init()


def run_case(case):
    fam = case['family']
    if fam == 'leak':
        from ..ref import c09c15_leak as L
        return L.run(case)
    if fam == 'seq':
        from ..ref import c09c15_hist as H
        return H.run_seq(case)
    if fam == 'graph':
        from ..ref import c09c15_hist as H
        return H.run_graph(case)
    if fam == 'order':
        from ..ref import c09c15_order as O
        return O.run(case)
    if fam == 'alias':
        from ..ref import c09c15_alias as A
        return A.run(case)
    if fam == 'alias2':
        from ..ref import c09c15_alias as A
        return A.run2(case)
    raise ValueError(fam)
