"""C03 - DRO solutions are safe for every distribution of the declared event-wise ambiguity set.

State space: every DroSpec of the grammar in dro_specs.py (scenarios and labelling x per-scenario supports x
expectation sets on events x probability sets x decision partitions x affine masks x objective/row forms x
attachments).  Oracle: the decisions returned by rsome are read through the public expression-call API and put into
the *spec*; the worst-case expectation of the objective and of every E-constraint over the declared ambiguity set is
computed by an independent moment LP over the vertices of the supports (rsmc/ref/droref.py); robust rows are
evaluated at every vertex of every scenario's support.
"""
from . import dro_specs, dro_common
from ..ref import droref

PROPERTY = 'C03'
TIMEOUT = 120.0
CHUNK = 4
FLOOR = 0.4
RULE = ('union of exhaustive sub-products of the DroSpec grammar (supports x expectation sets x probability sets x '
        'objective forms for S=1..3; Wasserstein-lifted sets; every set partition x every affine mask x declaration '
        'order; event-wise static x; row kinds x attachments x surface styles; objective kinds; global supports); '
        'non-trivial = solve optimal AND the reference worst-case expectation of the objective is within 1e-4 of the '
        'reported optimum (the bound is tight) or a constraint is within 1e-4 of active')
ASSUMPTIONS = ['supports are polytopes and integrands are maxima of affine pieces in z, so worst-case distributions are '
               'supported on support vertices (exact)',
               'decisions are read through x(), y(z.assign(e_i)); tolerance 1e-6*(1+|value|) (HiGHS on both sides)',
               'a failed/raising solve makes the case vacuous']
TRUSTED = ['CPython', 'NumPy', 'SciPy linprog (HiGHS)', 'rsmc/ref/droref.py', 'rsmc/ref/sets.py vertex enumeration']

worker_init = dro_common.worker_init


def gen_cases(tier, seed):
    yield from dro_specs.gen_specs(tier, seed)


def bounds(tier):
    return {'S<=': 4 if tier == 'thorough' else 3, 'dz<=': 2, 'ny<=': 2, 'palettes': 4 if tier == 'thorough' else 1}


def run_case(spec):
    r = dro_common.solve_spec(spec)
    ops = r['ops']
    tag = spec['tag']
    if r['status'] != 'optimal':
        return {'status': 'vacuous', 'outcome': r['status'] + ':' + r.get('stage', r.get('solver_status', '')),
                'ops': ops, 'detail': r.get('err')}
    try:
        ev = droref.evaluate(spec, r['dec'])
    except ValueError as ex:
        return {'status': 'vacuous', 'outcome': 'reference n/a', 'ops': ops, 'detail': str(ex)}
    val = r['value']
    tol = (1e-5 if spec.get('solver', 'def') == 'def' else 1e-4) * (1 + abs(val))
    o = ev['obj']
    if o['status'] != 'optimal':
        return {'status': 'vacuous', 'outcome': 'ambiguity set ' + o['status'], 'ops': ops}
    tight = False
    kind = spec['obj']['kind']
    if kind in ('min', 'minsup'):
        if o['worst'] > val + tol:
            return {'status': 'violation', 'sig': tag + '|objective unsafe', 'ops': ops,
                    'detail': 'reported %.8g but worst-case expectation %.8g at decisions %s' % (val, o['worst'], r['dec'])}
    else:
        if o['worst'] < val - tol:
            return {'status': 'violation', 'sig': tag + '|objective unsafe', 'ops': ops,
                    'detail': 'reported %.8g but worst-case expectation %.8g at decisions %s' % (val, o['worst'], r['dec'])}
    tight = abs(o['worst'] - val) < 1e-4
    for i, (row, e) in enumerate(zip(spec['rows'], ev['rows'])):
        bad = None
        if e['kind'] == 'E':
            if e['status'] != 'optimal':
                continue
            if e['worst'] > tol:
                bad = 'worst-case expectation of E-row = %.3e > 0' % e['worst']
            tight = tight or abs(e['worst']) < 1e-4
        else:
            if row['sense'] == '<=' and e['max'] > tol:
                bad = 'max = %.3e > 0' % e['max']
            elif row['sense'] == '>=' and e['min'] < -tol:
                bad = 'min = %.3e < 0' % e['min']
            elif row['sense'] == '==' and max(abs(e['max']), abs(e['min'])) > tol:
                bad = 'equality residual'
        if bad:
            return {'status': 'violation', 'sig': '%s|row%d%s%s unsafe' % (tag, i, 'E' if row.get('E') else '', row['sense']),
                    'ops': ops, 'detail': '%s ; decisions %s value %s' % (bad, r['dec'], val)}
    return {'status': 'pass', 'outcome': 'safe' + ('+tight' if tight else ''), 'ops': ops, 'nontrivial': bool(tight)}
