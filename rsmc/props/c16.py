"""C16 - exports (.lp file, show tables) describe exactly the solved program.

State space (product bound, exhaustive): compiled formulas `m.do_math()` (and `m.do_math(primal=False)` for the
continuous linear regions, whose objective has general signed / zero coefficients) of models built through the rsome
API over hand-made *regions* x objective directions x vtype strings x front ends:
    A  n=2, coefficients +-1, +-0.5, box and free bounds                       8 directions
    B  n=3, equality row, explicit zero row (0*x <= 1), zero / finite / equal (lb == ub) bounds
    C  coefficients 1e-7 and -1.5e-7 against a variable of size 1e6..1e7 (exponent notation in the file)
    D  coefficient 1e9 with right-hand side 2e9
    E  all vtypes (C/B/I, mixed strings), binaries without / with user bounds [0,1], <=0, [-1,3]
    F  unbounded directions, infeasible rows, the empty row 0*x <= -1 and 0*x == 1
    G  SOCP: norm, sumsqr, square, rsocone rows (quadratic section of the file), also mixed-integer
    G2 SOCP with two or three cones of different dimension (3/4/5 entries) in both orders, primal and dual formulas,
       front ends ro / socp / dro
    H  exponential-cone programs (show() only: the LP format has no exp cone)
Every region is solved in several objective directions, so each row / bound is active in at least one case.

Oracle A (file): `formula.to_lp(path)` into a per-case `tempfile.mkdtemp()` (removed afterwards), parsed by the
independent reader `gurobipy.read` (OutputFlag=0), optimised; status class (optimal / no optimum) and optimum must
equal those of the direct solve of the *same formula object* through `grb_solver.solve(formula)` and, for linear
well-scaled formulas, `rsome.lp.def_sol(formula)`.  A raise on one side only is a disagreement.
The entry-by-entry comparison of the re-read model with the formula (variables by name x1..xn: matrix, senses,
right-hand sides, bounds, types, cones) is recorded in the outcome as a diagnostic and never decides.
Oracle B (table): `formula.show()` compared cell by cell with a reference table computed from
linear.toarray(), const, sense, qmat, xmat, ub, lb, vtype, obj (rows Obj, LC*, QC*, EC*, UB, LB, Type; LinProg: LC* only).
"""
import os
import shutil
import tempfile
import numpy as np

PROPERTY = 'C16'
TIMEOUT = 30.0
CHUNK = 8
FLOOR = 0.5
RULE = ('every (region, vtype string, front end, objective direction, primal/dual formula) of the region table x '
        '{file oracle, table oracle}; file oracle non-trivial when both the re-read file and the direct solve reach a '
        'definite Gurobi status (optimal: optima compared; infeasible/unbounded: classes compared); table oracle '
        'non-trivial when every cell of show() was compared with the reference (cell count > 0)')
ASSUMPTIONS = [
    'gurobipy.read is the only independent LP-format reader available (OR-tools parses the lp_solve dialect, HiGHS reader is not exposed)',
    'status classes optimal / no-optimum are compared; Gurobi codes 3/4/5 are one class',
    'optimum tolerance 1e-6(1+|v|) for LP/MILP, 1e-4 for SOCP (barrier)',
    'binary variables mean {0,1} intersected with the bounds, for the reader as for the program',
    'the default solver is used as second direct solve only where the coefficient range is <= 1e6 '
    '(regions C and D are ill-scaled on purpose: HiGHS and Gurobi then differ by their '
    'tolerances - observed 0.0 vs 0.325 - which says nothing about the file; file vs direct Gurobi is the verdict there)',
    'show(): numbers are compared exactly (float equality, signed zeros identified), strings literally',
]
TRUSTED = ['CPython', 'NumPy', 'gurobipy LP-format reader and Gurobi optimiser', 'reference table builder (40 lines)']

S8 = [[1.0, 0.0], [-1.0, 0.0], [0.0, 1.0], [0.0, -1.0], [1.0, 1.0], [-1.0, -1.0], [1.0, -1.0], [-1.0, 1.0]]
S3 = [[1.0, 0.0, 0.0], [-1.0, 0.0, 0.0], [0.0, 0.0, 1.0], [0.0, 0.0, -1.0], [1.0, 0.0, 1.0], [-1.0, 0.0, 0.5],
      [0.0, 1.0, -1.0], [0.5, -1.0, 0.0]]
DELTA = [0.0, 0.25, -0.125, 0.5]


def _regions(pal, thorough):
    """-> list of (name, n, [vtype strings], items, [objective vectors], [front ends], family)"""
    d = DELTA[pal]
    R = []
    # A
    R.append(('A', 2, ['C', 'I', 'CI', 'IC'], [
        ['row', [[1.0, 0.5]], '<=', [2.0 + d], 'mat'],
        ['row', [[-1.0, 1.0]], '<=', [1.0], 'mat'],
        ['row', [[0.5, 1.0]], '>=', [-1.5 - d], 'mat'],
        ['bnd', 'L', [0, 1], -1.0, 'B'], ['bnd', 'U', [0, 1], 3.0, 'B']], S8, ['ro', 'lp', 'socp'], 'LP'))
    # A2: two-row blocks, bounds as rows
    R.append(('A2', 2, ['C'], [
        ['row', [[1.0, 0.5], [-1.0, 1.0]], '<=', [2.0 + d, 1.0], 'mat'],
        ['row', [[0.5, 1.0], [1.0, 0.0]], '>=', [-1.5, -1.0 - d], 'mat'],
        ['bnd', 'U', [0, 1], 3.0, 'R']], S8, ['ro', 'dro'], 'LP'))
    # B
    R.append(('B', 3, ['C', 'CCI', 'ICC'], [
        ['row', [[1.0, 1.0, 1.0]], '==', [1.5 + d], 'mat'],
        ['row', [[1.0, 0.0, -0.5]], '<=', [1.0], 'mat'],
        ['row', [[0.0, 0.0, 0.0]], '<=', [1.0], 'sum'],
        ['bnd', 'L', None, 0.0, 'B'], ['bnd', 'U', [2, 3], 1.0, 'B'],
        ['bnd', 'L', [1, 2], 0.25, 'B'], ['bnd', 'U', [1, 2], 0.25, 'B']], S3, ['ro', 'lp'], 'LP'))
    # C: tiny coefficients
    tiny = [[1e-7, 0.0], [-1e-7, 0.0], [0.0, 1.0], [0.0, -1.0], [1e-7, 1.0], [-1.5e-7, -1.0], [-1e-7, 0.5], [1e-7, -0.5]]
    R.append(('C', 2, ['C', 'IC', 'CI'], [
        ['row', [[1e-7, 1.0]], '<=', [0.5 + d], 'mat'],
        ['row', [[-1.5e-7, 0.5]], '>=', [-0.4], 'mat'],
        ['bnd', 'L', [0, 1], 0.0, 'B'], ['bnd', 'U', [0, 1], 8e6, 'B'],
        ['bnd', 'L', [1, 2], -1.0, 'B'], ['bnd', 'U', [1, 2], 1.0, 'B']], tiny, ['ro', 'lp'], 'LP'))
    # D: large coefficient
    big = [[1.0, 0.0], [-1.0, 0.0], [0.0, 1.0], [0.0, -1.0], [1e9, 1.0], [-1e9, -1.0], [1.0, -0.5], [-1.0, 0.5]]
    R.append(('D', 2, ['C', 'IC', 'CI'], [
        ['row', [[1e9, 1.0]], '<=', [2e9], 'mat'],
        ['row', [[1.0, -1.0]], '>=', [-0.5 - d], 'mat'],
        ['bnd', 'L', [0, 1], 0.0, 'B'], ['bnd', 'U', [0, 1], 3.0, 'B'],
        ['bnd', 'L', [1, 2], -1.0, 'B'], ['bnd', 'U', [1, 2], 1.0, 'B']], big, ['ro', 'lp'], 'LP'))
    # E: all vtypes, binaries with / without user bounds
    for bname, bb in (('none', None), ('unit', (0.0, 1.0)), ('le0', (None, 0.0)), ('wide', (-1.0, 3.0)), ('ge1', (1.0, None))):
        for vt in ('BIC', 'CIB', 'BBI', 'B', 'I', 'IBC') if thorough or bname in ('none', 'wide') else ('BIC', 'B'):
            types = list(vt) * 3 if len(vt) == 1 else list(vt)
            if bb is not None and 'B' not in types:
                continue
            items = [['row', [[1.0, 0.5, -1.0]], '<=', [1.25 + d], 'mat'],
                     ['row', [[-0.5, 1.0, 1.0]], '<=', [1.75], 'mat']]
            for j, t in enumerate(types):
                lo, up = (-1.0, 2.0) if t != 'B' else (bb if bb is not None else (None, None))
                if lo is not None:
                    items.append(['bnd', 'L', [j, j + 1], lo, 'B'])
                if up is not None:
                    items.append(['bnd', 'U', [j, j + 1], up, 'B'])
            R.append(('E:%s' % bname, 3, [vt], items, S3[:6], ['ro', 'lp'] if bname == 'none' else ['ro'], 'MILP'))
    # F: unbounded / infeasible / empty rows
    R.append(('F:unb', 2, ['C', 'I'], [['row', [[1.0, -1.0]], '<=', [1.0 + d], 'mat']], S8, ['ro'], 'LP'))
    R.append(('F:empty-neg', 2, ['C', 'I'], [['row', [[1.0, 0.5]], '<=', [2.0], 'mat'],
                                             ['row', [[0.0, 0.0]], '<=', [-1.0], 'sum'],
                                             ['bnd', 'L', None, -1.0, 'B'], ['bnd', 'U', None, 1.0, 'B']], S8[:4], ['ro', 'lp'], 'LP'))
    R.append(('F:empty-eq1', 2, ['C'], [['row', [[1.0, 0.5]], '<=', [2.0], 'mat'],
                                        ['row', [[0.0, 0.0]], '==', [1.0], 'mat'],
                                        ['bnd', 'L', None, -1.0, 'B'], ['bnd', 'U', None, 1.0, 'B']], S8[:4], ['ro'], 'LP'))
    R.append(('F:empty-eq0', 2, ['C'], [['row', [[1.0, 0.5]], '<=', [2.0], 'mat'],
                                        ['row', [[0.0, 0.0]], '==', [0.0], 'mat'],
                                        ['bnd', 'L', None, -1.0, 'B'], ['bnd', 'U', None, 1.0, 'B']], S8[:4], ['ro'], 'LP'))
    R.append(('F:contra', 2, ['C'], [['row', [[1.0, 0.0]], '<=', [-5.0], 'mat'], ['row', [[1.0, 0.0]], '>=', [5.0], 'mat']],
              S8[:2], ['ro'], 'LP'))
    # G: SOCP (x0 epigraph variable)
    s = [1.0, 2.0, 0.5, 1.5][pal]
    Es = [[0.0, s, 0.0], [0.0, 0.0, 1.0]]
    e0 = [1.0, 0.0, 0.0]
    cones = {
        'norm': ['soc', 'norm', Es, [0.0, 0.0], e0, 0.0],
        'norm-affine': ['soc', 'norm', [[0.0, s, 1.0], [0.0, -1.0, 1.0]], [0.0, 0.5], [1.0, 0.0, 0.5], 1.0],
        'square': ['soc', 'square', Es, [0.0, 0.0], [e0, e0], [0.0, 0.0]],
        'sumsqr': ['soc', 'sumsqr', Es, [0.0, 0.0], e0, 0.0],
        'rsocone': ['soc', 'rsocone', [[0.0, 0.0, 1.0]], [0.0], e0, 0.0, [0.0, s, 0.0], 0.0],
    }
    gobj = [[1.0, 0.0, 0.0], [1.0, 0.5, -0.5], [1.0, -1.0, 0.5], [0.5, 1.0, 1.0]]
    for cname, cone in cones.items():
        items = [cone, ['row', [[0.0, 1.0, 1.0]], '>=', [1.5 + d], 'mat'], ['bnd', 'L', [1, 3], -2.0, 'B'],
                 ['bnd', 'U', [1, 3], 2.0, 'B'], ['bnd', 'U', [0, 1], 9.0, 'B']]
        R.append(('G:' + cname, 3, ['C', 'CIC', 'CCB'], items, gobj, ['ro', 'socp'] if cname in ('norm', 'sumsqr') else ['ro'], 'SOCP'))
    # G2: two or more cones of DIFFERENT dimension, both orders (QC rows of show() / quadratic section of the file)
    A3 = [[0.0, s, 0.0], [0.0, 0.0, 1.0], [0.0, 1.0, 1.0]]
    z3 = [0.0, 0.0, 0.0]
    small = ['soc', 'norm', Es, [0.0, 0.0], e0, 0.0]                      # ||(s x1, x2)|| <= x0          (3 entries)
    small_c = ['soc', 'norm', Es, [0.0, 0.0], z3, 3.0 + d]                # ||(s x1, x2)|| <= const       (3 entries)
    large = ['soc', 'norm', A3, [0.0, 0.0, 0.5], [2.0, 0.0, 0.0], 1.0]    # ||A3 x + b|| <= 2 x0 + 1      (4 entries)
    large_c = ['soc', 'norm', A3, [0.0, 0.0, 0.0], z3, 6.0]               # ||A3 x|| <= const            (4 entries)
    sq = ['soc', 'square', Es, [0.0, 0.0], [e0, e0], [0.0, 0.0]]          # two cones of 3 entries
    ssq = ['soc', 'sumsqr', A3, [0.0, 0.0, 0.0], [1.0, 0.0, 0.0], 2.0]    # one cone of 5 entries
    rest = [['row', [[0.0, 1.0, 1.0]], '>=', [1.5 + d], 'mat'], ['bnd', 'L', [1, 3], -2.0, 'B'],
            ['bnd', 'U', [1, 3], 2.0, 'B'], ['bnd', 'U', [0, 1], 9.0, 'B']]
    for nm, cs in (('norm3,norm4', [small, large]), ('norm4,norm3', [large, small]),
                   ('const3,const4', [small_c, large_c, small]), ('const4,const3', [large_c, small_c, small]),
                   ('norm4,square', [large, sq]), ('square,norm4', [sq, large]),
                   ('sumsqr5,norm3', [ssq, small]), ('norm3,sumsqr5', [small, ssq]),
                   ('norm3,sumsqr5,norm4', [small, ssq, large])):
        R.append(('G2:' + nm, 3, ['C', 'CIC'], cs + rest, gobj, ['ro', 'socp', 'dro'], 'SOCP'))
    R.append(('G:infeasible', 3, ['C'], [cones['norm'], ['row', [[0.0, 1.0, 1.0]], '>=', [1.5], 'mat'],
                                         ['bnd', 'U', [0, 1], -0.5, 'B']], gobj[:1], ['ro'], 'SOCP'))
    # H: exponential cones (table oracle only)
    R.append(('H:exp', 2, ['C'], [['exp', 'exp', [0.0, 1.0], 0.0, [1.0, 0.0], 0.0], ['row', [[0.0, 1.0]], '==', [0.5 + d], 'mat']],
              [[1.0, 0.0]], ['ro', 'gcp', 'dro'], 'EXP'))
    R.append(('H:entropy+norm', 3, ['C'], [['exp', 'entropy', [[0.0, 1.0, 0.0], [0.0, 0.0, 1.0]], [0.0, 0.0], e0, 0.0],
                                           ['soc', 'norm', Es, [0.0, 0.0], [0.0, 0.0, 0.0], 2.0 + d],
                                           ['row', [[0.0, 1.0, 1.0]], '==', [1.0], 'mat']], [[-1.0, 0.0, 0.0]], ['ro'], 'EXP'))
    R.append(('H:kldiv', 3, ['C', 'CCI'], [['exp', 'kldiv', [1, 3], [0.5, 0.5], 0.1 + d / 4], ['row', [[0.0, 1.0, 1.0]], '==', [1.0], 'mat'],
                                           ['row', [[1.0, -1.0, 0.0]], '==', [0.0], 'mat']], [[1.0, 0.0, 0.0]], ['ro'], 'EXP'))
    return R


def gen_cases(tier, seed):
    thorough = tier == 'thorough'
    pals = [0, 1, 2, 3] if thorough else [seed % 4]
    for pal in pals:
        for name, n, vts, items, objs, fes, fam in _regions(pal, thorough):
            for vt in vts:
                for fe in fes:
                    if fe in ('lp', 'socp', 'dro', 'gcp') and vt != vts[0] and not thorough:
                        continue
                    for oi, c in enumerate(objs):
                        for dr in ('min', 'max'):
                            spec = {'fe': fe, 'n': n, 'vt': vt, 'items': items, 'obj': [dr, c]}
                            tag = '%s|%s|vt=%s|%s' % (fam, name, vt, fe)
                            forms = ['primal']
                            if fam == 'LP' and vt == 'C' and fe == 'ro' and name in ('A', 'A2', 'B', 'C', 'D', 'F:unb', 'F:contra'):
                                forms.append('dual')
                            if name.startswith('G2:') and vt == 'C':
                                forms.append('dual')
                            for form in forms:
                                if fam != 'EXP':
                                    yield {'check': 'file', 'spec': spec, 'form': form, 'tag': tag, 'pal': pal}
                                if True:
                                    yield {'check': 'table', 'spec': spec, 'form': form, 'tag': tag, 'pal': pal}


def bounds(tier):
    th = tier == 'thorough'
    return {'regions': [r[0] for r in _regions(0, th)], 'palettes': 4 if th else 1,
            'coefficients': [1, -1, 0.5, -0.5, 1e-7, -1.5e-7, 1e9, 0],
            'front_ends': ['ro', 'lp', 'socp', 'gcp', 'dro'], 'forms': ['primal', 'dual (continuous LP regions)']}


def exhaustive(tier):
    return True


# ------------------------------------------------------------------------------------------------
_rs = {}


def worker_init():
    from rsmc.ref import c11c14c16_build as bld, c11c14c16_prog as prog
    rs = bld.load()
    _rs.update(rs)
    _rs.update(bld=bld, prog=prog)
    import rsome.lp as lp
    from rsome import grb_solver
    _rs.update(lpmod=lp, grb=grb_solver)
    gp = rs['gp']
    _rs['env'] = gp.Env(params={'OutputFlag': 0})


def _formula(case):
    bld = _rs['bld']
    m, x, handles, nops = bld.build(case['spec'])
    if case['form'] == 'dual':
        f = m.do_math(primal=False)
    else:
        f = m.do_math()
    return m, f, nops + 1


def run_case(case):
    try:
        m, f, nops = _formula(case)
    except Exception as ex:  # noqa
        return {'status': 'unsupported', 'outcome': 'build raised %s' % type(ex).__name__, 'ops': 1, 'detail': str(ex)[:200]}
    if case['check'] == 'table':
        return _table(case, f, nops)
    return _file(case, f, nops)


# ---------------------------------------------------------------- oracle B
def _table(case, f, nops):
    prog = _rs['prog']
    S = prog.snapshot(f)
    sig = '%s|%s|show' % (case['tag'], case['form'])
    try:
        df = f.show()
    except Exception as ex:  # noqa
        return {'status': 'violation', 'sig': sig + '|raises', 'ops': nops + 1,
                'detail': 'show() raised %s: %s' % (type(ex).__name__, str(ex)[:200])}
    cls = S['cls']
    ref = prog.ref_showlc(S) if cls == 'LinProg' else prog.ref_show(S)
    bad = prog.compare_table(df, ref)
    # show() must not edit the program either
    d = prog.snap_diff(S, prog.snapshot(f))
    if d:
        return {'status': 'violation', 'sig': sig + '|mutates:' + '+'.join(d), 'ops': nops + 1, 'detail': 'show() changed %s' % d}
    if bad:
        return {'status': 'violation', 'sig': sig + '|cells', 'ops': nops + 1, 'detail': '; '.join(bad)[:900]}
    ncell = len(ref[2])
    return {'status': 'pass', 'outcome': 'show() of %s equals reference table' % cls, 'nontrivial': ncell > 0,
            'ops': nops + 1, 'validated': 1}


# ---------------------------------------------------------------- oracle A
def _grb_class(status):
    return {2: 'opt', 3: 'nonopt', 4: 'nonopt', 5: 'nonopt'}.get(int(status), 'unclear')


def _read_and_solve(f, S):
    """-> dict(cls, objval, diag) from the file written by to_lp, read by gurobipy."""
    gp = _rs['gp']
    tmp = tempfile.mkdtemp(prefix='rsmc_c16_', dir=os.environ.get('TMPDIR') or None)
    try:
        path = os.path.join(tmp, 'prog')
        f.to_lp(path)
        if not os.path.exists(path + '.lp'):
            return {'err': 'to_lp wrote no file %s.lp' % path}
        try:
            g = gp.read(path + '.lp', env=_rs['env'])
        except Exception as ex:  # noqa
            with open(path + '.lp') as fh:
                txt = fh.read()
            return {'err': 'reader rejects the file: %s' % str(ex)[:160], 'text': txt[:600]}
        g.Params.OutputFlag = 0
        g.Params.Threads = 1
        g.optimize()
        out = {'status': int(g.Status), 'cls': _grb_class(g.Status)}
        out['objval'] = float(g.ObjVal) if g.Status == 2 else float('nan')
        try:
            out['diag'] = _entrywise(g, S)
        except Exception as ex:  # noqa
            out['diag'] = ['diagnostic failed: %s' % type(ex).__name__]
        return out
    finally:
        shutil.rmtree(tmp, ignore_errors=True)


def _entrywise(g, S):
    """Diagnostic only: the re-read model against the formula, variable by name."""
    n = S['A'].shape[1]
    names = ['x%d' % (j + 1) for j in range(n)]
    gv = {v.VarName: v for v in g.getVars()}
    out = []
    lbe, ube = _rs['prog'].eff_bounds(S)
    for j, nm in enumerate(names):
        v = gv.get(nm)
        if v is None:
            out.append('variable %s missing' % nm)
            continue
        lo = v.LB if v.LB > -1e30 else -np.inf
        up = v.UB if v.UB < 1e30 else np.inf
        if lo != lbe[j] or up != ube[j]:
            out.append('%s bounds [%r,%r] formula [%r,%r]' % (nm, lo, up, lbe[j], ube[j]))
        if v.VType != S['vtype'][j]:
            out.append('%s type %s formula %s' % (nm, v.VType, S['vtype'][j]))
        if v.Obj != S['obj'][j]:
            out.append('%s objective %r formula %r' % (nm, v.Obj, S['obj'][j]))
    if len(gv) != n:
        out.append('%d variables in file, %d in formula' % (len(gv), n))
    cons = g.getConstrs()
    if len(cons) != S['A'].shape[0]:
        out.append('%d rows in file, %d in formula' % (len(cons), S['A'].shape[0]))
    else:
        for i, c in enumerate(cons):
            row = g.getRow(c)
            coef = np.zeros(n)
            for k in range(row.size()):
                nm = row.getVar(k).VarName
                if nm in names:
                    coef[names.index(nm)] += row.getCoeff(k)
            if not np.array_equal(coef, S['A'][i]) or c.RHS != S['b'][i] or (c.Sense == '=') != (S['sense'][i] == 1):
                out.append('row %d: %s %s %r formula %s %s %r' % (i + 1, coef.tolist(), c.Sense, c.RHS, S['A'][i].tolist(),
                                                                 '=' if S['sense'][i] == 1 else '<', S['b'][i]))
    if g.NumQConstrs != len(S['qmat']):
        out.append('%d quadratic rows in file, %d cones in formula' % (g.NumQConstrs, len(S['qmat'])))
    return out[:6]


def _direct(f, which):
    try:
        if which == 'grb':
            sol = _rs['grb'].solve(f, display=False, log=False, params={'Threads': 1})
            return {'status': sol.status, 'cls': _grb_class(sol.status),
                    'objval': float(sol.objval) if int(sol.status) == 2 else float('nan')}
        sol = _rs['lpmod'].def_sol(f, display=False)
        cls = _rs['prog'].status_class('def', sol.status)
        return {'status': sol.status, 'cls': cls if cls in ('opt', 'nonopt') else 'unclear', 'objval': float(sol.objval)}
    except Exception as ex:  # noqa
        return {'err': '%s: %s' % (type(ex).__name__, str(ex)[:120])}


def _file(case, f, nops):
    prog = _rs['prog']
    S = prog.snapshot(f)
    kind = prog.kind_of(S)
    sig = '%s|%s|to_lp' % (case['tag'], case['form'])
    rr = _read_and_solve(f, S)
    d = prog.snap_diff(S, prog.snapshot(f))
    if d:
        return {'status': 'violation', 'sig': sig + '|mutates:' + '+'.join(d), 'ops': nops + 1, 'detail': 'to_lp() changed %s' % d}
    dg = _direct(f, 'grb')
    nops += 3
    if 'err' in rr and 'err' in dg:
        return {'status': 'vacuous', 'outcome': 'both sides raise', 'ops': nops}
    if 'err' in rr:
        return {'status': 'violation', 'sig': sig + '|file-unreadable', 'ops': nops,
                'detail': '%s ; direct solve: %s | %s' % (rr['err'], dg, rr.get('text', ''))}
    if 'err' in dg:
        return {'status': 'vacuous', 'outcome': 'direct grb solve raised', 'ops': nops, 'detail': dg['err']}
    diag = 'entries equal' if not rr['diag'] else 'entries differ'
    ddetail = '; '.join(rr['diag'])
    if 'unclear' in (rr['cls'], dg['cls']):
        return {'status': 'vacuous', 'outcome': '%s: unclear Gurobi status %s/%s' % (kind, rr['status'], dg['status']), 'ops': nops}
    tol = 1e-6 if kind in ('LP', 'MILP') else 1e-4
    if rr['cls'] != dg['cls']:
        return {'status': 'violation', 'sig': sig + '|status:file-%s-vs-direct-%s' % (rr['cls'], dg['cls']), 'ops': nops,
                'detail': 're-read file: Gurobi status %s; direct grb_solver: %s (objval %r) | diag: %s' % (
                    rr['status'], dg['status'], dg['objval'], ddetail)}
    if rr['cls'] == 'opt' and abs(rr['objval'] - dg['objval']) > tol * (1 + abs(dg['objval'])):
        return {'status': 'violation', 'sig': sig + '|optimum', 'ops': nops,
                'detail': 're-read file optimum %r, direct grb_solver %r | diag: %s' % (rr['objval'], dg['objval'], ddetail)}
    # second direct solve through the default solver (linear, well-scaled formulas)
    second = ''
    nz = np.abs(np.concatenate([S['A'].ravel(), S['obj']]))
    nz = nz[nz > 0]
    well_scaled = nz.size == 0 or nz.max() / nz.min() <= 1e6
    if kind in ('LP', 'MILP') and well_scaled:
        dd = _direct(f, 'def')
        nops += 1
        if 'err' not in dd and dd['cls'] in ('opt', 'nonopt'):
            if dd['cls'] != rr['cls']:
                return {'status': 'violation', 'sig': sig + '|status:file-%s-vs-default-%s' % (rr['cls'], dd['cls']), 'ops': nops,
                        'detail': 're-read file: Gurobi status %s; def_sol status %s | diag: %s' % (rr['status'], dd['status'], ddetail)}
            if rr['cls'] == 'opt' and abs(rr['objval'] - dd['objval']) > 1e-6 * (1 + abs(dd['objval'])):
                return {'status': 'violation', 'sig': sig + '|optimum-vs-default', 'ops': nops,
                        'detail': 're-read file optimum %r, def_sol %r | diag: %s' % (rr['objval'], dd['objval'], ddetail)}
            second = '+default'
    res = {'status': 'pass', 'outcome': '%s file %s = direct grb%s (%s)' % (kind, rr['cls'], second, diag),
           'nontrivial': True, 'ops': nops, 'validated': 1}
    if rr['diag']:
        res['detail'] = ddetail[:400]
    return res
