"""C11 - all solver interfaces solve the same program and agree.

State space (product bounds, exhaustive; see RULE): compiled programs built through the rsome API from four grammars
    LP    n<=3, row blocks of every sense mix, bound kinds {free, 0-lower, 0-upper, box, finite lower, finite upper,
          fixed} given as Bounds objects (whole / slice / array valued with explicit +-inf) or as rows; variants:
          feasible-by-construction, empty rows (0*x <= -1 in two spellings, 0*x <= 1, 0*x == 1), contradicting rows,
          crossed Bounds; min/max in several directions (free variables make unbounded instances)
    MILP  vtype strings 'B','I','BC','IB','CIB',... with user bounds on binaries tighter / looser than [0,1]
          (b<=0, b>=1, -1<=b<=3, b>=0.5, b<=0.5, b>=2, b<=-1) and on integers (box, fractional, none, fixed,
          integer-free interval), and on the continuous entries of mixed strings (fractional lower / upper /
          both / negative fractional, four objective directions), as Bounds / rows / arrays; <=, >=, == coupling row
    SOCP  norm (both spellings), square, sumsqr, rsocone, convex objective; feasible / infeasible / unbounded;
          continuous and mixed-integer
    EXP   exp, log, entropy, kldiv with closed-form optima; infeasible / unbounded variants
x case kinds
    solo  one interface of {default m.solve(), ort_solver, eco_solver, grb_solver} that supports the cone types,
          display=False, log in {False, True}
    pair  the *same model object* solved by interface I1 and then I2 (all ordered pairs; (I,I) when only one exists)
    hist  solve HISTORIES across interfaces inside one (long-lived) process, two DIFFERENT models P and Q:
              s0 P.solve(I2) ; s1 Q.solve(I1, params=p) ; s2 new-P.solve(I2) ; s3 Q.solve(I1) ; s4 P.solve(I2)
          for every ordered pair (I1, I2) of the four interfaces (ECOS only with <= 3 integer variables),
          P in {K12: 12-binary two-row knapsack, I5: five integers in {0..3}, K3, LP4: box-bounded LP},
          Q in {K10, K3, LP4} (other palette than P), p in a table of termination / tolerance parameter sets
          (MIPGap, SolutionLimit, Cutoff, MIPGapAbs, BestObjStop, TimeLimit, NodeLimit+Heuristics,
          MIPGap+SolutionLimit; thorough adds IterationLimit, WorkLimit, BestBdStop, IntFeasTol+FeasibilityTol,
          Presolve+Method and the front-end pairs lp/ro, ro/lp); interfaces that ignore params get three of them
          (the first eight in the thorough tier).  Only the call s1 passes parameters.

Oracle.
    reference for LP/MILP: SciPy-HiGHS called directly on a snapshot of the compiled program, binaries read as
    {0,1} intersected with the user's bounds (rsmc/ref/c11c14c16_prog.ref_solve); for SOCP: the other conic
    interface (ECOS <-> Gurobi) and the closed form where the spec has one; for EXP: closed form.
    solo: (1) no fabricated solution: a status that says infeasible/unbounded must come with solution.x None,
          objval NaN and RuntimeError from model.get() / x.get(), and objval NaN <=> x None;
          (2) same status class (optimal / no optimum) as the reference; (3) optimal values agree within tolerance;
          (4) the returned vector satisfies the compiled program (rows+senses, bounds, integrality, binary domain,
          SOC and exponential cones) by the residual checker; (5) model.get() = sign*objval, x.get() = slice of x.
    pair: deep snapshot of every field of m.do_math() equal before/after each solve (signed zeros identified);
          I2's answer on the shared object equals I2's answer on a fresh object.
    hist: every parameter-free call (s0, s2, s3, s4) must be the exact answer - status optimal, value equal to
          the optimum by COMPLETE ENUMERATION of the integer box (cross-checked with HiGHS on the snapshot; HiGHS alone
          for the LP), vector feasible for the compiled program; an exception in s2/s4 that s0 does not raise is a
          disagreement; both compiled programs unchanged.  The call with parameters (s1) must be admissible (vector
          feasible, not better than the optimum, status optimal only inside the MIPGap/MIPGapAbs it was given) and,
          for Gurobi, must report the status that Gurobi itself reports for the same program with these parameters
          set on the model in a fresh gurobipy environment (= the parameters are in force for the call they were
          given to).  Measured per case: whether the parameters change Gurobi's answer on Q and whether they would
          change it on P (i.e. a leak would be visible): a case is non-trivial only if one of the two holds.  The
          harness itself sets parameters only on its own gurobipy models in its own environment, never globally.
Exceptions raised by solve(), limits and 'inaccurate' statuses make a case vacuous (C11 is conditional).

Interface support table used by the generator (everything else is enumerated for all four interfaces):
    default, ort   LP / MILP only (they warn and ignore cones)
    grb            LP / MILP / SOCP / MISOCP
    eco            everything, but (i) ECOS_BB only with <= 3 integer variables, (ii) not on programs whose equality
                   matrix has an empty row (ECOS' C set-up fails, loudly, with RuntimeError), (iii) on models that mix
                   binary and general-integer variables only on a 4-spec sub-grammar: ECOS_BB is broken there (known
                   finding) and mostly does not terminate, every such case would only burn the watchdog.
Signatures:  <family>|<front end>|<input class>|<interface>|<failed check>   e.g.
    MILP|ro|vt=CB|B:half-dn|I:-|bounds-as:B|def|objval        LP|ro|empty-neg-sum|bounds-as:R|ort|residual:lerow
    MILP|ro|vt=B|B:none|I:-|bounds-as:B|pair|mutates:def:ub+lb    SOCP|ro|norm|feas-row|vt=C|eco>grb|order-dependent
    HIST|P=K12/ro|Q=K10/ro|grb:MIPGap=0.5>grb|parameter-free-solve-wrong    HIST|..|grb:SolutionLimit=1>def|params-call:status-differs-from-engine
"""
import itertools
import zlib
import numpy as np

PROPERTY = 'C11'
TIMEOUT = 10.0
CHUNK = 8
FLOOR = 0.5
RULE = ('every spec of the LP / MILP / SOCP / EXP grammars (module docstring) x every supporting interface x '
        'log flag (solo) and x every ordered interface pair on one model object (pair); plus call histories (hist): '
        'second model P x first model Q x (first interface, parameter set) x second interface, five solves per case of '
        'which only the second passes params, every parameter-free solve compared with complete enumeration / HiGHS and '
        'the call with parameters compared with Gurobi itself under these parameters (non-trivial when the parameters '
        'measurably change the answer on Q or would change it on P); a solo/pair case is non-trivial when '
        'the reference (or peer interface) and the interface under test both reached a definite verdict and either '
        'both are optimal with the returned vector checked against all rows, bounds, integrality and cones, or both '
        'report no optimum and the no-solution protocol was exercised; distinct = distinct spec x kind x interface')
ASSUMPTIONS = [
    'binary variables mean {0,1} intersected with the user bounds (statement: "arbitrary user bounds on them")',
    'status classes: optimal vs no-optimum (infeasible / unbounded are not distinguished: solvers legitimately differ)',
    'tolerances: objective 1e-6(1+|v|) simplex-type, 1e-5 ECOS, 1e-4 Gurobi barrier; residuals 1e-6 / 1e-5; integrality 1e-4',
    'rows with infinite right-hand side are outside the grammar (SciPy rejects them loudly, ECOS needs finite h)',
    'an exception raised by solve() is loud, hence vacuous, never a violation',
    'ECOS_BB only with <= 3 integer variables',
    'hist: solver parameters are per call; the interfaces other than Gurobi accept a params dict and ignore it',
    'hist: Gurobi is deterministic: same program + same parameters on the model => same termination status',
]
TRUSTED = ['CPython', 'NumPy', 'SciPy-HiGHS linprog/milp as reference LP/MILP solver', 'closed forms of exp/log/entropy/KL',
           'ECOS, Gurobi, OR-tools (GLOP/SCIP) as the engines behind the interfaces', 'residual checker (70 lines)',
           'complete enumeration of <= 4096 integer points (hist)', 'gurobipy called directly in a fresh Env (hist, status of the call with parameters)']

IFACES = ['def', 'ort', 'eco', 'grb']

# ------------------------------------------------------------------------------------------------
# LP grammar
BK = {   # bound kind -> (lb, ub, interior point)
    'free': (None, None, 0.25), 'L0': (0.0, None, 0.5), 'U0': (None, 0.0, -0.5), 'box': (-1.0, 2.0, 0.5),
    'Lf': (-1.5, None, 0.25), 'Uf': (None, 1.5, 0.25), 'fix': (0.75, 0.75, 0.75),
}
BKL = list(BK)
PAL = [
    [1.0, -1.0, 0.5, 2.0, -0.5, 1.5, -2.0, 0.25],
    [-1.0, 0.5, 1.0, -2.0, 1.5, -0.5, 0.25, 2.0],
    [2.0, 1.0, -0.5, -1.0, 0.25, -1.5, 1.0, 0.5],
    [0.5, -2.0, 1.5, 1.0, -1.0, 2.0, -0.25, -0.5],
]
OBJ = {
    1: [[1.0], [-0.5]],
    2: [[1.0, 0.5], [-1.0, 0.5], [0.5, -1.0], [-0.5, -1.0]],
    3: [[1.0, 0.5, -0.25], [-1.0, 0.5, 0.25], [0.5, -1.0, 1.0], [-0.5, -1.0, -1.0]],
}


def _bound_items(kinds, style):
    """kinds: list of bound-kind names per variable.  style: 'B' slice/whole Bounds, 'R' rows, 'A' array-valued whole Bounds."""
    return _mk_bounds([BK[k][0] for k in kinds], [BK[k][1] for k in kinds], style)


def _rows(blocks, n, xs, pal, salt=0):
    P = PAL[pal]
    items = []
    for bi, (k, s) in enumerate(blocks):
        A = [[P[(3 * bi + 5 * r + 2 * j + bi * r + salt) % len(P)] for j in range(n)] for r in range(k)]
        v = np.array(A) @ np.array(xs)
        slack = 0.5 + 0.5 * (bi % 2)
        b = v + slack if s == '<=' else v - slack if s == '>=' else v
        items.append(['row', A, s, [float(t) for t in b], 'mat'])
    return items


LP_VARIANTS = ['base', 'empty-neg-mat', 'empty-neg-sum', 'empty-pos', 'empty-eq0', 'empty-eq1', 'contra-rows', 'crossed-bounds']


def _variant_items(var, n):
    z = [[0.0] * n]
    if var == 'base':
        return []
    if var == 'empty-neg-mat':
        return [['row', z, '<=', [-1.0], 'mat']]
    if var == 'empty-neg-sum':
        return [['row', z, '<=', [-1.0], 'sum']]
    if var == 'empty-pos':
        return [['row', z, '<=', [1.0], 'sum']]
    if var == 'empty-eq0':
        return [['row', z, '==', [0.0], 'mat']]
    if var == 'empty-eq1':
        return [['row', z, '==', [1.0], 'sum']]
    e0 = [[1.0] + [0.0] * (n - 1)]
    if var == 'contra-rows':
        return [['row', e0, '<=', [-5.0], 'mat'], ['row', e0, '>=', [5.0], 'mat']]
    if var == 'crossed-bounds':
        return [['bnd', 'L', [0, 1], 5.0, 'B'], ['bnd', 'U', [0, 1], -5.0, 'B']]
    raise ValueError(var)


def _lp_specs(thorough, pal):
    """-> (spec, want_pairs) in deterministic order."""
    bcfg = []
    for B in (1, 2, 3) if thorough else (1, 2):
        for senses in itertools.product(['<=', '>=', '=='], repeat=B):
            for ks in ([(1,) * B, (2,) + (1,) * (B - 1)] if B > 1 else [(1,), (2,)]):
                bcfg.append(list(zip(ks, senses)))
    # part A: row structure x variant, bounds pattern rotating
    # `cnt` rotates the bound pattern / style / objective; it is a function of the position in the *full* grammar so
    # that the quick tier is a subset of the thorough one
    for n in (1, 2, 3):
        for bi, blocks in enumerate(bcfg):
            for vi, var in enumerate(LP_VARIANTS):
                cnt = 1000 * n + len(LP_VARIANTS) * bi + vi
                kinds = [BKL[(cnt + 3 * j) % len(BKL)] for j in range(n)]
                style = 'BRA'[cnt % 3]
                xs = [BK[k][2] for k in kinds]
                items = _bound_items(kinds, style) + _rows(blocks, n, xs, pal) + _variant_items(var, n)
                if cnt % 2:
                    items = items[::-1]          # bounds after the rows
                for oi, (d, c) in enumerate((('min', OBJ[n][cnt % len(OBJ[n])]), ('max', OBJ[n][(cnt + 1) % len(OBJ[n])]))):
                    for fe in ((('ro', 'lp', 'dro') if len(blocks) < 3 else ('ro',)) if thorough
                               else ('ro',) if cnt % 4 else ('ro', 'lp')):
                        if fe == 'dro' and style == 'A':
                            continue    # dro turns array-valued bounds into rows: +-inf entries would become rows
                            #             with an infinite right-hand side, which is outside the grammar
                        spec = {'fe': fe, 'n': n, 'vt': 'C', 'items': items, 'obj': [d, c],
                                'cls': 'LP|%s|rows:%s|%s|%s' % (fe, '+'.join('%d%s' % b for b in blocks), var,
                                                                'bnd:%s/%s' % (','.join(kinds), style)),
                                'sig': 'LP|%s|%s|bounds-as:%s' % (fe, var, style)}
                        yield spec, (oi == 0 and fe == 'ro' and var in ('base', 'empty-neg-mat', 'empty-eq0'))
    # part B: every bound pattern x style, two fixed row structures
    for n in (1, 2, 3):
        pats = [[k] * n for k in BKL]
        if n > 1:
            pats += [[BKL[(a + 2 * j) % len(BKL)] for j in range(n)] for a in range(len(BKL))]
        if thorough and n == 2:
            pats = [list(p) for p in itertools.product(BKL, repeat=2)]
        for kinds in pats:
            xs = [BK[k][2] for k in kinds]
            for style in 'BRA':
                for bi, blocks in enumerate(([(1, '<=')], [(1, '=='), (1, '>=')])):
                    items = _bound_items(kinds, style) + _rows(blocks, n, xs, pal, salt=1)
                    for oi, c in enumerate(OBJ[n]):
                        for d in ('min', 'max'):
                            if not thorough and (oi + (d == 'max')) % 2:
                                continue
                            spec = {'fe': 'ro', 'n': n, 'vt': 'C', 'items': items, 'obj': [d, c],
                                    'cls': 'LP|ro|rows:%s|base|bnd:%s/%s' % ('+'.join('%d%s' % b for b in blocks),
                                                                            ','.join(kinds), style),
                                    'sig': 'LP|ro|base|bounds-as:%s' % style}
                            yield spec, (oi == 0 and d == 'min')


# ------------------------------------------------------------------------------------------------
# MILP grammar
BKIND = {   # user bounds on binaries
    'none': (None, None), 'le0': (None, 0.0), 'ge1': (1.0, None), 'wide': (-1.0, 3.0), 'half-up': (0.5, None),
    'half-dn': (None, 0.5), 'out': (2.0, None), 'neg': (None, -1.0), 'unit': (0.0, 1.0),
}
IKIND = {   # user bounds on integers
    'box': (-1.0, 2.0), 'frac': (-1.5, 2.5), 'none': (None, None), 'L0': (0.0, None), 'fix': (1.0, 1.0),
    'nofit': (0.25, 0.75),
}
CBOX = (-1.0, 2.0)
CKIND = {   # user bounds on the continuous entries of a mixed-integer model (the B/I entries keep none / [-1,2])
    'fracL': (0.5, 2.0), 'fracU': (-1.0, 1.5), 'fracLU': (0.25, 1.75), 'negfrac': (-1.5, -0.25),
}
VTS_Q = ['B', 'I', 'BC', 'CB', 'IB', 'CIB', 'BIC', 'BBI']
VTS_T = VTS_Q + ['IC', 'BI', 'IIB', 'BCI', 'CBB', 'ICI']


def _milp_specs(thorough, pal):
    vts = VTS_T if thorough else VTS_Q
    for vt in vts:
        for n in ((1, 2, 3) if len(vt) == 1 else (len(vt),)):
            types = list(vt) * n if len(vt) == 1 else list(vt)
            hasB, hasI = 'B' in types, 'I' in types
            combos = []
            if hasB:
                combos += [(bk, 'box') for bk in BKIND]
            if hasI:
                combos += [(bk, ik) for ik in IKIND if ik != 'box' or not hasB for bk in (('none', 'wide') if hasB else ('none',))]
            for bk, ik in combos:
                lbs, ubs = [], []
                for t in types:
                    lo, up = BKIND[bk] if t == 'B' else IKIND[ik] if t == 'I' else CBOX
                    lbs.append(lo)
                    ubs.append(up)
                for style, sense in (('B', '<='), ('R', '<='), ('A', '<='), ('B', '>='), ('B', '==')):
                    if not thorough and len(vt) == 1 and n == 3 and style != 'B':
                        continue
                    bitems = _mk_bounds(lbs, ubs, style)
                    # coupling row with a fractional right-hand side: integrality matters
                    P = PAL[pal]
                    a = [[abs(P[(2 * j + len(vt)) % len(P)]) for j in range(n)]]
                    # '==': reachable by x = e_0 when the bounds allow it (ECOS_BB does not terminate on
                    # integer-infeasible equalities whose relaxation is feasible: such cases only burn the watchdog)
                    rhs = {'<=': [1.75], '>=': [0.75], '==': [a[0][0]]}[sense]
                    items = bitems + [['row', a, sense, rhs, 'mat']]
                    for oi, (d, c) in enumerate((('max', [1.0, 0.5, 0.75][:n]), ('min', [1.0, -0.5, 0.25][:n]))):
                        for fe in (('ro', 'lp') if thorough and style == 'B' and sense == '<=' else ('ro',)):
                            spec = {'fe': fe, 'n': n, 'vt': vt, 'items': items, 'obj': [d, c],
                                    'cls': 'MILP|%s|vt=%s/n%d|B:%s|I:%s|%s|row%s' % (fe, vt, n, bk if hasB else '-',
                                                                                  ik if hasI else '-', style, sense),
                                    'sig': 'MILP|%s|vt=%s|B:%s|I:%s|bounds-as:%s' % (fe, vt, bk if hasB else '-',
                                                                                   ik if hasI else '-', style)}
                            if hasB and hasI:
                                # ECOS_BB given bool_vars_idx *and* int_vars_idx is broken upstream (binaries leave
                                # {0,1}, wrong optima, frequent non-termination): a known finding.  It is exercised on
                                # a small sub-grammar only, the rest would just burn the watchdog.
                                lim = (vt in ('IB', 'CIB') and style == 'B' and sense == '<=' and fe == 'ro' and
                                       (bk, ik) in (('none', 'box'), ('wide', 'box'), ('le0', 'box'), ('none', 'frac')))
                                spec['eco'] = 'limited' if lim else 'none'
                            yield spec, (style == 'B' and sense == '<=' and oi == 0 and fe == 'ro')
    # bound objects on the CONTINUOUS columns of mixed vtype strings: fractional lower / upper / both / negative
    # fractional, with objective directions that drive each continuous entry to either bound
    for vt in [v for v in vts if 'C' in v]:
        n = len(vt)
        types = list(vt)
        hasB, hasI = 'B' in types, 'I' in types
        for ck, (clo, cup) in CKIND.items():
            lbs = [clo if t == 'C' else (None if t == 'B' else -1.0) for t in types]
            ubs = [cup if t == 'C' else (None if t == 'B' else 2.0) for t in types]
            for style, sense in (('B', '<='), ('R', '<='), ('A', '<='), ('B', '>=')):
                P = PAL[pal]
                a = [[abs(P[(2 * j + len(vt)) % len(P)]) for j in range(n)]]
                rhs = {'<=': [1.75], '>=': [-0.75]}[sense]
                items = _mk_bounds(lbs, ubs, style) + [['row', a, sense, rhs, 'mat']]
                for oi, (d, c) in enumerate((('min', [1.0, -0.5, 0.25]), ('max', [1.0, 0.5, 0.75]),
                                             ('min', [-0.5, 1.0, -1.0]), ('max', [-1.0, -0.5, -0.25]))):
                    spec = {'fe': 'ro', 'n': n, 'vt': vt, 'items': items, 'obj': [d, c[:n]],
                            'cls': 'MILP|ro|vt=%s/n%d|B:%s|I:%s|C:%s|%s|row%s' % (vt, n, 'none' if hasB else '-',
                                                                                'box' if hasI else '-', ck, style, sense),
                            'sig': 'MILP|ro|vt=%s|B:%s|I:%s|C:%s|bounds-as:%s' % (vt, 'none' if hasB else '-',
                                                                                'box' if hasI else '-', ck, style)}
                    if hasB and hasI:
                        spec['eco'] = 'none'
                    yield spec, (style == 'B' and sense == '<=' and oi == 0)


def _mk_bounds(lbs, ubs, style):
    items = []
    if style == 'A':
        if any(v is not None for v in lbs):
            items.append(['bnd', 'L', None, [('-inf' if v is None else v) for v in lbs], 'A'])
        if any(v is not None for v in ubs):
            items.append(['bnd', 'U', None, [('inf' if v is None else v) for v in ubs], 'A'])
        return items
    for which, vals in (('L', lbs), ('U', ubs)):
        if all(v is not None and v == vals[0] for v in vals):
            items.append(['bnd', which, None, vals[0], style])
            continue
        for j, v in enumerate(vals):
            if v is not None:
                items.append(['bnd', which, [j, j + 1], v, style])
    return items


# ------------------------------------------------------------------------------------------------
# SOCP grammar (x[0] is the epigraph variable)
def _socp_specs(thorough, pal):
    s = [1.0, 2.0, 0.5, 1.5][pal]
    Es = [[0.0, s, 0.0], [0.0, 0.0, 1.0]]
    e0 = [1.0, 0.0, 0.0]
    cones = {
        'norm': ['soc', 'norm', Es, [0.0, 0.0], e0, 0.0],
        'norm_r': ['soc', 'norm_r', Es, [0.5, 0.0], e0, 0.0],
        'norm-affine': ['soc', 'norm', [[0.0, s, 1.0], [0.0, -1.0, 1.0]], [0.0, 0.5], [1.0, 0.0, 0.5], 1.0],
        'square': ['soc', 'square', Es, [0.0, 0.0], [e0, e0], [0.0, 0.0]],
        'sumsqr': ['soc', 'sumsqr', Es, [0.0, 0.0], e0, 0.0],
        'rsocone': ['soc', 'rsocone', [[0.0, 0.0, 1.0]], [0.0], e0, 0.0, [0.0, s, 0.0], 0.0],
    }
    for cname, cone in cones.items():
        for var in ('feas-row', 'feas-eq', 'feas-bnd', 'infeasible', 'unbounded', 'objcone'):
            for vt in ('C', 'CIC', 'CCB') + (('CII',) if thorough else ()):
                if var == 'objcone' and cname not in ('norm', 'sumsqr'):
                    continue
                if var == 'unbounded' and vt != 'C':
                    continue        # branch and bound on an unbounded mixed-integer SOCP need not terminate (any solver)
                items = [cone]
                obj = ['min', [1.0, 0.0, 0.0]]
                if cname == 'rsocone':
                    items.append(['bnd', 'U', [1, 2], 2.0, 'B'])      # sumsqr(x2) <= x0 * (s*x1), x1 <= 2
                    obj = ['min', [1.0, 0.5, 0.0]]
                if var == 'feas-row':
                    items.append(['row', [[0.0, 1.0, 1.0]], '>=', [1.5], 'mat'])
                elif var == 'feas-eq':
                    items += [['row', [[0.0, 1.0, 1.0]], '>=', [1.5], 'mat'], ['row', [[0.0, 1.0, -1.0]], '==', [0.5], 'mat']]
                elif var == 'feas-bnd':
                    items += [['bnd', 'L', [1, 3], 0.75, 'B'], ['bnd', 'U', [0, 1], 8.0, 'B']]
                elif var == 'infeasible':
                    items += [['row', [[0.0, 1.0, 1.0]], '>=', [1.5], 'mat'], ['bnd', 'U', [0, 1], -0.5, 'B']]
                    if cname == 'norm-affine':
                        items[-1] = ['bnd', 'U', [0, 1], -8.0, 'B']
                elif var == 'unbounded':
                    items.append(['row', [[0.0, 1.0, 1.0]], '>=', [1.5], 'mat'])
                    obj = ['max', [1.0, 0.0, 0.0]]
                elif var == 'objcone':
                    items = [['row', [[0.0, 1.0, 1.0]], '>=', [1.5], 'mat'], ['row', [[1.0, 0.0, 0.0]], '==', [0.25], 'mat']]
                    obj = ['min', 'cvx', cname, Es, [0.0, 0.0], [0.5, 0.0, 0.0]]
                spec = {'fe': 'ro', 'n': 3, 'vt': vt, 'items': items, 'obj': obj,
                        'cls': 'SOCP|ro|%s|%s|vt=%s' % (cname, var, vt)}
                spec['sig'] = spec['cls']
                yield spec, True
                if thorough:
                    c2 = spec['cls'].replace('|ro|', '|dro|')
                    yield dict(spec, fe='dro', cls=c2, sig=c2), False


# ------------------------------------------------------------------------------------------------
# EXP grammar with closed-form optima (user sense)
def _kl_min_p(phat, r):
    """min p0 s.t. KL((p0,1-p0) || phat) <= r : bisection on the convex function."""
    q0, q1 = phat

    def kl(p):
        return p * np.log(p / q0) + (1 - p) * np.log((1 - p) / q1)
    lo, hi = 1e-12, q0
    for _ in range(200):
        mid = 0.5 * (lo + hi)
        if kl(mid) > r:
            lo = mid
        else:
            hi = mid
    return 0.5 * (lo + hi)


def _exp_specs(thorough, pal):
    a = [0.5, -0.5, 1.0, 0.25][pal]
    u = [2.0, 1.5, 3.0, 0.5][pal]
    out = []
    # exp: min x0 s.t. exp(x1) <= x0, x1 pinned / bounded below
    out.append(('exp|pinned', 2, [['exp', 'exp', [0.0, 1.0], 0.0, [1.0, 0.0], 0.0], ['row', [[0.0, 1.0]], '==', [a], 'mat']],
                ['min', [1.0, 0.0]], float(np.exp(a))))
    out.append(('exp|lower-bound', 2, [['exp', 'exp', [0.0, 1.0], 0.0, [1.0, 0.0], 0.0], ['bnd', 'L', [1, 2], a, 'B']],
                ['min', [1.0, 0.0]], float(np.exp(a))))
    out.append(('exp|scaled', 2, [['exp', 'exp', [0.0, 2.0], 0.5, [0.5, 0.0], 1.0], ['row', [[0.0, 1.0]], '>=', [a], 'mat']],
                ['min', [1.0, 0.0]], float(2 * (np.exp(2 * a + 0.5) - 1.0))))
    out.append(('exp|objective', 2, [['row', [[0.0, 1.0]], '==', [a], 'mat'], ['row', [[1.0, 0.0]], '==', [0.0], 'mat']],
                ['min', 'cvx', 'exp', [0.0, 1.0], 0.0], float(np.exp(a))))
    out.append(('exp|infeasible', 2, [['exp', 'exp', [0.0, 1.0], 0.0, [1.0, 0.0], 0.0], ['bnd', 'U', [0, 1], -1.0, 'B']],
                ['min', [1.0, 0.0]], None))
    out.append(('exp|unbounded', 2, [['exp', 'exp', [0.0, 1.0], 0.0, [1.0, 0.0], 0.0], ['bnd', 'L', [1, 2], a, 'B']],
                ['max', [1.0, 0.0]], None))
    # log: max x0 s.t. log(x1) >= x0, x1 <= u
    out.append(('log|upper-bound', 2, [['exp', 'log', [0.0, 1.0], 0.0, [1.0, 0.0], 0.0], ['bnd', 'U', [1, 2], u, 'B']],
                ['max', [1.0, 0.0]], float(np.log(u))))
    out.append(('log|row', 2, [['exp', 'log', [0.0, 1.0], 0.0, [1.0, 0.0], 0.0], ['row', [[0.0, 1.0]], '<=', [u], 'mat']],
                ['max', [1.0, 0.0]], float(np.log(u))))
    out.append(('log|objective', 2, [['row', [[0.0, 1.0]], '==', [u], 'mat'], ['row', [[1.0, 0.0]], '==', [0.0], 'mat']],
                ['max', 'cvx', 'log', [0.0, 1.0], 0.0], float(np.log(u))))
    out.append(('log|infeasible', 2, [['exp', 'log', [0.0, 1.0], 0.0, [1.0, 0.0], 0.0], ['bnd', 'U', [1, 2], -1.0, 'B']],
                ['max', [1.0, 0.0]], None))
    out.append(('log|unbounded', 2, [['exp', 'log', [0.0, 1.0], 0.0, [1.0, 0.0], 0.0], ['bnd', 'U', [1, 2], u, 'B']],
                ['min', [1.0, 0.0]], None))
    # entropy: max x0 s.t. entropy(x1,x2) >= x0, x1+x2 == 1  -> log 2 ; with x1 pinned -> H(p)
    E = [[0.0, 1.0, 0.0], [0.0, 0.0, 1.0]]
    p = [0.25, 0.5, 0.125, 0.75][pal]
    out.append(('entropy|simplex', 3, [['exp', 'entropy', E, [0.0, 0.0], [1.0, 0.0, 0.0], 0.0],
                                       ['row', [[0.0, 1.0, 1.0]], '==', [1.0], 'mat']], ['max', [1.0, 0.0, 0.0]], float(np.log(2.0))))
    out.append(('entropy|pinned', 3, [['exp', 'entropy', E, [0.0, 0.0], [1.0, 0.0, 0.0], 0.0],
                                      ['row', [[0.0, 1.0, 1.0]], '==', [1.0], 'mat'], ['row', [[0.0, 1.0, 0.0]], '==', [p], 'mat']],
                ['max', [1.0, 0.0, 0.0]], float(-p * np.log(p) - (1 - p) * np.log(1 - p))))
    out.append(('entropy|objective', 3, [['row', [[0.0, 1.0, 1.0]], '==', [1.0], 'mat'], ['row', [[1.0, 0.0, 0.0]], '==', [0.0], 'mat'],
                                         ['row', [[0.0, 1.0, 0.0]], '<=', [p], 'mat']],
                ['max', 'cvx', 'entropy', E, [0.0, 0.0]],
                float(-min(p, 0.5) * np.log(min(p, 0.5)) - (1 - min(p, 0.5)) * np.log(1 - min(p, 0.5)))))
    out.append(('entropy|infeasible', 3, [['exp', 'entropy', E, [0.0, 0.0], [1.0, 0.0, 0.0], 0.0],
                                          ['row', [[0.0, 1.0, 1.0]], '==', [1.0], 'mat'], ['bnd', 'L', [0, 1], 1.0, 'B']],
                ['max', [1.0, 0.0, 0.0]], None))
    out.append(('entropy|unbounded', 3, [['exp', 'entropy', E, [0.0, 0.0], [1.0, 0.0, 0.0], 0.0],
                                         ['row', [[0.0, 1.0, 1.0]], '==', [1.0], 'mat']], ['min', [1.0, 0.0, 0.0]], None))
    # kldiv: min x1 s.t. KL(x[1:3] || phat) <= r, x1+x2 == 1
    phat = [[0.5, 0.5], [0.25, 0.75], [0.75, 0.25], [0.5, 0.5]][pal]
    r = [0.1, 0.05, 0.2, 0.02][pal]
    out.append(('kldiv|ball', 3, [['exp', 'kldiv', [1, 3], phat, r], ['row', [[0.0, 1.0, 1.0]], '==', [1.0], 'mat'],
                                  ['row', [[1.0, -1.0, 0.0]], '==', [0.0], 'mat']], ['min', [1.0, 0.0, 0.0]],
                float(_kl_min_p(phat, r))))
    out.append(('kldiv|infeasible', 3, [['exp', 'kldiv', [1, 3], phat, r], ['row', [[0.0, 1.0, 1.0]], '==', [1.0], 'mat'],
                                        ['bnd', 'U', [1, 2], 0.01, 'B']], ['min', [1.0, 0.0, 0.0]], None))
    for name, n, items, obj, val in out:
        for vt in ('C', 'CI' if n == 2 else 'CCB') if thorough else ('C',):
            if vt != 'C' and ('pinned' in name or 'objective' in name or 'kldiv' in name or 'scaled' in name):
                continue
            fes = ('ro', 'dro') if thorough else ('ro',)
            for fe in fes:
                spec = {'fe': fe, 'n': n, 'vt': vt, 'items': items, 'obj': obj,
                        'cls': 'EXP|%s|%s|vt=%s' % (fe, name, vt), 'sig': 'EXP|%s|%s|vt=%s' % (fe, name, vt)}
                if vt == 'C':
                    spec['expect'] = ['nonopt'] if val is None else ['opt', val]
                elif val is None:
                    spec['expect'] = ['nonopt']
                yield spec, True


# ------------------------------------------------------------------------------------------------
# HIST family: solve histories across interfaces inside one process.  A call that passes solver parameters
# (termination / tolerance settings) on one model is followed by parameter-free calls on ANOTHER model.
HPARAMS = {     # name -> params dict handed to solve(..., params=...); Gurobi names (the only interface that reads them)
    'MIPGap=0.5': {'MIPGap': 0.5},
    'SolutionLimit=1': {'SolutionLimit': 1},
    'Cutoff=-1e6': {'Cutoff': -1e6},
    'MIPGapAbs=1e3': {'MIPGapAbs': 1e3},
    'BestObjStop=1e6': {'BestObjStop': 1e6},
    'TimeLimit=0': {'TimeLimit': 0},
    'NodeLimit=0+Heuristics=0': {'NodeLimit': 0, 'Heuristics': 0},
    'MIPGap=1e-4+SolutionLimit=1': {'MIPGap': 1e-4, 'SolutionLimit': 1},
    # thorough only
    'IterationLimit=0': {'IterationLimit': 0},
    'WorkLimit=0': {'WorkLimit': 0},
    'BestBdStop=-1e6': {'BestBdStop': -1e6},
    'IntFeasTol=0.1+FeasibilityTol=1e-2': {'IntFeasTol': 0.1, 'FeasibilityTol': 1e-2},
    'Presolve=0+Method=0': {'Presolve': 0, 'Method': 0},
}
HP_QUICK = list(HPARAMS)[:8]
HP_OTHER_QUICK = ['MIPGap=0.5', 'SolutionLimit=1', 'Cutoff=-1e6']     # handed to the interfaces that ignore params
HP_MODELS_P = ['K12', 'I5', 'K3', 'LP4']       # second model (solved without parameters)
HP_MODELS_Q = ['K10', 'K3', 'LP4']             # first model (solved with parameters)


def _hist_model(name, pal, fe='ro'):
    """Deterministic small MILP / LP of the HIST family -> spec (JSON).  Integer data, optimum by enumeration."""
    if name[0] == 'K':          # two-row 0/1 knapsack, maximisation
        n = int(name[1:])
        w = [10 + (17 * j + 7 * pal) % 50 for j in range(n)]
        v = [w[j] + (7 * j + 3 * pal) % 20 - 5 for j in range(n)]
        w2 = [5 + (13 * j + 5 * pal) % 35 for j in range(n)]
        cap, cap2 = float(int(sum(w) * 0.45)), float(int(sum(w2) * 0.5))
        items = [['row', [[float(t) for t in w], [float(t) for t in w2]], '<=', [cap, cap2], 'mat']]
        spec = {'n': n, 'vt': 'B', 'items': items, 'obj': ['max', [float(t) for t in v]], 'dom': [0, 1]}
    elif name == 'I5':          # bounded general-integer two-row knapsack, x in {0..3}^5
        n = 5
        w = [3 + (5 * j + 2 * pal) % 7 for j in range(n)]
        v = [w[j] + (3 * j + pal) % 5 - 1 for j in range(n)]
        w2 = [2 + (4 * j + 3 * pal) % 6 for j in range(n)]
        cap, cap2 = float(int(3 * sum(w) * 0.45)) + 0.5, float(int(3 * sum(w2) * 0.5)) + 0.5
        items = [['bnd', 'L', None, 0.0, 'B'], ['bnd', 'U', None, 3.0, 'B'],
                 ['row', [[float(t) for t in w], [float(t) for t in w2]], '<=', [cap, cap2], 'mat']]
        spec = {'n': n, 'vt': 'I', 'items': items, 'obj': ['max', [float(t) for t in v]], 'dom': [0, 3]}
    elif name == 'LP4':         # box-bounded LP, maximisation, two rows
        n = 4
        a1 = [1.0 + ((3 * j + pal) % 4) * 0.5 for j in range(n)]
        a2 = [0.5 + ((5 * j + 2 * pal) % 3) * 0.75 for j in range(n)]
        c = [1.0 + ((2 * j + 3 * pal) % 5) * 0.25 for j in range(n)]
        items = [['bnd', 'L', None, 0.0, 'B'], ['bnd', 'U', None, 2.0, 'B'],
                 ['row', [a1, a2], '<=', [1.0 * sum(a1), 1.25 * sum(a2)], 'mat']]
        spec = {'n': n, 'vt': 'C', 'items': items, 'obj': ['max', c], 'dom': None}
    else:
        raise ValueError(name)
    spec.update(fe=fe, name=name, cls='HIST|%s|%s' % (fe, name), sig='HIST|%s|%s' % (fe, name))
    return spec


def _hist_cases(thorough, pal):
    pnames = list(HPARAMS) if thorough else HP_QUICK
    fes = [('ro', 'ro'), ('lp', 'ro'), ('ro', 'lp')] if thorough else [('ro', 'ro')]
    for fp, fq in fes:
        for pn in HP_MODELS_P:
            P = _hist_model(pn, pal, fp)
            for qn in HP_MODELS_Q:
                Q = _hist_model(qn, (pal + 1) % 4, fq)
                for i1 in ['grb', 'def', 'ort', 'eco']:
                    if i1 == 'eco' and _nint(Q) > 3:
                        continue
                    for i2 in ['grb', 'def', 'ort', 'eco']:
                        if i2 == 'eco' and _nint(P) > 3:
                            continue
                        for pname in (pnames if i1 == 'grb' else HP_QUICK if thorough else HP_OTHER_QUICK):
                            yield {'kind': 'hist', 'P': P, 'Q': Q, 'first': [i1, pname], 'second': i2}


# ------------------------------------------------------------------------------------------------
def _family(spec):
    return spec['cls'].split('|')[0]


def _nint(spec):
    vt = spec['vt']
    types = list(vt) * spec['n'] if len(vt) == 1 else list(vt)
    return sum(t != 'C' for t in types)


def _ifaces_for(spec):
    fam = _family(spec)
    ni = _nint(spec)
    if fam in ('LP', 'MILP'):
        if spec.get('eco') == 'none' or '|empty-eq' in spec['cls']:
            # ECOS cannot set up a problem whose equality matrix has an empty row (RuntimeError from its C setup,
            # occasionally not raised at all): outside what this interface supports
            return [i for i in IFACES if i != 'eco']
        return [i for i in IFACES if not (i == 'eco' and ni > 3)]
    if fam == 'SOCP':
        return [i for i in ('eco', 'grb') if not (i == 'eco' and ni > 3)]
    return ['eco']


def gen_cases(tier, seed):
    thorough = tier == 'thorough'
    pals = [0, 1, 2, 3] if thorough else [seed % 4]
    for pal in pals:
        for gen in (_lp_specs, _milp_specs, _socp_specs, _exp_specs):
            for spec, want_pairs in gen(thorough, pal):
                k = zlib.crc32((spec['cls'] + spec['obj'][0] + str(len(spec['obj']))).encode())     # structural, palette independent
                ifs = _ifaces_for(spec)
                for i in ifs:
                    yield {'kind': 'solo', 'spec': spec, 'iface': i, 'log': False}
                    if i == 'grb' or (thorough and k % 4 == 0) or (not thorough and k % 16 == 0):
                        yield {'kind': 'solo', 'spec': spec, 'iface': i, 'log': True}
                if want_pairs:
                    if len(ifs) == 1:
                        yield {'kind': 'pair', 'spec': spec, 'order': [ifs[0], ifs[0]]}
                    else:
                        for i1, i2 in itertools.permutations(ifs, 2):
                            if spec.get('eco') == 'limited' and 'eco' in (i1, i2) and 'grb' not in (i1, i2):
                                continue
                            yield {'kind': 'pair', 'spec': spec, 'order': [i1, i2]}
        for case in _hist_cases(thorough, pal):
            yield case


def bounds(tier):
    th = tier == 'thorough'
    return {'n_max': 3, 'lp_row_blocks_max': 3 if th else 2, 'lp_bound_kinds': len(BKL), 'lp_variants': LP_VARIANTS,
            'milp_vtype_strings': VTS_T if th else VTS_Q, 'milp_binary_bound_kinds': list(BKIND),
            'milp_integer_bound_kinds': list(IKIND), 'milp_continuous_bound_kinds': ['box'] + list(CKIND), 'palettes': 4 if th else 1,
            'interfaces': IFACES, 'front_ends': ['ro', 'lp', 'dro'] if th else ['ro', 'lp'],
            'ecos_bb_max_integer_vars': 3,
            'hist_params': list(HPARAMS) if th else HP_QUICK, 'hist_params_for_ignoring_interfaces': HP_QUICK if th else HP_OTHER_QUICK,
            'hist_second_models': HP_MODELS_P, 'hist_first_models': HP_MODELS_Q,
            'hist_front_end_pairs': ['ro/ro', 'lp/ro', 'ro/lp'] if th else ['ro/ro'],
            'hist_calls_per_case': 5, 'hist_interface_pairs': 'all 16 ordered (first, second), ECOS only with <= 3 integer variables'}


def exhaustive(tier):
    return True


# ------------------------------------------------------------------------------------------------
_rs = {}


def worker_init():
    from rsmc.ref import c11c14c16_build as bld, c11c14c16_prog as prog
    rs = bld.load()
    _rs.update(rs)
    _rs.update(bld=bld, prog=prog)


def _obj_tol(iface, kind):
    if iface == 'eco' and kind.startswith('MI'):
        return 1e-3       # ECOS_BB stops at its default gap (observed 1.2e-4 relative on a 2-variable MILP)
    if iface == 'eco':
        return 1e-5
    if iface == 'grb' and kind not in ('LP', 'MILP'):
        return 1e-4
    return 1e-6


def _res_tol(iface, kind):
    if iface == 'eco' or kind not in ('LP', 'MILP'):
        return 1e-5
    return 1e-6


def _solve(m, x, iface, log, params=None):
    """Solve and read everything the property observes.  -> dict (never raises for rsome-side failures)."""
    prog = _rs['prog']
    out = {'iface': iface}
    try:
        if params is None:
            m.solve(_rs['solvers'][iface], display=False, log=log)
        else:
            m.solve(_rs['solvers'][iface], display=False, log=log, params=dict(params))
    except Exception as ex:  # noqa
        out['raised'] = '%s: %s' % (type(ex).__name__, str(ex)[:120])
        return out
    sol = m.solution
    if sol is None:
        out['raised'] = 'solution is None'
        return out
    out['status'] = sol.status
    out['cls'] = prog.status_class(iface, sol.status)
    try:
        out['objval'] = float(sol.objval)
    except Exception:  # noqa
        out['objval'] = float('nan')
    out['x'] = None if sol.x is None else np.array(sol.x, dtype=float).reshape(-1)
    for name, fn in (('mget', m.get), ('xget', x.get)):
        try:
            out[name] = fn()
        except RuntimeError:
            out[name + '_err'] = 'RuntimeError'
        except Exception as ex:  # noqa
            out[name + '_err'] = type(ex).__name__
    return out


def _protocol(r):
    """No fabricated solution.  -> None or (what, detail)."""
    nan = np.isnan(r['objval'])
    if r['cls'] == 'nonopt':
        if not nan or r['x'] is not None:
            return ('fabricated', 'status %r (no optimum) but objval=%r x=%s' % (
                r['status'], r['objval'], None if r['x'] is None else np.round(r['x'], 4).tolist()))
    if nan != (r['x'] is None):
        return ('inconsistent-solution', 'objval=%r but x=%s' % (r['objval'], r['x']))
    if nan:
        if r.get('mget_err') != 'RuntimeError' or r.get('xget_err') != 'RuntimeError':
            return ('get-does-not-raise', 'no solution, but model.get() -> %r / x.get() -> %r' % (
                r.get('mget', r.get('mget_err')), r.get('xget', r.get('xget_err'))))
    else:
        if 'mget_err' in r or 'xget_err' in r:
            return ('get-raises', 'solution available but get() raised %s/%s' % (r.get('mget_err'), r.get('xget_err')))
    return None


def _reference(spec, S0, kind, iface):
    """-> (cls, value in formula sense, who) ; cls None when nothing independent is available."""
    prog = _rs['prog']
    sign = 1.0 if spec['obj'][0] == 'min' else -1.0
    if kind in ('LP', 'MILP'):
        try:
            cls, val, _ = prog.ref_solve(S0)
        except Exception as ex:  # noqa
            return None, None, 'ref raised %s' % type(ex).__name__
        return (cls if cls != 'fail' else None), val, 'highs'
    if 'expect' in spec:
        e = spec['expect']
        return e[0], (sign * e[1] if e[0] == 'opt' else np.nan), 'closed-form'
    if kind in ('SOCP', 'MISOCP'):
        peer = 'grb' if iface == 'eco' else 'eco'
        if not _rs['bld'].supports(kind, peer, sum(v != 'C' for v in S0['vtype'])):
            return None, None, 'no peer'
        m2, x2, _, _ = _rs['bld'].build(spec)
        r2 = _solve(m2, x2, peer, False)
        if 'raised' in r2 or r2['cls'] not in ('opt', 'nonopt'):
            return None, None, 'peer unclear'
        if _protocol(r2) is not None:
            return None, None, 'peer fabricated'      # reported by the peer's own case
        if r2['cls'] == 'opt' and prog.residuals(S0, r2['x'], tol=1e-5):
            return None, None, 'peer vector infeasible'
        return r2['cls'], r2['objval'], peer
    return None, None, 'none'


def run_case(case):
    if case['kind'] == 'solo':
        return _run_solo(case)
    if case['kind'] == 'hist':
        return _run_hist(case)
    return _run_pair(case)


def _run_solo(case):
    prog, bld = _rs['prog'], _rs['bld']
    spec, iface, log = case['spec'], case['iface'], case['log']
    base = '%s|%s' % (spec['sig'], iface)
    try:
        m, x, handles, nops = bld.build(spec)
        f = m.do_math()
    except Exception as ex:  # noqa
        return {'status': 'unsupported', 'outcome': 'build raised %s' % type(ex).__name__, 'ops': 1,
                'detail': str(ex)[:200]}
    S0 = prog.snapshot(f)
    kind = prog.kind_of(S0)
    nint = sum(v != 'C' for v in S0['vtype'])
    if not bld.supports(kind, iface, nint):
        return {'status': 'vacuous', 'outcome': 'interface does not support %s' % kind, 'ops': nops}
    fam = kind
    r = _solve(m, x, iface, log)
    nops += 4
    if 'raised' in r:
        return {'status': 'vacuous', 'outcome': '%s %s: solve raised %s' % (fam, iface, r['raised'].split(':')[0]),
                'ops': nops, 'detail': r['raised']}
    bad = _protocol(r)
    if bad:
        return {'status': 'violation', 'sig': base + '|' + bad[0], 'ops': nops, 'detail': bad[1]}
    rcls, rval, who = _reference(spec, S0, kind, iface)
    if r['cls'] not in ('opt', 'nonopt'):
        # limits / numerics / "infeasible or unbounded" codes: never compared as optimal; when no solution is
        # reported (protocol checked above) and the reference has no optimum either, the classes agree
        if np.isnan(r['objval']) and rcls == 'nonopt':
            return {'status': 'pass', 'outcome': '%s %s: no optimum (unclear code %r), agrees with %s, no solution reported'
                    % (fam, iface, r['status'], who), 'nontrivial': True, 'ops': nops, 'validated': 1}
        return {'status': 'vacuous', 'outcome': '%s %s: unclear status %r' % (fam, iface, r['status']), 'ops': nops}
    sign = 1.0 if spec['obj'][0] == 'min' else -1.0
    # the returned vector against the compiled program (needs no reference)
    if r['cls'] == 'opt':
        res = prog.residuals(S0, r['x'], tol=_res_tol(iface, kind))
        if res:
            kinds = sorted(set(k for k, _, _ in res))
            return {'status': 'violation', 'sig': base + '|residual:' + '+'.join(kinds), 'ops': nops,
                    'detail': 'x=%s violates %s (ref %s: %s %s)' % (np.round(r['x'], 6).tolist(), res[:3], who, rcls, rval)}
        if abs(float(S0['obj'] @ r['x']) - r['objval']) > 1e-5 * (1 + abs(r['objval'])):
            return {'status': 'violation', 'sig': base + '|objval-not-obj.x', 'ops': nops,
                    'detail': 'objval=%r obj.x=%r' % (r['objval'], float(S0['obj'] @ r['x']))}
        if abs(float(r['mget']) - sign * r['objval']) > 1e-9 * (1 + abs(r['objval'])):
            return {'status': 'violation', 'sig': base + '|get-sign', 'ops': nops,
                    'detail': 'model.get()=%r objval=%r dir=%s' % (r['mget'], r['objval'], spec['obj'][0])}
        xg = np.asarray(r['xget'], dtype=float).reshape(-1)
        first = getattr(x, 'first', None) if spec.get('fe', 'ro') in ('ro', 'lp') else None   # dro: other layout
        if first is not None and not np.array_equal(xg, r['x'][first:first + xg.size]):
            return {'status': 'violation', 'sig': base + '|x.get', 'ops': nops,
                    'detail': 'x.get()=%s solution.x=%s' % (xg.tolist(), r['x'].tolist())}
    if rcls is None:
        return {'status': 'vacuous', 'outcome': '%s %s: %s, no reference (%s)' % (fam, iface, r['cls'], who), 'ops': nops}
    if r['cls'] != rcls:
        return {'status': 'violation', 'sig': base + '|status:%s-vs-%s' % (r['cls'], rcls), 'ops': nops,
                'detail': '%s reports %r (%s, objval %r, x %s); reference %s says %s (%r)' % (
                    iface, r['status'], r['cls'], r['objval'],
                    None if r['x'] is None else np.round(r['x'], 5).tolist(), who, rcls, rval)}
    if rcls == 'opt':
        tol = max(_obj_tol(iface, kind), _obj_tol(who, kind) if who in IFACES else 0.0)
        if abs(r['objval'] - rval) > tol * (1 + abs(rval)):
            return {'status': 'violation', 'sig': base + '|objval', 'ops': nops,
                    'detail': '%s objval %r, reference (%s) %r, x=%s' % (iface, r['objval'], who, rval,
                                                                        np.round(r['x'], 5).tolist())}
        return {'status': 'pass', 'outcome': '%s %s: optimal, agrees with %s, vector feasible' % (fam, iface, who),
                'nontrivial': True, 'ops': nops, 'validated': 1}
    return {'status': 'pass', 'outcome': '%s %s: no optimum (%r), agrees with %s, no solution reported' % (
        fam, iface, r['status'], who), 'nontrivial': True, 'ops': nops, 'validated': 1}


def _same_answer(a, b, tol):
    if ('raised' in a) != ('raised' in b):
        return False
    if 'raised' in a:
        return True
    if a['cls'] != b['cls']:
        return False
    if np.isnan(a['objval']) != np.isnan(b['objval']):
        return False
    if not np.isnan(a['objval']) and abs(a['objval'] - b['objval']) > tol * (1 + abs(b['objval'])):
        return False
    return True


def _run_pair(case):
    prog, bld = _rs['prog'], _rs['bld']
    spec = case['spec']
    i1, i2 = case['order']
    base = '%s|%s>%s' % (spec['sig'], i1, i2)
    try:
        m, x, handles, nops = bld.build(spec)
        f = m.do_math()
    except Exception as ex:  # noqa
        return {'status': 'unsupported', 'outcome': 'build raised %s' % type(ex).__name__, 'ops': 1}
    S0 = prog.snapshot(f)
    kind = prog.kind_of(S0)
    nint = sum(v != 'C' for v in S0['vtype'])
    if not (bld.supports(kind, i1, nint) and bld.supports(kind, i2, nint)):
        return {'status': 'vacuous', 'outcome': 'interface does not support %s' % kind, 'ops': nops}
    r1 = _solve(m, x, i1, False)
    f1 = m.do_math()
    if f1 is not f:
        return {'status': 'violation', 'sig': base + '|recompiled-after:' + i1, 'ops': nops,
                'detail': 'do_math() returned a different object after solve'}
    d1 = prog.snap_diff(S0, prog.snapshot(f1))
    if d1:
        return {'status': 'violation', 'sig': spec['sig'] + '|pair|mutates:%s:%s' % (i1, '+'.join(d1)), 'ops': nops,
                'detail': _diff_detail(S0, prog.snapshot(f1), d1)}
    r2 = _solve(m, x, i2, False)
    d2 = prog.snap_diff(S0, prog.snapshot(m.do_math()))
    if d2:
        return {'status': 'violation', 'sig': spec['sig'] + '|pair|mutates:%s:%s' % (i2, '+'.join(d2)), 'ops': nops,
                'detail': _diff_detail(S0, prog.snapshot(m.do_math()), d2)}
    # I2 on the shared object vs I2 on a fresh object
    m3, x3, _, _ = bld.build(spec)
    r3 = _solve(m3, x3, i2, False)
    nops += 12
    tol = 10 * _obj_tol(i2, kind)
    if not _same_answer(r2, r3, tol):
        return {'status': 'violation', 'sig': base + '|order-dependent', 'ops': nops,
                'detail': '%s after %s: %s ; %s alone: %s' % (i2, i1, _brief(r2), i2, _brief(r3))}
    ok = all('raised' not in r for r in (r1, r2))
    return {'status': 'pass', 'outcome': '%s pair: program untouched, answer independent of history%s' % (
        kind, '' if ok else ' (a solve raised)'), 'nontrivial': bool(ok), 'ops': nops, 'validated': 1,
        'states': 3, 'transitions': 2}


def _brief(r):
    if 'raised' in r:
        return 'raised ' + r['raised']
    return 'status %r objval %r' % (r['status'], r['objval'])


def _diff_detail(a, b, fields):
    out = []
    for k in fields[:3]:
        out.append('%s: %s -> %s' % (k, np.asarray(a[k]).tolist() if not isinstance(a[k], (list, str, int)) else a[k],
                                    np.asarray(b[k]).tolist() if not isinstance(b[k], (list, str, int)) else b[k]))
    return '; '.join(out)[:800]


# ------------------------------------------------------------------------------------------------
# HIST family: call histories with solver parameters
_enum_cache = {}


def _enum_opt(spec):
    """Optimum (user sense) of a pure-integer HIST model by complete enumeration of its box; None for LPs."""
    if spec['dom'] is None:
        return None
    key = (spec['name'], tuple(spec['obj'][1]), str(spec['items']))
    if key not in _enum_cache:
        lo, hi = spec['dom']
        X = np.array(list(itertools.product(range(lo, hi + 1), repeat=spec['n'])), dtype=float)
        ok = np.ones(len(X), dtype=bool)
        for it in spec['items']:
            if it[0] != 'row':
                continue
            V = X @ np.array(it[1], dtype=float).T
            b = np.array(it[3], dtype=float)
            ok &= (V <= b + 1e-9).all(axis=1) if it[2] == '<=' else (V >= b - 1e-9).all(axis=1) if it[2] == '>=' \
                else (np.abs(V - b) <= 1e-9).all(axis=1)
        vals = X[ok] @ np.array(spec['obj'][1], dtype=float)
        _enum_cache[key] = float(vals.max() if spec['obj'][0] == 'max' else vals.min())
    return _enum_cache[key]


def _engine_grb(S, params):
    """Gurobi called directly (own fresh environment, parameters on the model) on a snapshot -> (Status, ObjVal | None).
    Independent of rsome.grb_solver and of the process-wide default environment."""
    gp = _rs.get('gp')
    if gp is None:
        return None
    if 'grb_env' not in _rs:
        _rs['grb_env'] = gp.Env(params={'OutputFlag': 0})
    g = gp.Model(env=_rs['grb_env'])
    n = S['A'].shape[1]
    x = g.addMVar(n, lb=S['lb'], ub=S['ub'], vtype=list(S['vtype']))
    eq = S['sense'] == 1
    if eq.any():
        g.addMConstr(S['A'][eq], x, '=', S['b'][eq])
    if (~eq).any():
        g.addMConstr(S['A'][~eq], x, '<', S['b'][~eq])
    g.setObjective(S['obj'] @ x)
    for k, v in params.items():
        g.setParam(k, v)
    g.optimize()
    try:
        val = float(g.ObjVal) if g.SolCount > 0 else None
    except Exception:  # noqa
        val = None
    st = int(g.Status)
    g.dispose()
    return st, val


def _plain_ok(r, S, kind, iface, vref):
    """A parameter-free solve must be the exact answer: optimal, value = reference, vector feasible.  -> None | text"""
    prog = _rs['prog']
    if 'raised' in r:
        return 'raised ' + r['raised']
    bad = _protocol(r)
    if bad:
        return '%s: %s' % bad
    if r['cls'] != 'opt':
        return 'status %r (%s) where the optimum %r exists' % (r['status'], r['cls'], vref)
    if abs(r['objval'] - vref) > _obj_tol(iface, kind) * (1 + abs(vref)):
        return 'status %r objval %r, true optimum %r' % (r['status'], r['objval'], vref)
    res = prog.residuals(S, r['x'], tol=_res_tol(iface, kind))
    if res:
        return 'vector violates %s' % (res[:2],)
    return None


def _run_hist(case):
    prog, bld = _rs['prog'], _rs['bld']
    P, Q = case['P'], case['Q']
    i1, pname = case['first']
    i2 = case['second']
    params = HPARAMS[pname]
    base = 'HIST|P=%s/%s|Q=%s/%s|%s:%s>%s' % (P['name'], P['fe'], Q['name'], Q['fe'], i1, pname, i2)
    try:
        mP, xP, _, nP = bld.build(P)
        mQ, xQ, _, nQ = bld.build(Q)
        SP, SQ = prog.snapshot(mP.do_math()), prog.snapshot(mQ.do_math())
    except Exception as ex:  # noqa
        return {'status': 'unsupported', 'outcome': 'HIST build raised %s' % type(ex).__name__, 'ops': 1, 'detail': str(ex)[:200]}
    kP, kQ = prog.kind_of(SP), prog.kind_of(SQ)
    nops = 2 * nP + nQ + 20
    if not (bld.supports(kP, i2, sum(v != 'C' for v in SP['vtype'])) and bld.supports(kQ, i1, sum(v != 'C' for v in SQ['vtype']))):
        return {'status': 'vacuous', 'outcome': 'HIST: interface does not support the model', 'ops': nops}
    # references (formula sense = minimisation): complete enumeration and HiGHS on the snapshot must agree
    ref = {}
    for tag, spec, S in (('P', P, SP), ('Q', Q, SQ)):
        key = ('ref', spec['fe'], spec['name'], str(spec['items']), str(spec['obj']))
        if key not in _enum_cache:          # per worker process; both references are deterministic functions of the spec
            cls, val, _ = prog.ref_solve(S)
            if cls != 'opt':
                raise RuntimeError('HIST reference: HiGHS says %s for model %s' % (cls, spec['name']))
            e = _enum_opt(spec)
            if e is not None:
                e = e if spec['obj'][0] == 'min' else -e
                if abs(e - val) > 1e-6 * (1 + abs(e)):
                    raise RuntimeError('HIST references disagree on %s: enumeration %r, HiGHS %r' % (spec['name'], e, val))
                val = e
            _enum_cache[key] = val
        ref[tag] = _enum_cache[key]
    # the history
    s0 = _solve(mP, xP, i2, False)                       # P before anything else: "the same call without the first one"
    s1 = _solve(mQ, xQ, i1, False, params=params)        # Q with parameters
    mP2, xP2, _, _ = bld.build(P)
    s2 = _solve(mP2, xP2, i2, False)                     # a NEW object of P, no parameters
    s3 = _solve(mQ, xQ, i1, False)                       # Q itself again, no parameters
    s4 = _solve(mP, xP, i2, False)                       # the first object of P again
    steps = (('P before', s0, SP, kP, i2, ref['P']), ('new P after', s2, SP, kP, i2, ref['P']),
             ('Q again without params', s3, SQ, kQ, i1, ref['Q']), ('P again', s4, SP, kP, i2, ref['P']))
    if 'raised' in s0 and all('raised' in s for s in (s2, s4)):
        return {'status': 'vacuous', 'outcome': 'HIST %s>%s: parameter-free solve raises with and without history' % (i1, i2),
                'ops': nops, 'detail': s0['raised']}
    wrong = [(what, _plain_ok(r, S, k, i, v)) for what, r, S, k, i, v in steps]
    wrong = [(w, t) for w, t in wrong if t]
    if wrong:
        return {'status': 'violation', 'sig': base + '|parameter-free-solve-wrong', 'ops': nops,
                'detail': 'optimum P %r, Q %r (enumeration/HiGHS, minimisation form); %s; call with params: %s' % (
                    ref['P'], ref['Q'], '; '.join('%s: %s' % wt for wt in wrong), _brief(s1))}
    d = prog.snap_diff(SP, prog.snapshot(mP.do_math())) + prog.snap_diff(SQ, prog.snapshot(mQ.do_math()))
    if d:
        return {'status': 'violation', 'sig': base + '|mutates:' + '+'.join(d), 'ops': nops, 'detail': 'compiled program changed'}
    # the call that passed parameters
    effect = 'n.a.'
    visible = 'n.a.'
    if 'raised' in s1:
        effect = 'raised'
    else:
        bad = _protocol(s1)
        if bad:
            return {'status': 'violation', 'sig': base + '|params-call:' + bad[0], 'ops': nops, 'detail': bad[1]}
        loose = any(k in params for k in ('IntFeasTol', 'FeasibilityTol'))
        if s1['x'] is not None and not loose:
            res = prog.residuals(SQ, s1['x'], tol=_res_tol(i1, kQ))
            if res:
                return {'status': 'violation', 'sig': base + '|params-call:residual', 'ops': nops,
                        'detail': 'x=%s violates %s' % (np.round(s1['x'], 5).tolist(), res[:3])}
            tol = _obj_tol(i1, kQ) * (1 + abs(ref['Q']))
            if s1['objval'] < ref['Q'] - tol:
                return {'status': 'violation', 'sig': base + '|params-call:better-than-optimum', 'ops': nops,
                        'detail': 'objval %r, optimum %r' % (s1['objval'], ref['Q'])}
            allow = max(params.get('MIPGap', 1e-4) * abs(s1['objval']), params.get('MIPGapAbs', 1e-10))
            if s1['cls'] == 'opt' and s1['objval'] > ref['Q'] + allow + tol:
                return {'status': 'violation', 'sig': base + '|params-call:optimal-status-outside-gap', 'ops': nops,
                        'detail': 'status %r objval %r, optimum %r, gap allowance %r' % (s1['status'], s1['objval'], ref['Q'], allow)}
        if i1 == 'grb':
            eng = _engine_grb(SQ, params)
            if eng is not None:
                if prog._int(s1['status']) != eng[0]:
                    return {'status': 'violation', 'sig': base + '|params-call:status-differs-from-engine', 'ops': nops,
                            'detail': 'solve(grb_solver, params=%r) reports status %r objval %r; Gurobi itself with these parameters '
                                      'on the same program: status %r objval %r (parameters not in force for this call?)'
                                      % (params, s1['status'], s1['objval'], eng[0], eng[1])}
                plain = eng[0] == 2 and eng[1] is not None and abs(eng[1] - ref['Q']) <= 1e-6 * (1 + abs(ref['Q']))
                effect = 'none' if plain else 'changes the answer'
    if i2 == 'grb':
        eng = _engine_grb(SP, params)
        if eng is not None:
            plain = eng[0] == 2 and eng[1] is not None and abs(eng[1] - ref['P']) <= 1e-6 * (1 + abs(ref['P']))
            visible = 'no' if plain else 'yes'
    return {'status': 'pass', 'ops': nops, 'validated': 4, 'states': 6, 'transitions': 5,
            'nontrivial': effect != 'none' or visible == 'yes',
            'outcome': 'HIST %s(params)>%s: 4 parameter-free solves exact; params on call 1: %s; a leak would show on P: %s'
                       % (i1, i2, effect, visible)}
