"""C18 - soc_solve approximates exponential cones accurately and changes nothing else.

Three exhaustive sub-explorations (product bounds):
  acc   : atom x exponent x/z x scale z x context (position of the cone in the program) x SOC interface; every
          degree of the tier's degree list is solved inside the case.  Oracle: closed form of the pinned program
          (exponent fixed by equality rows) AND the exact exponential-cone optimum from `m.solve(eco_solver)`:
          |v_soc - v_exact| <= 1e-3 S + 2e-4 at every degree >= 4, S = sum of |value| of the cone-defined terms of
          the objective (= |v_exact| for a single cone; no monotonicity is demanded).
  carry : atom x context x degree.  `formula.to_socp(degree)` restricted to the original rows / columns equals the
          original program (linear, const, sense, ub, lb, vtype, obj, original qmat entries), new rows touch old
          columns only at the three exp-cone columns, new columns do not enter old rows or the objective, no
          exp cone is left; the ORIGINAL formula object is unchanged (deep snapshot before / after).
  hist  : atom x front end x interface.  soc_solve() followed by solve() / do_math() / a second soc_solve():
          same answers as on fresh models, cached primal unchanged.
  cuts  : call histories on ONE unchanged model: every ordered pair (thorough: triple) of calls over
          {degree 4, 6} x {cuts default (-30,60), narrow (-2,2), wide (-60,120)}, made through soc_solve() or through
          do_math().to_socp() + the interface, on models whose optimal exponent (+-3) lies outside the narrow range
          but inside the default one.  Every call must return what a FRESH model returns for the same (degree,
          cuts), and meet the accuracy bound whenever the cuts contain the exponent.
"""
import itertools
import math

PROPERTY = 'C18'
TIMEOUT = 60.0
CHUNK = 4
FLOOR = 0.5
RULE = ('acc: 8 atoms {exp,log,entropy,kldiv,softplus,pexp,plog,expcone} x 13 exponents {-4..4,+-0.5,+-2.5} x 3 '
        'scales {0.5,1,2} x contexts {solo, first/middle/last of 3 exp cones, next to a SOC row, user bounds, '
        'integer variable, all together with/without the integer} x {ECOS, Gurobi} (contexts with an integer '
        'variable: Gurobi only), degrees {4,5,6,8} inside the case; non-trivial = exact '
        'ECOS optimum agrees with the closed form (1e-5) and every soc_solve of the case returned an optimum that '
        'differs from the exact value (the approximation is really in the loop) ; carry: 8 atoms x contexts x '
        'degrees; hist: 8 atoms x {ro,dro} x {ECOS,Gurobi} x 3 histories; cuts: 5 models x {ECOS,Gurobi} x '
        '{soc_solve, to_socp} x all ordered pairs (thorough: triples) of 6 (degree, cuts) configurations, non-trivial '
        'when the fresh answers of the configurations in the history differ (the narrow cut really binds)')
ASSUMPTIONS = [
    'the exponent of each cone is pinned by equality rows, so the closed form of the optimum is exact',
    'accuracy bound 1e-3 relative to the summed magnitude of the cone-defined objective terms (the signed sum may '
    'nearly cancel in the 3-cone contexts) plus 2e-4 absolute slack (values that are 0 by construction, e.g. log at '
    'exponent 0); solver noise of up to 1.3e-4 was measured at degree 8, so "no larger at higher degrees" is read as '
    '"the same bound holds" (DESIGN calibration note)',
    'an inaccurate / failed solve is vacuous, never a violation',
    'degrees > 8 (thorough tier): Gurobi runs with NumericFocus=3 and the bound is 4e-3 - with default parameters its '
    'answer at degree 12 is off by 1.7e-3 although the formulation is accurate to 1.5e-6 (tolerances are amplified '
    'by the squaring tower)',
    'ECOS_BB (ECOS with integer variables) is not used as a judge: it hangs and returned infeasible points as '
    '"optimal" at degree 12 (and 0 / -1 for exponential-cone programs); integer contexts are solved by Gurobi only',
    'Gurobi restricted licence is sufficient for these sizes (<= 3 cones, degree <= 8)',
]
TRUSTED = ['ECOS (exact exponential cone solves and SOCP)', 'Gurobi (SOCP)', 'math.exp/log closed forms', 'NumPy']

ATOMS = ['exp', 'log', 'entropy', 'kldiv', 'softplus', 'pexp', 'plog', 'expcone']
EXPONENTS = [0.0, 1.0, -1.0, 2.0, -2.0, 3.0, -3.0, 4.0, -4.0, 0.5, -0.5, 2.5, -2.5]
SCALES = [1.0, 0.5, 2.0]
DEG_Q = [4, 5, 6, 8]
CONTEXTS = ['solo', 'first3', 'mid3', 'last3', 'soc', 'bounds', 'int', 'allc', 'all']
INT_CONTEXTS = ('int', 'all')     # contain an integer variable: SOC interface Gurobi only (ECOS_BB is not trusted)
CONCAVE = ('log', 'entropy', 'plog')
CUT_MODELS = ['exp_hi', 'exp_lo', 'log_hi', 'pexp_hi', 'dro_exp_hi']
CUTS = {'default': (-30, 60), 'narrow': (-2, 2), 'wide': (-60, 120)}


def gen_cases(tier, seed):
    thorough = tier == 'thorough'
    degs = DEG_Q + ([7, 10, 12] if thorough else [])
    ctx_q = CONTEXTS if thorough else ['solo', 'mid3', 'last3', 'soc', 'bounds', 'int', 'allc', 'all']
    # hist and carry first: few and cheap
    cfgs = [[d, c] for d in (4, 6) for c in ('default', 'narrow', 'wide')]
    for mk in CUT_MODELS:
        for iface in ('eco', 'grb'):
            for how in ('soc_solve', 'to_socp'):
                for n in ((2, 3) if thorough else (2,)):
                    for seq in itertools.product(cfgs, repeat=n):
                        yield {'kind': 'cuts', 'model': mk, 'iface': iface, 'how': how, 'seq': [list(c) for c in seq]}
    for atom in ATOMS:
        for fe in ('ro', 'dro'):
            for iface in ('eco', 'grb'):
                for hist in ('soc,solve', 'soc,soc', 'soc,do_math,solve', 'solve,soc,solve'):
                    yield {'kind': 'hist', 'atom': atom, 'fe': fe, 'iface': iface, 'hist': hist}
    for atom in ATOMS:
        for ctx in CONTEXTS:
            for d in degs:
                for e in ((1.0, -2.5) if thorough else (1.0,)):
                    yield {'kind': 'carry', 'atom': atom, 'ctx': ctx, 'deg': d, 'e': e, 'z': 2.0}
    for ctx in ctx_q:
        for atom in ATOMS:
            for e in EXPONENTS:
                for z in SCALES:
                    for iface in ('eco', 'grb'):
                        if iface == 'eco' and ctx in INT_CONTEXTS:
                            continue
                        if not thorough and ctx not in ('solo', 'all', 'allc') and \
                                z != SCALES[(seed + EXPONENTS.index(e)) % 3]:
                            # quick tier: in the non-solo contexts one scale per exponent (rotating with the seed);
                            # the thorough tier runs the full product
                            continue
                        yield {'kind': 'acc', 'atom': atom, 'e': e, 'z': z, 'ctx': ctx, 'iface': iface, 'degs': degs,
                               'fe': 'ro'}
    # directly used rsome.gcp.Model (soc_solve of rsome/gcp.py)
    for ctx in (('solo', 'allc') if not thorough else ('solo', 'mid3', 'soc', 'bounds', 'allc')):
        for atom in ATOMS:
            for e in (EXPONENTS if thorough else EXPONENTS[:9]):
                for iface in ('eco', 'grb'):
                    yield {'kind': 'acc', 'atom': atom, 'e': e, 'z': 1.0, 'ctx': ctx, 'iface': iface, 'degs': degs,
                           'fe': 'gcp'}
    # dro front end (soc_solve of rsome/dro.py): solo + all contexts
    for ctx in (('solo', 'allc', 'all') if not thorough else CONTEXTS):
        for atom in ATOMS:
            for e in (EXPONENTS if thorough else EXPONENTS[:9]):
                for iface in ('eco', 'grb'):
                    if iface == 'eco' and ctx in INT_CONTEXTS:
                        continue
                    yield {'kind': 'acc', 'atom': atom, 'e': e, 'z': 1.0, 'ctx': ctx, 'iface': iface, 'degs': degs,
                           'fe': 'dro'}


def exhaustive(tier):
    return tier == 'thorough'


def bounds(tier):
    th = tier == 'thorough'
    return {'atoms': len(ATOMS), 'exponents': len(EXPONENTS), 'scales': len(SCALES),
            'degrees': DEG_Q + ([7, 10, 12] if th else []), 'contexts': len(CONTEXTS), 'interfaces': 2,
            'quick_reduction': None if th else 'non-solo contexts use one scale per exponent (rotates with VERIF_SEED); '
                                               'dro front end on exponents -4..4 only'}


# ------------------------------------------------------------------------------------------------
_rs = {}


def worker_init():
    from ..ref import c08c18c19_common as cm
    _rs.update(cm.load())
    _rs['cm'] = cm


def closed_form(atom, e, z):
    """(value of the atom term at the pinned argument, sign with which it enters a minimisation)."""
    if atom == 'exp':
        return z * math.exp(e)
    if atom == 'log':
        return z * e
    if atom == 'entropy':
        return z * e * math.exp(-e)
    if atom == 'kldiv':
        return sum(-ei * 0.5 * z * math.exp(-ei) for ei in (e, 0.5 * e))
    if atom == 'softplus':
        return z * math.log1p(math.exp(e))
    if atom in ('pexp', 'expcone'):
        return z * math.exp(e)
    if atom == 'plog':
        return z * e
    raise ValueError(atom)


class Built:
    pass


def build(case, fe=None):
    """Build the pinned program.  Returns Built(m, exact value, ops)."""
    import numpy as np
    rso = _rs['rso']
    fe = fe or case.get('fe', 'ro')
    atom, e, z, ctx = case['atom'], case['e'], case['z'], case.get('ctx', 'solo')
    if fe == 'ro':
        m = _rs['ro'].Model()
    elif fe == 'gcp':
        import rsome.gcp as gcpm
        m = gcpm.Model()            # the model class used directly (its own soc_solve)
    else:
        m = _rs['dro'].Model(1)
    ops = [1]

    def dv(*a, **k):
        ops[0] += 1
        return m.dvar(*a, **k)

    deferred = []

    def st(*thunk):
        """ro: constraints are stated right where the part is declared (interleaved with later declarations);
        dro: every variable must exist before the first constraint is written, so statements are deferred."""
        ops[0] += 1
        if fe == 'ro':
            m.st(*thunk[0]())
        elif fe == 'gcp':
            m.st(list(thunk[0]()))
        else:
            deferred.append(thunk[0])

    concave = atom in CONCAVE
    terms = []       # expressions added to the minimised objective
    value = 0.0
    scale = [0.0]    # sum of |value| of the cone-defined components (the yardstick of the relative error)

    def decoy(kind):
        nonlocal value
        if kind == 'exp':
            b, s = dv(), dv()
            st(lambda: (rso.exp(b) <= s, b == 0.5,))
            terms.append(s)
            value += math.exp(0.5)
            scale[0] += math.exp(0.5)
        elif kind == 'log':
            u, s = dv(), dv()
            st(lambda: (rso.log(u) >= s, u == 2.0,))
            terms.append(-s)
            value += -math.log(2.0)
            scale[0] += math.log(2.0)

    def tested():
        nonlocal value
        t = dv()
        if atom == 'exp':
            a = dv()
            st(lambda: (z * rso.exp(a) <= t, a == e,))
        elif atom == 'log':
            u = dv()
            st(lambda: (z * rso.log(u) >= t, u == math.exp(e),))
        elif atom == 'entropy':
            p = dv(1)
            st(lambda: (z * rso.entropy(p) >= t, p == math.exp(-e),))
        elif atom == 'kldiv':
            p = dv(2)
            q = np.array([0.5 * z, 0.5 * z])
            st(lambda: (rso.kldiv(p, q, t), p == q * np.exp(-np.array([e, 0.5 * e])),))
        elif atom == 'softplus':
            a = dv()
            st(lambda: (z * rso.softplus(a) <= t, a == e,))
        elif atom == 'pexp':
            a, s = dv(), dv()
            st(lambda: (rso.pexp(a, s) <= t, a == e * z, s == z,))
        elif atom == 'plog':
            u, s = dv(), dv()
            st(lambda: (rso.plog(u, s) >= t, u == z * math.exp(e), s == z,))
        elif atom == 'expcone':
            a, s = dv(), dv()
            st(lambda: (rso.expcone(t, a, s), a == e * z, s == z,))
        v = closed_form(atom, e, z)
        scale[0] += abs(v)
        if concave:
            terms.append(-t)
            value += -v
        else:
            terms.append(t)
            value += v

    def soc_part():
        nonlocal value
        w, s = dv(2), dv()
        st(lambda: (rso.norm(w) <= s, w == np.array([0.6, 0.8]),))
        terms.append(s)
        value += 1.0

    def bound_part():
        nonlocal value
        # three bounded variables: lb > 0 active, ub > 0 active, and lb < ub < 0 with the NEGATIVE ub active
        g = dv(3)
        st(lambda: (g >= np.array([0.25, -1.0, -3.0]), g <= np.array([3.0, 0.5, -1.0]),))
        terms.append(g[0] - g[1] - g[2])
        value += 0.25 - 0.5 + 1.0

    def int_part():
        nonlocal value
        n = dv(vtype='I')
        st(lambda: (n >= 1.5, n <= 5,))
        terms.append(0.5 * n)
        value += 1.0

    if ctx == 'solo':
        tested()
    elif ctx == 'first3':
        tested(); decoy('exp'); decoy('log')
    elif ctx == 'mid3':
        decoy('exp'); tested(); decoy('log')
    elif ctx == 'last3':
        decoy('log'); decoy('exp'); tested()
    elif ctx == 'soc':
        soc_part(); tested()
    elif ctx == 'bounds':
        bound_part(); tested()
    elif ctx == 'int':
        int_part(); tested()
    elif ctx == 'all':
        bound_part(); decoy('exp'); soc_part(); tested(); int_part(); decoy('log')
    elif ctx == 'allc':
        bound_part(); decoy('exp'); soc_part(); tested(); decoy('log')
    else:
        raise ValueError(ctx)
    for th in deferred:
        m.st(*th())
    obj = terms[0]
    for tm in terms[1:]:
        obj = obj + tm
    # maximise for the concave atoms so both objective directions of the front ends are exercised
    if concave:
        m.max(-1 * obj)
        user_value = -value
    else:
        m.min(obj)
        user_value = value
    ops[0] += 1
    b = Built()
    b.m, b.value, b.ops, b.scale = m, user_value, ops[0], scale[0]
    return b


GRB_PARAMS = {'TimeLimit': 5, 'NonConvex': 1}     # never hand a malformed (non-convex) model to spatial B&B


def _params(iface, degree=4):
    if iface != 'grb':
        return {}
    if degree > 8:
        # the squaring tower amplifies the solver's feasibility tolerance by 2^degree: with default parameters
        # Gurobi's answer at degree 12 is off by 1.7e-3 (1.5e-6 with NumericFocus=3) - solver noise, not rsome
        return dict(GRB_PARAMS, NumericFocus=3)
    return GRB_PARAMS


def _solver(iface):
    return _rs['eco'] if iface == 'eco' else _rs['grb']


class Recorder:
    """A solver object that records the program soc_solve() hands over and delegates to the real interface."""

    def __init__(self, real):
        self.real = real
        self.formula = None

    def solve(self, formula, *args, **kwargs):
        self.formula = formula
        return self.real.solve(formula, *args, **kwargs)


def _handed_cones(rec):
    f = rec.formula
    return None if f is None else len(getattr(f, 'xmat', []) or [])


def _verdict(m, iface):
    """'optimal' | 'infeasible' | 'unbounded' | 'other' for the model's last solve."""
    sol = m.solution
    if sol is None:
        return 'other'
    st = str(sol.status)
    if iface == 'eco':
        if sol.x is not None and st.startswith('Optimal'):
            return 'optimal'
        if st.startswith('Primal infeasible'):
            return 'infeasible'
        if st.startswith('Dual infeasible'):
            return 'unbounded'
        return 'other'
    if st == '2' and sol.x is not None:
        return 'optimal'
    return {'3': 'infeasible', '4': 'unbounded', '5': 'unbounded'}.get(st, 'other')


def _opt(m, iface):
    """(ok, value) of the model's last solve; ok only for a clean optimal status."""
    if _verdict(m, iface) != 'optimal':
        return False, float('nan')
    try:
        return True, float(m.get())
    except Exception:  # noqa
        return False, float('nan')


def run_acc(case):
    atom, e, z, ctx, iface = case['atom'], case['e'], case['z'], case['ctx'], case['iface']
    tag = 'acc|%s|%s|%s|%s' % (case['fe'], atom, ctx, iface)
    try:
        b = build(case)
    except Exception as ex:  # noqa
        if case['fe'] == 'ro':
            raise
        return {'status': 'unsupported', 'ops': 1, 'outcome': 'unsupported: dro st() raises ' + type(ex).__name__,
                'detail': str(ex)[:160]}
    ops = b.ops
    v_cf = b.value
    try:
        build(case).m.do_math()
    except Exception as ex:  # noqa
        # the front end refuses the atom at formulation (loud): nothing to approximate
        return {'status': 'unsupported', 'ops': ops, 'outcome': 'unsupported: do_math raises ' + type(ex).__name__,
                'detail': str(ex)[:160]}
    # exact exponential-cone solve on its own fresh model
    has_int = ctx in INT_CONTEXTS
    try:
        if has_int:
            # ECOS_BB with exponential cones returns unreliable "optimal" answers (0 / -1 observed): the closed
            # form is the only reference in the contexts with an integer variable
            ok_x, v_x = False, float('nan')
        else:
            b.m.solve(_rs['eco'], display=False)
            ok_x, v_x = _opt(b.m, 'eco')
    except Exception as ex:  # noqa
        ok_x, v_x = False, float('nan')
    ops += 1
    exact_agree = ok_x and abs(v_x - v_cf) <= 1e-5 * (1 + abs(v_cf))
    if ok_x and not exact_agree:
        # the two references disagree: either the closed form (harness) or the exact formulation (C06/C07 business)
        return {'status': 'vacuous', 'ops': ops, 'outcome': 'references disagree (exact vs closed form)',
                'detail': 'exact %.9g closed form %.9g' % (v_x, v_cf)}
    worst = 0.0
    bad = []
    ratio = 0.0
    differs = True
    solved = 0
    for d in case['degs']:
        bb = build(case)
        ops += bb.ops + 1
        rec = Recorder(_solver(iface))
        try:
            bb.m.soc_solve(rec, degree=d, display=False, params=_params(iface, d))
        except Exception as ex:  # noqa
            if 'size-limited license' in str(ex):
                continue        # environment: Gurobi restricted licence, not the code under test
            return {'status': 'violation', 'ops': ops, 'sig': tag + '|soc_solve raises ' + type(ex).__name__,
                    'detail': 'degree %d e=%s z=%s: %s' % (d, e, z, str(ex)[:160])}
        nx = _handed_cones(rec)
        if nx is None or nx > 0:
            # structural: what soc_solve passes to the interface must be the approximation (no exp cone left)
            return {'status': 'violation', 'ops': ops,
                    'sig': tag + '|soc_solve hands a program with exponential cones to the interface',
                    'detail': 'degree %d: %s exp cone(s) in the program given to the solver' % (d, nx)}
        ok, v = _opt(bb.m, iface)
        if not ok:
            vd = _verdict(bb.m, iface)
            if vd in ('infeasible', 'unbounded') and (exact_agree or has_int):
                # the exact program has a finite optimum (closed form, confirmed by ECOS where possible) but its
                # SOC approximation is reported infeasible / unbounded: not "within a small relative error"
                bad.append((d, vd))
            continue
        solved += 1
        # relative to the magnitude of the cone-defined components: with several cones the objective is a signed
        # sum that may nearly cancel (0.044 = -1 + 1.649 - 0.693), so |v| itself is no yardstick
        tol = 1e-3 * max(abs(v_cf), b.scale) + 2e-4
        if d > 8:
            tol *= 4.0      # head-room for amplified solver tolerances at the degrees above the calibrated range
        err = abs(v - v_cf)
        refs = [('closed form', v_cf)] + ([('exact ECOS', v_x)] if ok_x else [])
        for nm, ref in refs:
            if abs(v - ref) > tol:
                band = 'far' if abs(v - ref) > 0.05 * (1 + b.scale) else 'near'
                return {'status': 'violation', 'ops': ops, 'sig': '%s|accuracy(%s)' % (tag, band),
                        'detail': 'degree %d e=%s z=%s: v_soc=%.9g %s=%.9g err=%.3g tol=%.3g' % (
                            d, e, z, v, nm, ref, abs(v - ref), tol)}
        worst = max(worst, err / (abs(v_cf) + 0.2))
        ratio = max(ratio, err / tol)
        if err <= 1e-9 * (1 + abs(v_cf)):
            differs = False
    if bad and (solved == 0 or len(bad) >= 2):
        # one isolated status of this kind next to accurate answers at the other degrees is treated as solver
        # noise (vacuous for that degree); a consistent verdict is a violation
        return {'status': 'violation', 'ops': ops, 'sig': '%s|approximation %s' % (tag, bad[0][1]),
                'detail': 'e=%s z=%s: soc_solve reported %s at degrees %s, exact optimum %.9g' % (
                    e, z, bad[0][1], [d for d, _ in bad], v_cf)}
    if solved == 0:
        return {'status': 'vacuous', 'ops': ops, 'outcome': 'no soc_solve reported optimal (%s)' % iface}
    mag = 'err<1e-5' if worst < 1e-5 else 'err<1e-4' if worst < 1e-4 else 'err<1e-3'
    return {'status': 'pass', 'ops': ops,
            'nontrivial': bool((exact_agree or has_int) and differs and solved >= len(case['degs']) - 1),
            'outcome': 'acc ok %s %s err/tol%s solved=%d/%d%s exact=%s' % (
                iface, mag, '<.1' if ratio < .1 else '<.3' if ratio < .3 else '<.6' if ratio < .6 else '<1', solved,
                len(case['degs']), ('(1 %s)' % bad[0][1]) if bad else '', 'agree' if exact_agree else 'n/a'),
            'validated': solved}


def run_carry(case):
    import numpy as np
    cm = _rs['cm']
    atom, ctx, d = case['atom'], case['ctx'], case['deg']
    tag = 'carry|%s|%s' % (atom, ctx)
    b = build(case, fe='ro')
    f0 = b.m.do_math()
    S0 = cm.snapshot(f0)
    try:
        g = f0.to_socp(d)
    except Exception as ex:  # noqa
        return {'status': 'violation', 'ops': b.ops + 2, 'sig': tag + '|to_socp raises ' + type(ex).__name__,
                'detail': str(ex)[:200]}
    S1 = cm.snapshot(f0)
    G = cm.snapshot(g)
    problems = []
    nr, nc = S0['shape']
    # ---- restricted program equals the original
    if G['shape'][0] < nr or G['shape'][1] < nc:
        problems.append('restricted:shape')
    else:
        if not np.array_equal(G['linear'][:nr, :nc], S0['linear']):
            problems.append('restricted:linear')
        if np.any(G['linear'][:nr, nc:] != 0):
            problems.append('restricted:new columns enter old rows')
        for f, n in (('const', nr), ('sense', nr), ('ub', nc), ('lb', nc), ('obj', nc)):
            if not np.array_equal(G[f][:n], S0[f]):
                problems.append('restricted:' + f)
        if np.any(G['obj'][nc:] != 0):
            problems.append('restricted:new columns in objective')
        if G['vtype'][:nc] != S0['vtype']:
            problems.append('restricted:vtype')
        if set(G['vtype'][nc:]) - {'C'}:
            problems.append('restricted:new vtype')
        if G['qmat'][:len(S0['qmat'])] != S0['qmat']:
            problems.append('restricted:qmat')
        if G['xmat']:
            problems.append('restricted:exp cones left')
        xcols = set(i for xm in S0['xmat'] for i in xm)
        used = set(int(j) for j in np.nonzero(np.any(G['linear'][nr:, :nc] != 0, axis=0))[0])
        if not used <= xcols:
            problems.append('restricted:new rows touch other old columns')
        newq = G['qmat'][len(S0['qmat']):]
        if any(i < nc for q in newq for i in q):
            problems.append('restricted:new cones on old columns')
        if len(newq) != len(S0['xmat']) * (3 + d):
            problems.append('restricted:cone count')
    # ---- the original formula object is unchanged
    diff = cm.snap_diff(S0, S1)
    if diff:
        problems.append('original-mutated:' + cm.snap_field(diff))
    if problems:
        return {'status': 'violation', 'ops': b.ops + 2, 'sig': tag + '|' + '+'.join(problems),
                'detail': 'degree %d: %s; first diff of original: %s' % (d, problems, diff)}
    return {'status': 'pass', 'ops': b.ops + 2, 'nontrivial': len(S0['xmat']) > 0 and G['shape'][1] > nc,
            'outcome': 'carry ok cones=%d' % len(S0['xmat'])}


def run_hist(case):
    cm = _rs['cm']
    atom, fe, iface, hist = case['atom'], case['fe'], case['iface'], case['hist']
    tag = 'hist|%s|%s|%s|%s' % (fe, atom, iface, hist)
    c = dict(case, e=1.0, z=2.0, ctx='soc')
    try:
        b = build(c, fe=fe)
    except Exception as ex:  # noqa
        if fe == 'ro':
            raise
        return {'status': 'unsupported', 'ops': 1, 'outcome': 'unsupported: dro st() raises ' + type(ex).__name__,
                'detail': str(ex)[:160]}
    v_cf = b.value
    ops = b.ops
    try:
        S_first = cm.snapshot(b.m.do_math())
    except Exception as ex:  # noqa
        return {'status': 'unsupported', 'ops': ops, 'outcome': 'unsupported: do_math raises ' + type(ex).__name__,
                'detail': str(ex)[:160]}
    for k, step in enumerate(hist.split(',')):
        ops += 1
        try:
            if step == 'soc':
                rec = Recorder(_solver(iface))
                b.m.soc_solve(rec, degree=4, display=False, params=_params(iface))
                if _handed_cones(rec) != 0:
                    return {'status': 'violation', 'ops': ops,
                            'sig': tag + '|soc_solve hands a program with exponential cones to the interface',
                            'detail': 'step %d' % k}
                ok, v = _opt(b.m, iface)
                tol = 1e-3 * max(abs(v_cf), b.scale) + 2e-4
            elif step == 'solve':
                b.m.solve(_rs['eco'], display=False)
                ok, v = _opt(b.m, 'eco')
                tol = 1e-5 * (1 + abs(v_cf))
            else:
                f = b.m.do_math()
                ok, v, tol = None, None, None
        except Exception as ex:  # noqa
            return {'status': 'violation', 'ops': ops, 'sig': '%s|step %d (%s) raises %s' % (tag, k, step,
                                                                                           type(ex).__name__),
                    'detail': str(ex)[:200]}
        if ok is False:
            return {'status': 'vacuous', 'ops': ops, 'outcome': 'hist: step %s not optimal' % step}
        if ok and abs(v - v_cf) > tol:
            return {'status': 'violation', 'ops': ops, 'sig': '%s|step %d (%s) value' % (tag, k, step),
                    'detail': 'value %.9g expected %.9g' % (v, v_cf)}
        S = cm.snapshot(b.m.do_math())
        if True:
            diff = cm.snap_diff(S_first, S)
            if diff:
                return {'status': 'violation', 'ops': ops, 'sig': '%s|cached primal changed after step %d (%s):%s' % (
                    tag, k, step, cm.snap_field(diff)), 'detail': diff}
    return {'status': 'pass', 'ops': ops, 'nontrivial': True, 'outcome': 'hist ok'}


def build_cut_model(mk):
    """Models whose exponent is chosen by the optimisation (not pinned): +3 / -3 at the exact optimum."""
    rso = _rs['rso']
    m = _rs['dro'].Model(1) if mk.startswith('dro_') else _rs['ro'].Model()
    x = m.dvar()
    y = m.dvar()
    if mk in ('exp_hi', 'dro_exp_hi'):
        m.max(x)
        m.st(rso.exp(x) <= y, y <= math.exp(3.0))
        exact = 3.0
    elif mk == 'exp_lo':
        m.min(100 * y + x)                    # 100 e^x + x is minimal at x = -log(100) < -3: the bound x >= -3 binds
        m.st(rso.exp(x) <= y, x >= -3.0)
        exact = 100 * math.exp(-3.0) - 3.0
    elif mk == 'log_hi':
        m.max(x)
        m.st(rso.log(y) >= x, y <= math.exp(3.0))
        exact = 3.0
    elif mk == 'pexp_hi':
        s_ = m.dvar()
        m.max(x)
        m.st(rso.pexp(x, s_) <= y, y <= 1.5 * math.exp(3.0), s_ == 1.5)    # 1.5 exp(x/1.5) <= 1.5 e^3: x/s = 3
        m.st(x <= 6)
        exact = 4.5
    else:
        raise ValueError(mk)
    return m, exact


def _cut_call(m, iface, how, degree, cuts):
    """One call on model m -> (verdict, user-sense value)."""
    import numpy as np
    if how == 'soc_solve':
        m.soc_solve(_solver(iface), degree=degree, cuts=cuts, display=False, params=_params(iface, degree))
        vd = _verdict(m, iface)
        return vd, (float(m.get()) if vd == 'optimal' else float('nan'))
    g = m.do_math().to_socp(degree, cuts)
    sol = _solver(iface).solve(g, display=False, params=_params(iface, degree))
    st = str(sol.status)
    ok = sol.x is not None and not np.isnan(sol.objval) and (st.startswith('Optimal') if iface == 'eco' else st == '2')
    if ok:
        return 'optimal', float(m.sign * sol.objval)
    if iface == 'eco':
        return ('infeasible' if st.startswith('Primal inf') else 'unbounded' if st.startswith('Dual inf')
                else 'other'), float('nan')
    return {'3': 'infeasible', '4': 'unbounded', '5': 'unbounded'}.get(st, 'other'), float('nan')


_cutref = {}


def run_cuts(case):
    mk, iface, how, seq = case['model'], case['iface'], case['how'], case['seq']
    tag = 'cuts|%s|%s|%s' % (mk, iface, how)
    refs = []
    for d, c in seq:
        key = (mk, iface, how, d, c)
        if key not in _cutref:
            mf, exact = build_cut_model(mk)
            try:
                _cutref[key] = _cut_call(mf, iface, how, d, CUTS[c]) + (exact,)
            except Exception as ex:  # noqa
                _cutref[key] = ('raises ' + type(ex).__name__, float('nan'), exact)
        refs.append(_cutref[key])
    m, exact = build_cut_model(mk)
    ops = 6
    label = ','.join('%d/%s' % (d, c) for d, c in seq)
    for k, ((d, c), (rv, rval, _)) in enumerate(zip(seq, refs)):
        ops += 1
        try:
            vd, val = _cut_call(m, iface, how, d, CUTS[c])
        except Exception as ex:  # noqa
            vd, val = 'raises ' + type(ex).__name__, float('nan')
        if rv == 'other' or vd == 'other':
            continue                     # an inaccurate solve on either side is inconclusive
        earlier = sorted(set('%s' % cc for _, cc in seq[:k]))
        ctx = 'call %d (cuts %s) after cuts %s' % (k, c, '+'.join(earlier) or 'none')
        if vd != rv:
            return {'status': 'violation', 'ops': ops, 'sig': '%s|%s: %s where a fresh model is %s' % (tag, ctx, vd, rv),
                    'detail': 'history %s' % label}
        if vd == 'optimal':
            tol = (2e-4 if iface == 'grb' else 2e-5) * (1 + abs(rval))
            if abs(val - rval) > tol:
                return {'status': 'violation', 'ops': ops,
                        'sig': '%s|%s: answer differs from a fresh model with the same degree and cuts' % (tag, ctx),
                        'detail': 'history %s: %.9g, fresh %.9g' % (label, val, rval)}
            if c != 'narrow' and abs(val - exact) > 1e-3 * abs(exact) + 2e-4:
                return {'status': 'violation', 'ops': ops, 'sig': '%s|%s: accuracy' % (tag, ctx),
                        'detail': 'history %s: %.9g, exact %.9g' % (label, val, exact)}
    vals = [r[1] for r in refs if r[0] == 'optimal']
    kinds = sorted(set(r[0] for r in refs))
    spread = (max(vals) - min(vals)) if len(vals) >= 2 else 0.0
    binds = spread > 1e-2 or len(kinds) > 1
    return {'status': 'pass', 'ops': ops, 'nontrivial': bool(binds), 'states': len(seq) + 1, 'validated': len(seq),
            'outcome': 'cuts ok %s %s fresh=%s %s' % (iface, how, '/'.join(kinds),
                                                      'narrow cut binds' if binds else 'same answer for all configs')}


def run_case(case):
    k = case['kind']
    if k == 'cuts':
        return run_cuts(case)
    if k == 'acc':
        return run_acc(case)
    if k == 'carry':
        return run_carry(case)
    return run_hist(case)
