"""C01 - robust solutions are feasible for every realisation of the attached uncertainty set.

State space: every RoSpec of the grammar in ro_specs.py (set kind x attachment x LDR mask x declaration
style x constraint form x sense x objective form x dimension x solver interface).  Oracle: the returned
x, y0, Y are substituted into the *spec's* tensors and every row is evaluated on the reference point list of
its set (exact vertices for polytopes, end points in 1-D, dense boundary lattice + exact facet corners for curved
2-D sets).  Every listed point is a member of the set by closed-form test, so a positive value is a real violation.
"""
import numpy as np

from . import ro_specs, ro_common
from ..ref import roref

PROPERTY = 'C01'
TIMEOUT = 120.0
CHUNK = 4
FLOOR = 0.4
RULE = ('union of exhaustive sub-products of the RoSpec grammar (P1 set kinds x families x attachments x '
        'orientations, P2 all dependency masks x declaration styles, P3 objective forms, P4 ordered pairs of '
        'different sets x attachments, P5 surface styles, P6 robust equalities, P7 dimensions 1 and 3); '
        'non-trivial = solve optimal AND at least one z-dependent row is within 1e-3 of active at its worst case')
ASSUMPTIONS = ['reference point lists are members of the set (closed-form membership); worst case over the list is a '
               'lower bound of the true worst case, so alarms are sound',
               'tolerance: 2e-6 HiGHS/GLOP, 2e-5 ECOS, 2e-4 Gurobi barrier, scaled by max(1,|solution|)',
               'a failed/raising solve makes the case vacuous (the statement is conditional on an optimal report)']
TRUSTED = ['CPython', 'NumPy', 'closed-form membership tests in rsmc/ref/sets.py', 'solver under the interface']

worker_init = ro_common.worker_init


def gen_cases(tier, seed):
    for spec in ro_specs.gen_specs(tier, seed):
        yield spec


def bounds(tier):
    return {'d': [1, 2, 3], 'nx': 2, 'ny<=': 2, 'palettes': 4 if tier == 'thorough' else 1,
            'set_kinds_d2': len(ro_specs.sets_catalog(2)), 'lattice_directions': 40000}


def run_case(spec):
    r = ro_common.solve_spec(spec)
    ops = r['ops']
    if r['status'] != 'optimal':
        return {'status': 'vacuous', 'outcome': r['status'] + ':' + r.get('stage', r.get('solver_status', '')),
                'ops': ops, 'detail': r.get('err')}
    sol = r['sol']
    tol = ro_common.TOL[spec.get('solver', 'def')] * ro_common.scale(spec, sol) * 4
    rows, obj = roref.eval_rows(spec, sol)
    tag = spec['tag']
    active = False
    for i, (row, ev) in enumerate(zip(spec['rows'], rows)):
        bad = None
        if row['sense'] == '<=' and ev['max'] > tol:
            bad = 'max g = %.3e > 0 at z=%s' % (ev['max'], ev['argmax'])
        elif row['sense'] == '>=' and ev['min'] < -tol:
            bad = 'min g = %.3e < 0' % ev['min']
        elif row['sense'] == '==' and max(abs(ev['max']), abs(ev['min'])) > tol:
            bad = 'equality residual %.3e' % max(abs(ev['max']), abs(ev['min']))
        if bad:
            return {'status': 'violation', 'sig': '%s|row%d%s infeasible' % (tag, i, row['sense']), 'ops': ops,
                    'detail': '%s ; sol=%s value=%s' % (bad, sol, r['value'])}
        if ev['robust']:
            edge = ev['max'] if row['sense'] == '<=' else -ev['min'] if row['sense'] == '>=' else 0.0
            if abs(edge) < 1e-3:
                active = True
    kind = spec['obj']['kind']
    val = r['value']
    if kind in ('min', 'minmax'):
        worst = max(o['max'] for o in obj)
        if val < worst - tol:
            return {'status': 'violation', 'sig': '%s|objective not an upper bound' % tag, 'ops': ops,
                    'detail': 'reported %.8g < worst-case objective %.8g' % (val, worst)}
    else:
        worst = min(o['min'] for o in obj)
        if val > worst + tol:
            return {'status': 'violation', 'sig': '%s|objective not a lower bound' % tag, 'ops': ops,
                    'detail': 'reported %.8g > worst-case objective %.8g' % (val, worst)}
    return {'status': 'pass', 'outcome': 'feasible' + ('+active' if active else ''), 'ops': ops,
            'nontrivial': bool(active)}
