"""C19 - formulation is deterministic and leaves user data untouched.

Sub-explorations (all exhaustive products / all words up to a length):
  rep   : model generator x every history over the generator's alphabet {P=do_math(), D=do_math(primal=False),
          S_<iface>=solve, Q_<iface>=soc_solve} up to length L.  After every step: the returned / cached
          standard form equals the one of a FRESH build (deep snapshots, numerical equality, -0.0 == 0.0),
          repeated solves return the same objective, global RNG states untouched.
  arr   : generator x user-array entry point x array variant {float32,int64,int32,Fortran,strided view,read-only,
          0-d,csr,csc}: same program and answer as with the float64 copy OF THE SAME VALUES, user array bytewise
          unchanged (bytes, dtype, shape, strides, flags; for views also the buffer they live in), read-only never
          raises where writable works.
  proc  : generator (x variant in the thorough tier): two subprocesses with different PYTHONHASHSEED build the model
          from the case JSON and print digests of primal / dual; equal to each other and to this process.
  assign: ro generators: expr(z.assign(arr)) after a solve for every variant of arr.
  redecl: words X, R, Y with X, Y in {P, D, S_def, S_eco} and R a RE-declaration made after X (dro: probset new /
          same, suppset new through fset[k] for all k / fset[k] / loc / iloc, an additional exptset, a further row;
          ro / deterministic: a further (robust) row, a bound, forall() called again on a stated constraint): what
          Y returns must be the program and the optimum of a FRESH build that makes the final declarations only.
  rhs   : host {ro.Model, directly used gcp.Model, dro.Model} x atom {exp, softplus, pexp, log, plog, exp/log summed
          over an axis, entropy, pnorm | abs, 1-norm, inf-norm | square, power, norm, sumsqr, quad} x multiplier
          {k > 1, k < 1, 1} x operand form {k*f <= b, f*k <= b, b >= k*f, -k*f >= -b (mirrored for concave atoms)}
          x right-hand side {constant ARRAY, python scalar, array + variable, array + 0*variable} x history
          X, r, Y and X, r, X', r', Y with X.. in {P, D, S_eco} and r a REDUNDANT declaration (looser bound, slack
          row): every re-formulation returns the program and the optimum of a FRESH build of the final declarations,
          the optimum equals the closed form (element-wise atoms: sum ln t, sum e^t, sum sqrt t ...), intermediate
          solves keep the optimum, the user's right-hand side array is bytewise unchanged.
  soc2  : process-history independence of GCProg.to_socp / soc_solve: for every call c2 = (model, api in {to_socp,
          soc_solve(eco)}, args in {(), (6), (4,(-30,60)), (4,(-1,.5)), (6,(-1,.5)), (6,(-7,13)), (4,(-7,13)) ...})
          the reference is the SAME call made as the only call of a FRESH subprocess (program digest, optimum);
          c2 made alone in the long-lived worker, and c2 made after every c1 of the same alphabet on the same model
          object / another object of the same model / every other model, must return exactly that.
"""
import itertools
import json
import os
import subprocess
import sys

from ..ref.c08c18c19_c19models import GENS, VARIANTS, applicable, REDECL, REDECL_CLS, INCR
from ..ref.c08c18c19_c19models import RHS_ATOMS, RHS_HOSTS, RHS_REDUNDANT, SOC2_MODELS, SOC2_ARGS

PROPERTY = 'C19'
TIMEOUT = 120.0
CHUNK = 8
FLOOR = 0.5
RULE = ('rep: 14 generators (LP, MILP, SOCP, exp-cone; ro box/1-norm/2-norm/polytope/LDR/exp set; dro box and lifted '
        '2-norm supports with expectation sets) x all words of length <= L over the class alphabet (LP: P,D,S_def,'
        'S_eco,S_grb,S_ort; MILP same; SOCP: P,D,S_eco,S_grb; EXP: P,D,S_eco,Q_eco,Q_grb); arr: every named user '
        'array of every generator x every applicable variant, plus all arrays at once; proc: every generator in two '
        'subprocesses with different hash seeds.  Non-trivial: the history contains at least two steps of which one '
        'formulates or solves again after an earlier one (rep) / the variant array is really a different object '
        'class than the float64 baseline and the program depends on it (arr) / both subprocess digests were '
        'obtained (proc); rhs: 17 atoms x hosts x (multiplier, operand form, right-hand side kind) combinations x '
        'histories formulate, redundant declaration, formulate (, redundant declaration, formulate) against a fresh '
        'build of the final declarations and the closed-form optimum - non-trivial: multiplier != 1 and at least '
        'two formulations; soc2: every (model, degree/cuts argument tuple) as to_socp and soc_solve, alone and after '
        'every other call of the alphabet on the same object / same model / other models, against the same call in a '
        'fresh subprocess - non-trivial: the reference was obtained, soc_solve optimal there and programs of '
        'different argument tuples really differ')
ASSUMPTIONS = [
    'standard forms are compared numerically (np.array_equal after mapping -0.0 to 0.0), not bytewise',
    'a non-float64 array is compared with the float64 copy of the same values',
    'objective tolerances: HiGHS/OR-tools/Gurobi LP 1e-6(1+|v|), ECOS 1e-5, Gurobi SOCP 2e-4, soc_solve 1e-3|v|+2e-4',
    'a history is cut at its first violation (steps after a corrupting step are not judged)',
    'rsome raising on a non-read-only variant (e.g. a dtype it does not accept) is "unsupported", not a violation',
    'rhs: a combination whose FRESH build raises (dro with pexp / plog / summed atoms) is "unsupported"; the closed form '
    'is held against a history only when the fresh build reproduces it (2e-5 relative); dead columns kept by a '
    're-formulated ro / dro program (known finding of the redecl family) are not held against this family',
    'soc2: the fresh-process reference makes the to_socp call on one fresh model and the soc_solve call on another '
    'fresh model with the same arguments; optima are compared with 1e-5(1+|v|), programs by digest',
]
TRUSTED = ['NumPy array_equal / tobytes', 'hashlib digests', 'ECOS, HiGHS, Gurobi, OR-tools as solvers']

ALPHA = {
    'lp': ['P', 'D', 'S_def', 'S_eco', 'S_grb', 'S_ort'],
    'milp': ['P', 'D', 'S_def', 'S_eco', 'S_grb', 'S_ort'],
    'soc': ['P', 'D', 'S_eco', 'S_grb'],
    'exp': ['P', 'D', 'S_eco', 'Q_eco', 'Q_grb'],
}
HASHSEEDS = ('1', '987654')


def gen_cases(tier, seed):
    thorough = tier == 'thorough'
    L = 4 if thorough else 3
    # proc first (slowest single cases), simplest generators first
    for g in GENS:
        yield {'kind': 'proc', 'gen': g, 'which': None, 'variant': 'f64'}
    if thorough:
        for g in GENS:
            for v in ('f32', 'strided', 'readonly', 'fortran'):
                yield {'kind': 'proc', 'gen': g, 'which': '*', 'variant': v}
    for g, spec in GENS.items():
        for name in list(spec['arrays']) + ['*']:
            for v in VARIANTS[1:]:
                if name == '*':
                    if v not in ('f32', 'fortran', 'strided', 'readonly'):
                        continue
                elif not applicable(g, name, v):
                    continue
                yield {'kind': 'arr', 'gen': g, 'which': name, 'variant': v}
    for g in GENS:
        if g.startswith('ro_'):
            for v in ('f64', 'f32', 'i64', 'i32', 'strided', 'readonly'):
                yield {'kind': 'assign', 'gen': g, 'variant': v}
    # directly used lp / socp / gcp model classes: declare k things, formulate / solve, declare the rest
    for fl, nd in INCR.items():
        for k in range(1, nd):
            for mid in ('P', 'D', 'S'):
                for fin in ('P', 'D', 'S'):
                    yield {'kind': 'incr', 'fl': fl, 'splits': [k], 'mid': mid, 'fin': fin}
        for k1 in range(1, nd):
            for k2 in range(k1 + 1, nd):
                for mid in ('P', 'S'):
                    yield {'kind': 'incr', 'fl': fl, 'splits': [k1, k2], 'mid': mid, 'fin': 'P'}
    for g, rl in REDECL.items():
        xy = ['P', 'D', 'S_def', 'S_eco'] if REDECL_CLS[g] == 'lp' else ['P', 'D', 'S_eco']
        for r in rl:
            for x in xy:
                for y in xy:
                    yield {'kind': 'redecl', 'gen': g, 'r': r, 'x': x, 'y': y}
    yield from _gen_soc2(thorough)
    yield from _gen_rhs(thorough, seed)
    for n in range(1, L + 1):
        for g, spec in GENS.items():
            for h in itertools.product(ALPHA[spec['cls']], repeat=n):
                yield {'kind': 'rep', 'gen': g, 'hist': list(h)}


RHS_K = ((2, 0.5), (4, 0.25), (2, 0.25), (4, 0.5))       # vetted multiplier palettes (VERIF_SEED % 4), dyadic
# (multiplier index / 1, operand form, right-hand side kind)
RHS_COMBOS = ((0, 'L', 'arr'), (0, 'R', 'arr'), (0, 'G', 'arr'), (0, 'N', 'arr'), (1, 'L', 'arr'), (None, 'L', 'arr'),
              (0, 'L', 'sc'), (1, 'G', 'mix'), (0, 'L', 'aff'), (1, 'N', 'arr'), (1, 'G', 'sc'), (0, 'R', 'mix'))
RHS_COMBOS_QUICK = 9            # quick tier: the first nine for the exp-cone atoms ...
RHS_COMBOS_QUICK_LPSOC = ((0, 'L', 'arr'), (0, 'R', 'arr'), (0, 'G', 'arr'), (1, 'N', 'arr'), (0, 'L', 'sc'))   # ... these for lp / soc atoms
RHS_STEPS = ('P', 'D', 'S')


def _rhs_hists(thorough):
    """Histories X, r, Y (one re-formulation) and X, r, X', r', Y (two): X.. in {P, D, S}, r in the redundant
    declarations.  thorough: all of them; quick: all nine X, bound, Y; row with X = Y in {P, S}; three doubles."""
    r1, r2 = RHS_REDUNDANT
    for x in RHS_STEPS:
        for y in RHS_STEPS:
            yield [x, r1, y]
    for x in RHS_STEPS:
        for y in RHS_STEPS:
            if thorough or (x == y and x != 'D'):
                yield [x, r2, y]
    for x in RHS_STEPS:
        for x2 in RHS_STEPS:
            for y in RHS_STEPS:
                if thorough or (x, x2, y) in (('S', 'S', 'S'), ('P', 'P', 'P'), ('D', 'S', 'P')):
                    yield [x, r1, x2, r2, y]
                    if thorough:
                        yield [x, r2, x2, r1, y]


def _gen_rhs(thorough, seed):
    ks = RHS_K[seed % len(RHS_K)]
    hosts = RHS_HOSTS if thorough else ('ro', 'gcp')
    for host in hosts:
        for atom in RHS_ATOMS:
            combos = RHS_COMBOS if thorough else RHS_COMBOS[:RHS_COMBOS_QUICK]
            if not thorough and RHS_ATOMS[atom][3] != 'exp':
                combos = RHS_COMBOS_QUICK_LPSOC
            for ki, form, kind in combos:
                k = 1 if ki is None else ks[ki]
                for h in _rhs_hists(thorough):
                    yield {'kind': 'rhs', 'host': host, 'atom': atom, 'k': k, 'form': form, 'rhs': kind, 'hist': h}
    if not thorough:        # the dro host in the quick tier: element-wise exp-cone and soc atoms, array right-hand side
        for atom in ('exp', 'log', 'softplus', 'square', 'abs'):
            for ki, form, kind in ((0, 'L', 'arr'), (1, 'G', 'arr'), (0, 'N', 'sc')):
                for h in (['S', 'bound', 'S'], ['P', 'row', 'P'], ['P', 'bound', 'D', 'row', 'S']):
                    yield {'kind': 'rhs', 'host': 'dro', 'atom': atom, 'k': ks[ki], 'form': form, 'rhs': kind,
                           'hist': h}


def _gen_soc2(thorough):
    models = SOC2_MODELS if thorough else SOC2_MODELS[:3]
    args = SOC2_ARGS if thorough else SOC2_ARGS[:7]
    for mdl in models:
        for a in args:
            yield {'kind': 'soc2', 'model': mdl, 'args': a, 'others': list(models), 'alpha': [list(x) for x in args],
                   'full': thorough}


def exhaustive(tier):
    return True


def bounds(tier):
    th = tier == 'thorough'
    return {'generators': len(GENS), 'history_length': 4 if th else 3, 'variants': len(VARIANTS),
            'named_user_arrays': sum(len(s['arrays']) for s in GENS.values()), 'subprocess_hashseeds': list(HASHSEEDS),
            'rhs_atoms': list(RHS_ATOMS), 'rhs_hosts': list(RHS_HOSTS) if th else ['ro', 'gcp', 'dro (5 atoms)'],
            'rhs_combinations_per_atom': len(RHS_COMBOS) if th else '%d (exp-cone atoms) / %d (lp, soc atoms)' % (
                RHS_COMBOS_QUICK, len(RHS_COMBOS_QUICK_LPSOC)),
            'rhs_multiplier_palettes': [list(k) + [1] for k in RHS_K],
            'rhs_histories_per_combination': len(list(_rhs_hists(th))), 'rhs_max_formulations': 3,
            'soc2_models': list(SOC2_MODELS if th else SOC2_MODELS[:3]),
            'soc2_argument_tuples': [list(a) for a in (SOC2_ARGS if th else SOC2_ARGS[:7])],
            'soc2_first_call_apis': 'to_socp and soc_solve' if th else
            'to_socp and soc_solve on the same object, to_socp on other objects'}


# ------------------------------------------------------------------------------------------------
_rs = {}
_ref = {}


def worker_init():
    from ..ref import c08c18c19_common as cm
    from ..ref import c08c18c19_c19models as M
    _rs.update(cm.load())
    _rs['cm'] = cm
    _rs['M'] = M


def _rng_state():
    import random
    import numpy as np
    st = np.random.get_state()
    return (st[0], st[1].tobytes(), st[2], st[3], st[4]), random.getstate()


def _solver(iface):
    return {'def': None, 'eco': _rs['eco'], 'grb': _rs['grb'], 'ort': _rs['ort']}[iface]


def _opt(m, iface):
    import numpy as np
    sol = m.solution
    if sol is None or sol.x is None:
        return False, float('nan')
    st = str(sol.status)
    good = {'eco': st.startswith('Optimal'), 'def': st == '0', 'grb': st == '2', 'ort': st == '0'}[iface]
    if not good:
        return False, float('nan')
    try:
        v = float(m.get())
    except Exception:  # noqa
        return False, float('nan')
    return (not np.isnan(v)), v


def _tol(step, cls, v):
    kind, iface = step.split('_')
    if kind == 'Q':
        return 1e-3 * abs(v) + 2e-4
    if iface == 'eco':
        return 1e-5 * (1 + abs(v))
    if iface == 'grb' and cls in ('soc',):
        return 2e-4 * (1 + abs(v))
    return 1e-6 * (1 + abs(v))


def _fresh(gen):
    M = _rs['M']
    given, _, _ = M.arrays_for(gen)
    m, extra = M.build(gen, given)
    return m, extra


def reference(gen):
    """Snapshots of primal and dual from fresh builds, and the reference objective (cached per worker)."""
    if gen in _ref:
        return _ref[gen]
    cm = _rs['cm']
    cls = GENS[gen]['cls']
    m, _ = _fresh(gen)
    P0 = cm.snapshot(m.do_math())
    m2, _ = _fresh(gen)
    D0 = cm.snapshot(m2.do_math(primal=False))
    m3, _ = _fresh(gen)
    iface = 'grb' if cls == 'milp' else 'eco'
    m3.solve(_solver(iface), display=False)
    ok, v = _opt(m3, iface)
    _ref[gen] = {'P': P0, 'D': D0, 'obj': v if ok else None}
    return _ref[gen]


def do_step(m, step):
    """-> (formula or None, (ok, value) or None)"""
    if step == 'P':
        return m.do_math(), None
    if step == 'D':
        return m.do_math(primal=False), None
    kind, iface = step.split('_')
    prm = {'TimeLimit': 5, 'NonConvex': 1} if iface == 'grb' else {}
    if kind == 'S':
        if iface == 'def':
            m.solve(display=False)
        else:
            m.solve(_solver(iface), display=False, params=prm)
    else:
        m.soc_solve(_solver(iface), display=False, params=prm)
    return None, _opt(m, iface)


def run_rep(case):
    cm = _rs['cm']
    gen, hist = case['gen'], case['hist']
    cls = GENS[gen]['cls']
    ref = reference(gen)
    rng0 = _rng_state()
    m, _ = _fresh(gen)
    ops = 12
    states = 1
    first_val = {}
    outcome = []

    def viol(step, what, detail):
        return {'status': 'violation', 'sig': 'rep|%s|%s|%s' % (gen, step, what), 'detail': 'history %s: %s' % (
            ','.join(hist), detail), 'ops': ops, 'states': states, 'outcome': 'viol'}

    if _rng_state() != rng0:
        return viol('build', 'global RNG state consumed', '')
    solved = 0
    for k, step in enumerate(hist):
        ops += 1
        states += 1
        try:
            f, res = do_step(m, step)
        except Exception as ex:  # noqa
            # differential: does the same step raise on a fresh model?
            try:
                mf, _ = _fresh(gen)
                do_step(mf, step)
            except Exception:  # noqa
                return {'status': 'unsupported', 'ops': ops, 'outcome': 'step %s raises on a fresh model too' % step}
            return viol(step, 'raises %s after %s' % (type(ex).__name__, '+'.join(sorted(set(hist[:k]))) or 'nothing'),
                        str(ex)[:160])
        if step in ('P', 'D'):
            d = cm.snap_diff(ref[step], cm.snapshot(f))
            if d:
                return viol(step, 'differs from a fresh build:' + cm.snap_field(d), 'step %d: %s' % (k, d))
        else:
            ok, v = res
            if ok:
                solved += 1
                if ref['obj'] is not None and abs(v - ref['obj']) > max(_tol(step, cls, v), _tol('S_eco', cls, v)):
                    return viol(step, 'objective differs from a fresh solve', 'step %d: %.9g vs %.9g' % (k, v,
                                                                                                        ref['obj']))
                if step in first_val and abs(v - first_val[step]) > _tol(step, cls, v):
                    return viol(step, 'repeated solve gives another objective', '%.9g vs %.9g' % (v, first_val[step]))
                first_val.setdefault(step, v)
            else:
                outcome.append(step + ' not optimal')
        # the cached primal must still be the fresh one (pure cache lookup after any step)
        d = cm.snap_diff(ref['P'], cm.snapshot(m.do_math()))
        if d:
            return viol(step, 'cached primal changed:' + cm.snap_field(d), 'step %d: %s' % (k, d))
        if _rng_state() != rng0:
            return viol(step, 'global RNG state consumed', 'step %d' % k)
    try:
        d = cm.snap_diff(ref['D'], cm.snapshot(m.do_math(primal=False)))
    except Exception as ex:  # noqa
        return viol('final D', 'raises ' + type(ex).__name__, str(ex)[:160])
    if d:
        return viol('final D', 'dual differs from a fresh build:' + cm.snap_field(d), d)
    kinds = ''.join(sorted(set(s[0] for s in hist)))
    return {'status': 'pass', 'ops': ops, 'states': states, 'transitions': len(hist) + 2,
            'nontrivial': len(hist) >= 2, 'validated': 1,
            'outcome': 'rep ok %s kinds=%s%s' % (cls, kinds, (' [' + ';'.join(sorted(set(outcome))) + ']') if outcome
                                                else '')}


def _pipeline(cls):
    if cls == 'lp':
        return ['P', 'D', 'S_def', 'S_eco']
    if cls == 'milp':
        return ['P', 'D', 'S_grb']
    if cls == 'soc':
        return ['P', 'D', 'S_eco']
    return ['P', 'D', 'S_eco', 'Q_eco']


def run_arr(case):
    import numpy as np
    cm, M = _rs['cm'], _rs['M']
    gen, which, variant = case['gen'], case['which'], case['variant']
    cls = GENS[gen]['cls']
    tag = 'arr|%s|%s|%s' % (gen, which, variant)
    # ---- reference: float64 copies of the same values
    given, refs, watch = M.arrays_for(gen, which, variant)
    mr, _ = M.build(gen, {k: np.array(v, dtype=np.float64) for k, v in refs.items()})
    Pr = cm.snapshot(mr.do_math())
    mr2, _ = M.build(gen, {k: np.array(v, dtype=np.float64) for k, v in refs.items()})
    Dr = cm.snapshot(mr2.do_math(primal=False))
    fps = {k: M.fingerprint(a, keep) for k, (a, keep) in watch.items()}
    rng0 = _rng_state()
    ops = 10

    def changed():
        for k, (a, keep) in watch.items():
            if M.fingerprint(a, keep) != fps[k]:
                return k
        return None

    def raised(where, ex):
        if variant == 'readonly':
            return {'status': 'violation', 'sig': '%s|%s raises %s' % (tag, where, type(ex).__name__), 'ops': ops,
                    'detail': str(ex)[:200]}
        return {'status': 'unsupported', 'ops': ops, 'outcome': 'unsupported %s: %s raises %s' % (variant, where,
                                                                                               type(ex).__name__),
                'detail': str(ex)[:200]}
    try:
        m, _ = M.build(gen, given)
    except Exception as ex:  # noqa
        return raised('build', ex)
    k = changed()
    if k:
        return {'status': 'violation', 'sig': '%s|user array %s modified by build' % (tag, k), 'ops': ops, 'detail': ''}
    vals = {}
    note = ''
    for step in _pipeline(cls):
        ops += 1
        try:
            f, res = do_step(m, step)
        except Exception as ex:  # noqa
            return raised(step, ex)
        k = changed()
        if k:
            return {'status': 'violation', 'sig': '%s|user array %s modified by %s' % (tag, k, step), 'ops': ops,
                    'detail': ''}
        if _rng_state() != rng0:
            return {'status': 'violation', 'sig': '%s|global RNG state consumed by %s' % (tag, step), 'ops': ops,
                    'detail': ''}
        if step in ('P', 'D'):
            d = cm.snap_diff(Pr if step == 'P' else Dr, cm.snapshot(f))
            if d and variant in ('f32', 'f32fortran') and not cm.snap_diff(Pr if step == 'P' else Dr, cm.snapshot(f), rtol=1e-6):
                # same values, but rsome computed with them in single precision (e.g. sqrtm of a float32 matrix):
                # a float32-precision difference is not held against the property
                note = ' (single-precision arithmetic)'
                d = ''
            if d:
                return {'status': 'violation', 'sig': '%s|%s differs from float64 build:%s' % (tag, step,
                                                                                             cm.snap_field(d)),
                        'ops': ops, 'detail': d}
        else:
            ok, v = res
            if ok:
                vals[step] = v
    # same answer as the float64 build
    ops += 1
    mr.solve(_solver('grb' if cls == 'milp' else 'eco'), display=False)
    okr, vr = _opt(mr, 'grb' if cls == 'milp' else 'eco')
    for step, v in vals.items():
        if okr and abs(v - vr) > max(_tol(step, cls, v), 1e-5 * (1 + abs(vr))):
            return {'status': 'violation', 'sig': '%s|%s objective differs from float64 build' % (tag, step),
                    'ops': ops, 'detail': '%.9g vs %.9g' % (v, vr)}
    return {'status': 'pass', 'ops': ops, 'nontrivial': bool(vals) and variant != 'f64', 'validated': 1,
            'outcome': 'arr ok %s %s%s' % (cls, variant, note)}


def run_assign(case):
    import numpy as np
    M = _rs['M']
    gen, variant = case['gen'], case['variant']
    tag = 'assign|%s|%s' % (gen, variant)
    given, _, _ = M.arrays_for(gen)
    m, ex = M.build(gen, given)
    m.solve(_rs['eco'], display=False)
    ok, v = _opt(m, 'eco')
    if not ok:
        return {'status': 'vacuous', 'ops': 12, 'outcome': 'assign: solve not optimal'}
    vals = [2, -1] if variant in ('i64', 'i32') else [0.5, -0.75]
    arr, ref, keep = M.make_variant(vals, variant)
    fp = M.fingerprint(arr, keep)
    try:
        got = ex['expr'](ex['z'].assign(arr))
    except Exception as e:  # noqa
        if variant == 'readonly':
            return {'status': 'violation', 'sig': tag + '|raises ' + type(e).__name__, 'ops': 14, 'detail': str(e)[:160]}
        return {'status': 'unsupported', 'ops': 14, 'outcome': 'unsupported assign ' + variant}
    if M.fingerprint(arr, keep) != fp:
        return {'status': 'violation', 'sig': tag + '|user array modified', 'ops': 14, 'detail': ''}
    want = float(ref @ ex['x'].get() + 2)
    if abs(float(np.asarray(got).reshape(-1)[0]) - want) > 1e-9 * (1 + abs(want)):
        return {'status': 'violation', 'sig': tag + '|value', 'ops': 14, 'detail': '%r vs %r' % (got, want)}
    return {'status': 'pass', 'ops': 14, 'nontrivial': abs(want - 2) > 1e-6, 'outcome': 'assign ok ' + variant}


def _spawn(case, hashseed):
    from .. import VERIF, REPO
    env = dict(os.environ)
    env['PYTHONHASHSEED'] = hashseed
    env['RSMC_REPO'] = REPO
    env['PYTHONWARNINGS'] = 'ignore'
    code = ("import sys; sys.path.insert(0, %r); sys.path.insert(0, %r); "
            "from rsmc.ref import c08c18c19_c19models as M; M.main(['', sys.argv[1]])" % (VERIF, REPO))
    p = subprocess.run([sys.executable, '-c', code, json.dumps(case)], env=env, capture_output=True, text=True,
                       timeout=100)
    for line in p.stdout.splitlines()[::-1]:
        if line.startswith('DIGEST '):
            return json.loads(line[7:]), ''
    return None, (p.stderr or p.stdout)[-300:]


def run_proc(case):
    M = _rs['M']
    gen = case['gen']
    tag = 'proc|%s|%s' % (gen, case.get('variant', 'f64'))
    here = M.digests(gen, case.get('which'), case.get('variant', 'f64'))
    here2 = M.digests(gen, case.get('which'), case.get('variant', 'f64'))
    for k in ('P', 'D', 'P_after_D'):
        if here[k] != here2[k]:
            return {'status': 'violation', 'sig': '%s|two builds in one process differ:%s' % (tag, k), 'ops': 8,
                    'detail': '%s vs %s' % (here[k], here2[k])}
    if here['P'] != here['P_after_D']:
        return {'status': 'violation', 'sig': tag + '|primal after dual differs from primal', 'ops': 8, 'detail': ''}
    got = []
    for hs in HASHSEEDS:
        d, err = _spawn(case, hs)
        if d is None:
            return {'status': 'vacuous', 'ops': 8, 'outcome': 'proc: subprocess failed', 'detail': err}
        got.append(d)
        for k in ('P', 'D', 'P_after_D'):
            if d[k] != here[k]:
                return {'status': 'violation', 'sig': '%s|subprocess (PYTHONHASHSEED differs) builds another %s' % (
                    tag, k), 'ops': 16, 'detail': 'hashseed %s: %s vs %s' % (hs, d[k], here[k])}
    return {'status': 'pass', 'ops': 24, 'nontrivial': len(got) == 2 and got[0]['hashseed'] != got[1]['hashseed'],
            'states': 4, 'validated': 3, 'outcome': 'proc ok'}


def _live_columns(S):
    """Snapshot without dead columns (all-zero column, zero objective, in no cone) and without dead rows (all-zero
    row with zero right-hand side - what a dead primal column becomes in the dual)."""
    import numpy as np
    cm = _rs['cm']
    rows = np.any(S['linear'] != 0, axis=1) | (S['const'] != 0)
    if not rows.all():
        S = cm.deepcopy_snapshot(S)
        S['linear'] = S['linear'][rows]
        S['const'] = S['const'][rows]
        S['sense'] = S['sense'][rows]
        S['shape'] = (int(rows.sum()), S['shape'][1])
    used = np.any(S['linear'] != 0, axis=0) | (S['obj'] != 0)
    for q in S['qmat'] + S['xmat']:
        used[q] = True
    keep = np.flatnonzero(used)
    remap = {int(j): i for i, j in enumerate(keep)}
    T = cm.deepcopy_snapshot(S)
    T['linear'] = S['linear'][:, keep]
    for f in ('ub', 'lb', 'obj'):
        T[f] = S[f][keep]
    T['vtype'] = ''.join(S['vtype'][j] for j in keep)
    T['qmat'] = [[remap[i] for i in q] for q in S['qmat']]
    T['xmat'] = [[remap[i] for i in q] for q in S['xmat']]
    T['shape'] = (S['shape'][0], len(keep))
    return T, S['shape'][1] - len(keep)


def run_redecl(case):
    cm, M = _rs['cm'], _rs['M']
    gen, r, X, Y = case['gen'], case['r'], case['x'], case['y']
    cls = REDECL_CLS[gen]
    tag = 'redecl|%s|%s' % (gen, r)
    # ---- references: before the re-declaration, and a fresh build with the final declarations only
    key = ('redecl', gen, r)
    if key not in _ref:
        ref = {}
        for nm, fin in (('old', ()), ('new', (r,))):
            m1, _ = M.redecl_build(gen, fin)
            P = cm.snapshot(m1.do_math())
            m2, _ = M.redecl_build(gen, fin)
            D = cm.snapshot(m2.do_math(primal=False))
            m3, _ = M.redecl_build(gen, fin)
            m3.solve(_solver('eco'), display=False)
            ok, v = _opt(m3, 'eco')
            ref[nm] = {'P': P, 'D': D, 'obj': v if ok else None}
        _ref[key] = ref
    ref = _ref[key]
    m, h = M.redecl_build(gen)
    ops = 14
    rng0 = _rng_state()
    try:
        do_step(m, X)
        M.redecl_apply(h, r)
        f, res = do_step(m, Y)
    except Exception as ex:  # noqa
        return {'status': 'violation', 'ops': ops, 'sig': '%s|%s,R,%s raises %s' % (tag, X[0], Y[0],
                                                                                   type(ex).__name__),
                'detail': str(ex)[:200]}
    if _rng_state() != rng0:
        return {'status': 'violation', 'ops': ops, 'sig': tag + '|global RNG state consumed', 'detail': ''}
    differs = bool(cm.snap_diff(ref['old']['P'], ref['new']['P']))
    which = 'D' if Y == 'D' else 'P'
    got = cm.snapshot(f if Y in ('P', 'D') else m.do_math())
    if Y not in ('P', 'D'):
        ok, v = res
        if ok and ref['new']['obj'] is not None and abs(v - ref['new']['obj']) > max(_tol(Y, cls, v), 1e-5 * (1 + abs(v))):
            stale = ref['old']['obj'] is not None and abs(v - ref['old']['obj']) <= 1e-5 * (1 + abs(v))
            return {'status': 'violation', 'ops': ops,
                    'sig': '%s|Y=%s objective %s' % (tag, Y, 'is the one of BEFORE the re-declaration (stale cache)'
                                                     if stale else 'differs from the fresh final build'),
                    'detail': 'X=%s: %.9g, fresh final %.9g, before %s' % (X, v, ref['new']['obj'], ref['old']['obj'])}
    d = cm.snap_diff(ref['new'][which], got)
    if d:
        gl, dead = _live_columns(got)
        fl, dead_f = _live_columns(ref['new'][which])
        if not cm.snap_diff(fl, gl):
            return {'status': 'violation', 'ops': ops,
                    'sig': '%s|Y=%s program grown: dead columns of the previous formulation are kept' % (tag, which),
                    'detail': 'X=%s: shape %s instead of %s (dead columns %d, fresh %d); live part identical' % (
                        X, got['shape'], ref['new'][which]['shape'], dead, dead_f)}
        ol, _ = _live_columns(ref['old'][which])
        stale = differs and not cm.snap_diff(ol, gl)
        return {'status': 'violation', 'ops': ops,
                'sig': '%s|Y=%s %s' % (tag, which, 'is the program of BEFORE the re-declaration (stale cache)' if stale
                                       else 'differs from the fresh final build:' + cm.snap_field(d)),
                'detail': 'X=%s: %s' % (X, d)}
    return {'status': 'pass', 'ops': ops, 'nontrivial': differs, 'states': 3, 'validated': 1,
            'outcome': 'redecl ok %s %s' % (cls, 'changes the program' if differs else 'same program')}


def _direct_step(m, fl, step):
    """P / D / S on a directly used lp / socp / gcp model -> (formula or None, (ok, objective) or None)."""
    if step == 'P':
        return m.do_math(), None
    if step == 'D':
        return m.do_math(primal=False), None
    if fl == 'lp':
        m.solve(display=False)
        iface = 'def'
    else:
        m.solve(_rs['eco'], display=False)
        iface = 'eco'
    return None, _opt(m, iface)


def run_incr(case):
    cm, M = _rs['cm'], _rs['M']
    fl, splits, mid, fin = case['fl'], case['splits'], case['mid'], case['fin']
    key = ('incr', fl)
    if key not in _ref:
        ref = {}
        m1, d1 = M.incr_model(fl)
        for d in d1:
            d()
        ref['P'] = cm.snapshot(m1.do_math())
        m2, d2 = M.incr_model(fl)
        for d in d2:
            d()
        ref['D'] = cm.snapshot(m2.do_math(primal=False))
        m3, d3 = M.incr_model(fl)
        for d in d3:
            d()
        _, (ok, v) = _direct_step(m3, fl, 'S')
        ref['obj'] = v if ok else None
        _ref[key] = ref
    ref = _ref[key]
    rng0 = _rng_state()
    m, decl = M.incr_model(fl)
    ops = 6
    exp_before = False
    pos = 0
    try:
        for k in splits:
            for d in decl[pos:k]:
                d()
            if any(e < k for e in M.INCR_EXP_DECL.get(fl, ())):
                exp_before = True
            pos = k
            _direct_step(m, fl, mid)
            ops += k + 1
        for d in decl[pos:]:
            d()
        f, res = _direct_step(m, fl, fin)
    except Exception as ex:  # noqa
        return {'status': 'violation', 'ops': ops, 'sig': 'incr|%s|mid=%s|fin=%s raises %s' % (fl, mid, fin,
                                                                                          type(ex).__name__),
                'detail': 'splits %s: %s' % (splits, str(ex)[:160])}
    tag = 'incr|%s|mid=%s|exp atom declared before the intermediate formulation=%s' % (fl, mid,
                                                                                     'yes' if exp_before else 'no')
    if _rng_state() != rng0:
        return {'status': 'violation', 'ops': ops, 'sig': tag + '|global RNG state consumed', 'detail': ''}
    if fin == 'S':
        ok, v = res
        if ok and ref['obj'] is not None and abs(v - ref['obj']) > 1e-5 * (1 + abs(v)):
            return {'status': 'violation', 'ops': ops, 'sig': tag + '|optimum differs from the fresh build',
                    'detail': 'splits %s: %.9g vs fresh %.9g' % (splits, v, ref['obj'])}
        got, which = cm.snapshot(m.do_math()), 'P'
    else:
        got, which = cm.snapshot(f), fin
    d = cm.snap_diff(ref[which], got)
    if d:
        return {'status': 'violation', 'ops': ops,
                'sig': '%s|%s after incremental declaration differs from the fresh build:%s' % (tag, which,
                                                                                             cm.snap_field(d)),
                'detail': 'splits %s: %s' % (splits, d)}
    # same optimum (also for P / D: solve what was returned)
    if fin in ('P', 'D') and ref['obj'] is not None:
        vv, val, _, _ = cm.solve_formula(f, 'def' if fl == 'lp' else 'eco')
        want = ref['obj'] if fin == 'P' else -ref['obj']
        if vv == 'optimal' and abs(val - want) > 1e-5 * (1 + abs(want)):
            return {'status': 'violation', 'ops': ops, 'sig': tag + '|optimum differs from the fresh build',
                    'detail': 'splits %s: %.9g vs %.9g' % (splits, val, want)}
    return {'status': 'pass', 'ops': ops, 'nontrivial': True, 'states': len(splits) + 1, 'validated': 1,
            'outcome': 'incr ok %s splits=%d' % (fl, len(splits))}


def _rhs_step(m, step):
    if step == 'P':
        return m.do_math(), None
    if step == 'D':
        return m.do_math(primal=False), None
    m.solve(_rs['eco'], display=False)
    return None, _opt(m, 'eco')


def run_rhs(case):
    """formulate -> redundant declaration -> formulate (-> redundant declaration -> formulate) of a model with the
    constraint  k * atom(x) <= / >= b  against a fresh build of the final declarations and the closed form."""
    cm, M = _rs['cm'], _rs['M']
    spec = {'host': case['host'], 'atom': case['atom'], 'k': case['k'], 'form': case['form'], 'kind': case['rhs']}
    hist = case['hist']
    reds = tuple(s for s in hist if s in RHS_REDUNDANT)
    steps = [s for s in hist if s not in RHS_REDUNDANT]
    kcls = 'k=1' if case['k'] == 1 else ('k>1' if case['k'] > 1 else 'k<1')
    tag = 'rhs|%s|%s|%s|form %s|rhs %s' % (case['host'], case['atom'], kcls, case['form'], case['rhs'])
    ops = 9 + len(hist)
    key = ('rhs', json.dumps(spec, sort_keys=True), reds)
    if key not in _ref:
        ref = {}
        try:
            m1, _ = M.rhs_build(spec, reds)
            ref['P'] = cm.snapshot(m1.do_math())
            m2, _ = M.rhs_build(spec, reds)
            ref['D'] = cm.snapshot(m2.do_math(primal=False))
            m3, _ = M.rhs_build(spec, reds)
            _, (ok, v) = _rhs_step(m3, 'S')
            ref['obj'] = v if ok else None
        except Exception as ex:  # noqa
            ref = {'raises': '%s: %s' % (type(ex).__name__, str(ex)[:80])}
        _ref[key] = ref
    ref = _ref[key]
    if 'raises' in ref:
        return {'status': 'unsupported', 'ops': ops, 'outcome': 'rhs %s %s: a fresh build raises too' % (
            case['host'], case['atom']), 'detail': ref['raises']}
    cf = M.rhs_closed_form(case['atom'], case['rhs'])
    # the closed form is held against the history only when the fresh build reproduces it (what an atom MEANS is
    # the business of other properties)
    cf_ok = cf is not None and ref['obj'] is not None and abs(ref['obj'] - cf) <= 2e-5 * (1 + abs(cf))
    rng0 = _rng_state()
    m, h = M.rhs_build(spec)
    fp = None if h['b'] is None else M.fingerprint(h['b'])
    nform = 0
    f = res = None
    step = None
    try:
        for s in hist:
            if s in RHS_REDUNDANT:
                M.rhs_apply(h, s)
                continue
            step = s
            f, res = _rhs_step(m, s)
            nform += 1
            if s == 'S' and nform < len(steps):
                ok, v = res
                # an intermediate solve: the redundant declarations made so far do not move the optimum
                if ok and ref['obj'] is not None and abs(v - ref['obj']) > 2e-5 * (1 + abs(v)):
                    return {'status': 'violation', 'ops': ops,
                            'sig': '%s|formulation %d (S): optimum differs from the fresh build' % (tag, nform),
                            'detail': 'history %s: %.9g vs fresh %.9g' % (hist, v, ref['obj'])}
    except Exception as ex:  # noqa
        return {'status': 'violation', 'ops': ops, 'sig': '%s|formulation %d (%s) raises %s' % (
            tag, nform + 1, step, type(ex).__name__), 'detail': 'history %s: %s' % (hist, str(ex)[:160])}
    if _rng_state() != rng0:
        return {'status': 'violation', 'ops': ops, 'sig': tag + '|global RNG state consumed', 'detail': ''}
    if fp is not None and M.fingerprint(h['b']) != fp:
        return {'status': 'violation', 'ops': ops, 'sig': tag + '|user right-hand side array modified', 'detail': ''}
    where = 're-formulation %d (%s)' % (nform - 1, steps[-1])
    if steps[-1] == 'S':
        ok, v = res
        if ok and ref['obj'] is not None and abs(v - ref['obj']) > 2e-5 * (1 + abs(v)):
            return {'status': 'violation', 'ops': ops, 'sig': '%s|%s: optimum differs from the fresh build' % (tag, where),
                    'detail': 'history %s: %.9g vs fresh %.9g (closed form %s)' % (hist, v, ref['obj'], cf)}
        if ok and cf_ok and abs(v - cf) > 5e-5 * (1 + abs(cf)):
            return {'status': 'violation', 'ops': ops, 'sig': '%s|%s: optimum differs from the closed form' % (tag, where),
                    'detail': 'history %s: %.9g vs %.9g' % (hist, v, cf)}
        got, which = cm.snapshot(m.do_math()), 'P'
    else:
        got, which = cm.snapshot(f), steps[-1]
    d = cm.snap_diff(ref[which], got)
    if d:
        gl, dead = _live_columns(got)
        fl, dead_f = _live_columns(ref[which])
        if not cm.snap_diff(fl, gl):
            # the known growth of re-formulated ro / dro programs (dead multiplier columns), not this family's subject
            return {'status': 'pass', 'ops': ops, 'nontrivial': case['k'] != 1, 'states': nform, 'validated': 1,
                    'outcome': 'rhs ok (live part; %d dead columns kept) %s' % (dead - dead_f, case['host'])}
        return {'status': 'violation', 'ops': ops,
                'sig': '%s|%s: %s differs from the fresh build:%s' % (tag, where, which, cm.snap_field(d)),
                'detail': 'history %s: %s' % (hist, d)}
    return {'status': 'pass', 'ops': ops, 'nontrivial': case['k'] != 1 and nform >= 2, 'states': nform,
            'validated': 1 + int(cf_ok and steps[-1] == 'S'),
            'outcome': 'rhs ok %s %s%s' % (case['host'], RHS_ATOMS[case['atom']][3],
                                           ' +closed form' if (cf_ok and steps[-1] == 'S') else '')}


def run_soc2(case):
    """Every call c2 = to_socp / soc_solve (model, degree, cuts) made AFTER every other call c1 (same model object,
    another object of the same model, other models; every (degree, cuts) of the alphabet) returns what the same call
    returns as the only call of a fresh process."""
    M = _rs['M']
    mdl, args = case['model'], case['args']
    targs = '(%s)' % ','.join(str(a) for a in args)
    solo, err = _spawn({'kind': 'soc2', 'model': mdl, 'args': args}, HASHSEEDS[0])
    if solo is None:
        return {'status': 'vacuous', 'ops': 4, 'outcome': 'soc2: subprocess failed', 'detail': err}
    ops = 4
    pairs = 0
    differing = 0
    alpha = case['alpha']

    def norm(a):
        a = list(a) + [4, [-30, 60]][len(a):]
        return (a[0], tuple(a[1]))

    def check(api2, got, how, c1):
        if api2 == 'T':
            if got != solo['T']:
                return 'program differs from the same call in a fresh process'
        else:
            want = solo['Q']
            if (got is None) != (want is None):
                return 'soc_solve status differs from the same call in a fresh process'
            if got is not None and abs(got - want) > 1e-5 * (1 + abs(want)):
                return 'soc_solve optimum differs from the same call in a fresh process'
        return ''

    # ---- the call alone on a fresh model in THIS (long-lived) worker process
    for api2 in ('T', 'Q'):
        try:
            got = M.soc2_call(M.soc2_model(mdl), api2, args)
        except Exception as ex:  # noqa
            return {'status': 'violation', 'ops': ops, 'sig': 'soc2|%s|%s%s raises %s in a long-lived process' % (
                mdl, api2, targs, type(ex).__name__), 'detail': str(ex)[:160]}
        bad = check(api2, got, 'alone', None)
        if bad:
            return {'status': 'violation', 'ops': ops,
                    'sig': 'soc2|%s|%s|call alone in a long-lived process: %s' % (mdl, api2, bad),
                    'detail': 'args %s: %s vs fresh process %s' % (targs, got, solo[api2])}
    for api2 in ('T', 'Q'):
        for other in ['<same object>', '<same model>'] + [o for o in case['others'] if o != mdl]:
            apis1 = ('T', 'Q') if (other == '<same object>' or case['full']) else ('T',)
            for api1 in apis1:
                for a1 in alpha:
                    m2 = M.soc2_model(mdl)
                    m1 = m2 if other == '<same object>' else M.soc2_model(mdl if other == '<same model>' else other)
                    ops += 4
                    pairs += 1
                    try:
                        r1 = M.soc2_call(m1, api1, a1)
                        got = M.soc2_call(m2, api2, args)
                    except Exception as ex:  # noqa
                        return {'status': 'violation', 'ops': ops, 'sig': 'soc2|%s|%s after %s on %s raises %s' % (
                            mdl, api2, api1, other, type(ex).__name__), 'detail': '%s then %s: %s' % (a1, args,
                                                                                                     str(ex)[:120])}
                    (d1, c1), (d2, c2) = norm(a1), norm(args)
                    rel = '%s degree, %s cuts' % ('same' if d1 == d2 else 'other', 'same' if c1 == c2 else 'other')
                    if api1 == api2 == 'T' and other in ('<same object>', '<same model>') and r1 != got:
                        differing += 1
                    bad = check(api2, got, other, a1)
                    if bad:
                        return {'status': 'violation', 'ops': ops,
                                'sig': 'soc2|%s|%s after %s on %s with %s: %s' % (
                                    mdl, api2, api1, other if other.startswith('<') else 'another model', rel, bad),
                                'detail': 'first %s%s on %s, then %s%s: %s vs fresh process %s' % (
                                    api1, a1, other, api2, args, got, solo[api2])}
    return {'status': 'pass', 'ops': ops, 'nontrivial': differing > 0 and solo['Q'] is not None, 'states': pairs,
            'transitions': 2 * pairs, 'validated': pairs,
            'outcome': 'soc2 ok %s%s' % (mdl, '' if solo['Q'] is not None else ' [soc_solve not optimal]')}


def run_case(case):
    k = case['kind']
    if k == 'rhs':
        return run_rhs(case)
    if k == 'soc2':
        return run_soc2(case)
    if k == 'incr':
        return run_incr(case)
    if k == 'redecl':
        return run_redecl(case)
    if k == 'rep':
        return run_rep(case)
    if k == 'arr':
        return run_arr(case)
    if k == 'assign':
        return run_assign(case)
    return run_proc(case)
