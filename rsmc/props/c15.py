"""C15 - equivalent ways of writing a model give the same optimum.

State space: base models (LP, SOCP, RO with an LDR over box / box+1-norm / box+2-norm / box+equality sets, RO over boxes
with exactly-zero upper / lower bounds and a one-sided bound, DRO with
2 scenarios) x solver x EVERY subset of size <= 2 (thorough: <= 3) of the rewrite group R1..R9 of the statement,
each active rewrite in each of its variants.  Every rewrite is applied by a builder that takes the spec and the
set of active rewrites (rsmc/ref/c09c15_rewrite.py).  Oracle: the optimum of the rewritten model equals the optimum
of the base build (no rewrite) under the same solver; an exception on one side only is a disagreement.

Family OWN SETS (bases ro_own_<rel>_<where>, 5 x 4 = 20 bases): ro models - and under R9 their single-scenario dro
twins - whose robust constraints carry their OWN forall set Z1 (Z2) different from the default set Z0 of the worst-case
objective (minmax / maxmin, minsup / maxinf).  rel: own set inside the default set | containing it | shifted (neither
contains the other) | a 1-norm cut of the default box | the default set a 1-norm cut of the own box.  where: the own set
on the FIRST constraint handed to st | on the LAST | on EVERY robust constraint | two different own sets on the first and
the last.  Crossed with the whole rewrite group exactly like the other bases (so with R9 ro <-> dro, where the own set is
given as forall(support constraints) or forall(a further ambiguity set), with every R8 list / varargs spelling of
forall / minmax / st / suppset, R1 minmax <-> maxmin, R2 orders ...).  Oracle, in addition to base == rewritten: an
ABSOLUTE reference independent of rsome - all rows are affine in z and all sets polytopes, so the model's optimum is
the LP over the vertex lists of each row's own / default set (scipy.optimize.linprog, rsmc/ref/sets.py vertices).
"""
import itertools

PROPERTY = 'C15'
TIMEOUT = 120.0
CHUNK = 8
FLOOR = 0.45
RULE = ('every base model x solver x every subset of the rewrite group of size <= k (k = 2 quick, 3 thorough) x every '
        'combination of variants of the active rewrites, plus every subset of size k+1 with the first variant of each;  palette = VERIF_SEED mod 4 in the quick tier, all 4 in the '
        'thorough tier; non-trivial = at least one rewrite active, both builds report optimal and agree.  '
        'Own-set family: every (relation of own to default set: in / out / shift / n1 / n1r) x (placement: first / last / '
        'all / two own sets) base x solver (default; thorough: + ECOS on the palette VERIF_SEED mod 4) x the same subsets of rewrites (quick: without the '
        'size k+1 first-variant subsets); each case is '
        'compared with the base build AND with the vertex-list LP optimum; non-trivial = optimal, equal to the reference, '
        'and the reference is measurably set-sensitive: replacing the own set of any resource row by the default set, or '
        'giving all rows the default set, moves the reference optimum by more than 1e-3')
ASSUMPTIONS = [
    'the rewrites are meaning-preserving on these specs by elementary algebra (positive scaling by a dyadic factor, '
    'negation of both sides, equality = two inequalities, a box = an infinity-norm ball = 2n linear rows)',
    'LP answers of HiGHS agree to 1e-6(1+|v|); ECOS / Gurobi-barrier answers of two formulations to 1e-4(1+|v|)',
    'a solver status other than optimal / infeasible / unbounded is inconclusive',
    'own-set family: a robust row that is affine in z holds on a polytope iff it holds at its vertices, so the LP over '
    'the exact vertex lists (boxes, box with 1-norm cut, box with an equality; d = 2) is the exact robust counterpart, '
    'also for the linear decision rule (its coefficients are LP variables)',
]
TRUSTED = ['CPython', 'NumPy', 'the solvers behind rsome default / eco_solver / grb_solver, used on both sides',
           'scipy.optimize.linprog (HiGHS) and the vertex enumeration of rsmc/ref/sets.py for the own-set reference']

VARIANTS = {'R1': ['1'], 'R2': ['v', 'c', 'vc'], 'R3': ['neg', 'flip', 'sub'], 'R4': ['1'], 'R5': ['lin', 'ninf'],
            'R6': ['loop', 'elem'], 'R7': ['2', '0.4', '2.5'], 'R8': ['args', 'gen', 'tup', 'bl', 'll', 'lb'], 'R9': ['1']}
BASES = ['lp', 'milp', 'socp', 'ro_box', 'ro_norm', 'ro_ball', 'ro_boxeq', 'ro_zbox', 'ro_zmir', 'dro', 'dro_pl']
HOWS = {'lp': ['def', 'eco'], 'milp': ['def', 'ort'], 'socp': ['eco', 'grb'], 'ro_box': ['def', 'eco'], 'ro_norm': ['def', 'eco'],
        'ro_ball': ['eco'], 'ro_boxeq': ['def'], 'ro_zbox': ['def', 'eco'], 'ro_zmir': ['def'], 'dro': ['def', 'eco'], 'dro_pl': ['def']}
NOT_APPLICABLE = {('dro', 'R9'), ('dro_pl', 'R9'), ('milp', 'R9')}
OWN_RELS = ['in', 'out', 'shift', 'n1', 'n1r']
OWN_WHERES = ['f', 'l', 'a', 'two']
OWN_BASES = ['ro_own_%s_%s' % (r, w) for r in OWN_RELS for w in OWN_WHERES]
OWN_HOWS = {'quick': ['def'], 'thorough': ['def', 'eco']}


def gen_cases(tier, seed):
    thorough = tier == 'thorough'
    pals = [0, 1, 2, 3] if thorough else [seed % 4]
    kmax = 3 if thorough else 2
    names = sorted(VARIANTS)
    for k in range(0, kmax + 2):
        for subset in itertools.combinations(names, k):
            # subsets one larger than the bound are enumerated with the first variant of every rewrite only
            choices = [VARIANTS[r] if k <= kmax else VARIANTS[r][:1] for r in subset]
            for combo in itertools.product(*choices):
                act = dict(zip(subset, combo))
                for base in BASES:
                    if any((base, r) in NOT_APPLICABLE for r in subset):
                        continue
                    for how in HOWS[base]:
                        for pal in pals:
                            yield {'base': base, 'how': how, 'pal': pal, 'act': act}
                if k > kmax and not thorough:
                    continue        # own-set family, quick tier: subsets of size <= k only (thorough: also size k+1)
                for base in OWN_BASES:
                    for how in OWN_HOWS[tier]:
                        for pal in (pals if how == 'def' else [seed % 4]):     # ECOS: one palette
                            yield {'base': base, 'how': how, 'pal': pal, 'act': act}


def exhaustive(tier):
    return True


def bounds(tier):
    return {'rewrites': 9, 'max_simultaneous_rewrites_all_variants': 3 if tier == 'thorough' else 2,
            'max_simultaneous_rewrites_first_variant': 4 if tier == 'thorough' else 3, 'bases': len(BASES),
            'palettes': 4 if tier == 'thorough' else 1,
            'own_set_bases': len(OWN_BASES), 'own_set_relations': OWN_RELS, 'own_set_placements': OWN_WHERES,
            'own_set_solvers': OWN_HOWS[tier], 'own_set_oracle': 'base build + vertex-list LP (scipy linprog)'}


def worker_init():
    from ..ref import c09c15_common as C
    C.init()


def run_case(case):
    from ..ref import c09c15_rewrite as W
    return W.run(case)
