"""C13 - decisions depend on uncertainty exactly as declared (non-anticipativity).

Bounded exhaustive exploration of *declaration histories* against the real rsome:

  seq      every ordered sequence of disjoint non-empty `x.adapt(block)` calls on S scenarios (all ordered prefixes
           of all set partitions) x scenario labelling x surface form of the block argument
  ill      every such history followed by every illegal continuation (a block touching an already declared
           scenario, an unknown label): must raise
  mask     every ordered sequence of cell-disjoint rectangle declarations `y[rows].adapt(z[cols])` of an
           (<=2)-entry decision over <=3 random components (ro decision rule, dro affinely adaptive decision)
  maskill  every such sequence followed by every overlapping rectangle: must raise
  pair     every pair of partitions combined in one expression by +, -, concat/stack, atoms, bi-affine terms
  late/int/mul   adaptation declared after use, affine adaptation of integer decisions, adaptive x random
  order    two event-wise decisions x, y whose partitions are declared by an adapt *timeline* (every history of x, a
           palette of histories of y, x-then-y / y-then-x / alternating); the coupling constraint x + y >= c in 18
           spellings (operand orders, both-sides, scaled, three operands, concat/vec/indexed, maxof pieces, equality with
           slack, abs, with a random right-hand side, as an expectation constraint) is written - as an expression, as a
           constraint object, or stated - at EVERY point of the timeline (before / between / after the adapt calls), and
           likewise the objective and the single-variable constraints; every spelling at every point denotes the model
           with the FINAL partitions
  seq and order also read the solution back through x.get(): one value per scenario, labelled in scenario order, the
           value of the scenario's event (all histories = all partitions in all listing orders x labellings)

Oracles (none uses rsome): R-part partition calculus (declared partition, coarsest common refinement), column
sharing read from the compiled program, closed-form optima of discriminating models (sum_s p_s max_{t~s} d_t; sum of
|B_ij| over undeclared cells) and a scipy LP for the coupled two-partition models (one LP variable per decision and
event), NaN pattern / invariance of the returned rule off the declared mask; reported solutions are judged by a
certificate (constant on events, feasible in every scenario, attains the reference optimum), not by comparison with
one LP solution.
"""
import itertools
import numpy as np

from ..ref import c12c13_part as P

PROPERTY = 'C13'
TIMEOUT = 60.0
CHUNK = 16
FLOOR = 0.5
RULE = ('every adapt history (ordered disjoint blocks) on S scenarios x labels {default int, unordered strings, permuted '
        'ints} x block forms {scalar/list, list, tuple, fset[..], fset.loc, fset.iloc}; every illegal continuation; every '
        'ordered sequence of disjoint rectangle declarations over a (rows<=2) x (components<=3) mask for ro rules and dro '
        'affine decisions, every overlapping re-declaration; every pair of partitions x combiner; every adapt timeline of '
        'two decisions (every history of x, x then y / y then x) x every point of the timeline at which a coupling constraint '
        '(18 spellings) is built as expression / built as constraint / stated, or the objective is stated, judged against '
        'a scipy LP with the final partitions, the solution read back with get() judged by a feasibility + optimality '
        'certificate; get() of every history x labelling against the closed form. A passing case is '
        'non-trivial when the model solved to optimality and the declared structure is not the trivial one (S>=2 for '
        'partitions; at least one cell for masks) or, for must-raise cases, when the reference classifies the continuation '
        'as illegal; for timelines when the reference optimum with the coupling constraint exceeds the one without it by '
        '> 1e-3 (the constraint is binding); distinct = distinct canonical case')
ASSUMPTIONS = [
    'LP answers through HiGHS compared with tolerance 1e-6*(1+|v|)',
    'discriminating palettes: all partitions of S<=4 scenarios have pairwise distinct closed-form optima (asserted at import)',
    'a raise on a legal declaration in a *core* form (label, list, tuple) is a violation; in the Scen-object forms it is "unsupported"',
    'dro: a declaration made after the decision was used but before any formulation may either raise or be honoured exactly',
    'event_adapt of *constraints* is not judged (never read by the compiler); only variables and expressions are',
    'the state left behind by a declaration that raised is not judged',
    'order: an adapt() call made after the decision was used in an expression may raise (then the case passes as trivial); if '
    'it is accepted the model solved afterwards must be the one with the final partitions, wherever the constraint was written',
    'order: x.get() of a decision with a single event may be a plain array (documented) or a per-scenario Series',
]
TRUSTED = ['CPython', 'NumPy', 'scipy.optimize.linprog (HiGHS) for the coupled two-partition / event-decision reference LPs',
           'HiGHS through rsome default solver as the solver under the models', 'c12c13_part (partition calculus, <200 lines)']

for _n in (1, 2, 3, 4):
    for _s in range(4):
        _p, _d = P.palette_pd(_n, _s)
        assert P.all_distinct([P.optimum_event_max(P.as_partition(pt), _p, _d) for pt in P.set_partitions(_n)], 0.03)

FORMS = ('auto', 'list', 'tuple', 'scen', 'loc', 'iloc')
CORE_FORMS = ('auto', 'list', 'tuple')
COMBS = ('add', 'radd', 'sub', 'concat', 'rstack', 'vec', 'idxadd', 'abs+', '+abs', 'norm+', 'sq+', 'exp+',
         'mulz+', '+mulz', 'add3', 'scale+',
         # constraints and atoms OF the combined expression
         'le', 'ge', 'eq', 'abs()', 'norm()', 'sumsqr()', 'exp()', 'abs()<=', 'expcone', 'expcone3', '()*z', '()@z<=')
COMBS += ('concat-r', 'rstack-r', 'vec-r', 'concat-static-first', 'concat-const-first', 'vec-static-first', 'rstack-static-first')
COMBS_CORE = ('add', 'radd', 'sub', 'concat', 'le', 'abs()', 'mulz+', 'expcone')
MASK_SPECS_Q = [('ro', 'z3', 2), ('ro', 'z2w', 2), ('ro', 'z2', 1), ('ro', 'wz2', 2),
                ('dro1', 'z3', 2), ('dro2', 'z2w', 2), ('dro2', 'z2', 2), ('dro1', 'z2', 1), ('dro3', 'z2', 2)]
MASK_SPECS_T = MASK_SPECS_Q + [('ro', 'z2', 2), ('ro', 'z1', 2), ('dro2', 'z3', 2), ('dro1', 'wz2', 2), ('dro3', 'z2w', 2)]
# an extra decision with a *different* event partition declared before / after the adaptive one (the adaptive decision
# has the partition {0..S-2},{S-1}): static, finer (all singletons), other ({0},{1..S-1})
AUX_VARIANTS = {1: ('none',), 2: ('none', 'static', 'static-before'),
                3: ('none', 'static', 'finer', 'other', 'finer-before', 'other-before')}
# adapt histories of the adaptive decision itself (3 scenarios): the default {0,1},{2} is listed in scenario order; the
# others are interleaved / listed out of scenario order: [[0,2],[1]], [[1],[0,2]], [[1,2],[0]], [[2],[1],[0]]
TWO_MASKS = ([[1, 1], [1, 1]], [[1, 0], [0, 1]], [[0, 1], [1, 0]], [[1, 0], [1, 1]])
YHIST_VARIANTS = ([[1]], [[0, 2]], [[0]], [[1], [0]])
RO_USES = ('to_affine', 'add', 'radd', 'neg', 'mul', 'matmul', 'sub_add', 'le', 'ge', 'eq', 'st', 'T', 'sum', 'min',
           'reshape')
RO_NONUSES = ('getitem', 'shape')
DRO_STAGES = ('expr', 'constr', 'st', 'do_math', 'solve')
DRO_DECLS = ('evt', 'aff', 'affslice')
# ---- order family: constraints / objective written at every point of the adapt timeline
ORDER_KINDS = ('x+y>=c', 'y+x>=c', 'c<=x+y', 'x>=c-y', 'c-y<=x', '-x-y<=-c', '2(x+y)>=2c', 'x-(c-y)>=0', 'x+q+y>=c+1',
               'concat', 'concat-r', 'vec', 'idx', 'maxof', 'eq-slack', 'abs', 'rand', 'E')
ORDER_KINDS_CORE = ('x+y>=c', 'concat', 'x>=c-y', 'maxof')
ORDER_STAGES = ('expr', 'constr', 'st')
# partitions of the second decision: static, one scenario in the middle / interleaved (listed out of scenario order),
# all singletons declared out of order
ORDER_HY = {2: ([], [[1]], [[0]]), 3: ([], [[1]], [[0, 2]], [[2], [0]]), 4: ([], [[1, 2]], [[3], [0, 2]])}
ORDER_HX_REP = {2: ([[1]], [[0]]), 3: ([[1]], [[0, 2]], [[2], [0]], [[0], [1]], [[2]])}
MUL_HOWS = ('whole', 'slice', 'late-whole', 'late-slice', 'idx-whole')
MUL_PRODS = ('x*z', 'z*x', 'x@z', 'z@x', 'x0*z0', '(x+1)*z', 'sum*z0', 'x1*z1')


def _ns(tier):
    return (1, 2, 3, 4) if tier == 'thorough' else (1, 2, 3)


def _bad_continuations(hist, n, lab):
    used = set(itertools.chain.from_iterable(hist))
    out = []
    for blk in P.subsets_nonempty(range(n)):
        if set(blk) & used:
            out.append({'blk': blk})
    rest = [s for s in range(n) if s not in used]
    unk = [n, -1, 'zz'] if lab in ('int', 'perm') else [0, 'zz']
    for u in unk:
        out.append({'unk': u})
        if rest:
            out.append({'unk': u, 'with': rest[0]})
    return out


def gen_cases(tier, seed):
    """All cases; the development aid C12C13_FAM=fam1,fam2 restricts the families (then `exhaustive` is False)."""
    fams = _fam_filter()
    for case in _gen_all(tier, seed):
        if fams is None or case['fam'] in fams:
            yield case


def _fam_filter():
    import os
    f = os.environ.get('C12C13_FAM')
    return set(f.split(',')) if f else None


def _gen_all(tier, seed):
    th = tier == 'thorough'
    pal = seed % 4
    pals = (0, 1, 2, 3) if th else (pal,)
    ns = _ns(tier)
    # ---- histories
    for n in ns:
        for hist in P.adapt_histories(n):
            for lab in P.LABEL_KINDS:
                if n == 1 and lab == 'perm':
                    continue
                for form in FORMS:
                    for pl in (pals if form == 'auto' else (pal,)):
                        yield {'fam': 'seq', 'n': n, 'lab': lab, 'form': form, 'hist': hist, 'pal': pl}
    # ---- illegal continuations
    for n in ns:
        for hist in P.adapt_histories(n):
            for lab in P.LABEL_KINDS:
                if n == 1 and lab == 'perm':
                    continue
                for bad in _bad_continuations(hist, n, lab):
                    for form in ('auto', 'list', 'scen'):
                        if 'unk' in bad and form == 'list' and 'with' not in bad:
                            continue
                        yield {'fam': 'ill', 'n': n, 'lab': lab, 'form': form, 'hist': hist, 'bad': bad}
    # ---- masks
    specs = MASK_SPECS_T if th else MASK_SPECS_Q
    from ..ref.c12c13_build import RAND_LAYOUTS
    for fe, rl, nrows in specs:
        d = sum(max(s, 1) for s in RAND_LAYOUTS[rl])
        yield {'fam': 'mask', 'fe': fe, 'rl': rl, 'rows': nrows, 'seq': [], 'style': 'nat', 'pal': pal}
        max_len = 4 if (th and nrows * d <= 6) else 3
        if nrows * d <= 4:
            max_len = 4
        auxs = AUX_VARIANTS[int(fe[3:])] if fe != 'ro' else ('none',)
        for seq in P.disjoint_rect_sequences(nrows, d, max_len):
            styles = ('nat', 'idx') if len(seq) == 1 else ('nat',)
            for st in styles:
                for pl in (pals if len(seq) <= 1 else (pal,)):
                    for aux in auxs:
                        case = {'fam': 'mask', 'fe': fe, 'rl': rl, 'rows': nrows, 'seq': [[r, c] for r, c in seq],
                                'style': st, 'pal': pl}
                        if aux != 'none':
                            case['aux'] = aux
                        yield case
                    if len(RAND_LAYOUTS[rl]) >= 2 and fe in ('ro', 'dro2') and (len(seq) <= 2 or th) and st == 'nat':
                        # the last random variable is declared between adapt calls: at every position not later
                        # than its first use (position 0 is the ordinary case above)
                        lastc = set(range(sum(max(z_, 1) for z_ in RAND_LAYOUTS[rl][:-1]), d))
                        first_use = next((k_ for k_, (r_, c_) in enumerate(seq) if set(c_) & lastc), len(seq))
                        for g in range(1, first_use + 1):
                            yield {'fam': 'mask', 'fe': fe, 'rl': rl, 'rows': nrows, 'seq': [[r, c] for r, c in seq],
                                   'style': st, 'pal': pl, 'grow': g}
                    if fe == 'dro3':
                        for yh in YHIST_VARIANTS:
                            for aux in ('none', 'static'):
                                case = {'fam': 'mask', 'fe': fe, 'rl': rl, 'rows': nrows, 'seq': [[r, c] for r, c in seq],
                                        'style': st, 'pal': pl, 'yh': yh}
                                if aux != 'none':
                                    case['aux'] = aux
                                yield case
    for fe, rl, nrows in (('ro', 'z3', 2), ('dro1', 'z3', 2), ('ro', 'z2w', 2), ('dro2', 'z2w', 2), ('ro', 'z2', 1),
                          ('dro1', 'z2', 1)):
        d = sum(max(s, 1) for s in RAND_LAYOUTS[rl])
        rects = P.rectangles(nrows, d)
        for seq in P.disjoint_rect_sequences(nrows, d, 3 if th else 2):
            used = set()
            for r in seq:
                used |= P.rect_cells(r)
            for bad in rects:
                if P.rect_cells(bad) & used:
                    yield {'fam': 'maskill', 'fe': fe, 'rl': rl, 'rows': nrows, 'seq': [[r, c] for r, c in seq],
                           'bad': [bad[0], bad[1]]}
    # ---- two affinely adaptive decision variables in one model (coefficient blocks of different variables / events must
    #      not overlap) and an expectation objective mixing an adaptive decision with an explicit random term
    for n in (2, 3):
        hxs = [[[1]]] if n == 2 else [[[2]], [[1]], [[2], [1]]]
        hys = [[], [[1]]] if n == 2 else [[], [[2]], [[1], [2]]]
        for hx in hxs:
            for hy in hys:
                for order in ('xy', 'yx'):
                    for mx in TWO_MASKS:
                        for my in TWO_MASKS:
                            for mix in (False, True):
                                yield {'fam': 'twoadapt', 'n': n, 'hx': hx, 'hy': hy, 'order': order, 'mx': mx, 'my': my,
                                       'mix': mix, 'pal': pal}
    # ---- pairs of partitions (S = 4 also in the quick tier: no solve needed for the partition calculus)
    for n in (2, 3, 4):
        parts = P.set_partitions(n)
        # every ordered pair of partitions, each in every listing order of its events (n <= 3; n = 4: thorough, core
        # combiners) and in the canonical listing (remainder first) declared the ordinary way
        lists = P.listing_histories(n)
        if n <= 3 or th:
            for h1, h2 in itertools.product(lists, repeat=2):
                for comb in (COMBS if n <= 3 else COMBS_CORE):
                    yield {'fam': 'pair', 'n': n, 'h1': h1, 'h2': h2, 'comb': comb}
                if n <= 3:
                    yield {'fam': 'pairval', 'n': n, 'h1': h1, 'h2': h2, 'pal': pal}
        for i, j in itertools.product(range(len(parts)), repeat=2):
            h1, h2 = P.canonical_history(parts[i], n), P.canonical_history(parts[j], n)
            for comb in COMBS:
                yield {'fam': 'pair', 'n': n, 'h1': h1, 'h2': h2, 'comb': comb}
            if n >= 4 and th:
                yield {'fam': 'pairval', 'n': n, 'h1': h1, 'h2': h2, 'pal': pal}
            if n == 4 and not th:
                continue
            for model in ('sum', 'abs'):
                for pl in pals:
                    yield {'fam': 'pairopt', 'n': n, 'p1': parts[i], 'p2': parts[j], 'model': model, 'pal': pl}
    # ---- declarations after use / integer / adaptive x random
    for pre in (False, True):
        for use in RO_USES + RO_NONUSES:
            for decl in ('whole', 'slice', 'other'):
                yield {'fam': 'late_ro', 'pre': pre, 'use': use, 'decl': decl}
    for n in (2, 3):
        for stage in DRO_STAGES:
            for decl in DRO_DECLS:
                for prior in ('none', 'evt', 'aff'):
                    yield {'fam': 'late_dro', 'n': n, 'stage': stage, 'decl': decl, 'prior': prior, 'pal': pal}
    for vt in ('I', 'B', 'C'):
        for decl in ('x.adapt(z)', 'x[0].adapt(z[0])', 'x.adapt(z[0])', 'x[:].adapt(z)', 'x[1].adapt(z)', 'x.adapt(0)',
                     'x.adapt([0,1])'):
            for shape in ('v2', 's'):
                yield {'fam': 'int', 'vt': vt, 'decl': decl, 'shape': shape}
    for how in MUL_HOWS:
        for prod in MUL_PRODS:
            for n in (1, 2):
                yield {'fam': 'mul', 'how': how, 'prod': prod, 'n': n}
    # ---- a constraint / the objective combining two decisions, written at every point of the adapt timeline
    for case in _gen_order(th, pal, pals):
        yield case


def _order_timeline(hx, hy, ordr):
    cx = [['x', b] for b in hx]
    cy = [['y', b] for b in hy]
    if ordr == 'xy':
        return cx + cy
    if ordr == 'yx':
        return cy + cx
    out = []
    for i in range(max(len(cx), len(cy))):
        out += cx[i:i + 1] + cy[i:i + 1]
    return out


def _gen_order(th, pal, pals):
    def points(n, hx, hy, kinds, stages, obj, pls, ords=('xy', 'yx')):
        seen = []
        for ordr in ords + (('alt',) if th else ()):
            tl = _order_timeline(hx, hy, ordr)
            if tl in seen:
                continue
            seen.append(tl)
            L = len(tl)
            for k in range(L + 1):
                for stage in (stages if k < L else ('st',)):
                    for kind in kinds:
                        for pl in pls:
                            yield {'fam': 'order', 'n': n, 'tl': tl, 'hx': hx, 'hy': hy, 'k': k, 'stage': stage, 'kind': kind,
                                   'obj': obj, 'pal': pl}
    for n in ((2, 3, 4) if th else (2, 3)):
        hxs = P.adapt_histories(n) if n <= 3 else [h for h in P.adapt_histories(n) if len(h) <= 2]
        for hx in hxs:
            for hy in ORDER_HY[n]:
                # every history of x: core spellings, written as expression / constraint / stated, at every point
                for c in points(n, hx, hy, ORDER_KINDS_CORE if (th and n <= 3) else ORDER_KINDS_CORE[:2],
                                ORDER_STAGES if th else ('expr', 'st'), 'end', (pal,)):
                    yield c
                # the objective and the single-variable constraints are written first as well
                for c in points(n, hx, hy, ('x+y>=c',), ('st',), 'first', pals if n <= 3 else (pal,), ('xy',)):
                    yield c
    for n in (2, 3):
        for hx in ORDER_HX_REP[n]:
            for hy in (ORDER_HY[n] if th else ORDER_HY[n][:3]):
                for c in points(n, hx, hy, ORDER_KINDS, ORDER_STAGES if th else ('constr',), 'end', (pal,),
                                ('xy', 'yx') if th else ('xy',)):
                    yield c


def exhaustive(tier):
    return _fam_filter() is None


def bounds(tier):
    th = tier == 'thorough'
    return {'scenarios_max': 4 if th else 3, 'histories': {n: len(P.adapt_histories(n)) for n in _ns(tier)},
            'labels': list(P.LABEL_KINDS), 'block_forms': list(FORMS),
            'mask_cells_max': 6, 'mask_sequence_len_max': 4 if th else 3, 'mask_specs': len(MASK_SPECS_T if th else MASK_SPECS_Q),
            'partition_pairs': {n: len(P.set_partitions(n)) ** 2 for n in (2, 3, 4)},
            'partition_listing_pairs': {n: len(P.listing_histories(n)) ** 2 for n in ((2, 3, 4) if th else (2, 3))},
            'combiners': len(COMBS),
            'order_scenarios_max': 4 if th else 3, 'order_spellings': len(ORDER_KINDS),
            'order_spellings_all_histories': len(ORDER_KINDS_CORE if th else ORDER_KINDS_CORE[:2]),
            'order_histories_x': {n: len(P.adapt_histories(n)) for n in (2, 3)},
            'order_histories_y': {n: len(ORDER_HY[n]) for n in ((2, 3, 4) if th else (2, 3))},
            'order_histories_x_all_spellings': {n: len(ORDER_HX_REP[n]) for n in (2, 3)},
            'order_timeline_calls_max': 5, 'order_points': 'every point 0..L of the timeline',
            'order_stages': {'all histories': list(ORDER_STAGES) if th else ['expr', 'st'],
                             'all spellings': list(ORDER_STAGES) if th else ['constr']},
            'order_call_orders': ['xy', 'yx'] + (['alt'] if th else []),
            'order_scenarios_4': 'histories of x with <= 2 calls, 2 spellings' if th else 'not enumerated',
            'palettes': 4 if th else 1}


# =====================================================================================================
_rs = {}


def worker_init():
    from ..ref import c12c13_build as Bd
    _rs.update(Bd.init())
    _rs['B'] = Bd


def _tol(v):
    return 1e-6 * (1 + abs(v))


def _close(a, b):
    return abs(a - b) <= _tol(b)


def run_case(case):
    return globals()['_run_' + case['fam']](case)


def _viol(sig, detail, ops, **kw):
    d = {'status': 'violation', 'sig': sig, 'detail': str(detail)[:600], 'ops': ops}
    d.update(kw)
    return d


# ----------------------------------------------------------------------------------------------- seq
def _dec_affine(rv_s):
    lp = _rs['lp']
    return rv_s.affine if isinstance(rv_s, lp.RoAffine) else rv_s


def _columns(m, dvar, s):
    """Solver columns that carry the entries of dvar in scenario position s, read from the compiled rule list."""
    aff = _dec_affine(m.rule_var()[s])
    lin = aff.linear.tocsr()
    cols = []
    for r in range(dvar.first, dvar.first + dvar.size):
        row = lin.getrow(r)
        if row.nnz != 1 or abs(row.data[0] - 1.0) > 1e-12:
            return None
        cols.append(int(row.indices[0]))
    return tuple(cols)


def _run_seq(case):
    Bd = _rs['B']
    E = _rs['E']
    n, lab, form, hist = case['n'], case['lab'], case['form'], case['hist']
    labels = P.labels_for(lab, n)
    ops = Bd.Ops()
    tag = 'seq|%s|%s' % (lab, form)
    m = Bd.dro_model(lab, n, labels)
    w0 = m.dvar(2)
    x = m.dvar(2)
    w1 = m.dvar()
    u = m.rvar()
    u2 = m.rvar()
    fset = m.ambiguity()
    ops(7)
    p, d = P.palette_pd(n, case['pal'])
    d2 = d[::-1] + 0.5
    hist0 = [[n - 1]] if n >= 2 else []
    for blk in hist0:
        w0.adapt(labels[blk[0]])
        ops()
    # ---- the history under test
    done = []
    for blk in hist:
        try:
            arg = Bd.block_arg(form, blk, labels, fset)
            x.adapt(arg)
            ops()
        except Exception as ex:  # noqa
            if form in CORE_FORMS:
                return _viol(tag + '|legal declaration raised', 'history %s block %s: %s %s' %
                             (P.fmt_hist(hist), blk, Bd.errname(ex), ex), ops.n)
            return {'status': 'unsupported', 'outcome': 'seq:%s form raises %s' % (form, Bd.errname(ex)), 'ops': ops.n}
        done.append(blk)
        want = P.declared_partition(done, n)
        ea = x.event_adapt
        if not P.is_partition_of(ea, n) or P.as_partition(ea) != want:
            return _viol(tag + '|event_adapt differs from declared partition',
                         'after %s: event_adapt=%s declared=%s' % (P.fmt_hist(done), ea, P.fmt_part(want)), ops.n)
    part = P.declared_partition(hist, n)
    part0 = P.declared_partition(hist0, n)
    # ---- discriminating model
    g = np.array([1.0, 2.0])
    g0 = np.array([0.5, 1.0])
    c = np.array([1.0, 4.0])
    c0 = np.array([2.0, 1.0])
    for s in range(n):
        fset.iloc[s].suppset(u == d[s], u2 == d2[s])
        ops()
    fset.probset(m.p == p)
    m.minsup(E(c @ x + c0 @ w0 + w1), fset)
    m.st(x >= g * u, w0 >= g0 * u2, w1 >= 1.5)
    ops(3)
    try:
        m.solve(display=False)
        ops()
    except Exception as ex:  # noqa
        return _viol(tag + '|legal model failed to formulate', '%s %s' % (Bd.errname(ex), ex), ops.n)
    if not Bd.is_optimal(m):
        return {'status': 'vacuous', 'outcome': 'seq:not optimal', 'ops': ops.n}
    xs = P.closed_form_event_max(part, d)
    ws = P.closed_form_event_max(part0, d2)
    want_obj = float(sum(p[s] * ((c @ g) * xs[s] + (c0 @ g0) * ws[s]) for s in range(n)) + 1.5)
    got = float(m.get())
    ops()
    if not _close(got, want_obj):
        return _viol(tag + '|optimum differs from closed form',
                     'history %s partition %s: objective %r, closed form %r' % (P.fmt_hist(hist), P.fmt_part(part), got, want_obj),
                     ops.n)
    # ---- (b) column sharing in the compiled program
    cols = [_columns(m, x, s) for s in range(n)]
    cols0 = [_columns(m, w0, s) for s in range(n)]
    if any(cl is None for cl in cols + cols0):
        return _viol(tag + '|compiled rule is not a 0/1 selection', 'rule_var rows of x are not unit rows', ops.n)
    for s in range(n):
        for t in range(n):
            same = P.same_block(part, s, t)
            if same and cols[s] != cols[t]:
                return _viol(tag + '|same event, different columns',
                             'history %s: scenarios %d,%d columns %s %s' % (P.fmt_hist(hist), s, t, cols[s], cols[t]), ops.n)
            if not same and set(cols[s]) & set(cols[t]):
                return _viol(tag + '|different events share columns',
                             'history %s: scenarios %d,%d columns %s %s' % (P.fmt_hist(hist), s, t, cols[s], cols[t]), ops.n)
        if set(cols[s]) & set(itertools.chain.from_iterable(cols0)) or len(set(cols[s])) != len(cols[s]):
            return _viol(tag + '|columns shared between variables', 'x %s w0 %s' % (cols, cols0), ops.n)
    sol = np.asarray(m.solution.x, dtype=float)
    for s in range(n):
        val = sol[list(cols[s])]
        if not np.allclose(val, g * xs[s], rtol=0, atol=1e-6 * (1 + xs[s])):
            return _viol(tag + '|scenario value differs from closed form',
                         'history %s scenario %d: %s expected %s' % (P.fmt_hist(hist), s, val.tolist(), (g * xs[s]).tolist()),
                         ops.n)
    # ---- (c) the values reported by get(): one per scenario, labelled in scenario order, the value of the scenario's event
    for name, v, shape, exp in (('x', x, (2,), [g * xs[s] for s in range(n)]), ('w0', w0, (2,), [g0 * ws[s] for s in range(n)]),
                                ('w1', w1, (), [np.array(1.5)] * n)):
        try:
            obs = v.get()
            ops()
        except Exception as ex:  # noqa
            return _viol(tag + '|solution query raised', '%s.get(): %s %s' % (name, Bd.errname(ex), ex), ops.n)
        vals = _per_scenario(obs, n, shape, labels)
        if vals is None:
            return _viol(tag + '|reported solution is not one value per scenario (labelled in scenario order)',
                         'history %s: %s.get() = %r' % (P.fmt_hist(hist), name, obs), ops.n)
        if any(not np.allclose(a_, e_, rtol=0, atol=1e-6 * (1 + np.abs(e_).max())) for a_, e_ in zip(vals, exp)):
            return _viol(tag + '|value reported for a scenario is not the value of its event',
                         'history %s events %s: %s.get() %s expected %s' %
                         (P.fmt_hist(hist), v.event_adapt, name, [a_.tolist() for a_ in vals], [e_.tolist() for e_ in exp]), ops.n)
    return {'status': 'pass', 'outcome': 'seq:ok blocks=%d' % len(part), 'ops': ops.n, 'nontrivial': n >= 2,
            'states': len(hist) + 1, 'transitions': ops.n, 'validated': 1}


# ----------------------------------------------------------------------------------------------- ill
def _run_ill(case):
    Bd = _rs['B']
    n, lab, form, hist, bad = case['n'], case['lab'], case['form'], case['hist'], case['bad']
    labels = P.labels_for(lab, n)
    ops = Bd.Ops()
    m = Bd.dro_model(lab, n, labels)
    x = m.dvar(2)
    fset = m.ambiguity()
    ops(3)
    for blk in hist:
        x.adapt(Bd.block_arg('list', blk, labels, fset))
        ops()
    if P.as_partition(x.event_adapt) != P.declared_partition(hist, n):
        return {'status': 'vacuous', 'outcome': 'ill:prefix not established', 'ops': ops.n}
    order = P.reference_event_order(hist, n)
    used = set(itertools.chain.from_iterable(hist))
    covering = len(used) == n
    if 'unk' in bad:
        cls = 'unknown label'
    else:
        first_listed = bool(covering and order and set(bad['blk']) <= set(order[0]))
        cls = ('all scenarios declared, block inside first-listed event' if first_listed else
               'all scenarios declared' if covering else 'remainder exists')
    tag = 'ill|%s|%s|%s' % (lab, form, cls)
    before = [list(b) for b in x.event_adapt]
    raised = None
    try:
        if 'unk' in bad:
            labs = [bad['unk']] + ([labels[bad['with']]] if 'with' in bad else [])
            if form == 'scen':
                arg = fset[labs[0]] if len(labs) == 1 else fset[labs]
            elif form == 'list' or len(labs) > 1:
                arg = labs
            else:
                arg = labs[0]
        else:
            arg = Bd.block_arg(form, bad['blk'], labels, fset)
        x.adapt(arg)
        ops()
    except Exception as ex:  # noqa
        raised = Bd.errname(ex)
    if raised is None:
        return _viol(tag + '|accepted', 'history %s then adapt(%s) did not raise; event_adapt %s -> %s' %
                     (P.fmt_hist(hist), bad, before, x.event_adapt), ops.n)
    return {'status': 'pass', 'outcome': 'ill:raises %s' % raised, 'ops': ops.n, 'nontrivial': True,
            'states': len(hist) + 2, 'validated': 1}


# ----------------------------------------------------------------------------------------------- mask
def _mask_palette(nrows, d, pal):
    base = np.array([[1.0, 2.0, 4.0], [8.0, 16.0, 32.0]])[:nrows, :d]
    if pal % 4 == 1:
        base = base[::-1, ::-1].copy()
    elif pal % 4 == 2:
        base = -base
    elif pal % 4 == 3:
        base = base * np.array([[1.0, -1.0, 1.0], [-1.0, 1.0, -1.0]])[:nrows, :d]
    a = np.array([0.5, -1.5])[:nrows]
    return base, a


def _make_rvars(m, layout, late):
    """The random variables of a layout as [(rvar, logical component ids)]; with late=True the last one is left out
    (it is declared later, between adapt calls, by _late_rvar)."""
    from ..ref.c12c13_build import RAND_LAYOUTS
    sizes = RAND_LAYOUTS[layout]
    out, k = [], 0
    for n_, sz in enumerate(sizes):
        w_ = max(sz, 1)
        if not (late and n_ == len(sizes) - 1):
            out.append(((m.rvar() if sz == 0 else m.rvar(sz)), list(range(k, k + w_))))
        k += w_
    return out


def _late_rvar(m, layout, rvars):
    from ..ref.c12c13_build import RAND_LAYOUTS
    sizes = RAND_LAYOUTS[layout]
    k = sum(max(sz, 1) for sz in sizes[:-1])
    sz = sizes[-1]
    item = ((m.rvar() if sz == 0 else m.rvar(sz)), list(range(k, k + max(sz, 1))))
    rvars.append(item)
    return item


def _aux_adapt(v, aux, S):
    kind = aux.split('-')[0]
    if kind == 'finer':
        for s_ in range(1, S):
            v.adapt(s_)
    elif kind == 'other':
        v.adapt(0)


def _run_mask(case):
    """Declared dependency mask of an ro decision rule / a dro affinely adaptive (event-wise) decision.

    ro : min sum tau  s.t. tau >= |y(z) - (a + B z)| on the box  ->  optimum = sum of |B_ij| over undeclared cells.
    dro: every random variable z has a mirror w with support w == t_s * z in scenario s and the target is
         a + B z + (B/4) w, i.e. the coefficient to be tracked is f_s * B with f_s = 1 + t_s/4 *per event*; the bound tau is
         event-wise and the objective is E(sum tau) under fixed probabilities: optimum = sum_s p_s f_s * (sum over
         undeclared cells), reached only if every event has its own coefficients.
    """
    Bd = _rs['B']
    lp = _rs['lp']
    pd = _rs['pd']
    fe, rl, nrows, seq, style = case['fe'], case['rl'], case['rows'], case['seq'], case['style']
    d = Bd.rand_dim(rl)
    ops = Bd.Ops()
    is_ro = fe == 'ro'
    S = 1 if is_ro else int(fe[3:])
    tag = 'mask|%s|%s' % ('ro' if is_ro else 'dro', 'scalar' if nrows == 1 else 'vector')
    aux = case.get('aux', 'none')
    auxv = None
    if aux != 'none':
        tag += '|extra %s decision declared %s' % (aux.split('-')[0], 'before' if aux.endswith('-before') else 'after')
    mirrors = []
    grow = case.get('grow')                # the last random variable is declared just before adapt call number `grow`
    late = grow is not None
    if late:
        tag += '|random variable declared between adapt calls'
    if is_ro:
        m = _rs['ro'].Model()
        pre = m.dvar(2)
        rvars = _make_rvars(m, rl, late)
        y = m.ldr() if nrows == 1 else m.ldr(nrows)
        fac = [1.0]
        part = P.declared_partition([], 1)
    else:
        m = _rs['dro'].Model(S)
        pre = m.dvar(2)
        rvars = _make_rvars(m, rl, late)
        mirrors = [((m.rvar() if rv.shape == () else m.rvar(rv.shape)), comps) for rv, comps in rvars]
        if aux.endswith('-before'):
            auxv = m.dvar()
            _aux_adapt(auxv, aux, S)
            ops(2)
        y = m.dvar() if nrows == 1 else m.dvar(nrows)
        hist = case.get('yh') or ([[S - 1]] if S >= 2 else [])
        part = P.declared_partition(hist, S)
        blocks = sorted(part, key=min)
        tau_s = [2.0 + [bi for bi, b in enumerate(blocks) if s_ in b][0] for s_ in range(S)]
        fac = [1.0 + t_ / 4.0 for t_ in tau_s]
        if case.get('yh'):
            tag += '|events %s' % P.fmt_hist(P.reference_event_order(hist, S))
    tau = m.dvar() if nrows == 1 else m.dvar(nrows)
    if not is_ro and S >= 2:
        for blk in hist:          # the residual bound is event-wise too, so every event is pinned on its own
            y.adapt(blk[0] if len(blk) == 1 else list(blk))
            tau.adapt(blk[0] if len(blk) == 1 else list(blk))
            ops(2)
    if aux != 'none' and not aux.endswith('-before'):
        auxv = m.dvar()           # the LAST declared decision has another partition than the adaptive one
        _aux_adapt(auxv, aux, S)
        ops(2)
    ops(4 + 2 * len(rvars))
    done = []

    def grow_now():
        rv_new = _late_rvar(m, rl, rvars)
        if not is_ro:
            mirrors.append(((m.rvar() if rv_new[0].shape == () else m.rvar(rv_new[0].shape)), rv_new[1]))
        ops(2)
    for k, (rows, cols) in enumerate(seq):
        if late and grow == k:
            grow_now()
        try:
            ops(Bd.declare_rect(y, rows, cols, rvars, nrows, style))
        except Exception as ex:  # noqa
            return _viol(tag + '|legal declaration raised', 'after %s declaring rows %s x comps %s: %s %s' %
                         (done, rows, cols, Bd.errname(ex), ex), ops.n)
        done.append([rows, cols])
        state = y.depend if is_ro else y.rand_adapt
        mdone = np.array(P.mask_of_rects([(r, c) for r, c in done], nrows, d))
        bad_state = state is None or np.asarray(state).ndim != 2 or np.asarray(state).shape[0] != nrows
        if not bad_state:
            st_ = np.asarray(state)
            want = np.zeros(st_.shape, dtype=int)
            for rv, comps in rvars:
                for c_ in comps:
                    col = rv.first + (c_ - comps[0])
                    if col < want.shape[1]:
                        want[:, col] = mdone[:, c_]
                    elif mdone[:, c_].any():
                        bad_state = True
            bad_state = bad_state or not np.array_equal(st_, want)
        if bad_state:
            return _viol(tag + '|dependency state differs from declared mask',
                         'after %s: state %s declared (by component) %s' %
                         (done, None if state is None else np.asarray(state).tolist(), mdone.tolist()), ops.n)
    if late and grow >= len(seq):
        grow_now()
    mask = np.array(P.mask_of_rects([(r, c) for r, c in seq], nrows, d))
    colmap = {}
    for rv, comps in rvars:
        for c_ in comps:
            colmap[c_] = rv.first + (c_ - comps[0])
    B, a = _mask_palette(nrows, d, case['pal'])
    box = Bd.box_constraints(rvars)

    def lin(pairs, coef):
        if nrows == 1:
            e = 0.0
            for rv, comps in pairs:
                e = e + (coef[0, comps[0]] * rv if rv.shape == () else coef[0, comps] @ rv)
            return e
        return Bd.rand_expr(pairs, coef)
    t = (a[0] if nrows == 1 else a) + lin(rvars, B)
    if mirrors:
        t = t + lin(mirrors, B / 4.0)
    ops(2 * len(rvars) + 1)
    try:
        if is_ro:
            m.minmax(tau.sum() if nrows > 1 else tau, box)
        else:
            fset = m.ambiguity()
            for s_ in range(S):
                sup = list(box)
                for (rv, _), (mv, _) in zip(rvars, mirrors):
                    sup.append(mv == tau_s[s_] * rv)
                fset.iloc[s_].suppset(*sup)
                ops()
            pr, _ = P.palette_pd(S, case['pal'])
            fset.probset(m.p == pr)
            obj = tau.sum() if nrows > 1 else tau
            if auxv is not None:
                obj = obj + auxv
                m.st(auxv >= 1.0)
            m.minsup(_rs['E'](obj), fset)
        m.st(tau >= y - t, tau >= t - y, pre == np.array([1.0, 2.0]))
        ops(5)
        m.solve(display=False)
        ops()
    except Exception as ex:  # noqa
        return _viol(tag + '|legal model failed to formulate', 'mask %s: %s %s' % (mask.tolist(), Bd.errname(ex), ex), ops.n)
    if not Bd.is_optimal(m):
        return {'status': 'vacuous', 'outcome': 'mask:not optimal', 'ops': ops.n}
    if is_ro:
        want_obj = float(np.abs(B[mask == 0]).sum())
    else:
        want_obj = float(np.dot(pr, fac) * np.abs(B[mask == 0]).sum()) + (1.0 if auxv is not None else 0.0)
    got = float(m.get())
    ops()
    if not _close(got, want_obj):
        return _viol(tag + '|optimum differs from closed form',
                     'mask %s declared by %s: objective %r expected %r' % (mask.tolist(), seq, got, want_obj), ops.n)
    if not seq:
        # nothing declared: the decision is static; coefficient queries / realisation arguments do not apply
        return {'status': 'pass', 'outcome': 'mask:ok cells=0 (static)', 'ops': ops.n, 'nontrivial': False, 'validated': 1}
    # ---- compiled program (dro): scenarios share coefficient columns iff they are in the same event
    if not is_ro:
        rules = m.rule_var()
        nrand = m.sup_model.vars[-1].last
        ccols = []
        for s_ in range(S):
            r = rules[s_]
            if not isinstance(r, lp.RoAffine):
                return _viol(tag + '|compiled rule is not affine in the random variables', type(r).__name__, ops.n)
            ra = r.raffine.linear.tocsr()
            cs = []
            for i in range(nrows):
                for j in range(d):
                    row = ra.getrow((y.first + i) * nrand + colmap[j])
                    if mask[i, j]:
                        if row.nnz != 1:
                            return _viol(tag + '|declared cell has no coefficient column', 'row %d comp %d' % (i, j), ops.n)
                        cs.append(int(row.indices[0]))
                    elif row.nnz:
                        return _viol(tag + '|undeclared cell has a coefficient column', 'row %d comp %d' % (i, j), ops.n)
                for j in range(nrand):
                    if j not in colmap.values() and ra.getrow((y.first + i) * nrand + j).nnz:
                        return _viol(tag + '|undeclared cell has a coefficient column', 'row %d sup column %d' % (i, j), ops.n)
            ccols.append(tuple(cs))
        for s_ in range(S):
            for t_ in range(S):
                same = P.same_block(part, s_, t_)
                if same and ccols[s_] != ccols[t_]:
                    return _viol(tag + '|same event, different coefficient columns', '%s' % (ccols,), ops.n)
                if not same and set(ccols[s_]) & set(ccols[t_]):
                    return _viol(tag + '|different events share coefficient columns', '%s' % (ccols,), ops.n)
    # ---- coefficient queries: NaN exactly off-mask
    yshape = () if nrows == 1 else (nrows,)
    full = [np.full((nrows, d), np.nan) for _ in range(S)]
    for rv, comps in rvars + mirrors:
        is_mirror = any(rv is mv for mv, _ in mirrors)
        try:
            coef = y.get(rv)
            ops()
        except Exception as ex:  # noqa
            return _viol(tag + '|coefficient query raised', 'mask %s: y.get(rv) %s %s' % (mask.tolist(), Bd.errname(ex), ex), ops.n)
        per_s = list(coef) if isinstance(coef, pd.Series) else [coef] * S
        if len(per_s) != S:
            return _viol(tag + '|coefficient query shape', 'series of length %d for %d scenarios' % (len(per_s), S), ops.n)
        for s_, cf in enumerate(per_s):
            cf = np.asarray(cf, dtype=float)
            if cf.shape != yshape + tuple(rv.shape):
                return _viol(tag + '|coefficient query shape', 'got %s expected %s' % (cf.shape, yshape + tuple(rv.shape)), ops.n)
            cf2 = cf.reshape(nrows, len(comps))
            mm = mask[:, comps] if not is_mirror else np.zeros((nrows, len(comps)), dtype=int)
            if not np.array_equal(np.isnan(cf2), mm == 0):
                return _viol(tag + '|NaN pattern differs from declared mask',
                             'mask %s comps %s%s: coefficients %s' % (mask.tolist(), comps, ' (mirror)' if is_mirror else '',
                                                                      cf2.tolist()), ops.n)
            if not np.allclose(cf2[mm == 1], fac[s_] * B[:, comps][mm == 1], rtol=0, atol=1e-6 * 60):
                return _viol(tag + '|coefficient value', 'mask %s comps %s scenario %d: coefficients %s expected %s' %
                             (mask.tolist(), comps, s_, cf2.tolist(), (fac[s_] * B[:, comps]).tolist()), ops.n)
            if not is_mirror:
                full[s_][:, comps] = cf2
    # ---- the rule reported by get() / get(z): identical inside an event, and it is the rule the model enforces
    vq = np.array([0.5, -0.25, 0.75])[:d]
    try:
        c0 = y.get()
        ops()
        c0s = [np.asarray(c, dtype=float).reshape(nrows) for c in (list(c0) if isinstance(c0, pd.Series) else [c0] * S)]
    except Exception as ex:  # noqa
        return _viol(tag + '|constant query raised', '%s %s' % (Bd.errname(ex), ex), ops.n)
    for s_ in range(S):
        for t_ in range(S):
            if P.same_block(part, s_, t_) and not (np.allclose(c0s[s_], c0s[t_], atol=1e-9) and
                                                   np.allclose(full[s_], full[t_], atol=1e-9, equal_nan=True)):
                return _viol(tag + '|reported rule differs between scenarios of one event',
                             'scenarios %d,%d: %s + %s z  vs  %s + %s z' % (s_, t_, c0s[s_].tolist(), full[s_].tolist(),
                                                                           c0s[t_].tolist(), full[t_].tolist()), ops.n)
        recon = c0s[s_] + np.nan_to_num(full[s_]) @ vq
        want_v = a + fac[s_] * ((B * mask) @ vq)
        if not np.allclose(recon, want_v, rtol=0, atol=1e-6 * 60):
            return _viol(tag + '|reported rule get()+get(z)@z is not the enforced rule',
                         'mask %s scenario %d at z=%s: %s expected %s' % (mask.tolist(), s_, vq.tolist(), recon.tolist(),
                                                                        want_v.tolist()), ops.n)
    # ---- the returned rule ignores components it was not declared to depend on
    v1 = np.array([0.5, -0.25, 0.75])[:d]

    def per_scen(res):
        items = list(res) if isinstance(res, pd.Series) else [res] * S
        return [np.asarray(b, dtype=float).reshape(nrows) for b in items]
    try:
        base_s = per_scen(y(*Bd.assign_all(rvars, v1)))
        ops()
        sens = 0
        for i in range(nrows):
            v2 = v1.copy()
            v2[mask[i] == 0] += np.array([1.0, -2.0, 0.5])[:d][mask[i] == 0]
            other_s = per_scen(y(*Bd.assign_all(rvars, v2)))
            ops()
            for s_, (b0, b1) in enumerate(zip(base_s, other_s)):
                if abs(b0[i] - b1[i]) > 1e-7:
                    return _viol(tag + '|rule value changes with an undeclared component',
                                 'mask %s row %d: %r at %s vs %r at %s' % (mask.tolist(), i, b0[i], v1.tolist(), b1[i], v2.tolist()),
                                 ops.n)
                want_i = a[i] + fac[s_] * float((B[i] * mask[i]) @ v1)
                if abs(b0[i] - want_i) > 1e-6 * 60:
                    return _viol(tag + '|rule value differs from closed form',
                                 'mask %s row %d scenario %d: %r expected %r' % (mask.tolist(), i, s_, b0[i], want_i), ops.n)
            if mask[i].any():
                v3 = v1.copy()
                v3[mask[i] == 1] += 1.0
                o3_s = per_scen(y(*Bd.assign_all(rvars, v3)))
                if abs(o3_s[0][i] - base_s[0][i]) > 1e-3:
                    sens += 1
    except Exception as ex:  # noqa
        return {'status': 'unsupported', 'outcome': 'mask:rule evaluation raises %s' % Bd.errname(ex), 'ops': ops.n,
                'detail': str(ex)[:200]}
    return {'status': 'pass', 'outcome': 'mask:ok cells=%d' % int(mask.sum()), 'ops': ops.n,
            'nontrivial': bool(mask.sum() > 0 and sens > 0), 'states': len(seq) + 1, 'validated': 1}


def _run_maskill(case):
    Bd = _rs['B']
    fe, rl, nrows, seq, bad = case['fe'], case['rl'], case['rows'], case['seq'], case['bad']
    ops = Bd.Ops()
    is_ro = fe == 'ro'
    if is_ro:
        m = _rs['ro'].Model()
        rvars = Bd.make_rvars(m, rl)
        y = m.ldr() if nrows == 1 else m.ldr(nrows)
    else:
        S = int(fe[3:])
        m = _rs['dro'].Model(S)
        rvars = Bd.make_rvars(m, rl)
        y = m.dvar() if nrows == 1 else m.dvar(nrows)
    ops(2 + len(rvars))
    for rows, cols in seq:
        ops(Bd.declare_rect(y, rows, cols, rvars, nrows))
    d = Bd.rand_dim(rl)
    want = np.array(P.mask_of_rects([(r, c) for r, c in seq], nrows, d))
    state = y.depend if is_ro else y.rand_adapt
    if state is None or not np.array_equal(np.asarray(state), want):
        return {'status': 'vacuous', 'outcome': 'maskill:prefix not established', 'ops': ops.n}
    tag = 'maskill|%s' % ('ro' if is_ro else 'dro')
    # split the bad rectangle per random variable: the call that overlaps must raise
    raised = None
    try:
        ops(Bd.declare_rect(y, bad[0], bad[1], rvars, nrows))
    except Exception as ex:  # noqa
        raised = Bd.errname(ex)
    if raised is None:
        return _viol(tag + '|re-declaration accepted', 'declared %s then rows %s x comps %s did not raise' % (seq, bad[0], bad[1]),
                     ops.n)
    return {'status': 'pass', 'outcome': 'maskill:raises %s' % raised, 'ops': ops.n, 'nontrivial': True, 'validated': 1}


# ----------------------------------------------------------------------------------------------- two adaptive variables
def _run_twoadapt(case):
    """Two affinely adaptive decision variables x (event-wise) and y (plain or event-wise) tracking per-event targets
    f_s*B z (mirror trick, one mirror per variable), event-wise residual bounds, objective E(sum of bounds) and, with
    mix=True, additionally E(0.5*(x[0]-z[0]) + 0.25*(y[1]+z[1])) under known scenario means: the adaptive part of a decision
    inside an expectation that also has an explicit random term must be counted."""
    Bd = _rs['B']
    lp = _rs['lp']
    pd = _rs['pd']
    E = _rs['E']
    n, hx, hy, order, mix = case['n'], case['hx'], case['hy'], case['order'], case['mix']
    mx, my = np.array(case['mx']), np.array(case['my'])
    ops = Bd.Ops()
    tag = 'twoadapt|%s' % ('mixed expectation' if mix else 'plain')
    m = _rs['dro'].Model(n)
    z = m.rvar(2)
    w1 = m.rvar(2)
    w2 = m.rvar(2)
    pre = m.dvar()
    if order == 'xy':
        x = m.dvar(2)
        y = m.dvar(2)
    else:
        y = m.dvar(2)
        x = m.dvar(2)
    tx = m.dvar(2)
    ty = m.dvar(2)
    last = m.dvar()
    ops(10)
    for v, h in ((x, hx), (tx, hx), (y, hy), (ty, hy)):
        for blk in h:
            v.adapt(blk[0] if len(blk) == 1 else list(blk))
            ops()
    for v, mk in ((x, mx), (y, my)):
        for i in range(2):
            cols = [j for j in range(2) if mk[i, j]]
            if cols:
                v[i].adapt(z if len(cols) == 2 else z[cols[0]])
                ops()
    px, py = P.declared_partition(hx, n), P.declared_partition(hy, n)

    def factors(part):
        blocks = sorted(part, key=min)
        t = [2.0 + [bi for bi, b in enumerate(blocks) if s_ in b][0] for s_ in range(n)]
        return t, [1.0 + v / 4.0 for v in t]
    tauX, fX = factors(px)
    tauY, fY = factors(py)
    sgn = 1.0 if case['pal'] % 2 == 0 else -1.0
    Bx = sgn * np.array([[1.0, 2.0], [4.0, 8.0]])
    By = np.array([[3.0, 5.0], [7.0, 11.0]])
    ax, ay = np.array([0.5, -1.5]), np.array([2.0, -0.5])
    mu = np.array([[0.5, 0.25], [-0.25, 0.5], [0.75, -0.5]])[:n]
    pr, _ = P.palette_pd(n, case['pal'])
    fset = m.ambiguity()
    try:
        for s_ in range(n):
            fset.iloc[s_].suppset(z >= -1, z <= 1, w1 == tauX[s_] * z, w2 == tauY[s_] * z)
            if mix:
                fset.iloc[s_].exptset(E(z) == mu[s_])
        fset.probset(m.p == pr)
        tX = ax + Bx @ z + (Bx / 4.0) @ w1
        tY = ay + By @ z + (By / 4.0) @ w2
        obj = tx.sum() + ty.sum() + pre + last
        if mix:
            obj = obj + 0.5 * (x[0] - z[0]) + 0.25 * (y[1] + z[1])
        m.minsup(E(obj), fset)
        m.st(tx >= x - tX, tx >= tX - x, ty >= y - tY, ty >= tY - y, pre >= 1.0, last >= 2.0)
        ops(8 + 2 * n)
        m.solve(display=False)
        ops()
    except Exception as ex:  # noqa
        return _viol(tag + '|legal model failed to formulate', '%s %s' % (Bd.errname(ex), ex), ops.n)
    if not Bd.is_optimal(m):
        return {'status': 'vacuous', 'outcome': 'twoadapt:not optimal', 'ops': ops.n}
    offX, offY = float(np.abs(Bx[mx == 0]).sum()), float(np.abs(By[my == 0]).sum())
    want = 3.0
    for s_ in range(n):
        val = fX[s_] * offX + fY[s_] * offY
        if mix:
            val += 0.5 * (ax[0] + fX[s_] * float((Bx[0] * mx[0]) @ mu[s_]) - mu[s_, 0])
            val += 0.25 * (ay[1] + fY[s_] * float((By[1] * my[1]) @ mu[s_]) + mu[s_, 1])
        want += pr[s_] * val
    got = float(m.get())
    if not _close(got, want):
        return _viol(tag + '|optimum differs from closed form',
                     'x events %s mask %s, y events %s mask %s, declared %s: objective %r expected %r' %
                     (x.event_adapt, mx.tolist(), y.event_adapt, my.tolist(), order, got, want), ops.n)
    # ---- compiled program: one coefficient column per (variable, event, entry, component) cell, none shared
    rules = m.rule_var()
    nrand = m.sup_model.vars[-1].last
    owner = {}
    for vname, v, mk, part in (('x', x, mx, px), ('y', y, my, py)):
        for s_ in range(n):
            r = rules[s_]
            if not isinstance(r, lp.RoAffine):
                return _viol(tag + '|compiled rule is not affine in the random variables', type(r).__name__, ops.n)
            ra = r.raffine.linear.tocsr()
            ev = min(P.block_of(part, s_))
            for i in range(2):
                for j in range(nrand):
                    row = ra.getrow((v.first + i) * nrand + j)
                    declared = j < 2 and mk[i, j]
                    if bool(row.nnz) != bool(declared) or row.nnz > 1:
                        return _viol(tag + '|coefficient columns differ from the declared mask',
                                     '%s[%d] component %d scenario %d: %d columns' % (vname, i, j, s_, row.nnz), ops.n)
                    if declared:
                        col = int(row.indices[0])
                        cell = (vname, ev, i, j)
                        if owner.setdefault(col, cell) != cell:
                            return _viol(tag + '|coefficient column shared between different cells',
                                         'column %d: %s and %s' % (col, owner[col], cell), ops.n)
    cells = {}
    for col, cell in owner.items():
        if cells.setdefault(cell, col) != col:
            return _viol(tag + '|one cell has several coefficient columns', '%s' % (cell,), ops.n)
    # ---- reported rules
    for vname, v, mk, f, Bv in (('x', x, mx, fX, Bx), ('y', y, my, fY, By)):
        try:
            cf = v.get(z)
            ops()
        except Exception as ex:  # noqa
            return _viol(tag + '|coefficient query raised', '%s.get(z): %s %s' % (vname, Bd.errname(ex), ex), ops.n)
        per = list(cf) if isinstance(cf, pd.Series) else [cf] * n
        if len(per) != n:
            return _viol(tag + '|coefficient query shape', '%s.get(z) has %d entries' % (vname, len(per)), ops.n)
        for s_ in range(n):
            c_ = np.asarray(per[s_], dtype=float)
            if c_.shape != (2, 2) or not np.array_equal(np.isnan(c_), mk == 0):
                return _viol(tag + '|NaN pattern differs from declared mask', '%s scenario %d: %s' % (vname, s_, c_.tolist()), ops.n)
            if not np.allclose(c_[mk == 1], f[s_] * Bv[mk == 1], rtol=0, atol=1e-5 * 20):
                return _viol(tag + '|coefficient value', '%s scenario %d: %s expected %s' %
                             (vname, s_, c_.tolist(), (f[s_] * Bv).tolist()), ops.n)
    return {'status': 'pass', 'outcome': 'twoadapt:ok', 'ops': ops.n, 'nontrivial': True, 'validated': 1}


# ----------------------------------------------------------------------------------------------- pairs
def _declare_part(v, part):
    for blk in P.canonical_history(part, None):
        v.adapt(blk[0] if len(blk) == 1 else list(blk))


def _declare_hist(v, hist):
    for blk in hist:
        v.adapt(blk[0] if len(blk) == 1 else list(blk))


def _combine(comb, x, y, q, z, rso):
    if comb == 'add':
        return x + y
    if comb == 'radd':
        return y + x
    if comb == 'sub':
        return x - 2 * y
    if comb == 'concat':
        return rso.concat((x, y))
    if comb == 'rstack':
        return rso.rstack(x, y)
    if comb == 'vec':
        return rso.vec(x[0], y[1])
    if comb == 'idxadd':
        return x[0] + y[1]
    if comb == 'abs+':
        return abs(x) + y
    if comb == '+abs':
        return y + abs(x)
    if comb == 'norm+':
        return rso.norm(x) + y.sum()
    if comb == 'sq+':
        return rso.sumsqr(x) + y[0]
    if comb == 'exp+':
        return rso.exp(x) + y
    if comb == 'mulz+':
        return x * z + y
    if comb == '+mulz':
        return y + x * z
    if comb == 'add3':
        return (x + q) + y
    if comb == 'scale+':
        return 3 * x + (y @ np.array([[1.0, 2.0], [0.5, 1.0]]))
    if comb == 'concat-r':
        return rso.concat((y, x))
    if comb == 'rstack-r':
        return rso.rstack(y, x)
    if comb == 'vec-r':
        return rso.vec(y[1], x[0])
    if comb == 'concat-static-first':
        return rso.concat((q, x, y))
    if comb == 'concat-const-first':
        return rso.concat((np.array([1.0, 2.0]), y, x))
    if comb == 'vec-static-first':
        return rso.vec(q[0], 1.5, x[0], y[1])
    if comb == 'rstack-static-first':
        return rso.rstack(q, y, x)
    if comb == 'le':
        return x + y <= 1
    if comb == 'ge':
        return x >= y
    if comb == 'eq':
        return x - y == 1
    if comb == 'abs()':
        return abs(x + y)
    if comb == 'norm()':
        return rso.norm(x - y)
    if comb == 'sumsqr()':
        return rso.sumsqr(y + x)
    if comb == 'exp()':
        return rso.exp(x + y)
    if comb == 'abs()<=':
        return abs(x + y) <= 3
    if comb == 'expcone':
        return rso.expcone(x[0], y[1], 1)
    if comb == 'expcone3':
        return rso.expcone(q[0], x[0], y[1])
    if comb == '()*z':
        return (x + y) * z
    if comb == '()@z<=':
        return (x + y) @ z <= 1
    raise ValueError(comb)


def _run_pair(case):
    Bd = _rs['B']
    rso = _rs['rso']
    n, comb = case['n'], case['comb']
    h1, h2 = case['h1'], case['h2']
    p1, p2 = P.declared_partition(h1, n), P.declared_partition(h2, n)
    ops = Bd.Ops()
    m = _rs['dro'].Model(n)
    x = m.dvar(2)
    q = m.dvar(2)
    y = m.dvar(2)
    z = m.rvar(2)
    ops(5)
    _declare_hist(x, h1)
    _declare_hist(y, h2)
    ops(len(h1) + len(h2))
    # operands: the declared partition AND the listing order of the reference bookkeeping (the case is about that order)
    if ([sorted(b) for b in x.event_adapt] != [sorted(b) for b in P.reference_event_order(h1, n)] or
            [sorted(b) for b in y.event_adapt] != [sorted(b) for b in P.reference_event_order(h2, n)]):
        return {'status': 'vacuous', 'outcome': 'pair:operands not established', 'ops': ops.n}
    tag = 'pair|%s' % comb
    try:
        e = _combine(comb, x, y, q, z, rso)
        ops()
    except Exception as ex:  # noqa
        return {'status': 'unsupported', 'outcome': 'pair:%s raises %s' % (comb, Bd.errname(ex)), 'ops': ops.n}
    ea = getattr(e, 'event_adapt', None)
    want = P.meet(p1, p2)
    if ea is None:
        return _viol(tag + '|no event_adapt on the combined expression', type(e).__name__, ops.n)
    if not P.is_partition_of(ea, n) or P.as_partition(ea) != want:
        return _viol(tag + '|event_adapt differs from the coarsest common refinement',
                     'x events %s with y events %s: event_adapt %s expected %s' % (x.event_adapt, y.event_adapt, ea,
                                                                                    P.fmt_part(want)), ops.n)
    if P.as_partition(x.event_adapt) != p1 or P.as_partition(y.event_adapt) != p2:
        return _viol(tag + '|operand partition changed by combining',
                     'x %s y %s' % (x.event_adapt, y.event_adapt), ops.n)
    return {'status': 'pass', 'outcome': 'pair:ok blocks=%d' % len(want), 'ops': ops.n,
            'nontrivial': len(want) > max(len(p1), len(p2)) or p1 != p2, 'validated': 1}


def _scen_list(obs, n):
    """Per-scenario list of a query result (Series by position for default labels, or a plain value for all)."""
    pd = _rs['pd']
    if isinstance(obs, pd.Series):
        if len(obs) != n or list(obs.index) != list(range(n)):
            return None
        return [np.asarray(obs.loc[i], dtype=float) for i in range(n)]
    return [np.asarray(obs, dtype=float)] * n


def _run_pairval(case):
    """Solved model with two pinned event-wise decisions whose event lists are in the given orders: the value of every
    combined expression in scenario s is the combination of x(s) and y(s) (read from the raw solver vector)."""
    Bd = _rs['B']
    rso = _rs['rso']
    n, h1, h2 = case['n'], case['h1'], case['h2']
    specs = [{'name': 'x', 'shape': (2,), 'hist': h1, 'ind': True}, {'name': 'y', 'shape': (2,), 'hist': h2, 'ind': True},
             {'name': 'q', 'shape': ()}]
    try:
        env = Bd.Env('dro%d' % n, specs, case['pal'], 'eq', 'min', objform='E', positive=True)
        ok = env.solve()
    except Exception as ex:  # noqa
        return _viol('pairval|legal model failed to formulate', '%s %s' % (Bd.errname(ex), ex), 0)
    if not ok:
        return {'status': 'vacuous', 'outcome': 'pairval:not optimal', 'ops': env.ops.n}
    bad = env.check_raw()
    if bad:
        return _viol('pairval|raw solver vector does not hold the pinned optimum at the reference positions', bad, env.ops.n)
    got, want = float(env.m.get()), env.expected_objective()
    if not _close(got, want):
        return _viol('pairval|expectation objective differs from closed form', '%r vs %r' % (got, want), env.ops.n)
    x, y = env.vars['x'], env.vars['y']
    rx = [env.raw('x', s_) for s_ in range(n)]
    ry = [env.raw('y', s_) for s_ in range(n)]
    items = [('x+y', lambda: (x + y)(), lambda a, b: a + b), ('y+x', lambda: (y + x)(), lambda a, b: a + b),
             ('x-2*y', lambda: (x - 2 * y)(), lambda a, b: a - 2 * b),
             ('concat', lambda: rso.concat((x, y))(), lambda a, b: np.concatenate([a, b])),
             ('abs(x-y)', lambda: abs(x - y)(), lambda a, b: np.abs(a - b)),
             ('x[0]+y[1]', lambda: (x[0] + y[1])(), lambda a, b: a[0] + b[1])]
    nok = 0
    for name, fn, ref in items:
        try:
            obs = fn()
            env.ops()
        except Exception:  # noqa
            continue
        vals = _scen_list(obs, n)
        exps = [np.asarray(ref(rx[s_], ry[s_]), dtype=float) for s_ in range(n)]
        if vals is None or any(v.shape != e.shape or not np.allclose(v, e, rtol=0, atol=1e-9 * (1 + np.abs(e).max()))
                               for v, e in zip(vals, exps)):
            return _viol('pairval|%s|per-scenario value differs from the combination of the operands' % name,
                         'x events %s y events %s: observed %s expected %s' %
                         (x.event_adapt, y.event_adapt, obs if vals is None else [v.tolist() for v in vals],
                          [e.tolist() for e in exps]), env.ops.n)
        nok += 1
    if nok == 0:
        return {'status': 'unsupported', 'outcome': 'pairval:every expression call raises', 'ops': env.ops.n}
    return {'status': 'pass', 'outcome': 'pairval:ok', 'ops': env.ops.n, 'nontrivial': n >= 2, 'validated': nok}


def _run_pairopt(case):
    Bd = _rs['B']
    E = _rs['E']
    n, model = case['n'], case['model']
    p1, p2 = P.as_partition(case['p1']), P.as_partition(case['p2'])
    ops = Bd.Ops()
    m = _rs['dro'].Model(n)
    x = m.dvar(2)
    y = m.dvar(2)
    u = m.rvar()
    fset = m.ambiguity()
    ops(5)
    _declare_part(x, case['p1'])
    _declare_part(y, case['p2'])
    p, h = P.palette_pd(n, case['pal'])
    for s in range(n):
        fset.iloc[s].suppset(u == h[s])
    fset.probset(m.p == p)
    ops(n + 1 + len(case['p1']) + len(case['p2']))
    tag = 'pairopt|%s' % model
    try:
        m.minsup(E(1.0 * x[0] + 2.0 * y[1] + x[1] + y[0]), fset)
        if model == 'sum':
            m.st(x[0] + y[1] >= u, x >= 0, y >= 0)
            want = P.lp_two_partitions(p1, p2, p, h, 1.0, 2.0, [0.0] * n, [0.0] * n, 'sum')
        else:
            m.st(abs(x[0]) <= y[1], x[0] >= u, x[1] >= 0, y[0] >= 0)
            want = P.lp_two_partitions(p1, p2, p, h, 1.0, 2.0, None, None, 'abs')
        ops(3)
        m.solve(display=False)
        ops()
    except Exception as ex:  # noqa
        return _viol(tag + '|legal model failed to formulate', '%s %s' % (Bd.errname(ex), ex), ops.n)
    if not Bd.is_optimal(m) or want is None:
        return {'status': 'vacuous', 'outcome': 'pairopt:not optimal', 'ops': ops.n}
    got = float(m.get())
    if not _close(got, want):
        return _viol(tag + '|optimum differs from the reference LP',
                     '%s with %s: objective %r reference %r' % (P.fmt_part(p1), P.fmt_part(p2), got, want), ops.n)
    return {'status': 'pass', 'outcome': 'pairopt:ok', 'ops': ops.n, 'nontrivial': True, 'validated': 1}


# ----------------------------------------------------------------------------------------------- order
def _per_scenario(obs, n, shape, labels=None):
    """Per-scenario list of arrays of a DecVar.get() result: a Series labelled by the scenarios in scenario order, or a
    plain array when the decision has a single event.  None when the result has another form."""
    pd = _rs['pd']
    if isinstance(obs, pd.Series):
        if len(obs) != n or list(obs.index) != list(range(n) if labels is None else labels):
            return None
        items = [np.asarray(obs.iloc[i], dtype=float) for i in range(n)]
    else:
        items = [np.asarray(obs, dtype=float)] * n
    if any(it.shape != tuple(shape) for it in items):
        return None
    return items


def _run_order(case):
    """Two event-wise decisions x, y (2 entries each) whose partitions are declared by the adapt timeline `tl`; the coupling
    constraint x + y >= c (in the spelling `kind`) is written - as an expression, as a constraint object, or stated - just
    before call number k of the timeline, the rest at the end; with obj='first' the objective and the single-variable
    constraints are stated before every adapt call.  Every spelling at every point denotes the same model:

        min sup E(cx.x + cy.y + sum q)   s.t.  x(s) >= g*d_s,  y >= 0,  q == 1,  x(s) + y(s) >= c      (per entry)

    with x, y constant on the events of the FINAL partitions.  Reference: scipy LP with one variable per (decision, event,
    entry); the values reported by x.get() / y.get() must be constant on events, feasible scenario by scenario and attain
    the reference optimum (a certificate that does not depend on the LP solution being unique)."""
    Bd = _rs['B']
    rso = _rs['rso']
    E = _rs['E']
    n, tl, k, stage, kind, obj = case['n'], case['tl'], case['k'], case['stage'], case['kind'], case['obj']
    hx = [b for v, b in tl if v == 'x']
    hy = [b for v, b in tl if v == 'y']
    px, py = P.declared_partition(hx, n), P.declared_partition(hy, n)
    later = len(tl) - k
    tag = 'order|%s|%s %s|objective %s' % (kind, {'expr': 'expression built', 'constr': 'constraint built',
                                                  'st': 'constraint stated'}[stage],
                                           'before a later adapt call' if later else 'after all adapt calls', obj)
    ops = Bd.Ops()
    p, d = P.palette_pd(n, case['pal'])
    g = np.array([1.0, 2.0])
    c = np.array([10.0, 20.0])
    cx = np.array([2.0, 3.0])
    cy = np.array([1.0, 1.5])
    m = _rs['dro'].Model(n)
    u = m.rvar()
    x = m.dvar(2)
    q = m.dvar(2)
    y = m.dvar(2)
    t = m.dvar(2)
    fset = m.ambiguity()
    for s in range(n):
        fset.iloc[s].suppset(u == d[s])
    fset.probset(m.p == p)
    ops(8 + n)
    M = np.hstack([np.eye(2), np.eye(2)])
    one = np.ones(2)
    exprs = {
        'x+y>=c': lambda: [x + y], 'y+x>=c': lambda: [y + x], 'c<=x+y': lambda: [x + y], 'x>=c-y': lambda: [c - y],
        'c-y<=x': lambda: [c - y], '-x-y<=-c': lambda: [-x - y], '2(x+y)>=2c': lambda: [2 * (x + y)],
        'x-(c-y)>=0': lambda: [x - (c - y)], 'x+q+y>=c+1': lambda: [(x + q) + y],
        'concat': lambda: [rso.concat((x, y))], 'concat-r': lambda: [rso.concat((y, x))],
        'vec': lambda: [rso.vec(x[0], y[0]), rso.vec(y[1], x[1])], 'idx': lambda: [x[0] + y[0], y[1] + x[1]],
        'maxof': lambda: [rso.maxof(c[0] - x[0] - y[0], c[1] - x[1] - y[1])],
        'eq-slack': lambda: [x + y - t], 'abs': lambda: [abs(x + y - c - 10.0)], 'rand': lambda: [x + y],
        'E': lambda: [E(x + y)]}[kind]
    constrs = {
        'x+y>=c': lambda e: [e[0] >= c], 'y+x>=c': lambda e: [e[0] >= c], 'c<=x+y': lambda e: [c <= e[0]],
        'x>=c-y': lambda e: [x >= e[0]], 'c-y<=x': lambda e: [e[0] <= x], '-x-y<=-c': lambda e: [e[0] <= -c],
        '2(x+y)>=2c': lambda e: [e[0] >= 2 * c], 'x-(c-y)>=0': lambda e: [e[0] >= 0], 'x+q+y>=c+1': lambda e: [e[0] >= c + 1],
        'concat': lambda e: [M @ e[0] >= c], 'concat-r': lambda e: [M @ e[0] >= c],
        'vec': lambda e: [one @ e[0] >= c[0], one @ e[1] >= c[1]], 'idx': lambda e: [e[0] >= c[0], e[1] >= c[1]],
        'maxof': lambda e: [e[0] <= 0], 'eq-slack': lambda e: [e[0] == c, t >= 0], 'abs': lambda e: [e[0] <= 10.0],
        'rand': lambda e: [e[0] >= c + 0.5 * g * u], 'E': lambda e: [e[0] >= c]}[kind]

    def base():
        m.minsup(E(cx @ x + cy @ y + q.sum()), fset)
        m.st(x >= g * u, y >= 0, q == 1)
        ops(4)
    state = {}

    def advance(upto):
        order = ORDER_STAGES[:ORDER_STAGES.index(upto) + 1]
        if 'expr' in order and 'e' not in state:
            state['e'] = exprs()
            ops(len(state['e']))
        if 'constr' in order and 'c' not in state:
            state['c'] = constrs(state['e'])
            ops(len(state['c']))
        if 'st' in order and 'st' not in state:
            m.st(state['c'])
            state['st'] = True
            ops()
    used = {'x': False, 'y': False}
    try:
        if obj == 'first':
            base()
            used = {'x': True, 'y': True}
        for i, (v, blk) in enumerate(tl):
            if i == k:
                advance(stage)
                used = {'x': True, 'y': True}
            try:
                (x if v == 'x' else y).adapt(blk[0] if len(blk) == 1 else list(blk))
                ops()
            except Exception as ex:  # noqa
                if used[v]:   # a declaration after use may raise (ASSUMPTIONS); before any use it is an ordinary legal call
                    return {'status': 'pass', 'outcome': 'order:adapt after use raises %s' % Bd.errname(ex), 'ops': ops.n,
                            'nontrivial': False, 'validated': 1}
                return _viol(tag + '|legal declaration raised', 'timeline %s call %d: %s %s' % (tl, i, Bd.errname(ex), ex), ops.n)
        if kind == 'eq-slack':       # the slack takes one value per scenario, declared after every other adapt call
            try:
                for s in range(1, n):
                    t.adapt(s)
                    ops()
            except Exception as ex:  # noqa
                if 'e' in state:
                    return {'status': 'pass', 'outcome': 'order:adapt after use raises %s' % Bd.errname(ex), 'ops': ops.n,
                            'nontrivial': False, 'validated': 1}
                return _viol(tag + '|legal declaration raised', 'slack: %s %s' % (Bd.errname(ex), ex), ops.n)
        advance('st')
        if obj != 'first':
            base()
    except Exception as ex:  # noqa
        return _viol(tag + '|legal model failed to build', 'timeline %s: %s %s' % (tl, Bd.errname(ex), ex), ops.n)
    if P.as_partition(x.event_adapt) != px or P.as_partition(y.event_adapt) != py:
        return _viol(tag + '|event_adapt differs from declared partition',
                     'timeline %s: x %s y %s' % (tl, x.event_adapt, y.event_adapt), ops.n)
    try:
        m.solve(display=False)
        ops()
    except Exception as ex:  # noqa
        return _viol(tag + '|legal model failed to formulate', 'timeline %s: %s %s' % (tl, Bd.errname(ex), ex), ops.n)
    if not Bd.is_optimal(m):
        return {'status': 'vacuous', 'outcome': 'order:not optimal', 'ops': ops.n}
    # ---- reference, entry by entry (the model is separable in the two entries)
    want, slack_free, refs = 2.0, 2.0, []
    for i in range(2):
        lo = [g[i] * d, np.zeros(n)]
        rows, erows = [([1.0, 1.0], np.full(n, c[i]))], []
        if kind == 'rand':
            rows = [([1.0, 1.0], c[i] + 0.5 * g[i] * d)]
        elif kind == 'abs':
            rows.append(([-1.0, -1.0], np.full(n, -(c[i] + 20.0))))
        elif kind == 'E':
            rows, erows = [], [([1.0, 1.0], c[i])]
        ref = P.lp_event_decisions([px, py], p, [cx[i], cy[i]], rows, erows, lo)
        if ref is None:
            return {'status': 'vacuous', 'outcome': 'order:reference LP not solved', 'ops': ops.n}
        want += ref[0]
        slack_free += cx[i] * g[i] * P.optimum_event_max(px, p, d)      # optimum without the coupling: x = event max, y = 0
        refs.append((rows, erows, lo))
    got = float(m.get())
    ops()
    where = 'timeline %s, %s at point %d of %d' % (tl, stage, k, len(tl))
    if not _close(got, want):
        return _viol(tag + '|optimum differs from the reference LP',
                     '%s: x events %s y events %s objective %r reference %r' % (where, P.fmt_part(px), P.fmt_part(py), got, want),
                     ops.n)
    # ---- reported solution: constant on events, feasible in every scenario, attains the optimum
    try:
        gx, gy, gq = x.get(), y.get(), q.get()
        ops(3)
    except Exception as ex:  # noqa
        return _viol(tag + '|solution query raised', '%s: %s %s' % (where, Bd.errname(ex), ex), ops.n)
    sx, sy = _per_scenario(gx, n, (2,)), _per_scenario(gy, n, (2,))
    if sx is None or sy is None:
        return _viol(tag + '|reported solution is not one value per scenario', '%s: x.get() %r y.get() %r' % (where, gx, gy), ops.n)
    rep = 0.0
    for i in range(2):
        rows, erows, lo = refs[i]
        vals = [[sx[s][i] for s in range(n)], [sy[s][i] for s in range(n)]]
        bad, val = P.check_event_solution(vals, [px, py], p, [cx[i], cy[i]], rows, erows, lo, 1e-6)
        if bad:
            return _viol(tag + '|reported solution is not a solution of the declared model',
                         '%s: x events %s y events %s entry %d: %s; x.get() %s y.get() %s' %
                         (where, P.fmt_part(px), P.fmt_part(py), i, bad, [v.tolist() for v in sx], [v.tolist() for v in sy]), ops.n)
        rep += val
    rep += float(np.sum(np.asarray(gq, dtype=float)))
    if abs(rep - want) > 1e-5 * (1 + abs(want)):
        return _viol(tag + '|reported solution does not attain the optimum',
                     '%s: objective of the reported values %r, optimum %r' % (where, rep, want), ops.n)
    return {'status': 'pass', 'outcome': 'order:ok %s' % ('late' if later else 'control'), 'ops': ops.n,
            'nontrivial': bool(want - slack_free > 1e-3), 'states': len(tl) + 1, 'transitions': ops.n, 'validated': 1}


# ----------------------------------------------------------------------------------------------- late / int / mul
def _run_late_ro(case):
    Bd = _rs['B']
    ro = _rs['ro']
    use, decl, pre = case['use'], case['decl'], case['pre']
    ops = Bd.Ops()
    m = ro.Model()
    z = m.rvar(2)
    w = m.rvar()
    y = m.ldr(2)
    ops(4)
    if pre:
        y.adapt(z[0])
        ops()
    A = np.array([[1.0, 2.0], [0.5, 1.0]])
    if use == 'to_affine':
        y.to_affine()
    elif use == 'add':
        y + 1
    elif use == 'radd':
        1 + y
    elif use == 'neg':
        -y
    elif use == 'mul':
        2 * y
    elif use == 'matmul':
        A @ y
    elif use == 'sub_add':
        y[0] + 1
    elif use == 'le':
        y <= 1
    elif use == 'ge':
        y >= 1
    elif use == 'eq':
        y == 1
    elif use == 'st':
        m.st(y <= 1)
    elif use == 'T':
        y.T
    elif use == 'sum':
        y.sum()
    elif use == 'min':
        m.min(y.sum())
    elif use == 'reshape':
        y.reshape((2, 1))
    elif use == 'getitem':
        y[0]
    elif use == 'shape':
        y.shape
    ops()
    used = use in RO_USES
    raised = None
    try:
        if decl == 'whole':
            y.adapt(z[1])
        elif decl == 'slice':
            y[0].adapt(z[1])
        else:
            y.adapt(w)
        ops()
    except Exception as ex:  # noqa
        raised = Bd.errname(ex)
    if used:
        if raised is None:
            return _viol('late|ro|%s|adaptation after use accepted' % use, 'decl %s pre-declared %s' % (decl, pre), ops.n)
        return {'status': 'pass', 'outcome': 'late_ro:raises %s' % raised, 'ops': ops.n, 'nontrivial': True, 'validated': 1}
    if raised is not None:
        return {'status': 'unsupported', 'outcome': 'late_ro:legal late declaration raises %s' % raised, 'ops': ops.n}
    want = np.zeros((2, 3), dtype=int)
    if pre:
        want[:, 0] = 1
    if decl == 'whole':
        want[:, 1] = 1
    elif decl == 'slice':
        want[0, 1] = 1
    else:
        want[:, 2] = 1
    if not np.array_equal(np.asarray(y.depend), want):
        return _viol('late|ro|%s|dependency state differs from declared mask' % use, '%s vs %s' % (y.depend, want), ops.n)
    return {'status': 'pass', 'outcome': 'late_ro:unused rule accepts declaration', 'ops': ops.n, 'nontrivial': False,
            'validated': 1}


def _run_late_dro(case):
    Bd = _rs['B']
    E = _rs['E']
    n, stage, decl, prior = case['n'], case['stage'], case['decl'], case['prior']
    ops = Bd.Ops()
    m = _rs['dro'].Model(n)
    x = m.dvar(2)
    u = m.rvar()
    fset = m.ambiguity()
    p, d = P.palette_pd(n, case['pal'])
    for s in range(n):
        fset.iloc[s].suppset(u == d[s])
    fset.probset(m.p == p)
    ops(4 + n)
    hist = []
    aff = np.zeros(2, dtype=int)
    if prior == 'evt':
        x.adapt(0)
        hist.append([0])
        ops()
    elif prior == 'aff':
        x[1].adapt(u)
        aff[1] = 1
        ops()
    g = np.array([1.0, 2.0])
    c = np.array([1.0, 4.0])
    stages = DRO_STAGES[:DRO_STAGES.index(stage) + 1]
    expr = c @ x
    con = None
    tag = 'late|dro|after %s|%s' % (stage, decl)
    try:
        if 'constr' in stages:
            con = (x >= g * u)
        if 'st' in stages:
            m.st(con)
            m.minsup(E(expr), fset)
        if 'do_math' in stages:
            m.do_math()
        if 'solve' in stages:
            m.solve(display=False)
        ops(len(stages))
    except Exception as ex:  # noqa
        return {'status': 'vacuous', 'outcome': 'late_dro:setup raises %s' % Bd.errname(ex), 'ops': ops.n}
    raised = None
    try:
        if decl == 'evt':
            x.adapt(n - 1)
            hist.append([n - 1])
        elif decl == 'aff':
            x[0].adapt(u) if prior == 'aff' else x.adapt(u)
            aff[0] = 1
            if prior != 'aff':
                aff[1] = 1
        else:
            x[0].adapt(u)
            aff[0] = 1
        ops()
    except Exception as ex:  # noqa
        raised = Bd.errname(ex)
    if raised is not None:
        return {'status': 'pass', 'outcome': 'late_dro:raises %s' % raised, 'ops': ops.n, 'nontrivial': True, 'validated': 1}
    # accepted: it must then be honoured exactly by the next solve
    try:
        if 'st' not in stages:
            m.st(con if con is not None else (x >= g * u))
            m.minsup(E(expr), fset)
        m.solve(display=False)
        ops(3)
    except Exception as ex:  # noqa
        return {'status': 'pass', 'outcome': 'late_dro:accepted, next solve raises %s' % Bd.errname(ex), 'ops': ops.n,
                'nontrivial': True, 'validated': 1}
    if not Bd.is_optimal(m):
        return {'status': 'vacuous', 'outcome': 'late_dro:not optimal', 'ops': ops.n}
    part = P.declared_partition(hist, n)
    xs = P.closed_form_event_max(part, d)
    want = 0.0
    for i in range(2):
        per = d if aff[i] else xs            # an entry adaptive to u follows g*u exactly
        want += float(sum(p[s] * c[i] * g[i] * per[s] for s in range(n)))
    got = float(m.get())
    if not _close(got, want):
        kind = 'formulated' if ('do_math' in stages) else 'not yet formulated'
        return _viol(tag + '|accepted but not honoured (%s)' % kind,
                     'prior %s, declared %s after %s: objective %r, closed form for the declared dependence %r' %
                     (prior, decl, stage, got, want), ops.n)
    return {'status': 'pass', 'outcome': 'late_dro:accepted and honoured', 'ops': ops.n, 'nontrivial': True, 'validated': 1}


def _run_int(case):
    Bd = _rs['B']
    vt, decl, shape = case['vt'], case['decl'], case['shape']
    ops = Bd.Ops()
    m = _rs['dro'].Model(2)
    x = m.dvar(vtype=vt) if shape == 's' else m.dvar(2, vtype=vt)
    z = m.rvar(2)
    ops(3)
    if shape == 's' and '[' in decl.split('.adapt')[0]:
        return {'status': 'vacuous', 'outcome': 'int:not applicable to a scalar', 'ops': ops.n}
    raised = None
    try:
        eval(decl, {'x': x, 'z': z})
        ops()
    except Exception as ex:  # noqa
        raised = Bd.errname(ex)
    affine = '(z' in decl
    must = affine and vt in 'IB'
    if must:
        if raised is None:
            return _viol('int|%s|affine adaptation of an integer decision accepted' % vt, decl, ops.n)
        return {'status': 'pass', 'outcome': 'int:raises %s' % raised, 'ops': ops.n, 'nontrivial': True, 'validated': 1}
    if raised is not None:
        if vt == 'C' or not affine:
            return _viol('int|%s|legal declaration raised' % vt, '%s: %s' % (decl, raised), ops.n)
    return {'status': 'pass', 'outcome': 'int:legal accepted', 'ops': ops.n, 'nontrivial': False, 'validated': 1}


def _run_mul(case):
    Bd = _rs['B']
    E = _rs['E']
    how, prod, n = case['how'], case['prod'], case['n']
    ops = Bd.Ops()
    m = _rs['dro'].Model(n)
    x = m.dvar(2)
    z = m.rvar(2)
    fset = m.ambiguity()
    fset.suppset(z >= -1, z <= 1)
    ops(5)
    if n == 2:
        x.adapt(1)
        ops()

    def declare():
        if how.endswith('whole'):
            if how.startswith('idx'):
                x[:].adapt(z)
            else:
                x.adapt(z)
        else:
            x[0].adapt(z[0])
        ops()
    # which decision rows are affinely adaptive, and which rows the product touches
    adaptive_rows = {0, 1} if how.endswith('whole') else {0}
    touched = {'x*z': {0, 1}, 'z*x': {0, 1}, 'x@z': {0, 1}, 'z@x': {0, 1}, 'x0*z0': {0}, '(x+1)*z': {0, 1},
               'sum*z0': {0, 1}, 'x1*z1': {1}}[prod]
    illegal = bool(adaptive_rows & touched)
    raised = None
    try:
        if not how.startswith('late'):
            declare()
        e = {'x*z': lambda: x * z, 'z*x': lambda: z * x, 'x@z': lambda: x @ z, 'z@x': lambda: z @ x,
             'x0*z0': lambda: x[0] * z[0], '(x+1)*z': lambda: (x + 1) * z, 'sum*z0': lambda: x.sum() * z[0],
             'x1*z1': lambda: x[1] * z[1]}[prod]()
        ops()
        if how.startswith('late'):
            declare()
        m.minsup(E(x.sum()), fset)
        m.st(e <= 5, x >= z)
        ops(2)
        m.solve(display=False)
        ops()
    except Exception as ex:  # noqa
        raised = Bd.errname(ex)
    tag = 'mul|%s|%s' % (how, prod)
    if illegal:
        if raised is None:
            return _viol(tag + '|adaptive decision times random variable accepted',
                         'solved without raising, objective %r' % (m.get() if Bd.is_optimal(m) else None), ops.n)
        return {'status': 'pass', 'outcome': 'mul:raises %s' % raised, 'ops': ops.n, 'nontrivial': True, 'validated': 1}
    if raised is not None:
        return {'status': 'unsupported', 'outcome': 'mul:legal product raises %s' % raised, 'ops': ops.n}
    if not Bd.is_optimal(m):
        return {'status': 'vacuous', 'outcome': 'mul:not optimal', 'ops': ops.n}
    # x1*z1 <= 5 is slack (|x1| <= 1 at optimum): x0 = z0 (adaptive), x1 = 1 static -> sup E = 1 + 1
    got = float(m.get())
    if not _close(got, 2.0):
        return _viol(tag + '|optimum differs from closed form', 'objective %r expected 2.0' % got, ops.n)
    return {'status': 'pass', 'outcome': 'mul:legal product solved', 'ops': ops.n, 'nontrivial': False, 'validated': 1}
