"""C17 - misuse fails loudly; models do not interfere with each other.

Case kinds (all exhaustively enumerated):
  x     : every binary/ternary API entry with one operand taken from ANOTHER model, for all front-end pairs
          {ro,dro}^2: the misuse must raise instead of producing a model.  The statement does not say when, so a
          raise at the use, at the hand-over to model A (st / objective method / suppset ...) or - after A has been
          completed - in do_math() all count as loud (outcomes x-raises / late-raise); a compiled program is the
          violation.
  xop   : systematic operator table: operand class of A (decision, slice, scaled, affine, random, random slice,
          rule, bi-affine) x the same classes of B x {+,-,*,@} x both operand orders, handed to A through st()
          and through every objective method; same classification as x.
  redef : all ordered pairs of objective methods per front end: the second definition must raise (a late raise in
          do_math() is counted separately, a compiled program is the violation).
  redef2: full product first objective value (0, 0.0, -0.0, numpy zeros, False, 3, variable, affine, 0*affine,
          piecewise, convex / exp-cone atom) x first method x second method x second value, for ro, dro and the
          direct lp / socp / gcp models.
  nsobj : non-scalar objective expressions (classes x shapes, incl. element-wise atoms / perspective / maxof / E(maxof)
          with an array-valued argument) x every objective method: same classification; an expression that is
          measured to denote ONE value (e.g. maxof(array, y) is flattened into scalar pieces) is vacuous.
  nsr   : non-scalar objectives as a GRAMMAR: scalar base expression of every expression class (variable, slice,
          affine, random, abs / square / sumsqr / norms / exp|log / entropy, perspective pexp|plog, piecewise
          maxof|minof with affine / constant / random / bi-affine pieces, negated and scaled and shifted piecewise,
          E(piecewise), bi-affine, E(bi-affine), decision rules) in the curvature that is LEGAL for the direction of the
          method  x  route that makes it non-scalar (+ - * / ndarray of size > 1 on either side, all shapes and
          dtypes, zeros, list, in-place +=/-=, numpy ufuncs, builtin sum, chains (b+1)+arr, (b+arr)*2, -(b+arr) ...,
          +/- vector variables / affine / random / bi-affine operands on either side, concat / rstack / vec)  x  every
          objective method of ro, dro and the direct lp / socp / gcp models.  Must raise at the construction, at the
          objective call or - at the very latest - in do_math() (counted separately); accepted AND compiled is the
          violation.  Size of the result is MEASURED on the object (pieces of a piecewise function included);
          non-trivial = the scalar base handed to the same method of a twin model is accepted and compiles, so the
          size is the only thing wrong.  Controls: the same routes with a one-element array / scalar stay usable.
  read  : every read-back method on an unsolved model and after an infeasible / unbounded solve through each
          installed interface - also when a successful solve preceded the failed one (stale results): must not
          return a value (a raise, or None with a warning, is loud; a number is the violation).  readok: the same
          methods on a SOLVED model whose optimum / decisions are exactly 0 (falsy) must stay readable (counted only).
  par   : P solved, Q solved with a params dict (SolutionLimit, Cutoff, TimeLimit, BestObjStop, NodeLimit) through
          each interface, P re-solved and rebuilt without params: P's optimum equals the brute-force knapsack optimum.
  amb   : dro `ambiguity()` after constraints of every kind exist: must raise (same classification).
  il    : two models built in interleaved order (all merges of their operation sequences) x front-end pairs x
          uncertainty-set kinds: compiled standard form, optimum and solution of each model equal its solo build.
"""
import itertools

import numpy as np

PROPERTY = 'C17'
TIMEOUT = 60.0
CHUNK = 8
FLOOR = 0.5
RULE = ('x: every entry of the cross-model table x front-end pair; xop: operand class x operand class x operator x order x hand-over (st + every objective method) x front-end pair; redef: ordered pairs of objective methods; redef2: first objective value x method pair x second value (ro, dro, lp, socp, gcp); nsobj: '
        'expression class/shape x objective method; nsr: scalar base expression class (curvature legal for the method) x route to size > 1 x objective method x {ro, dro, lp, socp, gcp}; read: read-back method x (unsolved | {infeasible LP, unbounded LP, infeasible MILP, infeasible SOCP, '
        'infeasible robust counterpart, solved-then-infeasible} x interface supporting the class) x {ro, dro, lp, socp}; '
        'par: solver x params x front ends of P and Q; amb: constraint kind; il: every merge of the two build sequences x front-end pair x set kind. '
        'non-trivial = the misuse was actually constructed and the real code raised (at the latest in do_math) '
        '(nsr: additionally the scalar base itself is accepted by the same method of a twin model and compiles) '
        '(x, redef, nsobj, read, amb: for read the failed state holds by construction of the model); il: both models '
        'solved to optimality solo and interleaved, their optima differ from each other (different data) and both '
        'solutions are non-zero')
ASSUMPTIONS = [
    'C17 says misuse "raises instead of producing a model" without fixing the moment: a use is loud when any step up '
    'to the hand-over raises (x-raises) or, failing that, when completing and compiling model A raises (late-raise); '
    'only "accepted and a program is compiled" is a violation',
    'il: standard forms are compared with array_equal after mapping -0.0 to 0.0; optimum/solution within 1e-7*(1+|v|)',
    'il: the solo builds run in the same worker process before and after the interleaved build; for ro box/1-norm '
    'sets the solo optimum is additionally anchored to an independent scipy.linprog robust counterpart',
    'read-back on an unsolved / failed model: raising, or returning None (dual() warns and returns None), fabricates '
    'nothing and passes; returning any value is the violation',
    'size-1 arrays are accepted as scalar objectives by rsome; only size > 1 is demanded to raise',
    'nsobj / nsr: the number of objective values is measured on the expression object (size / indices.size / largest '
    'piece of a piecewise function); an expression measured to denote one value is not demanded to raise',
]
TRUSTED = ['CPython', 'NumPy', 'scipy.optimize.linprog (anchor of the ro box / 1-norm instances)',
           'ECOS / HiGHS / OR-tools / Gurobi under the interfaces (only to reach the failed / solved states)']

FES = ['ro', 'dro']
KINDS = ['box', 'norm1', 'norm2']
AMB_KINDS = ['lin', 'bounds', 'abs', 'norm2', 'exp', 'robust', 'maxof', 'Epw', 'Elin', 'expcone', 'list', 'empty']


def _merges(na, nb):
    """all merges of A^na and B^nb as strings"""
    out = []
    for pos in itertools.combinations(range(na + nb), na):
        s = ['B'] * (na + nb)
        for p in pos:
            s[p] = 'A'
        out.append(''.join(s))
    return out


def gen_cases(tier, seed):
    from ..ref import c10c17_misuse as T          # pure tables at import time (rsome is imported lazily)
    thorough = tier == 'thorough'
    pal = seed % 4
    # (ii) misuse list
    for fe in FES:
        meths = T.RO_OBJ if fe == 'ro' else T.DRO_OBJ
        for m1, m2 in itertools.product(meths, repeat=2):
            yield {'k': 'redef', 'fe': fe, 'm1': m1, 'm2': m2}
    # full product: first objective value x first method x second method x second objective value
    for fe in FES:
        meths = T.RO_OBJ if fe == 'ro' else T.DRO_OBJ
        for first in T.FIRST_OBJ:
            for m1, m2 in itertools.product(meths, repeat=2):
                for second in T.SECOND_OBJ:
                    yield {'k': 'redef2', 'fe': fe, 'first': first, 'm1': m1, 'm2': m2, 'second': second}
    for fe in T.DIRECT_MODELS:
        for first in T.DIRECT_FIRST:
            for m1, m2 in itertools.product(('min', 'max'), repeat=2):
                for second in T.SECOND_OBJ:
                    yield {'k': 'redef2', 'fe': fe, 'first': first, 'm1': m1, 'm2': m2, 'second': second}
    for fe in FES:
        meths = T.RO_OBJ if fe == 'ro' else T.DRO_OBJ
        for name, (fes, _) in T.NONSCALAR.items():
            if fe[0] not in fes:
                continue
            for meth in meths:
                yield {'k': 'nsobj', 'fe': fe, 'expr': name, 'meth': meth}
        for name in T.SCALAR_OK:
            for meth in meths:
                yield {'k': 'scobj', 'fe': fe, 'expr': name, 'meth': meth}
    # non-scalar objectives as a grammar: scalar base of every expression class x route to size > 1 x method
    for fe in FES + T.DIRECT_MODELS:
        code = fe[0] if fe in FES else 'l'
        meths = {'r': T.RO_OBJ, 'd': T.DRO_OBJ, 'l': ['min', 'max']}[code]
        for base, (fes, _) in T.NS_BASES.items():
            if code not in fes:
                continue
            for route in T.NS_ROUTES:
                if code == 'l' and route in T.NS_DIRECT_SKIP:
                    continue
                for meth in meths:
                    yield {'k': 'nsr', 'fe': fe, 'base': base, 'route': route, 'meth': meth}
    for kind in AMB_KINDS:
        yield {'k': 'amb', 'kind': kind}
    # read-back: full product  failure kind x interface (where the program class is supported) x front end
    # (ro, dro, direct lp / socp models) x read-back method
    for fe in FES + ['lp', 'socp']:
        code = {'ro': 'r', 'dro': 'd', 'lp': 'l', 'socp': 'l'}[fe]
        for name, (fes, _) in T.READBACK.items():
            if code not in fes:
                continue
            yield {'k': 'read', 'fe': fe, 'meth': name, 'state': 'unsolved', 'solver': None}
            for state, (sfes, solvers) in T.FAIL_STATES.items():
                if not (code in sfes or (fe == 'socp' and 's' in sfes)):
                    continue
                for solver in solvers:
                    yield {'k': 'read', 'fe': fe, 'meth': name, 'state': state, 'solver': solver}
            if fe in FES:
                for solver in ('def', 'eco'):
                    yield {'k': 'readok', 'fe': fe, 'meth': name, 'solver': solver}
    # solver parameters of one model must not leak into later solves of any model
    for fp, fq in itertools.product(FES + ['lp'], repeat=2):
        if 'lp' in (fp, fq) and fp != fq and not thorough:
            continue
        for solver in T.SOLVERS:
            for pname in T.LEAK_PARAMS:
                yield {'k': 'par', 'fp': fp, 'fq': fq, 'solver': solver, 'params': pname, 'pal': pal}
    # redefinition after the first objective has already been solved
    for fe in FES:
        meths = T.RO_OBJ if fe == 'ro' else T.DRO_OBJ
        for first in ('int0', 'float0', 'affine'):
            for m1, m2 in itertools.product(meths, repeat=2):
                yield {'k': 'redef2', 'fe': fe, 'first': first, 'm1': m1, 'm2': m2, 'second': 'affine', 'solved': True}
    # (i) cross-model table
    for fa, fb in itertools.product(FES, repeat=2):
        for name in T.cross_entries(fa, fb):
            yield {'k': 'x', 'fa': fa, 'fb': fb, 'entry': name}
    # (i') systematic operator table: operand class of A x operand class of B x operator x operand order x hand-over
    for fa, fb in itertools.product(FES, repeat=2):
        for ca, cb in itertools.product(T.OP_CLASSES, repeat=2):
            for op in T.OP_OPS:
                for order in ('AB', 'BA'):
                    for ho in T.OP_HANDOVER[fa]:
                        yield {'k': 'xop', 'fa': fa, 'fb': fb, 'ca': ca, 'cb': cb, 'op': op, 'order': order, 'ho': ho}
    # (iii) interleavings
    nops = 5 if thorough else 4
    merges = _merges(nops, nops)
    kind_pairs = [(k, k) for k in KINDS]
    if thorough:
        kind_pairs += [(a, b) for a in KINDS for b in KINDS if a != b]
    pals = [0, 1, 2, 3] if thorough else [pal]
    for ka, kb in kind_pairs:
        for fa, fb in itertools.product(FES, repeat=2):
            for mg in merges:
                for p in (pals if (ka == kb and fa == fb) else pals[:1]):
                    yield {'k': 'il', 'fa': fa, 'fb': fb, 'ka': ka, 'kb': kb, 'merge': mg, 'pal': p}


def exhaustive(tier):
    return True


def bounds(tier):
    from ..ref import c10c17_misuse as T
    th = tier == 'thorough'
    return {'cross_entries': len(T.CROSS), 'front_end_pairs': 4, 'objective_methods': {'ro': T.RO_OBJ, 'dro': T.DRO_OBJ},
            'nonscalar_expressions': list(T.NONSCALAR),
            'nonscalar_grammar': {'bases': list(T.NS_BASES), 'routes': [r for r in T.NS_ROUTES if r not in T.NS_CONTROL_ROUTES],
                                  'control_routes': list(T.NS_CONTROL_ROUTES), 'front_ends': FES + T.DIRECT_MODELS,
                                  'methods': 'all objective methods of the front end'},
            'readback_methods': list(T.READBACK),
            'interfaces': T.SOLVERS, 'ambiguity_after': AMB_KINDS, 'failure_kinds': {k: v[1] for k, v in T.FAIL_STATES.items()},
            'leak_params': list(T.LEAK_PARAMS), 'first_objective_values': list(T.FIRST_OBJ),
            'interleaving_ops_per_model': 5 if th else 4, 'merges': 252 if th else 70,
            'set_kinds': KINDS, 'set_kind_pairs': 9 if th else 3, 'palettes': 4 if th else 1}


# ---- worker side ---------------------------------------------------------------------------------------------
_W = {}


def worker_init():
    from ..ref import c10c17_build as B
    from ..ref import c10c17_misuse as T
    B.init()
    _W['B'] = B
    _W['T'] = T


def run_case(case):
    return {'x': _run_x, 'xop': _run_xop, 'redef': _run_redef, 'redef2': _run_redef2, 'readok': _run_readok, 'par': _run_par, 'nsobj': _run_nsobj, 'nsr': _run_nsr, 'scobj': _run_scobj, 'amb': _run_amb,
            'read': _run_read, 'il': _run_il}[case['k']](case)


def _after_accept(A):
    """The misuse was accepted at the hand-over: does a program result?"""
    try:
        A.finish()
        return 'compiled'
    except RecursionError:
        return 'do_math-raises:RecursionError'
    except Exception as ex:  # noqa
        return 'do_math-raises:' + type(ex).__name__


def _run_x(case):
    T = _W['T']
    fa, fb, name = case['fa'], case['fb'], case['entry']
    accepted, exc, A = T.run_cross(name, fa, fb)
    if not accepted:
        return {'status': 'pass', 'outcome': 'x-raises:' + exc, 'ops': 26, 'nontrivial': True}
    how = _after_accept(A)
    if how != 'compiled':
        return {'status': 'pass', 'outcome': 'late-raise(x):' + how.split(':')[1], 'ops': 28, 'nontrivial': True}
    return {'status': 'violation', 'ops': 28, 'sig': 'x|%s<-%s|%s|accepted,%s' % (fa, fb, name, how),
            'detail': 'model A (%s) accepted an operand of model B (%s) in `%s`; completing and compiling A gave a '
                      'program (no error anywhere)' % (fa, fb, name)}


def _run_xop(case):
    T = _W['T']
    fa, fb, ca, cb, op, order, ho = (case[k] for k in ('fa', 'fb', 'ca', 'cb', 'op', 'order', 'ho'))
    accepted, exc, A = T.run_op(fa, fb, ca, cb, op, order, ho)
    if not accepted:
        return {'status': 'pass', 'outcome': 'xop-raises:' + exc, 'ops': 27, 'nontrivial': True}
    how = _after_accept(A)
    if how != 'compiled':
        return {'status': 'pass', 'outcome': 'late-raise(xop):' + how.split(':')[1], 'ops': 29, 'nontrivial': True}
    expr = ('A.%s %s B.%s' % (ca, op, cb)) if order == 'AB' else ('B.%s %s A.%s' % (cb, op, ca))
    return {'status': 'violation', 'ops': 29, 'sig': 'xop|%s<-%s|%s|%s|accepted,compiled' % (fa, fb, expr, ho),
            'detail': 'expression %s mixing two models was handed to model A (%s) through %s(); A compiles'
                      % (expr, fa, ho)}


def _run_redef(case):
    T = _W['T']
    A = T.M(case['fe'])
    T.call_obj(A, case['m1'], A.y)
    try:
        T.call_obj(A, case['m2'], A.w)
    except Exception as ex:  # noqa
        return {'status': 'pass', 'outcome': 'redef-raises:' + type(ex).__name__, 'ops': 14, 'nontrivial': True}
    how = _after_accept(A)
    if how != 'compiled':
        return {'status': 'pass', 'outcome': 'late-raise(redef):' + how.split(':')[1], 'ops': 15, 'nontrivial': True}
    return {'status': 'violation', 'ops': 15, 'sig': 'redef|%s|%s->%s|accepted,%s' % (case['fe'], case['m1'], case['m2'], how),
            'detail': 'second objective definition did not raise and the model compiles'}


def _run_redef2(case):
    """first objective of a given (possibly falsy) value through m1, then a second objective through m2"""
    T = _W['T']
    fe, first, m1, m2, second = case['fe'], case['first'], case['m1'], case['m2'], case['second']
    direct = fe in T.DIRECT_MODELS
    A = T.D(fe) if direct else T.M(fe)
    try:
        e1 = T.FIRST_OBJ[first](A, m1 in T.MAXIMISING)
        T.call_obj(A, m1, e1)
    except Exception as ex:  # noqa
        return {'status': 'unsupported', 'outcome': 'first-objective-rejected:' + type(ex).__name__, 'ops': 13}
    if A.m.obj is None:
        return {'status': 'vacuous', 'outcome': 'first-objective-not-recorded', 'ops': 13}
    if case.get('solved'):
        try:
            A.m.st(A.y >= 0)
            A.m.st(A.y <= 1)
            A.m.solve(display=False)
        except Exception as ex:  # noqa
            return {'status': 'vacuous', 'outcome': 'first-objective-not-solvable:' + type(ex).__name__, 'ops': 16}
    try:
        T.call_obj(A, m2, T.SECOND_OBJ[second](A))
    except Exception as ex:  # noqa
        return {'status': 'pass', 'outcome': 'redef-raises:' + type(ex).__name__, 'ops': 14, 'nontrivial': True}
    how = _after_accept(A)
    if how != 'compiled':
        return {'status': 'pass', 'outcome': 'late-raise(redef):' + how.split(':')[1], 'ops': 15, 'nontrivial': True}
    return {'status': 'violation', 'ops': 15,
            'sig': 'redef|%s|%s(%s)->%s(%s)|accepted,%s' % (fe, m1, first, m2, second, how),
            'detail': 'after %s(<%s>) a second objective through %s() did not raise and the model compiles'
                      % (m1, first, m2)}


def _run_nsobj(case):
    T = _W['T']
    A = T.M(case['fe'])
    try:
        e = T.NONSCALAR[case['expr']][1](A)
    except Exception as ex:  # noqa
        return {'status': 'unsupported', 'outcome': 'nsobj-expression-not-constructible:' + type(ex).__name__, 'ops': 13}
    size = T.ns_size(e)
    if size is not None and size <= 1:
        return {'status': 'vacuous', 'outcome': 'nsobj-expression-denotes-one-value', 'ops': 13}
    try:
        T.call_obj(A, case['meth'], e)
    except Exception as ex:  # noqa
        return {'status': 'pass', 'outcome': 'nsobj-raises:' + type(ex).__name__, 'ops': 14, 'nontrivial': True}
    how = _after_accept(A)
    if how != 'compiled':
        return {'status': 'pass', 'outcome': 'late-raise(nsobj):' + how.split(':')[1], 'ops': 15, 'nontrivial': True}
    return {'status': 'violation', 'ops': 15,
            'sig': 'nsobj|%s|%s|%s|accepted,%s' % (case['fe'], case['expr'], case['meth'], how),
            'detail': 'objective of size %s accepted by %s()' % (size, case['meth'])}


_TWIN = {}


def _twin_ok(fe, base, meth):
    """Is the SCALAR base (curvature legal for the direction) accepted by the method and compiled?  (deterministic,
    so it is measured once per worker process and (front end, base, method))"""
    key = (fe, base, meth)
    if key not in _TWIN:
        T = _W['T']
        try:
            A0 = T.ns_objects(fe)
            T.ns_call_obj(A0, meth, T.NS_BASES[base][1](A0, meth in T.MAXIMISING))
            A0.finish()
            _TWIN[key] = True
        except Exception:  # noqa
            _TWIN[key] = False
    return _TWIN[key]


def _run_nsr(case):
    """scalar base (curvature legal for the method) made non-scalar through a route, handed to an objective method.
    The scalar base itself is first handed to the same method of a twin model: only when that is accepted is the
    size the one thing wrong with the objective (measured non-triviality)."""
    T = _W['T']
    fe, base, route, meth = case['fe'], case['base'], case['route'], case['meth']
    flip, rfn = T.NS_ROUTES[route]
    control = route in T.NS_CONTROL_ROUTES
    cc = (meth in T.MAXIMISING) != flip
    bfn = T.NS_BASES[base][1]
    # twin: the scalar expression of the curvature this direction wants
    twin_ok = _twin_ok(fe, base, meth)
    A = T.ns_objects(fe)
    try:
        b = bfn(A, cc)
    except Exception as ex:  # noqa
        return {'status': 'unsupported', 'outcome': 'nsr-base-not-constructible:' + type(ex).__name__, 'ops': 13}
    try:
        e = rfn(A, b)
    except RecursionError:
        if control:
            return {'status': 'unsupported', 'outcome': 'nsr-control-route-raises:RecursionError', 'ops': 14}
        return {'status': 'pass', 'outcome': 'nsr-raises-at-construction:RecursionError', 'ops': 14, 'nontrivial': twin_ok}
    except Exception as ex:  # noqa
        if control:
            return {'status': 'unsupported', 'outcome': 'nsr-control-route-raises:' + type(ex).__name__, 'ops': 14}
        return {'status': 'pass', 'outcome': 'nsr-raises-at-construction:' + type(ex).__name__, 'ops': 14,
                'nontrivial': twin_ok}
    size = T.ns_size(e)
    if control:
        if size is not None and size > 1:
            return {'status': 'vacuous', 'outcome': 'nsr-control-not-scalar', 'ops': 14}
        try:
            T.ns_call_obj(A, meth, e)
        except Exception as ex:  # noqa
            return {'status': 'unsupported', 'outcome': 'nsr-control-rejected:' + type(ex).__name__, 'ops': 15}
        return {'status': 'pass', 'outcome': 'nsr-control-accepted(size 1)', 'ops': 15, 'nontrivial': False}
    if size is not None and size <= 1:
        return {'status': 'vacuous', 'outcome': 'nsr-route-gave-one-value', 'ops': 14}
    try:
        T.ns_call_obj(A, meth, e)
    except RecursionError:
        return {'status': 'pass', 'outcome': 'nsr-raises-at-objective:RecursionError', 'ops': 15, 'nontrivial': twin_ok}
    except Exception as ex:  # noqa
        return {'status': 'pass', 'outcome': 'nsr-raises-at-objective:' + type(ex).__name__, 'ops': 15,
                'nontrivial': twin_ok}
    how = _after_accept(A)
    if how != 'compiled':
        return {'status': 'pass', 'outcome': 'late-raise(nsr):' + how.split(':')[1], 'ops': 16, 'nontrivial': twin_ok}
    return {'status': 'violation', 'ops': 16,
            'sig': 'nsr|%s|%s|%s|%s|accepted,compiled' % (fe, base, route, meth),
            'detail': 'objective <%s> made non-scalar through <%s> (size %s, type %s) was accepted by %s() and the '
                      'model compiles' % (base, route, size, type(e).__name__, meth)}


def _run_scobj(case):
    T = _W['T']
    A = T.M(case['fe'])
    try:
        T.call_obj(A, case['meth'], T.SCALAR_OK[case['expr']](A))
    except Exception as ex:  # noqa
        return {'status': 'unsupported', 'outcome': 'scalar-objective-rejected:' + type(ex).__name__, 'ops': 14}
    return {'status': 'pass', 'outcome': 'scalar-objective-accepted', 'ops': 14, 'nontrivial': False}


def _run_amb(case):
    T = _W['T']
    B = _W['B']
    rs = B.init()
    m = rs['dro'].Model(2)
    x = m.dvar(2)
    y = m.dvar()
    z = m.rvar(2)
    kind = case['kind']
    rso, E = rs['rso'], rs['E']
    cons = {
        'lin': lambda: x[0] + x[1] <= 1, 'bounds': lambda: x >= 0, 'abs': lambda: abs(y) <= 1,
        'norm2': lambda: rso.norm(x) <= 1, 'exp': lambda: rso.exp(y) <= 1, 'robust': lambda: x @ z <= 1,
        'maxof': lambda: rso.maxof(x[0], x[1]) <= 1, 'Epw': lambda: E(rso.maxof(x[0] + z[0], x[1])) <= 1,
        'Elin': lambda: E(x @ z) <= 1, 'expcone': lambda: rso.expcone(y, x[0], x[1]),
        'list': lambda: [x >= 0, y <= 1], 'empty': lambda: [],
    }[kind]()
    m.st(cons)
    try:
        fset = m.ambiguity()
    except Exception as ex:  # noqa
        if kind == 'empty':
            return {'status': 'unsupported', 'outcome': 'amb-after-empty-st-raises', 'ops': 6}
        return {'status': 'pass', 'outcome': 'amb-raises:' + type(ex).__name__, 'ops': 6, 'nontrivial': True}
    if kind == 'empty':
        return {'status': 'pass', 'outcome': 'amb-after-empty-st-accepted(no constraint exists)', 'ops': 6,
                'nontrivial': False}
    try:
        fset.suppset(z >= -1, z <= 1)
        m.minsup(y + E(x @ z), fset)
        if m.do_math() is None:
            raise RuntimeError('no program')
    except Exception as ex:  # noqa
        return {'status': 'pass', 'outcome': 'late-raise(amb):' + type(ex).__name__, 'ops': 9, 'nontrivial': True}
    return {'status': 'violation', 'ops': 9, 'sig': 'amb|after-%s|accepted,compiled' % kind,
            'detail': 'ambiguity() after a %s constraint did not raise; the set was used and the model compiles' % kind}


def _run_read(case):
    T = _W['T']
    fe, meth, state, solver = case['fe'], case['meth'], case['state'], case['solver']
    try:
        A, ctx = T.failed_model(fe, state, solver)
    except Exception as ex:  # noqa
        return {'status': 'vacuous', 'outcome': 'read-state-not-reached:solve-raises:' + type(ex).__name__, 'ops': 20}
    if state == 'stale-infeasible' and not ctx.get('first_solve_optimal'):
        return {'status': 'vacuous', 'outcome': 'read-state-not-reached:first-solve-not-optimal(%s)' % solver, 'ops': 21}
    # the failed state holds by construction of the model (infeasible / unbounded), whatever the interface reports
    fn = T.READBACK[meth][1]
    try:
        val = fn(A, ctx)
    except Exception as ex:  # noqa
        return {'status': 'pass', 'outcome': 'read-raises:' + type(ex).__name__, 'ops': 22, 'nontrivial': True}
    if val is None:
        return {'status': 'pass', 'outcome': 'read-returns-None(nothing fabricated)', 'ops': 22, 'nontrivial': True}
    what = type(val).__name__
    return {'status': 'violation', 'ops': 22,
            'sig': 'read|%s|%s|%s|%s|returns-%s' % (fe, meth, state, solver or '-', what),
            'detail': '%s on a model that is %s (%s) returned %r' % (meth, state, solver, val if val is None else str(val)[:60])}


def _run_par(case):
    """P solved, Q solved WITH solver parameters, then P re-solved and freshly rebuilt WITHOUT parameters: every
    optimum of P equals the brute-force optimum of the knapsack."""
    T = _W['T']
    fp, fq, solver, pname, pal = case['fp'], case['fq'], case['solver'], case['params'], case['pal']
    dp, dq = T.KNAP[pal % 4], T.KNAP[(pal + 1) % 4]
    ref = T.knap_optimum(dp)
    tag = 'par|%s|P=%s,Q=%s|%s' % (solver, fp, fq, pname)
    obs = {}
    try:
        P0 = T.Knap(fp, dp)
        obs['before'] = P0.solve(solver)
    except Exception as ex:  # noqa
        obs['before'] = 'raises:' + type(ex).__name__
    try:
        Q = T.Knap(fq, dq)
        qres = Q.solve(solver, dict(T.LEAK_PARAMS[pname]))
    except Exception as ex:  # noqa
        qres = 'raises:' + type(ex).__name__
    for key, build in (('resolve', lambda: P0), ('fresh', lambda: T.Knap(fp, dp))):
        try:
            obs[key] = build().solve(solver)
        except Exception as ex:  # noqa
            obs[key] = 'raises:' + type(ex).__name__
    for key in ('before', 'resolve', 'fresh'):
        v = obs[key]
        if isinstance(v, str) or abs(v - ref) > 1e-6 * (1 + abs(ref)):
            return {'status': 'violation', 'ops': 16, 'sig': tag + '|P-%s-differs-from-brute-force' % key,
                    'detail': 'knapsack optimum %r by enumeration; P before Q: %r, Q with %s: %r, P re-solved: %r, '
                              'P rebuilt: %r' % (ref, obs['before'], pname, qres, obs['resolve'], obs['fresh'])}
    return {'status': 'pass', 'outcome': 'par-equal(Q:%s)' % ('raises' if isinstance(qres, str) else 'solved'),
            'ops': 16, 'nontrivial': ref > 0, 'validated': 3}


def _run_readok(case):
    """Sanity of the guards on falsy values: a SOLVED model whose optimum and decisions are exactly 0 stays readable."""
    T = _W['T']
    fe, meth, solver = case['fe'], case['meth'], case['solver']
    try:
        A, ctx = T.zero_model(fe, solver)
        ok = A.m.optimal() and abs(A.m.get()) <= 1e-7
    except Exception as ex:  # noqa
        return {'status': 'vacuous', 'outcome': 'readok-state-not-reached:' + type(ex).__name__, 'ops': 20}
    if not ok:
        return {'status': 'vacuous', 'outcome': 'readok-state-not-reached:optimum-not-0', 'ops': 21}
    try:
        val = T.READBACK[meth][1](A, ctx)
    except Exception as ex:  # noqa
        # the statement only forbids reading unsolved / failed models; refusing a solved one is merely counted
        return {'status': 'unsupported', 'outcome': 'readok-raises:%s(%s)' % (type(ex).__name__, meth), 'ops': 22}
    return {'status': 'pass', 'outcome': 'readok-returns', 'ops': 22, 'nontrivial': val is not None}


# ---- (iii) interleaved builds --------------------------------------------------------------------------------------
def _data(tagidx, pal):
    """Instance data; model A (tagidx 0) and B (tagidx 1) always get different numbers."""
    base = [
        {'p': [1.0, 1.5], 'c': [1.0, 2.0], 'd': [0.5, 0.25], 'b': 4.0, 'ub': [3.0, 2.0], 'r': 1.0, 'q': [0.25, 0.5], 'e': 0.5},
        {'p': [2.0, 1.0], 'c': [1.5, 1.0], 'd': [0.25, 0.75], 'b': 3.0, 'ub': [1.5, 2.5], 'r': 0.5, 'q': [0.5, 0.25], 'e': 0.25},
        {'p': [1.0, 2.5], 'c': [2.0, 1.0], 'd': [1.0, 0.5], 'b': 5.0, 'ub': [2.0, 4.0], 'r': 0.75, 'q': [0.125, 0.25], 'e': 0.375},
        {'p': [1.5, 0.5], 'c': [0.5, 1.5], 'd': [0.25, 0.25], 'b': 2.0, 'ub': [3.0, 1.0], 'r': 1.5, 'q': [0.25, 0.125], 'e': 0.75},
        {'p': [0.5, 1.0], 'c': [1.0, 0.5], 'd': [0.75, 0.5], 'b': 2.5, 'ub': [2.0, 3.0], 'r': 0.25, 'q': [0.5, 0.5], 'e': 0.125},
    ]
    return base[(pal + (2 if tagidx else 0)) % 5]


class _Build:
    """One model of the interleaving experiment as a sequence of operations."""

    def __init__(self, fe, kind, data, nops):
        self.fe, self.kind, self.d, self.nops = fe, kind, data, nops
        self.i = 0
        self.trace = []
        self.rec = {}

    def _set(self, z, r):
        rso = _W['B'].init()['rso']
        if self.kind == 'box':
            return [z >= -r, z <= r]
        if self.kind == 'norm1':
            return [rso.norm(z, 1) <= r]
        return [rso.norm(z, 2) <= r]

    def step(self):
        B = _W['B']
        rs = B.init()
        rso, E = rs['rso'], rs['E']
        d = self.d
        i = self.i
        self.i += 1
        c, dd, p, q = (np.array(d[k]) for k in ('c', 'd', 'p', 'q'))
        if i == 0:       # declare
            self.m = rs['ro'].Model() if self.fe == 'ro' else rs['dro'].Model(2)
            self.x = self.m.dvar(2)
            self.z = self.m.rvar(2)
        elif i == 1:     # define the uncertainty / ambiguity set
            if self.fe == 'ro':
                self.zset = self._set(self.z, d['r'])
            else:
                self.fset = self.m.ambiguity()
                self.fset[0].suppset(self._set(self.z, d['r']))
                self.fset[1].suppset(self._set(self.z, 0.5 * d['r']))
                self.fset.exptset(E(self.z) <= d['e'], E(self.z) >= -d['e'])
        elif i == 2:     # constraints
            con = (c + dd * self.z) @ self.x <= d['b']
            if self.fe == 'ro':
                self.m.st(con.forall(self.zset))
            else:
                self.m.st(con.forall(self.fset))
            self.m.st(self.x >= 0)
            self.m.st(self.x <= np.array(d['ub']))
        elif i == 3:     # objective (uses the set as well)
            obj = (-p + q * self.z) @ self.x
            if self.fe == 'ro':
                self.m.minmax(obj, self.zset)
            else:
                self.m.minsup(E(obj), self.fset)
        elif i == 4:     # compile and solve in the middle of the other model's build
            self.rec['mid'] = self.observe()
        else:
            raise IndexError(i)

    def observe(self):
        B = _W['B']
        rs = B.init()
        f = self.m.do_math()
        snap = B.snapshot(f)
        if self.kind == 'norm2':
            self.m.solve(rs['eco'], display=False)
        else:
            self.m.solve(display=False)
        if not self.m.optimal():
            return {'snap': snap, 'obj': None, 'x': None}
        return {'snap': snap, 'obj': float(self.m.get()), 'x': np.array(self.x.get(), dtype=float)}


def _solo(fe, kind, data, nops):
    b = _Build(fe, kind, data, nops)
    for _ in range(nops):
        b.step()
    return b.rec.get('mid'), b.observe()


def _cmp_obs(a, b):
    """None when two observations agree, else a short description."""
    B = _W['B']
    if a is None and b is None:
        return None
    if (a is None) != (b is None):
        return 'missing-observation'
    dfield = B.snap_equal(a['snap'], b['snap'])
    if dfield is not None:
        return 'standard-form:' + dfield
    if (a['obj'] is None) != (b['obj'] is None):
        return 'solve-status'
    if a['obj'] is not None:
        if abs(a['obj'] - b['obj']) > 1e-7 * (1 + abs(a['obj'])):
            return 'optimum'
        if np.max(np.abs(a['x'] - b['x'])) > 1e-6 * (1 + np.max(np.abs(a['x']))):
            return 'solution'
    return None


def _anchor(kind, d):
    """Independent optimum of the ro instance for box / 1-norm sets (scipy.linprog), None otherwise.

    min_x max_z (-p + q*z)@x  s.t.  (c + d*z)@x <= b for all z in U,  0 <= x <= ub   (all data >= 0, x >= 0)
    box (|z_i| <= r):    worst cases are r*q@x and r*d@x;   1-norm ball: r*max_i q_i x_i and r*max_i d_i x_i."""
    from scipy.optimize import linprog
    c, dd, p, q = (np.array(d[k]) for k in ('c', 'd', 'p', 'q'))
    r, b, ub = d['r'], d['b'], d['ub']
    if kind == 'box':
        res = linprog(-p + r * q, A_ub=[list(c + r * dd)], b_ub=[b], bounds=[(0, ub[0]), (0, ub[1])])
        return res.fun if res.status == 0 else None
    if kind == 'norm1':
        # variables x0, x1, s (>= q_i x_i), t (>= d_i x_i)
        A = [[c[0], c[1], 0, r], [q[0], 0, -1, 0], [0, q[1], -1, 0], [dd[0], 0, 0, -1], [0, dd[1], 0, -1]]
        res = linprog([-p[0], -p[1], r, 0], A_ub=A, b_ub=[b, 0, 0, 0, 0],
                      bounds=[(0, ub[0]), (0, ub[1]), (0, None), (0, None)])
        return res.fun if res.status == 0 else None
    return None


def _run_il(case):
    fa, fb, ka, kb, mg, pal = case['fa'], case['fb'], case['ka'], case['kb'], case['merge'], case['pal']
    nops = len(mg) // 2
    da, db = _data(0, pal), _data(1, pal)
    tag = 'il|%s+%s|%s+%s' % (fa, fb, ka, kb)
    ops = 0
    try:
        soloA = _solo(fa, ka, da, nops)
        soloB = _solo(fb, kb, db, nops)
    except Exception as ex:  # noqa
        return {'status': 'violation', 'sig': tag + '|solo-build-raises:' + type(ex).__name__, 'ops': 10,
                'detail': 'a solo build of a valid model raised: %s' % str(ex)[:200]}
    ops += 2 * (nops + 2)
    for nm, fe, kind, dat, solo in (('A', fa, ka, da, soloA), ('B', fb, kb, db, soloB)):
        if solo[1]['obj'] is None:
            return {'status': 'vacuous', 'outcome': 'il-solo-not-optimal', 'ops': ops}
        if fe == 'ro':
            ref = _anchor(kind, dat)
            if ref is not None and abs(ref - solo[1]['obj']) > 1e-6 * (1 + abs(ref)):
                return {'status': 'violation', 'sig': tag + '|solo-%s-optimum-differs-from-reference' % nm, 'ops': ops,
                        'detail': 'solo %s optimum %r, independent robust counterpart %r' % (nm, solo[1]['obj'], ref)}
    # interleaved build
    A = _Build(fa, ka, da, nops)
    Bm = _Build(fb, kb, db, nops)
    try:
        for ch in mg:
            (A if ch == 'A' else Bm).step()
            ops += 1
        obsA = A.observe()
        obsB = Bm.observe()
        # and once more in the other order (nothing may have changed)
        obsB2 = Bm.observe()
        obsA2 = A.observe()
        ops += 8
    except Exception as ex:  # noqa
        return {'status': 'violation', 'sig': tag + '|interleaved-build-raises:' + type(ex).__name__, 'ops': ops,
                'detail': 'merge %s: %s' % (mg, str(ex)[:200])}
    checks = [('A-final', soloA[1], obsA), ('B-final', soloB[1], obsB), ('A-again', soloA[1], obsA2),
              ('B-again', soloB[1], obsB2), ('A-mid', soloA[0], A.rec.get('mid')), ('B-mid', soloB[0], Bm.rec.get('mid'))]
    for nm, s, o in checks:
        diff = _cmp_obs(s, o)
        if diff is not None:
            return {'status': 'violation', 'sig': tag + '|%s|%s' % (nm.split('-')[0], diff), 'ops': ops,
                    'detail': 'merge %s, observation %s differs from the solo build in: %s (solo obj %r, interleaved %r)'
                              % (mg, nm, diff, s and s['obj'], o and o['obj'])}
    # solo builds again afterwards (the baseline itself must be reproducible in this process)
    try:
        soloA2 = _solo(fa, ka, da, nops)
        soloB2 = _solo(fb, kb, db, nops)
    except Exception as ex:  # noqa
        return {'status': 'violation', 'sig': tag + '|solo-rebuild-raises:' + type(ex).__name__, 'ops': ops,
                'detail': str(ex)[:200]}
    for nm, s, o in (('A', soloA[1], soloA2[1]), ('B', soloB[1], soloB2[1])):
        diff = _cmp_obs(s, o)
        if diff is not None:
            return {'status': 'violation', 'sig': tag + '|solo-%s-not-reproducible|%s' % (nm, diff), 'ops': ops,
                    'detail': 'the solo build of %s gives a different %s after the interleaved run' % (nm, diff)}
    # non-trivial: the two models really are different programs with non-zero solutions
    act = [bool(np.any(np.abs(s['x']) > 1e-6)) for s in (soloA[1], soloB[1])]
    act.append(abs(soloA[1]['obj'] - soloB[1]['obj']) > 1e-3)
    return {'status': 'pass', 'outcome': 'il-equal', 'ops': ops + 2 * (nops + 2), 'nontrivial': all(act),
            'states': 2 * nops + 6, 'validated': 6}
