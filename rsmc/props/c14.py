"""C14 - dual() returns valid shadow prices of the user's constraints.

State space (product bound, exhaustive): continuous LPs in n <= 3 variables written through the API
    front end {ro.Model, rsome.lp.Model} x n x row blocks (1..B blocks of 1-2 rows each, array form, every mix of
    <=, >=, ==; written A@x<=b, A@x-b<=0, thorough also reflected b>=A@x) x Bounds pattern (none / whole variable / slices / array valued /
    zero / fixed; never more than one upper and one lower bound constraint per entry) x position of the bounds and
    of the guard rows in the st() order x min/max x objective directions x interface {default, ECOS, Gurobi}.
Every model is feasible by construction (all rows and bounds hold with margin at a known point) and bounded
(guard rows -4 <= x <= 4, which are themselves user constraints whose dual() enters the certificate).

Oracle (R-kkt, rsmc/ref/c11c14c16_prog.kkt_check), on the values returned by `constr.dual()` of the objects
returned by `m.st(...)`; the gradients / right-hand sides come from the *spec*, never from rsome's fields:
    convention (confirmed on the unchanged tree for default, ECOS and Gurobi before the check was written):
      * a block written  A x <= b  is read as such, a block  A x >= b  as  (-A) x <= (-b),  A x == b as written;
      * LinConstr.dual() = d(optimal objective in the user's sense)/d(right-hand side in that orientation);
        Bounds.dual() the same for the bound value (reduced cost of the variable at that bound);
      * hence, for min:  <= rows and upper bounds have duals <= 0, lower bounds >= 0; reversed for max
        (rsome multiplies the solver's multipliers of `min sign*f` by `model.sign`);
      * stationarity   c = sum_blocks G^T y + sum_bounds e_idx d ;
      * dual objective sum_blocks h.y + sum_bounds value.d = optimal objective (m.get());
      * shape: a k-row block returns k values (a float when k == 1), a bound block one value per entry.
    These identities hold for *every* optimal dual solution, so degenerate vertices cannot raise a false alarm.
A solve that is not reported optimal, or a dual that is not available, makes the case vacuous.

Call history of dual() (every case): after the solve every constraint object is asked twice in a row in st() order
and once more in reverse order; the three answers of an object must be identical (dual() must not edit the stored
multipliers) and the certificate identities are evaluated for each of the three answer sets.
Additional family: Bounds written on slices whose indices are not increasing (x[::-1] >= c, x[3:0:-1] <= c,
x[[2,0,1]] <= c, x[[1,0]] >= c; scalar right-hand side) and models with two separate upper-bound and two separate
lower-bound Bounds objects on disjoint entries, for all four objective directions, min and max: the objective entries
have distinct magnitudes, so the reduced costs differ per entry and entry k of dual() is checked against the k-th entry
of the slice as written (a sorted / permuted answer breaks stationarity).

HISTORY dimension (ro.Model and rsome.lp.Model; dro.Model.st() returns no constraint objects): the model is not
built-and-solved once but goes through
    a  solve -> st(new row block and/or new Bounds) -> solve      b  do_math() -> st(new ...) -> solve
    c  solve(other interface) -> solve                            d  do_math(primal=False) -> solve
    aa (thorough) solve -> st -> solve -> st -> solve
(a re-formulation of an ro.Model re-st()s every constraint with new `index` values; `ciarray` must follow).  After the
LAST solve dual() of EVERY user constraint, old and new, goes through the full oracle above plus
  * complementary slackness at the returned primal point (all cases of the module, not only this family);
  * agreement with dual() of a FRESH build of the same final declarations solved once by the same interface, and
  * shadow prices as derivatives: every right-hand side / bound value of the *spec* is perturbed along a fixed
    direction, the LP is re-optimised by SciPy directly from the spec (no rsome), and the response of the optimum
    (checked to be linear with steps eps and eps/2) must equal sum(dual * delta);
the last two only where the optimal dual is unique: exactly n active constraints with independent gradients at the
returned point and no other constraint within 1e-3 of active (measured per case, reported in the outcome).
"""
import itertools
import numpy as np

PROPERTY = 'C14'
TIMEOUT = 60.0
CHUNK = 16
FLOOR = 0.5
RULE = ('every LP of the grammar {front end} x {n<=3} x {sense mix of 1..B row blocks of 1-2 rows} x {block style} x '
        '{Bounds pattern} x {bounds/guard position} x {min,max} x {objective direction} x {default, ECOS, Gurobi}; '
        'plus {non-increasing slice / index-list Bounds, 2+2 separate Bounds objects} x {0-1 row blocks} x 4 directions; '
        'plus the HISTORY family {a: solve-st-solve, b: do_math-st-solve, c: solve(other)-solve, d: do_math(dual)-solve} x '
        '{new row block of 1-2 rows in every sense, new Bounds, both} x {15 initial row structures} x {4 initial Bounds '
        'patterns} x {guard first/last}; '
        'every constraint object is asked dual() three times (twice forward, once in reverse order); '
        'a case is non-trivial when the solve is optimal, all identities were evaluated on all three answer sets, and at '
        'least one enumerated (non-guard) row or bound constraint carries a dual value of magnitude > 1e-6 (measured); the '
        'outcome label says whether a non-increasing slice carried distinct duals (permutation visible)')
ASSUMPTIONS = [
    'certificate identities are necessary conditions for any optimal dual: degeneracy cannot cause false alarms',
    'tolerance 1e-6 relative to the largest multiplier (1e-5 for ECOS, an interior point method)',
    'objective has no constant term (the statement equates the dual objective with the optimum)',
    'each variable entry carries at most one upper and one lower Bounds constraint (as the statement requires)',
    'dro front end is out of scope: dro.Model.st() does not return constraint objects',
    'history family: comparison with a fresh build and with finite differences of the optimum only at non-degenerate '
    'vertices (unique optimal dual); the certificate identities and complementary slackness are checked always',
    'SOCP models are not part of C14 (the statement is about continuous linear models): dual() is exercised on LPs only',
]
TRUSTED = ['CPython', 'NumPy', 'the spec -> (G, h) orientation table in this module', 'kkt_check (60 lines)']

XSTAR = [0.5, -0.25, 0.75]
PALS = [
    [1.0, -1.0, 0.5, 2.0, -0.5, 1.5, -2.0, 0.25],
    [-1.0, 0.5, 1.0, -2.0, 1.5, -0.5, 0.25, 2.0],
    [2.0, 1.0, -0.5, -1.0, 0.25, -1.5, 1.0, 0.5],
    [0.5, -2.0, 1.5, 1.0, -1.0, 2.0, -0.25, -0.5],
]
OBJ = {
    1: [[1.0], [-0.5]],
    2: [[1.0, 0.5], [-1.0, 0.5], [0.5, -1.0], [-0.5, -1.0]],
    3: [[1.0, 0.5, -0.25], [-1.0, 0.5, 0.25], [0.5, -1.0, 1.0], [-0.5, -1.0, -1.0]],
}
SENSES = ['<=', '>=', '==']
# Bounds patterns: list of (kind, slice or None, value spec)   value spec: number | 'arr' (array valued, whole only)
BPATS = {
    'none': [],
    'L': [('L', None, -1.0)],
    'U': [('U', None, 1.5)],
    'LU': [('L', None, -1.0), ('U', None, 1.5)],
    'L0': [('L', [0, 1], 0.0)],            # a bound whose value is zero
    'zero': [('L', [0, 1], 0.0), ('U', [1, 2], 0.0)],
    'sL': [('L', [0, 1], -0.5)],
    'sU': [('U', [-1, None], 1.0)],        # last entry
    'L+sU': [('L', None, -1.0), ('U', [0, 1], 1.0)],
    'sL+sL': [('L', [0, 1], -0.5), ('L', [1, None], -1.0)],
    'arr': [('L', None, 'arrL'), ('U', None, 'arrU')],
    'fix': [('L', [0, 1], 'fix'), ('U', [0, 1], 'fix')],
    'tight': [('L', None, 'tightL'), ('U', None, 'tightU')],
}
IFACES = ['def', 'eco', 'grb']

# Bounds on slices whose indices are NOT increasing, and several separate Bounds objects of one kind on disjoint
# entries (index forms: [i0, i1] contiguous | ['s', start, stop, step] python slice | ['l', i, j, ...] index list).
# Scalar right-hand sides; the objective entries have distinct magnitudes, so the reduced costs differ per entry and
# a permuted dual() is visible.  Entry k of dual() belongs to the k-th entry of the slice *as written*.
def _perm_patterns(n):
    rev = ['s', None, None, -1]
    if n == 2:
        perm = ['l', 1, 0]
        return {
            'revL': [('L', rev, -1.0)], 'revU': [('U', rev, 1.5)],
            'permL': [('L', perm, -1.0)], 'permU': [('U', perm, 1.5)],
            'revL+permU': [('L', rev, -1.0), ('U', perm, 1.5)],
            'permL+revU': [('L', perm, -1.0), ('U', rev, 1.5)],
            '2L2U': [('L', [0, 1], -1.0), ('U', [0, 1], 1.5), ('L', [1, 2], -0.75), ('U', [1, 2], 1.25)],
            '2U2L': [('U', [1, 2], 1.25), ('U', [0, 1], 1.5), ('L', [1, 2], -0.75), ('L', [0, 1], -1.0)],
        }
    if n == 3:
        perm = ['l', 2, 0, 1]
        return {
            'revL': [('L', rev, -1.0)], 'revU': [('U', rev, 1.5)],
            'revpartL': [('L', ['s', 3, 0, -1], -1.0)], 'revpartU': [('U', ['s', 3, 0, -1], 1.5)],
            'permL': [('L', perm, -1.0)], 'permU': [('U', perm, 1.5)],
            'revL+permU': [('L', rev, -1.0), ('U', perm, 1.5)],
            'permL+revU': [('L', perm, -1.0), ('U', rev, 1.5)],
            '2L2U': [('L', [0, 1], -1.0), ('U', ['s', 1, None, -1], 1.5), ('L', ['l', 2, 1], -0.75), ('U', [2, 3], 1.25)],
            '2U2L': [('U', ['l', 2, 0], 1.5), ('U', [1, 2], 1.25), ('L', ['s', None, 0, -1], -1.0), ('L', [0, 1], -0.75)],
        }
    return {}


def _ids(idx, n):
    """Variable entries a bound item addresses, in the order of the slice as written."""
    if idx is None:
        return list(range(n))
    if idx[0] == 's':
        return list(range(n))[slice(idx[1], idx[2], idx[3])]
    if idx[0] == 'l':
        return [int(i) for i in idx[1:]]
    return list(range(idx[0], idx[1]))


def _block(bi, k, n, pal):
    P = PALS[pal]
    A = [[P[(3 * bi + 5 * r + 2 * j + bi * r) % len(P)] for j in range(n)] for r in range(k)]
    return A


def _rhs(A, s, n, slack):
    xs = np.array(XSTAR[:n])
    v = np.array(A) @ xs
    if s == '<=':
        v = v + slack
    elif s == '>=':
        v = v - slack
    return [float(t) for t in v]


def _bval(spec, kind, idx, n):
    """Numeric bound value(s) (all keep XSTAR strictly inside, except 'fix' which pins entry 0 at XSTAR[0])."""
    if not isinstance(spec, str):
        return float(spec)
    lo, hi = (0, n) if idx is None else (idx[0] % n if idx[0] < 0 else idx[0], n if idx[1] is None else idx[1])
    xs = XSTAR[lo:hi]
    if spec == 'arrL':
        return [x - 0.5 - 0.25 * j for j, x in enumerate(xs)]
    if spec == 'arrU':
        return [x + 0.25 + 0.5 * j for j, x in enumerate(xs)]
    if spec == 'fix':
        return XSTAR[0]
    if spec == 'tightL':
        return [x - 0.125 for x in xs]
    if spec == 'tightU':
        return [x + 0.125 for x in xs]
    raise ValueError(spec)


def _items(n, blocks, bpat, bpos, gpos, pal, style):
    """blocks: list of (k, sense). -> list of items (see run_case) in st() order."""
    rows = []
    for bi, (k, s) in enumerate(blocks):
        A = _block(bi, k, n, pal)
        # slack 0.5 for the first block, 1.0 for later ones: different rows become active for different objectives
        rows.append(['row', A, s, _rhs(A, s, n, 0.5 + 0.5 * (bi % 2)), style if k == 1 or style != 'sum' else 'mat'])
    bnds = []
    for kind, idx, v in (BPATS[bpat] if isinstance(bpat, str) else bpat):
        if idx is not None and idx[0] in ('s', 'l'):
            bnds.append(['bnd', kind, idx, float(v)])
            continue
        if idx is not None:
            i0 = idx[0] % n if idx[0] < 0 else idx[0]
            i1 = n if idx[1] is None else idx[1]
            if i0 >= n or i1 > n or i0 >= i1:
                return None
            idx = [i0, i1]
        val = _bval(v, kind, idx, n)
        bnds.append(['bnd', kind, idx, val])
    eye = [[1.0 if i == j else 0.0 for j in range(n)] for i in range(n)]
    guard = [['row', eye, '<=', [4.0] * n, 'guard'], ['row', eye, '>=', [-4.0] * n, 'guard']]
    body = (bnds + rows) if bpos == 'first' else (rows + bnds) if bpos == 'last' else (rows[:1] + bnds + rows[1:])
    return (guard + body) if gpos == 'first' else (body + guard) if gpos == 'last' else (guard[:1] + body + guard[1:])


def _late_rows(bi, k, sense, n, pal):
    """A row block declared after the first formulation (feasible at XSTAR like every other block)."""
    A = _block(bi + 4, k, n, (pal + 1) % 4)
    return ['row', A, sense, _rhs(A, sense, n, 0.25), 'mat']


def gen_cases(tier, seed):
    thorough = tier == 'thorough'
    pals = [0, 1, 2, 3] if thorough else [seed % 4]
    for pal in pals:
        for n in (1, 2, 3):
            # two objective directions per palette; the four palettes together cover all four directions
            objs = [OBJ[n][pal % len(OBJ[n])], OBJ[n][(pal + 1) % len(OBJ[n])]]
            block_cfgs = []
            for B in (1, 2, 3) if thorough else (1, 2):
                for senses in itertools.product(SENSES, repeat=B):
                    if B == 1:
                        ksets = [(1,), (2,)]
                    elif B == 2:
                        ksets = [(1, 1), (2, 1), (1, 2), (2, 2)] if thorough else [(1, 1), (2, 1), (1, 2)]
                    else:
                        ksets = [(1, 1, 1)]
                    for ks in ksets:
                        block_cfgs.append(list(zip(ks, senses)))
            for blocks in block_cfgs:
                B = len(blocks)
                if thorough and B <= 2:
                    layouts = [('last', 'last'), ('mid', 'last'), ('first', 'last'), ('last', 'first'), ('last', 'split')]
                    stfe = [('mat', 'ro'), ('expr', 'ro'), ('refl', 'ro'), ('mat', 'lp')]
                elif thorough:
                    layouts = [('mid', 'last'), ('last', 'first')]
                    stfe = [('mat', 'ro'), ('mat', 'lp')]
                else:
                    layouts = [('last', 'last'), ('mid', 'last'), ('last', 'first')]
                    stfe = [('mat', 'ro'), ('expr', 'ro'), ('mat', 'lp')]
                for bpat in BPATS:
                    for bpos, gpos in layouts:
                        if bpos == 'mid' and (B < 2 or bpat == 'none'):
                            continue
                        if bpat == 'none' and bpos != 'last':
                            continue
                        for style, fe in stfe:
                            if not thorough and style == 'expr' and (bpos, gpos) != ('last', 'last'):
                                continue
                            if thorough and style in ('expr', 'refl') and (bpos, gpos) in (('first', 'last'), ('last', 'first')):
                                continue
                            items = _items(n, blocks, bpat, bpos, gpos, pal, style)
                            if items is None:
                                continue
                            for c in objs:
                                for d in ('min', 'max'):
                                    for iface in IFACES:
                                        yield {'fe': fe, 'n': n, 'items': items, 'dir': d, 'c': c,
                                               'iface': iface, 'tag': '%s|%s|%s|%s' % (
                                                   '+'.join('%d%s' % b for b in blocks), bpat, bpos, gpos),
                                               'style': style}
    # non-increasing slices / several Bounds objects of one kind (all four objective directions, min and max)
    for pal in pals:
        for n in (2, 3):
            cfgs = [[]] + [[(k, sn)] for sn in SENSES for k in (1, 2)]
            if thorough:
                cfgs += [[(1, a), (2, b)] for a in SENSES for b in SENSES]
            for blocks in cfgs:
                for pname, pat in _perm_patterns(n).items():
                    for bpos, gpos in (('last', 'last'), ('first', 'first')):
                        for style, fe in ((('mat', 'ro'), ('mat', 'lp'), ('expr', 'ro')) if thorough else (('mat', 'ro'), ('mat', 'lp'))):
                            items = _items(n, blocks, pat, bpos, gpos, pal, style)
                            for c in OBJ[n]:
                                for d in ('min', 'max'):
                                    for iface in IFACES:
                                        yield {'fe': fe, 'n': n, 'items': items, 'dir': d, 'c': c, 'iface': iface,
                                               'tag': '%s|%s|%s|%s' % ('+'.join('%d%s' % b for b in blocks) or '0', pname, bpos, gpos),
                                               'style': style}
    # HISTORY dimension: the certificate (and the agreement with a fresh build) after the LAST solve of
    #   a  solve -> st(new rows and/or bound) -> solve        b  do_math() -> st(new ...) -> solve
    #   c  solve(other interface) -> solve                    d  do_math(primal=False) -> solve
    #   aa (thorough) solve -> st -> solve -> st -> solve
    HB = {'none': ('U', None, 1.5), 'L': ('U', None, 1.5), 'sL': ('L', [1, None], -1.0), 'L+sU': ('U', [1, None], 1.25)}
    for pal in pals:
        for n in (2, 3):
            cfgs = [[(k, sn)] for sn in SENSES for k in (1, 2)] + [[(2, a), (1, b)] for a in SENSES for b in SENSES]
            if thorough:
                cfgs += [[(1, a), (2, b)] for a in SENSES for b in SENSES]
            for ci, blocks in enumerate(cfgs):
                for pi_, bpat in enumerate(HB):
                    kind, idx, val = HB[bpat]
                    lateb = ['bnd', kind, None if idx is None else [idx[0], n], val]
                    lates = [[_late_rows(len(blocks), k, sn, n, pal)] for sn in SENSES for k in (1, 2)]
                    lates += [[lateb], [_late_rows(len(blocks), 2, '<=', n, pal), lateb]]
                    sub = [lates[0], lates[6], lates[7]]
                    plan = []       # (front end, guard position, history, late groups, earlier interface)
                    plan += [('ro', g, 'a', [l], None) for g in ('last', 'first') for l in lates]
                    plan += [('ro', 'last', 'b', [l], None) for l in lates]
                    plan += [('ro', 'last', 'c', [], p) for p in IFACES] + [('ro', 'last', 'd', [], None)]
                    plan += [('lp', 'last', h, [l], None) for h in ('a', 'b') for l in sub]
                    plan += [('lp', 'last', 'c', [], p) for p in IFACES] + [('lp', 'last', 'd', [], None)]
                    if thorough:
                        plan += [(fe, g, 'aa', grp, None) for fe in ('ro', 'lp') for g in ('last', 'first')
                                 for grp in ([lates[0], [lateb]], [[lateb], lates[3]], [lates[4], lates[1]])]
                        plan += [('ro', 'first', 'b', [l], None) for l in lates]
                    for hi, (fe, gpos, hist, late, pre) in enumerate(plan):
                        rot = ci + pi_ + hi      # objective direction rotates with the position in the grammar
                        for c in [OBJ[n][rot % 4]]:
                            for d in ('min', 'max'):
                                for iface in IFACES:
                                    if pre == iface:
                                        continue
                                    bpos = 'mid' if len(blocks) > 1 else 'last'
                                    case = {'fe': fe, 'n': n, 'items': _items(n, blocks, bpat, bpos, gpos, pal, 'mat'),
                                            'late': late, 'hist': hist, 'dir': d, 'c': c, 'iface': iface, 'style': 'mat',
                                            'tag': '%s|%s|%s|%s' % ('+'.join('%d%s' % b for b in blocks), bpat, bpos, gpos)}
                                    if pre:
                                        case['pre'] = pre
                                    yield case
    if thorough:
        # history variant: the model is first solved by another interface, dual() must describe the last solve
        for pal in pals:
            for n in (2, 3):
                for senses in itertools.product(SENSES, repeat=2):
                    blocks = [(2, senses[0]), (1, senses[1])]
                    for bpat in ('LU', 'sL+sL', 'arr'):
                        items = _items(n, blocks, bpat, 'mid', 'last', pal, 'mat')
                        for c in OBJ[n][:2]:
                            for d in ('min', 'max'):
                                for iface in IFACES:
                                    for pre in IFACES:
                                        if pre != iface:
                                            yield {'fe': 'ro', 'n': n, 'items': items, 'dir': d, 'c': c, 'iface': iface,
                                                   'pre': pre, 'style': 'mat',
                                                   'tag': '%s|%s|mid|last' % ('+'.join('%d%s' % b for b in blocks), bpat)}


def bounds(tier):
    th = tier == 'thorough'
    return {'n_max': 3, 'row_blocks_max': 3 if th else 2, 'rows_per_block': [1, 2], 'bounds_patterns': len(BPATS),
            'palettes': 4 if th else 1, 'objective_directions_per_palette': 2,
            'interfaces': IFACES, 'front_ends': ['ro', 'lp'], 'history_variant': th,
            'dual_calls_per_object': 3, 'histories': ['a', 'b', 'c', 'd'] + (['aa'] if th else []), 'non_increasing_slice_patterns': sorted(set(_perm_patterns(2)) | set(_perm_patterns(3)))}


def exhaustive(tier):
    return True


# ------------------------------------------------------------------------------------------------
_rs = {}


def worker_init():
    import rsome as rso
    from rsome import ro, lp, eco_solver, grb_solver
    from rsmc.ref import c11c14c16_prog as prog
    _rs.update(rso=rso, ro=ro, lp=lp, prog=prog, solvers={'def': None, 'eco': eco_solver, 'grb': grb_solver})


def _constr(x, it, style):
    """One spec item -> rsome constraint object (not yet handed to st)."""
    if it[0] == 'row':
        _, A, s, b, st = it
        A = np.array(A, dtype=float)
        b = np.array(b, dtype=float)
        if st == 'guard':
            lhs, rhs = 1.0 * x, b                       # rows, not Bounds objects
        elif style == 'expr':
            lhs, rhs = A @ x - b, 0.0                   # constant on the left: A x - b <= 0
        elif style == 'refl':
            lhs, rhs = None, None
        else:
            lhs, rhs = A @ x, b
        if lhs is None:                                 # reflected: b >= A x  is the user's  A x <= b
            e = A @ x
            return (b >= e) if s == '<=' else (b <= e) if s == '>=' else (e == b)
        return (lhs <= rhs) if s == '<=' else (lhs >= rhs) if s == '>=' else (lhs == rhs)
    _, kind, idx, val = it
    if idx is None:
        t = x
    elif idx[0] == 's':
        t = x[slice(idx[1], idx[2], idx[3])]
    elif idx[0] == 'l':
        t = x[[int(i) for i in idx[1:]]]
    else:
        t = x[idx[0]:idx[1]]
    v = np.array(val, dtype=float) if isinstance(val, list) else float(val)
    if isinstance(val, list) and idx is not None:
        # a slice compared with an array is a LinConstr in rsome, not a Bounds object: keep numbers scalar there
        raise ValueError('array-valued slice bounds are not part of the grammar')
    return (t <= v) if kind == 'U' else (t >= v)


def _build(case, items=None):
    """-> model, x, list of (item, constraint object returned by st)."""
    n = case['n']
    m = _rs['ro'].Model() if case['fe'] == 'ro' else _rs['lp'].Model()
    x = m.dvar(n)
    style = case.get('style', 'mat')
    out = []
    for it in (case['items'] if items is None else items):
        out.append((it, m.st(_constr(x, it, style))))
    cvec = np.array(case['c'], dtype=float)
    (m.min if case['dir'] == 'min' else m.max)(cvec @ x)
    return m, x, out


def _spec_lp(items, n):
    """The user's LP straight from the spec: (A_ub, b_ub, A_eq, b_eq, lb, ub) with, per item, the positions of its
    entries (used by the perturbation oracle and the degeneracy test).  >= rows are stored negated (<= orientation)."""
    Au, bu, Ae, be = [], [], [], []
    lb = np.full(n, -np.inf)
    ub = np.full(n, np.inf)
    where = []
    for it in items:
        if it[0] == 'row':
            _, A, s, b, st = it
            G = np.array(A, dtype=float)
            h = np.array(b, dtype=float)
            if s == '>=':
                G, h = -G, -h
            if s == '==':
                where.append(('eq', list(range(len(be), len(be) + len(h)))))
                Ae += list(G)
                be += list(h)
            else:
                where.append(('ub', list(range(len(bu), len(bu) + len(h)))))
                Au += list(G)
                bu += list(h)
        else:
            _, kind, idx, val = it
            ids = _ids(idx, n)
            vals = np.array(val, dtype=float).reshape(-1) if isinstance(val, list) else np.full(len(ids), float(val))
            where.append((kind, ids))
            for i, v in zip(ids, vals):
                if kind == 'U':
                    ub[i] = min(ub[i], v)
                else:
                    lb[i] = max(lb[i], v)
    return (np.array(Au).reshape(-1, n), np.array(bu), np.array(Ae).reshape(-1, n), np.array(be), lb, ub, where)


def _ref_opt(c, sign, Au, bu, Ae, be, lb, ub):
    """Optimal objective of the user's LP (user's sense) by SciPy-HiGHS, None unless optimal."""
    import scipy.optimize as opt
    res = opt.linprog(sign * np.asarray(c, dtype=float), A_ub=Au if len(bu) else None, b_ub=bu if len(bu) else None,
                      A_eq=Ae if len(be) else None, b_eq=be if len(be) else None, bounds=list(zip(lb, ub)), method='highs')
    return sign * float(res.fun) if res.status == 0 else None


def _nondegenerate(xv, Au, bu, Ae, be, lb, ub, n, tol=1e-6, margin=1e-3):
    """True iff exactly n constraints are active at xv, their gradients are independent, and no other constraint is
    within `margin` of active: then the optimal dual is unique (and stays valid for small right-hand-side changes)."""
    grads = [g for g in Ae]
    near = 0
    for g, h in zip(Au, bu):
        sl = h - g @ xv
        if sl <= tol:
            grads.append(g)
        elif sl <= margin:
            near += 1
    for j in range(n):
        for bound, sgn in ((lb[j], -1.0), (ub[j], 1.0)):
            if np.isfinite(bound):
                sl = sgn * (bound - xv[j])
                if sl <= tol:
                    e = np.zeros(n)
                    e[j] = sgn
                    grads.append(e)
                elif sl <= margin:
                    near += 1
    if near or len(grads) != n:
        return False
    return np.linalg.matrix_rank(np.array(grads), tol=1e-9) == n


def run_case(case):
    prog = _rs['prog']
    lp = _rs['lp']
    n = case['n']
    iface = case['iface']
    hist = case.get('hist')
    m, x, pairs = _build(case)
    nops = 3 + 2 * len(pairs)
    style = case.get('style', 'mat')

    def stage(solver_name):
        m.solve(_rs['solvers'][solver_name], display=False)

    try:
        if case.get('pre'):                     # (c) solve -> solve(other solver)
            stage(case['pre'])
            nops += 1
        if hist in ('a', 'aa'):                 # (a) solve -> st(new) -> solve   (aa: twice)
            for group in case['late']:
                stage(iface)
                for it in group:
                    pairs.append((it, m.st(_constr(x, it, style))))
                nops += 1 + 2 * len(group)
        elif hist == 'b':                       # (b) do_math() -> st(new) -> solve
            m.do_math()
            for it in case['late'][0]:
                pairs.append((it, m.st(_constr(x, it, style))))
            nops += 1 + 2 * len(case['late'][0])
        elif hist == 'd':                       # (d) do_math(primal=False) -> solve
            m.do_math(primal=False)
            nops += 1
        stage(iface)
    except Exception as ex:  # noqa  (conditional statement: no optimum -> vacuous)
        return {'status': 'vacuous', 'outcome': 'solve raised %s' % type(ex).__name__, 'ops': nops,
                'detail': str(ex)[:200]}
    nops += 1
    sol = m.solution
    if sol is None or sol.x is None or np.isnan(sol.objval):
        return {'status': 'vacuous', 'outcome': 'not optimal (%s)' % (getattr(sol, 'status', None),), 'ops': nops}
    if prog.status_class(iface, sol.status) != 'opt':
        return {'status': 'vacuous', 'outcome': 'inaccurate (%s)' % (sol.status,), 'ops': nops}
    if sol.y is None:
        return {'status': 'vacuous', 'outcome': 'no dual available', 'ops': nops}
    objval = float(m.get())
    sign = 1 if case['dir'] == 'min' else -1
    tol = 1e-5 if iface == 'eco' else 1e-6
    # history: forward order with every object asked twice in a row, then every object once more in reverse order.
    # All answers of one object must be identical, and the certificate must hold for each of the three answer sets.
    answers = {}
    for j, (it, con) in enumerate(pairs):                 # forward, every object twice in a row
        answers[j] = [con.dual(), con.dual()]
    for j in range(len(pairs) - 1, -1, -1):               # and once more in reverse order
        answers[j].append(pairs[j][1].dual())
    nops += 3 * len(pairs)
    for j, (it, con) in enumerate(pairs):
        d0 = answers[j][0]
        if d0 is None:
            return {'status': 'violation', 'sig': _sig(case, 'dual() is None'), 'ops': nops,
                    'detail': 'dual() returned None although solution.y is available'}
        for which, dk in (('second call', answers[j][1]), ('call in reverse order', answers[j][2])):
            same = dk is not None and np.shape(dk) == np.shape(d0) and np.array_equal(np.asarray(dk, dtype=float),
                                                                                      np.asarray(d0, dtype=float))
            if not same:
                return {'status': 'violation', 'sig': _sig(case, 'dual() not repeatable'), 'ops': nops,
                        'detail': 'constraint #%d (%s): first call %r, %s %r' % (j, it[0] + ':' + str(it[1] if it[0] == 'bnd' else it[2]),
                                                                                d0, which, dk)}
    nz_user = nz_b = perm_seen = False
    for rnd in (0, 1, 2):
        rows, bnds = [], []
        for j, (it, con) in enumerate(pairs):
            d = answers[j][rnd]
            if it[0] == 'row':
                _, A, s, b, st = it
                if not isinstance(con, lp.LinConstr):
                    return {'status': 'harness_error', 'detail': 'row item did not give a LinConstr: %r' % type(con)}
                k = len(b)
                if not _shape_ok(d, k):
                    return {'status': 'violation', 'sig': _sig(case, 'shape'), 'ops': nops,
                            'detail': 'row block with %d rows: dual() = %r' % (k, d)}
                G = np.array(A, dtype=float)
                h = np.array(b, dtype=float)
                if s == '>=':
                    G, h = -G, -h
                y = np.asarray(d, dtype=float).reshape(-1)
                rows.append((G, h, s == '==', y))
                if st != 'guard' and np.abs(y).max() > 1e-6:
                    nz_user = True
            else:
                _, kind, idx, val = it
                if not isinstance(con, lp.Bounds):
                    return {'status': 'harness_error', 'detail': 'bound item did not give a Bounds: %r' % type(con)}
                ids = _ids(idx, n)
                if not _shape_ok(d, len(ids)):
                    return {'status': 'violation', 'sig': _sig(case, 'shape'), 'ops': nops,
                            'detail': 'bound block with %d entries: dual() = %r' % (len(ids), d)}
                vals = np.array(val, dtype=float).reshape(-1) if isinstance(val, list) else np.full(len(ids), float(val))
                dv = np.asarray(d, dtype=float).reshape(-1)
                bnds.append((kind, ids, vals, dv))        # entry k of dual() <-> k-th entry of the slice as written
                if np.abs(dv).max() > 1e-6:
                    nz_b = True
                if ids != sorted(ids) and len(set(np.round(dv, 6).tolist())) > 1:
                    perm_seen = True                      # a permutation of this block's dual would change the certificate
        bad = prog.kkt_check(case['c'], sign, objval, rows, bnds, n, tol=tol)
        if bad:
            return {'status': 'violation', 'sig': _sig(case, '+'.join(sorted(set(b[0] for b in bad)))), 'ops': nops,
                    'detail': ('answers of the %s round: ' % ('first', 'second', 'reverse-order')[rnd]) +
                              '; '.join('%s: %s' % b for b in bad)[:800] + ' | x=%s obj=%s' % (
                        np.round(np.asarray(x.get()), 6).tolist(), objval)}
    # complementary slackness at the returned primal point (necessary for any optimal primal/dual pair)
    xv = np.asarray(x.get(), dtype=float).reshape(-1)
    cstol = 10 * tol * (1.0 + abs(objval) + max([float(np.abs(r[3]).max()) for r in rows] + [0.0]))
    for bi, (G, h, is_eq, y) in enumerate(rows):
        if not is_eq:
            prod = np.abs(y) * np.maximum(h - G @ xv, 0.0)
            if prod.max() > cstol:
                return {'status': 'violation', 'sig': _sig(case, 'compl-slackness'), 'ops': nops,
                        'detail': 'row block %d: dual %s on slacks %s at x=%s' % (bi, y.tolist(), (h - G @ xv).tolist(), xv.tolist())}
    for bi, (kind, ids, vals, dv) in enumerate(bnds):
        sl = (vals - xv[ids]) if kind == 'U' else (xv[ids] - vals)
        if (np.abs(dv) * np.maximum(sl, 0.0)).max() > cstol:
            return {'status': 'violation', 'sig': _sig(case, 'compl-slackness'), 'ops': nops,
                    'detail': '%s-bound block %d: dual %s on slacks %s at x=%s' % (kind, bi, dv.tolist(), sl.tolist(), xv.tolist())}
    hnote = ''
    if hist:
        # ---- the same final declarations built fresh and solved once; unique dual (non-degenerate vertex) => equal
        final_items = [it for it, _ in pairs]
        Au, bu, Ae, be, lbv, ubv, where = _spec_lp(final_items, n)
        unique = _nondegenerate(xv, Au, bu, Ae, be, lbv, ubv, n)
        hnote = ', degenerate vertex: fresh-build / perturbation comparison skipped'
        if unique:
            try:
                m2, x2, pairs2 = _build(case, items=final_items)
                m2.solve(_rs['solvers'][iface], display=False)
                fresh = [np.asarray(c2.dual(), dtype=float).reshape(-1) for _, c2 in pairs2]
            except Exception as ex:  # noqa
                fresh = None
                hnote = ', fresh build failed (%s)' % type(ex).__name__
            nops += len(pairs) * 3 + 2
            if fresh is not None:
                for j, (it, _) in enumerate(pairs):
                    mine = np.asarray(answers[j][2], dtype=float).reshape(-1)
                    if mine.shape != fresh[j].shape or np.abs(mine - fresh[j]).max() > 100 * tol * (1 + np.abs(fresh[j]).max()):
                        return {'status': 'violation', 'sig': _sig(case, 'differs-from-fresh-build'), 'ops': nops,
                                'detail': 'constraint #%d (%s): after the history %s, fresh build of the same declarations %s'
                                          % (j, it[0], mine.tolist(), fresh[j].tolist())}
                # ---- shadow prices as derivatives: perturb every right-hand side / bound value of the *spec* and
                # re-optimise with SciPy; linear response (checked with eps and eps/2) must equal sum(dual * delta)
                base = _ref_opt(case['c'], sign, Au, bu, Ae, be, lbv, ubv)
                pat = [1.0, -0.5, 0.75, -1.0, 0.5, -0.25, 0.25]
                resp = []
                pred = 0.0
                for eps in (1e-4, 5e-5):
                    bu2, be2, lb2, ub2 = bu.copy(), be.copy(), lbv.copy(), ubv.copy()
                    k = 0
                    pred = 0.0
                    for j, (wk, pos) in enumerate(where):
                        dj = np.asarray(answers[j][2], dtype=float).reshape(-1)
                        for t, p in enumerate(pos):
                            dl = pat[k % len(pat)]
                            k += 1
                            if wk == 'ub':
                                bu2[p] += eps * dl
                            elif wk == 'eq':
                                be2[p] += eps * dl
                            elif wk == 'U':
                                ub2[p] += eps * dl
                            else:
                                lb2[p] += eps * dl
                            pred += dj[t] * dl
                    v = _ref_opt(case['c'], sign, Au, bu2, Ae, be2, lb2, ub2)
                    resp.append(None if (v is None or base is None) else (v - base) / eps)
                if None not in resp and abs(resp[0] - resp[1]) <= 1e-4 * (1 + abs(resp[0])):
                    if abs(resp[1] - pred) > 1e-3 * (1 + abs(pred)):
                        return {'status': 'violation', 'sig': _sig(case, 'perturbation'), 'ops': nops,
                                'detail': 'd(optimum)/d(rhs) along the test direction: reference %.8g, sum(dual*delta) %.8g'
                                          % (resp[1], pred)}
                    hnote = ', = fresh build, = finite difference of the optimum'
                else:
                    hnote = ', = fresh build (response not linear at this step: finite difference skipped)'
    what = {(0, 0): 'guard rows only', (1, 0): 'enumerated rows priced', (0, 1): 'Bounds priced',
            (1, 1): 'rows and Bounds priced'}[(int(nz_user), int(nz_b))]
    nup = sum(1 for it, _ in pairs if it[0] == 'bnd' and it[1] == 'U')
    nlo = sum(1 for it, _ in pairs if it[0] == 'bnd' and it[1] == 'L')
    extra = ''
    if perm_seen:
        extra += ', distinct duals on a non-increasing slice'
    if nup >= 2 and nlo >= 2:
        extra += ', 2+2 Bounds objects'
    if hist:
        return {'status': 'pass', 'outcome': 'history %s: certificate ok x3 answer sets (%s%s)' % (
            hist if not case.get('pre') else 'c', what, hnote), 'nontrivial': bool(nz_user or nz_b), 'ops': nops,
            'validated': 1, 'states': 4 + len(case.get('late', [])), 'transitions': 3 * len(pairs) + 3}
    return {'status': 'pass', 'outcome': 'certificate ok x3 answer sets (%s%s)' % (what, extra),
            'nontrivial': bool(nz_user or nz_b), 'ops': nops, 'validated': 1, 'states': 3, 'transitions': 3 * len(pairs)}


def _shape_ok(d, k):
    if k == 1:
        return isinstance(d, (float, int, np.floating)) or (isinstance(d, np.ndarray) and d.shape in ((), (1,)))
    return isinstance(d, np.ndarray) and d.shape == (k,)


def _sig(case, what):
    """Stable signature: front end, writing style, sense mix, bound pattern, direction, interface, failing identity."""
    blocks, bpat = case['tag'].split('|')[:2]
    senses = '+'.join(b.lstrip('0123456789') for b in blocks.split('+'))
    s = '%s|%s|senses:%s|bounds:%s|%s|%s|%s' % (case['fe'], case['style'], senses, bpat, case['dir'], case['iface'], what)
    if case.get('hist'):
        s += '|history:' + case['hist']
    if case.get('pre'):
        s += '|after:' + case['pre']
    return s
