"""Grammar of event-wise DRO model specs shared by C03/C04.  Pure data, no rsome import."""
import copy
import itertools

CENTRES = [[0.5, 1.0, 0.25], [1.5, 0.5, 1.0], [1.0, 2.0, 0.5], [2.0, 1.5, 0.75]]
PHAT = {1: [1.0], 2: [0.375, 0.625], 3: [0.25, 0.5, 0.25], 4: [0.125, 0.375, 0.25, 0.25]}
PALETTES = [
    dict(q=[1.0, 0.5, 0.25], w=[0.25, -0.5, 0.5], u=[0.5, 0.25, -0.25], cost=[1.0, 0.5]),
    dict(q=[0.5, 1.0, -0.25], w=[-0.25, 0.5, 0.25], u=[0.25, -0.5, 0.5], cost=[0.75, 0.25]),
    dict(q=[1.5, -0.5, 0.5], w=[0.5, 0.25, -0.5], u=[-0.5, 0.5, 0.25], cost=[1.25, 0.5]),
    dict(q=[0.75, 0.75, 1.0], w=[-0.5, -0.25, 0.25], u=[1.0, 0.25, 0.5], cost=[0.5, 0.75]),
]


def set_partitions(items):
    items = list(items)
    if not items:
        yield []
        return
    first, rest = items[0], items[1:]
    for part in set_partitions(rest):
        for i in range(len(part)):
            yield part[:i] + [[first] + part[i]] + part[i + 1:]
        yield [[first]] + part


def support(kind, s, dz):
    """support pieces of scenario s on the dz genuine components (lifting handled by caller)."""
    c = CENTRES[s][:dz]
    if kind == 'single':
        return {'pieces': [{'k': 'eq', 'A': [[1.0 if i == j else 0.0 for j in range(dz)] for i in range(dz)],
                            'b': list(c), 'style': 'direct'}], 'centre': list(c)}
    if kind == 'box':
        return {'pieces': [{'k': 'box', 'lo': [a - 0.5 for a in c], 'hi': [a + 0.75 for a in c]}], 'centre': list(c)}
    if kind == 'box0':      # bounds touching zero in both directions
        lo = [0.0 if i % 2 == 0 else -(1.0 + 0.5 * s) for i in range(dz)]
        hi = [1.0 + 0.5 * s if i % 2 == 0 else 0.0 for i in range(dz)]
        return {'pieces': [{'k': 'box', 'lo': lo, 'hi': hi}], 'centre': [(a + b) / 2 for a, b in zip(lo, hi)]}
    if kind == 'abs':
        return {'pieces': [{'k': 'box', 'lo': [a - 0.75 for a in c], 'hi': [a + 0.5 for a in c], 'style': 'abs'}],
                'centre': list(c)}
    if kind == 'n1':
        return {'pieces': [{'k': 'n1', 'c': list(c), 'r': 0.75}], 'centre': list(c)}
    if kind == 'ninf':
        return {'pieces': [{'k': 'ninf', 'c': list(c), 'r': 0.5}], 'centre': list(c)}
    if kind == 'ninf*':     # scaled atoms: c*norm(z - ctr, inf) <= c*r with c < 1 in even, c > 1 in odd scenarios
        return {'pieces': [{'k': 'ninf', 'c': list(c), 'r': 0.625, 'mult': 0.25 if s % 2 == 0 else 4.0}], 'centre': list(c)}
    if kind == 'n1*':
        return {'pieces': [{'k': 'n1', 'c': list(c), 'r': 0.75, 'mult': -2.0 if s % 2 == 0 else 0.5}], 'centre': list(c)}
    if kind == 'tri':
        A = [[1.0] * dz] + [[-1.0 if i == j else 0.0 for j in range(dz)] for i in range(dz)]
        b = [sum(c) + 1.0] + [-(a - 0.5) for a in c]
        return {'pieces': [{'k': 'lin', 'A': A, 'b': b}], 'centre': list(c)}
    raise ValueError(kind)


def wasserstein_support(s, dz, ubar=1.5):
    """lifted support {(z,u): |z_i - zhat_i| <= u, u <= ubar} as a polytope in R^{dz+1} (rows)."""
    c = CENTRES[s][:dz]
    A, b = [], []
    for i in range(dz):
        e = [0.0] * (dz + 1)
        e[i] = 1.0
        e[dz] = -1.0
        A.append(list(e)); b.append(c[i])
        e[i] = -1.0
        A.append(list(e)); b.append(-c[i])
    e = [0.0] * (dz + 1)
    e[dz] = 1.0
    A.append(e); b.append(ubar)
    return {'pieces': [{'k': 'lin', 'A': A, 'b': b}], 'centre': list(c) + [0.5]}


_CEN = {'c': CENTRES}


def mean_centre(S, event, d):
    ph = PHAT[S]
    tot = sum(ph[s] for s in event)
    return [sum(ph[s] * _CEN['c'][s][i] for s in event) / tot for i in range(d)]


def expts(kind, S, dz, centres=None):
    _CEN['c'] = centres or CENTRES
    allev = list(range(S))
    if kind == 'none':
        return []
    mc = mean_centre(S, allev, dz)
    if kind == 'allbox':
        return [{'event': allev, 'pieces': [{'k': 'box', 'lo': [a - 0.125 for a in mc], 'hi': [a + 0.25 for a in mc]}]}]
    if kind == 'alleq':
        return [{'event': allev, 'pieces': [{'k': 'eq', 'A': [[1.0 if i == j else 0.0 for j in range(dz)]
                                                            for i in range(dz)], 'b': mc, 'style': 'direct'}]}]
    if kind == 'alln1':
        return [{'event': allev, 'pieces': [{'k': 'n1', 'c': mc, 'r': 0.25}]}]
    if kind == 'allabs':
        return [{'event': allev, 'pieces': [{'k': 'box', 'lo': [a - 0.25 for a in mc], 'hi': [a + 0.125 for a in mc],
                                             'style': 'abs'}]}]
    if kind == 'alln2':
        return [{'event': allev, 'pieces': [{'k': 'n2', 'c': mc, 'r': 0.25}]}]
    if kind == 'subn2':
        c0 = mean_centre(S, [0], dz)
        return [{'event': [0], 'pieces': [{'k': 'n2', 'c': c0, 'r': 0.125}]},
                {'event': allev, 'pieces': [{'k': 'box', 'lo': [a - 0.25 for a in mc], 'hi': [a + 0.25 for a in mc]}]}]
    if kind == 'sub0':
        c0 = mean_centre(S, [0], dz)
        return [{'event': [0], 'pieces': [{'k': 'box', 'lo': [a - 0.125 for a in c0], 'hi': [a + 0.125 for a in c0]}]}]
    if kind == 'sublast':
        e = [S - 1]
        c0 = mean_centre(S, e, dz)
        return [{'event': e, 'pieces': [{'k': 'ninf', 'c': c0, 'r': 0.125}]}]
    if kind == 'overlap' and S >= 3:
        e1, e2 = [0, 1], [1, 2]
        return [{'event': e1, 'pieces': [{'k': 'box', 'lo': [a - 0.25 for a in mean_centre(S, e1, dz)],
                                          'hi': [a + 0.125 for a in mean_centre(S, e1, dz)]}]},
                {'event': e2, 'pieces': [{'k': 'lin', 'A': [[1.0] * dz], 'b': [sum(mean_centre(S, e2, dz)) + 0.125]}]}]
    if kind == 'noncontig' and S >= 3:
        e = [0, 2]
        return [{'event': e, 'pieces': [{'k': 'box', 'lo': [a - 0.125 for a in mean_centre(S, e, dz)],
                                         'hi': [a + 0.125 for a in mean_centre(S, e, dz)]}]},
                {'event': list(range(S)), 'pieces': [{'k': 'n1', 'c': mc, 'r': 0.5}]}]
    return None


def prob(kind, S):
    if kind == 'free':
        return {'kind': 'free'}
    ph = PHAT[S]
    if kind == 'fixed':
        return {'kind': 'fixed', 'phat': ph}
    if kind == 'box':
        return {'kind': 'box', 'phat': ph, 'r': 0.0625}
    if kind == 'ninf':
        return {'kind': 'ninf', 'phat': ph, 'r': 0.125}
    if kind == 'n1':
        return {'kind': 'n1', 'phat': ph, 'r': 0.25}
    if kind == 'n2':
        return {'kind': 'n2', 'phat': ph, 'r': 0.09375}
    if kind == 'kl':
        return {'kind': 'kl', 'phat': ph, 'r': 0.03125}
    raise ValueError(kind)


LABELS = {1: [['only']], 2: [[0, 1], ['b', 'a']], 3: [[0, 1, 2], ['c', 'a', 'b']], 4: [[0, 1, 2, 3], ['d', 'b', 'a', 'c']]}


def make(S=2, dz=1, pal=0, supp='box', wass=False, ex='none', pr='free', okind='minsup_E', ny=1, ypart=None, mask=None,
         xpart=None, rows='basic', att=None, labels=0, supp_decl='each', ex_decl='auto', ydecl='tail', style='A',
         adapt_style='entry', pwoff=None, ysplit=False, zsign=None):
    P = PALETTES[pal]
    d = dz + (1 if wass else 0)
    pad = [0.0] * (d - dz)
    q = P['q'][:dz] + pad
    w = P['w'][:dz] + pad
    u = P['u'][:dz] + pad
    cost = P['cost']
    if wass:
        supps = [wasserstein_support(s, dz) for s in range(S)]
    else:
        supps = [support(supp, s, dz) for s in range(S)]
    exl = expts(ex, S, dz, [sp['centre'][:dz] for sp in supps])
    if exl is None:
        return None
    exl = copy.deepcopy(exl)
    for e in exl:
        for pc in e['pieces']:      # pad pieces on the lifted component
            if d > dz:
                for key in ('lo', 'hi', 'c'):
                    if key in pc:
                        pc[key] = pc[key] + ([-10.0] if key == 'lo' else [10.0] if key == 'hi' else [0.0])
                if 'A' in pc:
                    pc['A'] = [r + [0.0] for r in pc['A']]
                if pc['k'] in ('n1', 'ninf', 'n2') or (pc['k'] == 'eq' and pc.get('style') == 'direct'):
                    return None
        e['decl'] = ex_decl
    if wass:
        exl.append({'event': list(range(S)), 'pieces': [{'k': 'lin', 'A': [[0.0] * dz + [1.0]], 'b': [0.375]}],
                    'decl': 'all'})
    F = {'supp': supps, 'supp_decl': supp_decl, 'expts': exl, 'prob': prob(pr, S)}
    if supp_decl == 'global':
        F['supp'] = [supps[0]] * S
    ypart = ypart or [[s] for s in range(S)]
    xpart = xpart or [list(range(S))]
    if ny and mask is None:
        mask = [[1] * dz + [0] * (d - dz) for _ in range(ny)]
    elif ny:
        mask = [list(r) + [0] * (d - len(r)) for r in mask]
    spec = {'S': S, 'labels': LABELS[S][labels % len(LABELS[S])], 'd': d, 'F': F, 'nx': 2, 'ny': ny,
            'xpart': xpart, 'ypart': ypart if ny else [], 'xlo': [0.0, 0.0], 'xhi': [8.0, 8.0]}
    if ny:
        spec['mask'] = mask
        spec['adapt_style'] = adapt_style

    def decl_blocks(part, how):
        if len(part) == 1:
            return []
        if how == 'tail':        # all blocks but the first, in order
            return part[1:]
        if how == 'all':         # every block, last first
            return part[::-1]
        if how == 'head':        # all blocks but the last
            return part[:-1]
        raise ValueError(how)
    spec['ydecl'] = decl_blocks(ypart, ydecl) if ny else []
    spec['xdecl'] = decl_blocks(xpart, ydecl)
    # ---- rows
    R = []
    if ny:
        R.append({'ax': [1.0, 0.0], 'by': [1.0] + [0.0] * (ny - 1), 'cz': [-a for a in q], 'sense': '>='})   # y >= q.z - x0
        R.append({'by': [1.0] + [0.0] * (ny - 1), 'sense': '>='})
        if ny == 2:
            R.append({'ax': [0.0, 1.0], 'by': [0.0, 1.0], 'cz': [-a for a in u], 'c0': -0.5, 'sense': '>='})  # y1 >= u.z + .5 - x1
            R.append({'by': [0.0, 1.0], 'sense': '>='})
    if rows in ('basic+E', 'E+bi'):
        # sup E[q.z] - x0 - x1 <= 0.25
        r = {'ax': [-1.0, -1.0], 'cz': list(q), 'c0': -0.25, 'sense': '<=', 'E': True}
        if rows == 'E+bi':
            r['Az'] = [[0.0, wi] for wi in w]
        R.append(r)
    if rows == 'robust_bi':
        R.append({'ax': [-1.0, 0.0], 'Az': [[0.0, -abs(wi)] for wi in w], 'cz': list(u), 'c0': 0.25, 'sense': '<='})
    if rows == 'eqdec' and ny == 2:
        # equality among decisions only, non-zero constant: y0 + y1 == x1 + 1.5  (event-wise / affine rules on both sides)
        R.append({'ax': [0.0, -1.0], 'by': [1.0, 1.0], 'c0': -1.5, 'sense': '=='})
    if rows == 'eqdec' and ny == 1:
        R.append({'ax': [0.0, -1.0], 'by': [1.0], 'c0': -1.5, 'sense': '=='})
    if rows == 'eqrob' and ny:
        # robust equality holding identically in z: y0(z) == x1 + (q*mask).z + 0.5
        m0 = mask[0]
        R.append({'ax': [0.0, -1.0], 'by': [1.0] + [0.0] * (ny - 1), 'cz': [-a * b for a, b in zip(q, m0)],
                  'c0': -0.5, 'sense': '=='})
    if rows in ('Epw<=', 'Epw>=', 'Rpw<=', 'Rpw>='):
        # piecewise rows:  (E) max(q.z - x0 - x1 - .25, .5 q.z - x1 - .5 [+ bi-affine], -x0 - .125) <= 0, or the mirrored minof >= 0
        pcs = [{'ax': [-1.0, -1.0], 'cz': list(q), 'c0': -0.25},
               {'ax': [0.0, -1.0], 'cz': [0.5 * a for a in q], 'c0': -0.5, 'Az': [[0.0, 0.25 * wi] for wi in w]},
               {'ax': [-1.0, 0.0], 'c0': -0.125}]
        if ny:
            pcs[1]['by'] = [-0.5] + [0.0] * (ny - 1)
            # a piece with an adaptive decision but no explicit random variable (robust only through the rule)
            pcs.append({'ax': [0.0, -1.0], 'by': [0.25] + [0.0] * (ny - 1), 'c0': 0.25})
        if rows.endswith('>='):
            from .ro_specs import neg_piece
            pcs = [neg_piece(pc) for pc in pcs]
        R.append({'pieces': pcs, 'sense': rows[-2:], 'E': rows.startswith('E')})
    if rows == 'Ege':
        R.append({'ax': [1.0, 1.0], 'cz': [-a for a in q], 'c0': 0.25, 'sense': '>=', 'E': True})
    for r in R:
        r['style'] = style
    # ---- objective
    yc = [2.0] + [1.0] * (ny - 1) if ny else []
    base = {'ax': list(cost)}
    if ny:
        base['by'] = yc
    kind, _, form = okind.partition('_')
    if form == 'E':
        pieces = [dict(base)]
    elif form == 'Ebi':
        pieces = [dict(base, Az=[[0.0, wi] for wi in w], cz=list(u))]
    elif form == 'Epw':
        pieces = [{'ax': [cost[0] - 2.0, cost[1]], 'cz': [2.0 * a for a in q]}, {'ax': list(cost), 'c0': 0.375},
                  {'ax': [cost[0] + 0.5, cost[1]], 'cz': [-0.5 * a for a in q], 'c0': -0.25}]
        if ny:
            pieces = [dict(p, by=[0.5] + [0.0] * (ny - 1)) for p in pieces]
    elif form == 'R':        # worst case without expectation
        pieces = [dict(base)]
    elif form == 'Rpw':
        pieces = [dict(base), dict(base, cz=list(u), c0=-0.5)]
    elif form == 'det':
        pieces = [{'ax': list(cost)}]
    else:
        raise ValueError(okind)
    if kind in ('max', 'maxinf'):
        from .ro_specs import neg_piece
        pieces = [neg_piece(p) for p in pieces]
    pieces = [dict(p, style=style) for p in pieces]
    if zsign:
        zs = list(zsign)[:dz] + [1.0] * (d - dz)

        def mirror(pc):
            out = dict(pc)
            if 'cz' in pc:
                out['cz'] = [a * sg for a, sg in zip(pc['cz'], zs)]
            if 'Az' in pc:
                out['Az'] = [[a * sg for a in r] for r, sg in zip(pc['Az'], zs)]
            if 'pieces' in pc:
                out['pieces'] = [mirror(q_) for q_ in pc['pieces']]
            return out
        R = [mirror(r) for r in R]
        pieces = [mirror(pc) for pc in pieces]
    spec['obj'] = {'kind': kind, 'E': form.startswith('E'), 'pieces': pieces}
    if kind in ('min', 'max'):
        for r in R:
            r['set'] = 'F'
    if att == 'F2':
        big = copy.deepcopy(F)
        for s in range(S):
            for pc in big['supp'][s]['pieces']:
                if pc['k'] == 'box':
                    pc['hi'] = [a + 0.5 for a in pc['hi']]
                elif 'r' in pc:
                    pc['r'] = pc['r'] + 0.5
                elif pc['k'] == 'lin':
                    pc['b'] = [a + 0.5 for a in pc['b']]
        big['prob'] = prob('free', S)
        spec['F2'] = big
        for r in R:
            r['set'] = 'F2'
    elif att == 'supp':
        sp = support('box', 0, dz)
        sp['pieces'][0]['lo'] = [a - 1.0 for a in sp['pieces'][0]['lo']] + [0.0] * (d - dz)
        sp['pieces'][0]['hi'] = [a + 2.0 for a in sp['pieces'][0]['hi']] + [1.5] * (d - dz)
        sp['centre'] = sp['centre'] + [0.5] * (d - dz)
        for r in R:
            if not r.get('E'):
                r['set'] = 'supp'
                r['supp'] = sp
    spec['rows'] = R
    if pr in ('n2', 'kl') or ex in ('alln2', 'subn2'):
        if pr in ('n2', 'kl') and exl and not (S == 2 and supp == 'single' and not wass):
            return None
        spec['solver'] = 'eco'
    spec['tag'] = 'S%d|dz%d%s|%s|%s|%s|%s|ny%d|yp%s|m%s|%s|%s' % (
        S, dz, 'w' if wass else '', supp, ex, pr, okind, ny, ''.join(str(len(b)) for b in spec['ypart']),
        ''.join(str(v) for r in (mask or []) for v in r), rows, att or 'dflt')
    if zsign:
        spec['tag'] += '|z%s' % ''.join('+' if sg > 0 else '-' for sg in zsign[:dz])
    if ysplit and ny:
        spec['ysplit'] = True
        spec['tag'] += '|ysplit'
    if pwoff:
        spec['pwoff'] = list(pwoff)
        spec['tag'] += '|off:%s.%s.%s' % tuple(pwoff)
    return spec


def gen_specs(tier, seed):
    thorough = tier == 'thorough'
    pals = range(len(PALETTES)) if thorough else [seed % len(PALETTES)]
    for pal in pals:
        for sp in _gen(pal, thorough):
            if sp is not None:
                yield sp


SUPPS = ['single', 'box', 'box0', 'abs', 'n1', 'ninf', 'tri', 'ninf*', 'n1*']
EXPTS = ['none', 'allbox', 'alleq', 'alln1', 'allabs', 'sub0', 'sublast', 'overlap', 'noncontig']
PROBS = ['free', 'fixed', 'box', 'ninf', 'n1']
DECLS = ['each', 'iloc', 'loc']


def _gen(pal, thorough):
    # Q1: supports x expectation sets x probability sets x objective form, S = 1..3
    i = 0
    for S in (1, 2, 3):
        for supp in SUPPS:
            for ex in EXPTS:
                for pr in PROBS:
                    for okind in ('minsup_E', 'minsup_Epw'):
                        i += 1
                        yield make(S=S, dz=1 + i % 2,
                                   pal=pal, supp=supp, ex=ex, pr=pr, okind=okind, ny=1 if okind == 'minsup_E' else 0,
                                   labels=i, supp_decl=DECLS[i % 3], ex_decl=['auto', 'iloc', 'loc'][i % 3],
                                   rows='basic+E' if i % 3 == 0 else 'basic')
    # Wasserstein-style lifted sets
    for S in (1, 2, 3):
        for dz in (1, 2):
            for pr in ('fixed', 'free', 'box'):
                for okind in ('minsup_E', 'minsup_Epw', 'minsup_Ebi', 'maxinf_E'):
                    for ex in ('none', 'allbox', 'sub0'):
                        yield make(S=S, dz=dz, pal=pal, wass=True, ex=ex, pr=pr, okind=okind,
                                   ny=0 if okind == 'minsup_Epw' else 1)
    # Q2: every partition x every mask (x declaration order of the partition)
    for S in (2, 3) + ((4,) if thorough else ()):
        for part in set_partitions(range(S)):
            part = sorted(sorted(b) for b in part)
            for dz in (1, 2):
                for bits in itertools.product((1, 0), repeat=dz):
                    for supp, ex, pr in (('box', 'none', 'fixed'), ('n1', 'sub0', 'free'), ('abs', 'allbox', 'box'),
                                         ('single', 'none', 'n1')):
                        for ydecl in ('tail', 'all', 'head'):
                            yield make(S=S, dz=dz, pal=pal, supp=supp, ex=ex, pr=pr, ny=1, ypart=part, mask=[list(bits)],
                                       ydecl=ydecl, labels=len(part))
    # ny = 2 with masks
    for S in (2, 3):
        for bits in itertools.product((1, 0), repeat=4):
            for supp, ex in (('box', 'allbox'), ('n1', 'none')):
                yield make(S=S, dz=2, pal=pal, supp=supp, ex=ex, pr='fixed', ny=2,
                           mask=[list(bits[:2]), list(bits[2:])], adapt_style='whole' if all(bits) else 'entry')
    # ny = 2 declared as two SEPARATE adaptive variables (own coefficient blocks in the rule vector), every partition x masks
    for S in (2, 3):
        for part in set_partitions(range(S)):
            part = sorted(sorted(b) for b in part)
            for m0, m1 in (([1, 1], [1, 1]), ([1, 0], [1, 1]), ([1, 1], [0, 1]), ([0, 1], [1, 0]), ([0, 0], [1, 1])):
                for supp, ex, pr in (('box', 'allbox', 'fixed'), ('n1', 'sub0', 'box')):
                    for ydecl in ('tail', 'all'):
                        yield make(S=S, dz=2, pal=pal, supp=supp, ex=ex, pr=pr, ny=2, ypart=part, mask=[m0, m1], ydecl=ydecl,
                                   ysplit=True, adapt_style='whole' if (m0 == [1, 1] and ydecl == 'all') else 'entry',
                                   okind='minsup_E' if ydecl == 'tail' else 'minsup_Ebi')
    # event-wise static x as well
    for S in (2, 3):
        for xpart in set_partitions(range(S)):
            xpart = sorted(sorted(b) for b in xpart)
            for okind in ('minsup_E', 'minsup_Ebi', 'minsup_R'):
                for supp in ('box', 'single'):
                    yield make(S=S, dz=1, pal=pal, supp=supp, ex='allbox', pr='box', okind=okind, ny=1, xpart=xpart)
    # Q3: row kinds and attachments
    for S in (1, 2, 3):
        for rows in ('basic', 'basic+E', 'E+bi', 'robust_bi', 'Ege'):
            for att in (None, 'F2', 'supp'):
                for supp in ('box', 'n1', 'box0'):
                    for ex, pr in (('none', 'free'), ('allbox', 'fixed'), ('sub0', 'box')):
                        for style in ('A', 'B', 'C'):
                            yield make(S=S, dz=2, pal=pal, supp=supp, ex=ex, pr=pr, rows=rows, att=att, style=style)
    # equality rows (deterministic among decisions with a constant; robust identity in z)
    for S in (1, 2, 3):
        for rows in ('eqdec', 'eqrob'):
            for ny in (1, 2):
                for bits in itertools.product((1, 0), repeat=2):
                    for part in ([[s] for s in range(S)], [list(range(S))]):
                        for supp, ex, pr in (('box', 'none', 'fixed'), ('n1', 'allbox', 'box'), ('abs', 'sub0', 'free')):
                            yield make(S=S, dz=2, pal=pal, supp=supp, ex=ex, pr=pr, rows=rows, ny=ny, ypart=part,
                                       mask=[list(bits)] + ([[1, 1]] if ny == 2 else []),
                                       okind='minsup_E' if bits[0] else 'minsup_Ebi')
    # Q4: objective kinds
    for S in (1, 2, 3):
        for okind in ('minsup_E', 'maxinf_E', 'minsup_Ebi', 'maxinf_Ebi', 'minsup_Epw', 'maxinf_Epw', 'minsup_R',
                      'maxinf_R', 'minsup_Rpw', 'min_det', 'max_det'):
            for supp in ('box', 'single', 'tri'):
                for ex, pr in (('none', 'free'), ('allbox', 'fixed'), ('alleq', 'n1'), ('sub0', 'box')):
                    for ny in (0, 1):
                        yield make(S=S, dz=1 + (S % 2), pal=pal, supp=supp, ex=ex, pr=pr, okind=okind, ny=ny)
    # curved probability sets (2-norm, KL) and 2-norm expectation sets: cone branches of the lifted support
    for S in (1, 2, 3):
        for pr in ('n2', 'kl'):
            for supp in ('single', 'box', 'n1'):
                for okind in ('minsup_E', 'minsup_Epw', 'maxinf_E', 'minsup_Ebi'):
                    for rows in ('basic', 'basic+E'):
                        for part in ([[s] for s in range(S)], [list(range(S))]):
                            yield make(S=S, dz=1 + S % 2, pal=pal, supp=supp, ex='none', pr=pr, okind=okind, rows=rows,
                                       ny=0 if okind == 'minsup_Epw' else 1, ypart=part)
        for ex in ('alln2', 'subn2'):
            for pr in ('free', 'fixed', 'box'):
                for supp in ('box', 'n1', 'abs'):
                    for dz in (1, 2):
                        for okind in ('minsup_E', 'minsup_Epw'):
                            yield make(S=S, dz=dz, pal=pal, supp=supp, ex=ex, pr=pr, okind=okind,
                                       ny=0 if okind == 'minsup_Epw' else 1, rows='basic+E')
    # curved probability set TOGETHER with an expectation set (exp cones and second-order cones in the same lifted set,
    # SOC + SOC, exp + linear): two scenarios with singleton supports, where the ambiguity set is an interval of p0
    for pr in ('n2', 'kl'):
        for ex in ('allbox', 'alln1', 'allabs', 'alln2', 'sub0', 'subn2'):
            for dz in (1, 2):
                for okind in ('minsup_E', 'minsup_Epw', 'maxinf_E', 'minsup_Ebi', 'maxinf_Epw'):
                    for rows in ('basic', 'basic+E'):
                        yield make(S=2, dz=dz, pal=pal, supp='single', ex=ex, pr=pr, okind=okind, rows=rows,
                                   ny=0 if okind.endswith('Epw') else 1)
    # Q5: piecewise rows  E(maxof(..)) <= 0 / E(minof(..)) >= 0 / maxof(..) <= 0 / minof(..) >= 0
    for S in (1, 2, 3):
        for rows in ('Epw<=', 'Epw>=', 'Rpw<=', 'Rpw>='):
            for supp, ex, pr in (('box', 'none', 'fixed'), ('n1', 'allbox', 'box'), ('abs', 'sub0', 'free'),
                                 ('tri', 'alleq', 'n1'), ('single', 'none', 'ninf')):
                for ny in (0, 1):
                    for att in (None, 'F2') + (('supp',) if rows[0] == 'R' else ()):
                        for okind in ('minsup_E', 'min_det'):
                            yield make(S=S, dz=1 + S % 2, pal=pal, supp=supp, ex=ex, pr=pr, rows=rows, ny=ny, att=att,
                                       okind=okind, style='ABC'[S % 3])
    # Q6: the same piecewise functions written with an offset / scaling / double negation, inside and outside E(.)
    offs = [(hk, form, pos) for hk in ('const', 'x') for form in ('add', 'radd', 'sub', 'rsub') for pos in ('in', 'out')]
    offs += [(hk, form, 'in') for hk in ('z', 'y') for form in ('add', 'radd', 'sub', 'rsub')]
    offs += [('const', form, pos) for form in ('mul', 'neg') for pos in ('in', 'out')]
    for S in (1, 2) + ((3,) if thorough else ()):
        for off in offs:
            for supp, ex, pr in (('box', 'allbox', 'box'), ('n1', 'sub0', 'free')):
                for okind in ('minsup_Epw', 'maxinf_Epw', 'minsup_Rpw'):
                    if okind.endswith('Rpw') and off[2] == 'out':
                        continue
                    yield make(S=S, dz=2, pal=pal, supp=supp, ex=ex, pr=pr, okind=okind, ny=1, pwoff=off)
                for rows in ('Epw<=', 'Epw>=', 'Rpw<=', 'Rpw>='):
                    if rows[0] == 'R' and off[2] == 'out':
                        continue
                    yield make(S=S, dz=2, pal=pal, supp=supp, ex=ex, pr=pr, rows=rows, ny=1, pwoff=off)
    # Q7: mirrored dependence on the random components (worst cases at the opposite faces of every support kind)
    for S in (1, 2):
        for supp in SUPPS:
            for ex, pr in (('none', 'free'), ('allbox', 'fixed'), ('sub0', 'box')):
                for zsign in ([-1.0, -1.0], [1.0, -1.0], [-1.0, 1.0]):
                    for okind, rows in (('minsup_E', 'basic+E'), ('minsup_Ebi', 'robust_bi'), ('minsup_Epw', 'Epw<=')):
                        yield make(S=S, dz=2, pal=pal, supp=supp, ex=ex, pr=pr, okind=okind, rows=rows, ny=1, zsign=zsign)
    # Q8: late declaration histories - the model is completely built with a DECOY declaration of the ambiguity set
    #     (small boxes, uniform probabilities, no expectation information), formulated once (solve / do_math / dual /
    #     both), and only then the declared supports, expectation sets and probability set are given, in every spelling
    j = 0
    for S in (1, 2, 3):
        for supp in ('single', 'box', 'abs', 'n1', 'tri', 'ninf*') if not thorough else SUPPS:
            for ex, pr in (('none', 'free'), ('allbox', 'fixed'), ('sub0', 'box'), ('sublast', 'n1'), ('noncontig', 'ninf'),
                           ('alln1', 'free')):
                for mode in ('S', 'P', 'D', 'PD'):
                    for okind, rows in (('minsup_E', 'basic+E'), ('minsup_Epw', 'basic')):
                        j += 1
                        sp = make(S=S, dz=1 + j % 2, pal=pal, supp=supp, ex=ex, pr=pr, okind=okind, rows=rows,
                                  ny=1 if okind == 'minsup_E' else 0, labels=j, supp_decl=(DECLS + ['global'])[j % 4],
                                  ex_decl=['auto', 'iloc', 'loc', 'index'][j % 4])
                        if sp is not None:
                            sp['late'] = mode
                            sp['tag'] += '|late:' + mode
                        yield sp
    # Q9: array-valued rows - all plain rows sharing (set, sense, E) are ONE constraint object of several rows; supports
    #     mixing components bounded at exactly zero with components of either sign, mirrored dependence
    for S in (1, 2, 3):
        for supp in SUPPS:
            for ex, pr in (('none', 'free'), ('allbox', 'fixed'), ('sub0', 'box')):
                for ny, rows in ((2, 'basic'), (2, 'basic+E'), (1, 'robust_bi'), (2, 'eqrob')):
                    for att in (None, 'F2', 'supp'):
                        for zsign in (None, [-1.0, 1.0], [1.0, -1.0]):
                            sp = make(S=S, dz=2, pal=pal, supp=supp, ex=ex, pr=pr, rows=rows, ny=ny, att=att, zsign=zsign,
                                      okind='minsup_E' if att is None else 'min_det' if att == 'supp' else 'minsup_E')
                            if sp is not None:
                                sp['vec'] = True
                                sp['tag'] += '|vec'
                            yield sp
    # global support declaration
    for S in (2, 3):
        for supp in SUPPS:
            for ex in ('none', 'allbox', 'sub0'):
                yield make(S=S, dz=2, pal=pal, supp=supp, ex=ex, pr='fixed', supp_decl='global')
