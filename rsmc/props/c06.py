"""C06 - every accepted constraint and the objective are enforced as written.

State space (product bound, exhaustive): deterministic model specs
  atom x position (constraint on the legal side with affine / constant right-hand side; objective min/max)
  x composition k*f(Ax+b) + c'x + d (k in {1, 2.5, 0.5} x both signs, the relation that keeps it convex)
  x shape (scalar, element-wise array, vector, summed forms .sum()/.sum(axis), both scale/sum orders)
  x front end (ro, dro used deterministically) x 4 objective directions x variable types x solver interface.
Oracle: solve; read x.get(); re-evaluate EVERY user constraint (box, linear, atom) and the objective with
independent closed-form NumPy atoms at the returned point.

Overlapping Bounds (sub 'bnd'): the same entries of a variable receive two or three Bounds of the same side
(lower, and mirrored upper) - tighter-then-looser / looser-then-tighter, whole-array / whole-scalar / slice / entry /
index-list overlaps, declared in one st([...]) list, in separate st() calls, or the later ones after a first solve
(re-solve) - x objective (linear towards the bounds, linear away, sumsqr) x vtype C/I x front end x interface.
Oracle: every Bounds object handed to st() holds at x.get() at every solve, model.get() is the objective there and
equals the closed-form optimum over the INTERSECTION of all bounds (outer box given by rows, not Bounds).

Broadcast (sub 'bc'): element-wise atoms with an argument of shape (3,) or () written against a (2,3) right-hand
side / offset - raw variable T, affine expressions of T on either side (2T-1, T-1 >= f, f-2T <= 0), a constant array
added before T, a constant array alone (with and without a 0*T offset) - k in {1, 2.5, 0.5}, ro and dro.  The written
inequality is read with NumPy broadcasting: all 6 rows must hold at the returned point, optimum = closed form.

Re-solve histories (cases with a 'hist' field): atom x multiplier +-{1, 0.5, 2.5} x scalar / element-wise array /
vector / summed form x constant (number, 0-d, n-d array) or affine right-hand side x constraint / objective position
x front end x history in {solve,st,solve; do_math,st,solve; solve,st,solve,st,solve} where st adds a constraint
implied by the user box.  The same oracle is applied to EVERY solve of the history, all solves must report the
same optimum, and the numeric content of the user's own constraint / objective objects (affine_in, affine_out,
scale, multiplier, params, linear rows, bounds ...) must be unchanged after every compilation.
"""
import numpy as np

from ..ref import c06c07_specs as S

PROPERTY = 'C06'
TIMEOUT = 30.0
CHUNK = 8
FLOOR = 0.43
RULE = ('every DetSpec of the grammar atom x position x composition x shape/summed form x front end x objective '
        'direction x vtype x interface; a case is conclusive when the solve reports optimal and all user '
        'constraints and the objective were re-evaluated by closed forms at x.get(); it is non-trivial when, in '
        'addition, the atom constraint under test is active (slack <= 1e-3 relative, or the implicit domain boundary of its cone is reached) or the atom is the objective; '
        'distinct = distinct (spec, interface[, history]); a history case is conclusive when every solve of the history '
        'was judged, and counts one state per solve')
ASSUMPTIONS = [
    'closed forms in rsmc/ref/c06c07_atoms.py are the meaning of the atoms (power = |x|^(p/q), entropy = -sum x log x, '
    'kldiv = sum p log(p/q), rsocone = sumsqr(x) <= y*z with y,z >= 0, expcone = z exp(x/z) <= y)',
    'constraint residual tolerance: 1e-5*(1+scale) for ECOS / HiGHS / OR-tools, 1e-4*(1+scale) for Gurobi barrier; '
    'objective tolerance 2e-5*(1+|v|) ECOS, 1e-6 LP solvers, 1e-4 Gurobi conic',
    'a solver failure is vacuous, except a definite unbounded/infeasible certificate on a model that the reference '
    'knows to be bounded (box) and strictly feasible (origin, margin 0.375) AND whose epigraph re-formulation solves',
    'a constraint whose residual exceeds the tolerance at x.get() is still accepted when some point within the '
    'solver accuracy in x (1e-6 ECOS, 1e-5 Gurobi, 1e-7 LP) satisfies it: covers active constraints next to a domain '
    'boundary (plog with argument ~1e-7) where the residual is ill-conditioned',
    'history cases: constraints added between compilations are implied by the box (x0 <= 4, g.x <= 8 on [-2,2]^n), so '
    'the optimum must not move (tolerance 10x the objective tolerance); user objects are compared numerically '
    '(dtype, shape, values; sparse coefficient matrices by rows and non-zeros - rsome widens their column count in '
    'place when auxiliary variables are added, which is not a numerical change)',
    'exceptions raised while building / formulating / solving are loud rejections (allowed by the statement): unsupported',
]
TRUSTED = ['CPython', 'NumPy closed forms', 'ECOS / Gurobi / HiGHS / OR-tools as solvers under the interfaces']

CTOL = {'eco': 1e-5, 'grb': 1e-4, 'def': 1e-6, 'ort': 1e-6}
OTOL = {'eco': 2e-5, 'grb': 1e-4, 'def': 1e-6, 'ort': 1e-6}


ITOL = {'eco': 2e-4, 'grb': 2e-5, 'def': 1e-5, 'ort': 1e-5}     # integrality: ECOS_BB integer_tol is 1e-4, Gurobi IntFeasTol 1e-5
XTOL = {'eco': 1e-6, 'grb': 1e-5, 'def': 1e-7, 'ort': 1e-7}


def _nbhd(v, delta):
    """All points v + delta*d, d in {-1,0,1}^n (batched)."""
    import itertools
    n = v.shape[1]
    D = np.array(list(itertools.product((-1.0, 0.0, 1.0), repeat=n)))
    return v + delta * D


def gen_cases(tier, seed):
    import os
    thorough = tier == 'thorough'
    only = os.environ.get('RSMC_C06_SUB')          # development aid: 'single' | 'hist'
    if only in (None, '', 'single'):
        for tag, ktag, spec in S.c06_specs(tier, seed):
            for solver in S.solvers_for(spec, thorough):
                yield {'tag': tag, 'k': ktag, 'solver': solver, 'spec': spec}
    if only in (None, '', 'bnd'):
        for c in gen_bounds(tier, seed):
            yield c
    if only in (None, '', 'bc'):
        for c in gen_broadcast(tier, seed):
            yield c
    if only in (None, '', 'hist'):
        # re-solve histories: the same user objects are compiled again after the model was extended
        for tag, ktag, spec in S.c06_hist_specs(tier, seed):
            solvers = S.solvers_for(spec, thorough)
            for solver in (solvers if (thorough and spec['pal'] == 0) else solvers[:1]):
                if solver == 'ort':
                    continue
                for hist in S.HISTORIES:
                    yield {'tag': tag, 'k': ktag, 'solver': solver, 'spec': spec, 'hist': hist}


# ---- several Bounds objects on overlapping entries -----------------------------------------------------
BND_LOW = [1.0, 2.0, 3.0, 1.5]


def _bnd_patterns(n):
    """(name, tight bound (idx, values), loose bound (idx, values)) for LOWER bounds; upper bounds are the mirror
    image.  idx: ['all'] | ['slice', a, b] | ['int', i] | ['list', [..]]."""
    low = BND_LOW[:n]
    return [
        ('whole-array/whole-scalar', (['all'], low), (['all'], 0.0)),
        ('slice/whole', (['slice', 1, n], 1.0), (['all'], -2.0)),
        ('whole-array/slice', (['all'], low), (['slice', 0, 2], -1.0)),
        ('entry/whole', (['int', 1], 2.5), (['all'], 0.5)),
        ('whole-scalar/entry', (['all'], 1.25), (['int', n - 1], -3.0)),
        ('list/slice-partial-overlap', (['list', [0, n - 1]], [1.5, 2.5]), (['slice', 0, 2], 0.25)),
        ('slice/slice-same', (['slice', 0, 2], [2.0, 1.0]), (['slice', 0, 2], [0.5, 0.75])),
    ]


def gen_bounds(tier, seed):
    """The same entries receive two (three) Bounds of the same side: tighter-then-looser and looser-then-tighter,
    whole / slice / entry / list overlaps, declared in one st([...]) list, in separate st() calls, or the second one
    after a first solve (re-solve).  Outer box by ROWS (|x| <= 5) so that boundedness never depends on Bounds."""
    th = tier == 'thorough'
    n = 3
    for side in ('L', 'U'):
        for name, tight, loose in _bnd_patterns(n):
            seqs = [('tight,loose', [tight, loose]), ('loose,tight', [loose, tight])]
            if name == 'whole-array/whole-scalar':
                mid = (['slice', 0, 2], 0.5)
                seqs += [('tight,mid,loose', [tight, mid, loose]), ('loose,tight,mid', [loose, tight, mid]),
                         ('mid,loose,tight', [mid, loose, tight])]
            for order, seq in seqs:
                for decl in ('list', 'sep', 'after'):
                    for obj in ('lin-to', 'lin-away', 'sumsqr'):
                        for vt in (('C', 'I') if obj != 'sumsqr' else ('C',)):
                            for fe in ('ro', 'dro'):
                                if obj == 'sumsqr':
                                    solvers = ['eco', 'grb']
                                elif vt == 'I':
                                    solvers = ['def', 'grb'] + (['ort'] if th else [])
                                else:
                                    solvers = ['def', 'eco', 'grb'] + (['ort'] if th else [])
                                for solver in solvers:
                                    if not th and fe == 'dro' and solver == 'grb':
                                        continue
                                    yield {'sub': 'bnd', 'fe': fe, 'solver': solver, 'side': side, 'pat': name,
                                           'order': order, 'decl': decl, 'obj': obj, 'vt': vt, 'n': n,
                                           'bounds': [[list(i), v] for i, v in seq]}


# ---- element-wise atoms against a right-hand side / offset of a strictly larger broadcast shape ----------
BC_ATOMS = [('abs', None, None, 'LP'), ('square', None, None, 'SOC'), ('power', [3, 2], None, 'SOC'),
            ('power', [3, 1], None, 'SOC'), ('exp', None, None, 'EXP'), ('softplus', None, None, 'EXP'),
            ('pexp', None, 2.0, 'EXP'), ('log', None, None, 'EXP'), ('plog', None, 2.0, 'EXP')]
BC_FORMS = ['f<=T', 'f<=2T-1', 'T-1>=f', 'f-2T<=0', 'f+C<=T', 'f+0T<=C', 'f<=C']


def gen_broadcast(tier, seed):
    """k*f(x) with x of shape (3,) or () written against T of shape (2,3): T a raw variable, an affine expression
    (2T-1, T-1 on the left, -2T as offset), a constant array added before T, and a constant array alone; NumPy
    broadcasting of the written inequality defines the meaning (all 6 rows)."""
    th = tier == 'thorough'
    for atom, par, sc, cone in BC_ATOMS:
        for form in BC_FORMS:
            for argshape in ([3], []):
                for k in (1.0, 2.5, 0.5):
                    for fe in ('ro', 'dro'):
                        solvers = ['eco'] + (['grb'] if (cone != 'EXP' and (th or k == 1.0)) else []) + \
                                  (['def'] if cone == 'LP' else [])
                        for solver in solvers:
                            yield {'sub': 'bc', 'fe': fe, 'solver': solver, 'atom': atom, 'par': par, 's': sc, 'k': k,
                                   'form': form, 'argshape': argshape, 'cone': cone}


def exhaustive(tier):
    return True


def bounds(tier):
    th = tier == 'thorough'
    return {'n_vars': [2, 3] if th else [2], 'palettes': 4 if th else 1, 'multipliers': [1, 2.5, 0.5, -1, -2.5, -0.5],
            'directions': '4 fixed + 1 adversarial (along the affine right-hand side)', 'vec_len': [2, 3], 'front_ends': ['ro', 'dro'],
            'interfaces': ['eco', 'grb(LP/SOC)', 'def(LP)'] + (['ort(LP)'] if th else []),
            'vtypes': ['C', 'I', 'BC'],
            'overlapping_bounds': {'patterns': [p_[0] for p_ in _bnd_patterns(3)], 'sides': ['L', 'U'],
                                   'orders': ['tight,loose', 'loose,tight', '3 triple orders'],
                                   'declaration': ['list', 'sep', 'after'], 'objectives': ['lin-to', 'lin-away', 'sumsqr'],
                                   'vtypes': ['C', 'I'], 'n': 3},
            'broadcast': {'atoms': [a[0] + (str(a[1]) if a[1] else '') for a in BC_ATOMS], 'forms': BC_FORMS,
                          'arg_shapes': [(3,), ()], 'against': (2, 3), 'multipliers': [1, 2.5, 0.5]},
            'histories': {'sequences': S.HISTORIES, 'multipliers': [1, 0.5, 2.5, -1, -0.5, -2.5],
                          'rhs': ['constant (number / 0-d / n-d array)', 'affine'], 'positions': ['constraint', 'objective'],
                          'palettes': 4 if th else 1, 'interfaces': 'first applicable (ECOS); all applicable on palette 0' if th else 'first applicable (ECOS)'}}


_R = {}
_NOSNAP = bool(__import__('os').environ.get('RSMC_C06_NOSNAP'))     # development aid: behavioural oracle only


def worker_init():
    import rsome
    from rsome import ro, dro, eco_solver, grb_solver, ort_solver
    _R.update(rso=rsome, ro=ro, dro=dro, eco=eco_solver, grb=grb_solver, ort=ort_solver)


def _status_class(solver, info):
    s = str(info)
    if solver == 'eco':
        if s.startswith('Dual infeasible') or 'nbounded' in s:
            return 'unbounded'
        if s.startswith('Primal infeasible'):
            return 'infeasible'
        return 'other'
    if solver == 'grb':
        return {'3': 'infeasible', '5': 'unbounded', '4': 'inf_or_unbd'}.get(s, 'other')
    if solver == 'def':
        return {'2': 'infeasible', '3': 'unbounded'}.get(s, 'other')
    return 'other'


def _epigraph_solves(spec, solver):
    """Same user model with the objective moved into an epigraph constraint on an extra variable."""
    try:
        m, x, _ = S.build_model(_R, spec, skip_obj=True)
        t = m.dvar()
        e = S.build_term(_R['rso'], x, spec['obj']['t'])
        if spec['obj']['dir'] == 'min':
            m.st(e <= t)
            m.min(t * 1.0 + 0.0)
        else:
            m.st(e >= t)
            m.max(t * 1.0 + 0.0)
        st, info = S.solve(_R, m, solver)
        if st != 'optimal':
            return None
        return float(m.get())
    except Exception:  # noqa
        return None


def _bnd_index(x, idx):
    if idx[0] == 'all':
        return x, slice(None)
    if idx[0] == 'slice':
        return x[idx[1]:idx[2]], slice(idx[1], idx[2])
    if idx[0] == 'int':
        return x[idx[1]], idx[1]
    return x[list(idx[1])], list(idx[1])


def run_bounds(case, optimum_only=False):
    """optimum_only (used by C07): skip the per-constraint checks, compare the reported optimum with the closed form."""
    fe, solver, side, n, vt = case['fe'], case['solver'], case['side'], case['n'], case['vt']
    sgn = 1.0 if side == 'L' else -1.0          # upper-bound family = mirror image (values negated)
    sig = 'bnd|%s|%s|%s|%s|%s|%s|vt=%s' % (fe, side, case['pat'], case['order'], case['decl'], case['obj'], vt)
    cvec = np.array([1.0, 0.5, 2.0, 0.75][:n])
    bounds = [(idx, sgn * np.asarray(v, dtype=float)) for idx, v in case['bounds']]
    nops = 0
    try:
        m = _R['ro'].Model() if fe == 'ro' else _R['dro'].Model()
        x = m.dvar(n, vtype=vt)
        eye = np.eye(n)
        m.st(eye @ x <= 5.0)                    # outer box as rows
        m.st(-eye @ x <= 5.0)
        # one bound of the opposite side (both loops of the compiler see entries)
        m.st(x <= 4.5) if side == 'L' else m.st(x >= -4.5)
        if case['obj'] == 'lin-to':             # pushes against the bounds under test
            e = cvec @ x
            (m.min if side == 'L' else m.max)(e)
        elif case['obj'] == 'lin-away':
            e = cvec @ x
            (m.max if side == 'L' else m.min)(e)
        else:
            m.min(_R['rso'].sumsqr(x))
        nops = 6

        def make(b):
            sub, _ = _bnd_index(x, b[0])
            val = b[1] if b[1].ndim else float(b[1])
            return (sub >= val) if side == 'L' else (sub <= val)

        first = bounds if case['decl'] != 'after' else bounds[:1]
        later = [] if case['decl'] != 'after' else bounds[1:]
        if case['decl'] == 'list':
            m.st([make(b) for b in first])
        else:
            for b in first:
                m.st(make(b))
        nops += len(first)
    except Exception as ex:  # noqa
        return {'status': 'unsupported', 'outcome': 'bnd:raise@build:%s' % type(ex).__name__, 'ops': max(nops, 1),
                'detail': '%s %s' % (sig, str(ex)[:160])}

    def reference(active):
        lo, hi = -5.0 * np.ones(n), 5.0 * np.ones(n)
        if side == 'L':
            hi = np.minimum(hi, 4.5)
        else:
            lo = np.maximum(lo, -4.5)
        for idx, val in active:
            _, sl = _bnd_index(np.arange(n), idx)
            if side == 'L':
                lo[sl] = np.maximum(lo[sl], val)
            else:
                hi[sl] = np.minimum(hi[sl], val)
        if vt == 'I':
            lo, hi = np.ceil(lo - 1e-9), np.floor(hi + 1e-9)
        if case['obj'] == 'sumsqr':
            xr = np.clip(0.0, lo, hi)
            return lo, hi, float((xr ** 2).sum())
        to_low = (case['obj'] == 'lin-to') == (side == 'L')
        return lo, hi, float(cvec @ (lo if to_low else hi))

    active = list(first)
    nsolve = 0
    stages = [None] + [[b] for b in later]
    tight_active = False
    for extra in stages:
        if extra is not None:
            try:
                for b in extra:
                    m.st(make(b))
                    active.append(b)
                    nops += 1
            except Exception as ex:  # noqa
                return {'status': 'unsupported', 'outcome': 'bnd:raise@st-after-solve:%s' % type(ex).__name__, 'ops': nops,
                        'detail': '%s %s' % (sig, str(ex)[:160])}
        nsolve += 1
        st, info = S.solve(_R, m, solver)
        nops += 1
        if st == 'raise':
            return {'status': 'unsupported', 'outcome': 'bnd:raise@solve:%s' % info.split(':')[0], 'ops': nops,
                    'detail': '%s %s' % (sig, info)}
        if st != 'optimal':
            return {'status': 'vacuous', 'outcome': 'bnd:not-optimal:%s' % solver, 'ops': nops, 'detail': '%s %s' % (sig, info)}
        xv = np.asarray(x.get(), dtype=float).reshape(n)
        objv = float(m.get())
        nops += 2
        lo, hi, ref = reference(active)
        tol = CTOL[solver] * 6.0
        # every Bounds object the user handed to st() so far, one by one
        for j, (idx, val) in enumerate(active if not optimum_only else ()):
            _, sl = _bnd_index(np.arange(n), idx)
            r = (val - xv[sl]) if side == 'L' else (xv[sl] - val)
            if np.max(r) > tol:
                return {'status': 'violation', 'ops': nops, 'sig': '%s|solve#%d|bound-violated' % (sig, nsolve),
                        'detail': 'bound #%d (x%s %s %s) violated by %.6g at x=%s (%s)' %
                                  (j, idx, '>=' if side == 'L' else '<=', np.round(val, 6).tolist(), float(np.max(r)),
                                   xv.tolist(), solver)}
        if not optimum_only and (np.max(np.maximum(lo - xv, xv - hi)) > tol or np.max(np.abs(xv)) > 5.0 + tol):
            return {'status': 'violation', 'ops': nops, 'sig': '%s|solve#%d|box-violated' % (sig, nsolve),
                    'detail': 'x=%s outside the intersection [%s, %s] (%s)' % (xv.tolist(), lo.tolist(), hi.tolist(), solver)}
        if not optimum_only and vt == 'I' and np.max(np.abs(xv - np.round(xv))) > ITOL[solver]:
            return {'status': 'violation', 'ops': nops, 'sig': '%s|solve#%d|vtype-violated' % (sig, nsolve),
                    'detail': 'x=%s not integer (%s)' % (xv.tolist(), solver)}
        ov = float((xv ** 2).sum()) if case['obj'] == 'sumsqr' else float(cvec @ xv)
        otol = OTOL[solver] * (1.0 + abs(ref))
        if not optimum_only and abs(ov - objv) > otol:
            return {'status': 'violation', 'ops': nops, 'sig': '%s|solve#%d|objective-value' % (sig, nsolve),
                    'detail': 'model.get()=%.9g, objective at x.get() %.9g (%s)' % (objv, ov, solver)}
        if abs(objv - ref) > otol * 5:
            return {'status': 'violation', 'ops': nops, 'sig': '%s|solve#%d|optimum' % (sig, nsolve),
                    'detail': 'reported %.9g, closed form with the intersection of all bounds %.9g (lo=%s hi=%s, x=%s, %s)' %
                              (objv, ref, lo.tolist(), hi.tolist(), xv.tolist(), solver)}
        # non-trivial: an entry sits on a bound value that only the TIGHTER of two overlapping bounds explains
        edge = lo if side == 'L' else hi
        if np.any(np.abs(xv - edge) <= 1e-4) and case['obj'] != 'lin-away':
            tight_active = True
    return {'status': 'pass', 'ops': nops, 'nontrivial': bool(tight_active), 'states': nsolve,
            'outcome': 'bnd:ok:%s' % ('tight-bound-active' if tight_active else 'bounds-inactive')}


def run_broadcast(case):
    from ..ref import c06c07_atoms as A
    rso = _R['rso']
    fe, solver, atom, par, k, form = (case[f] for f in ('fe', 'solver', 'atom', 'par', 'k', 'form'))
    scalar = case['argshape'] == []
    curv = A.ATOMS[atom]['curv']
    sig = 'bc|%s|%s|%s|arg%s|%s' % (fe, atom, form, tuple(case['argshape']), 'k=%g' % k)
    pos = A.ATOMS[atom]['dom'] is not None
    x0 = np.array([1.25] if scalar else ([0.5, 1.5, 2.0] if pos else [0.5, -1.5, 2.0]))
    Cm = np.array([[0.25, -0.5, 1.0], [0.75, 0.5, -0.25]])

    def f(u):
        val, dv = A.f_value(atom, par, np.atleast_1d(np.asarray(u, dtype=float))[None, ...],
                            None if case['s'] is None else np.array([case['s']]))
        return k * val[0]

    free_x = form in ('f+0T<=C', 'f<=C')
    nops = 0
    try:
        m = _R['ro'].Model() if fe == 'ro' else _R['dro'].Model()
        x = m.dvar(1 if scalar else 3)
        T = m.dvar((2, 3))
        m.st(T >= -10.0)
        m.st(T <= 60.0)
        arg = x[0] if scalar else x
        F = A.build_atom(rso, atom, par, arg, case['s'])
        e = F if k == 1 else k * F
        le = curv > 0                       # convex: e <= ..., concave: e >= ...
        nops = 6
        if free_x:
            # constant array right-hand side: rows built from two known points, x free in [0.1, 4]
            pa = np.array([[1.0, 1.5, 0.5], [1.5, 1.0, 0.75]])
            Cc = np.stack([f(pa[0]), f(pa[1])])
            m.st(x >= 0.1)
            m.st(x <= 4.0)
            m.st(T == 0.0)
            if form == 'f<=C':
                m.st((e <= Cc) if le else (e >= Cc))
            else:
                m.st((e + 0.0 * T <= Cc) if le else (e + 0.0 * T >= Cc))
            obj = x.sum() if not scalar else x[0] * 1.0
            (m.max if le else m.min)(obj)
            xref = (pa.min(axis=0) if le else pa.max(axis=0)) if not scalar else np.array([pa.min() if le else pa.max()])
            ref = float(xref.sum())
        else:
            m.st(x == x0)
            g = f(x0)                         # shape (3,) or (1,)
            if form == 'f<=T':
                m.st((e <= T) if le else (e >= T))
                Tref = g + 0 * Cm
            elif form == 'f<=2T-1':
                m.st((e <= 2 * T - 1) if le else (e >= 2 * T - 1))
                Tref = (g + 1) / 2 + 0 * Cm
            elif form == 'T-1>=f':
                m.st((T - 1 >= e) if le else (T - 1 <= e))
                Tref = g + 1 + 0 * Cm
            elif form == 'f-2T<=0':
                m.st((e - 2 * T <= 0) if le else (e - 2 * T >= 0))
                Tref = g / 2 + 0 * Cm
            else:                             # 'f+C<=T'
                m.st((e + Cm <= T) if le else (e + Cm >= T))
                Tref = g + Cm
            (m.min if le else m.max)(T.sum())
            ref = float(Tref.sum())
        nops += 4
    except Exception as ex:  # noqa
        return {'status': 'unsupported', 'outcome': 'bc:raise@build:%s' % type(ex).__name__, 'ops': max(nops, 1),
                'detail': '%s %s' % (sig, str(ex)[:160])}
    st, info = S.solve(_R, m, solver)
    nops += 1
    if st == 'raise':
        return {'status': 'unsupported', 'outcome': 'bc:raise@solve:%s' % info.split(':')[0], 'ops': nops,
                'detail': '%s %s' % (sig, info)}
    if st != 'optimal':
        return {'status': 'vacuous', 'outcome': 'bc:not-optimal:%s' % solver, 'ops': nops, 'detail': '%s %s' % (sig, info)}
    xv = np.asarray(x.get(), dtype=float).reshape(-1)
    Tv = np.asarray(T.get(), dtype=float).reshape(2, 3)
    objv = float(m.get())
    nops += 3
    ctol, otol = CTOL[solver], OTOL[solver]
    with np.errstate(all='ignore'):
        gx = f(xv if not scalar else xv[:1])
        if free_x:
            R = (gx - Cc) if le else (Cc - gx)
            ov = float(xv.sum())
        else:
            lhs, rhs = {'f<=T': (gx, Tv), 'f<=2T-1': (gx, 2 * Tv - 1), 'T-1>=f': (gx, Tv - 1),
                        'f-2T<=0': (gx - 2 * Tv, 0 * Tv), 'f+C<=T': (gx + Cm, Tv)}[form]
            R = (lhs - rhs) if le else (rhs - lhs)
            ov = float(Tv.sum())
    R = np.broadcast_to(R, (2, 3))
    scale = 1.0 + float(np.max(np.abs(gx)))
    if not np.all(R <= ctol * scale * 5):
        i, j = np.unravel_index(int(np.argmax(np.where(np.isnan(R), np.inf, R))), R.shape)
        return {'status': 'violation', 'ops': nops, 'sig': sig + '|row-violated',
                'detail': 'written inequality (NumPy broadcasting, 2x3 rows) violated at row (%d,%d) by %.6g; x=%s T=%s (%s)' %
                          (i, j, float(R[i, j]), np.round(xv, 5).tolist(), np.round(Tv, 5).tolist(), solver)}
    if abs(ov - objv) > otol * (1 + abs(ov)):
        return {'status': 'violation', 'ops': nops, 'sig': sig + '|objective-value',
                'detail': 'model.get()=%.9g, objective at the returned point %.9g (%s)' % (objv, ov, solver)}
    if abs(objv - ref) > 10 * otol * (1 + abs(ref)):
        return {'status': 'violation', 'ops': nops, 'sig': sig + '|optimum',
                'detail': 'reported %.9g, closed form with all 6 broadcast rows %.9g (%s)' % (objv, ref, solver)}
    return {'status': 'pass', 'ops': nops, 'nontrivial': True, 'outcome': 'bc:ok:%s' % case['cone']}


def run_case(case):
    if case.get('sub') == 'bc':
        return run_broadcast(case)
    if case.get('sub') == 'bnd':
        return run_bounds(case)
    if case.get('hist'):
        return run_hist(case)
    spec, solver, tag = case['spec'], case['solver'], case['tag']
    fe = spec['fe']
    base_sig = '%s|%s' % (fe, tag)
    nops = 0
    try:
        m, x, nops = S.build_model(_R, spec)
    except Exception as ex:  # noqa
        return {'status': 'unsupported', 'outcome': 'raise@build:%s' % type(ex).__name__, 'ops': 4,
                'detail': str(ex)[:200]}
    st, info = S.solve(_R, m, solver)
    nops += 1
    return _judge(case, m, x, st, info, nops, base_sig)


def _redundant(m, x, spec, j):
    """A constraint implied by the user box, added between two compilations (j-th extension)."""
    if j % 2 == 0:
        return m.st(x[0] <= 4.0)
    g = np.array(([1.0, -0.5, 0.25] * 2)[:spec['n']])
    return m.st(g @ x <= 8.0)


def run_hist(case):
    """solve / do_math -> extend the model by a redundant constraint -> solve again (...): the oracle of the
    single-solve cases is applied to EVERY solve, all solves must report the same optimum, and the numeric
    content of the user's own constraint / objective objects must be unchanged after every compilation."""
    spec, solver, tag, hist = case['spec'], case['solver'], case['tag'], case['hist']
    fe = spec['fe']
    base_sig = '%s|%s|hist=%s' % (fe, tag, hist)
    keep = []
    try:
        m, x, nops = S.build_model(_R, spec, keep=keep)
        snap0 = [S.snapshot(o) for o in keep]
    except Exception as ex:  # noqa
        return {'status': 'unsupported', 'outcome': 'raise@build:%s' % type(ex).__name__, 'ops': 4,
                'detail': str(ex)[:200]}
    nsolve = 0
    nst = 0
    first_obj = None
    last = None
    worst = None            # the most informative non-pass outcome if no violation shows up
    for step in hist.split(','):
        if step == 'st':
            try:
                _redundant(m, x, spec, nst)
            except Exception as ex:  # noqa
                return {'status': 'unsupported', 'outcome': 'raise@st-after-compile:%s' % type(ex).__name__,
                        'ops': nops, 'detail': str(ex)[:200]}
            nst += 1
            nops += 1
            continue
        if step == 'domath':
            try:
                m.do_math()
            except Exception as ex:  # noqa
                return {'status': 'unsupported', 'outcome': 'raise@do_math:%s' % type(ex).__name__, 'ops': nops,
                        'detail': str(ex)[:200]}
            nops += 1
            res = None
        else:
            nsolve += 1
            st, info = S.solve(_R, m, solver)
            nops += 1
            res = _judge(case, m, x, st, info, nops, '%s|solve#%d' % (base_sig, nsolve))
            nops = res.get('ops', nops)
        if res is not None and res['status'] == 'violation':
            return res
        # the user's objects after this compilation
        for i, (o, s0) in enumerate(zip(keep, snap0) if not _NOSNAP else ()):
            d = S.snap_diff(s0, S.snapshot(o), '')
            if d:
                what = 'objective' if i == len(keep) - 1 else ('box' if i < 2 else 'constraint#%d' % (i - 2))
                return {'status': 'violation', 'ops': nops,
                        'sig': '%s|user-object-edited(%s%s)' % (base_sig, type(o).__name__, d),
                        'detail': 'after compilation %d (%s) the %s object %s differs from what the user built in '
                                  'field %s (%s)' % (nsolve + (step == 'domath'), step, what, type(o).__name__, d, case['k'])}
        if res is None:
            continue
        if res['status'] == 'violation':
            return res
        if res['status'] != 'pass':
            if nsolve == 1:
                return res          # the plain model is not solvable: same verdict as the single-solve case
            worst = res
            continue
        if first_obj is None:
            first_obj = res['objv']
        elif abs(res['objv'] - first_obj) > 10 * OTOL[solver] * (1.0 + abs(first_obj)):
            return {'status': 'violation', 'ops': nops, 'sig': '%s|solve#%d|optimum-changed' % (base_sig, nsolve),
                    'detail': 'optimum %.9g at solve #1, %.9g at solve #%d although only constraints implied by the '
                              'box were added (%s, %s)' % (first_obj, res['objv'], nsolve, solver, case['k'])}
        last = res
    if worst is not None:
        if last is not None or first_obj is not None:
            # solved before, not solvable after a redundant extension
            return {'status': 'vacuous', 'outcome': 'hist:later-' + str(worst.get('outcome')), 'ops': nops,
                    'detail': worst.get('detail')}
        return worst
    if last is None:
        return {'status': 'vacuous', 'outcome': 'hist:no-solve', 'ops': nops}
    out = dict(last)
    out['outcome'] = 'hist:' + last['outcome']
    out['states'] = nsolve
    out['ops'] = nops
    return out


def _judge(case, m, x, st, info, nops, base_sig):
    """The oracle for one solve: every user constraint and the objective re-evaluated at the returned point."""
    spec, solver, tag = case['spec'], case['solver'], case['tag']
    pos = 'obj' if tag.rsplit('|', 1)[1] == 'obj' else 'cons'
    if st == 'raise':
        return {'status': 'unsupported', 'outcome': 'raise@solve:%s' % info.split(':')[0], 'ops': nops, 'detail': info}
    if st != 'optimal':
        cls = _status_class(solver, info)
        V0 = np.zeros((1, spec['n']))
        strictly = all(S.cons_eval(c, V0)[0][0] <= -0.3 for c in spec['cons'])
        if cls in ('unbounded', 'inf_or_unbd') and strictly:
            alt = _epigraph_solves(spec, solver)
            if alt is not None:
                return {'status': 'violation', 'ops': nops,
                        'sig': '%s|%s-but-bounded' % (base_sig, 'unbounded'),
                        'detail': 'solver %s status %r on a box-bounded, strictly feasible model; epigraph form of '
                                  'the same model solves to %.6g (%s)' % (solver, info, alt, case['k'])}
        return {'status': 'vacuous', 'outcome': 'not-optimal:%s:%s' % (solver, cls), 'ops': nops, 'detail': info}
    try:
        v = np.asarray(x.get(), dtype=float).reshape(1, spec['n'])
        objv = float(m.get())
    except Exception as ex:  # noqa
        return {'status': 'vacuous', 'outcome': 'get-raises:%s' % type(ex).__name__, 'ops': nops,
                'detail': str(ex)[:200]}
    nops += 2
    ctol, otol = CTOL[solver], OTOL[solver]
    # ---- every user constraint ------------------------------------------------------------
    br = S.box_resid(spec, v)[0]
    if br > ctol * 3:
        return {'status': 'violation', 'ops': nops, 'sig': '%s|box-violated' % base_sig,
                'detail': 'x=%s leaves the user box %s by %.3g (%s, %s)' % (v[0].tolist(), spec['box'], br, solver, case['k'])}
    ir = S.integrality_resid(spec, v)[0]
    if ir > ITOL[solver]:
        return {'status': 'violation', 'ops': nops, 'sig': '%s|vtype-violated(%s)' % (base_sig, spec['vt']),
                'detail': 'x=%s vtype %s residual %.3g (%s)' % (v[0].tolist(), spec['vt'], ir, solver)}
    active = False
    nudged = False
    mres = 0.0
    for i, c in enumerate(spec['cons']):
        res, sc = S.cons_eval(c, v)
        res, sc = float(res[0]), float(sc[0])
        lim = ctol * (1.0 + sc)
        if not (res <= lim):
            # ill-conditioned active constraints (argument next to the domain boundary): accept when a point
            # within the solver's accuracy in x satisfies the constraint
            rn, _ = S.cons_eval(c, _nbhd(v, XTOL[solver]))
            if np.nanmin(np.where(np.isnan(rn), np.inf, rn)) <= lim:
                res = lim
                nudged = True
        if not (res <= lim):
            what = 'violated' if c.get('tag') == 'main' else 'aux-%s-violated' % c['kind']
            return {'status': 'violation', 'ops': nops, 'sig': '%s|%s' % (base_sig, what),
                    'detail': 'constraint #%d (%s) residual %.6g > %.3g at x=%s (%s, %s)' %
                              (i, c['kind'], res, lim, v[0].tolist(), solver, case['k'])}
        mres = max(mres, res / (1.0 + sc))
        if c.get('tag') == 'main' and res >= -1e-3 * (1.0 + sc):
            active = True
        elif c.get('tag') == 'main' and c['kind'] == 'term' and c['t'].get('atom') and \
                S.ATOMS[c['t']['atom']]['dom'] is not None:
            # the implicit domain (argument >= 0) of the atom's cone is binding
            U = S.aff_eval(c['t']['u'], v)
            if float(U.min()) <= 1e-3 * (1.0 + float(np.abs(U).max())):
                active = True
    # ---- the objective ---------------------------------------------------------------------
    ov, dv = S.obj_eval(spec, v)
    ov = float(ov[0])
    bad = not np.isfinite(ov) or abs(ov - objv) > otol * (1.0 + abs(ov))
    if bad and np.isfinite(ov):
        on, _ = S.obj_eval(spec, _nbhd(v, XTOL[solver]))
        on = on[np.isfinite(on)]
        if on.size and on.min() - otol * (1 + abs(ov)) <= objv <= on.max() + otol * (1 + abs(ov)):
            bad = False
            nudged = True
    if bad:
        return {'status': 'violation', 'ops': nops, 'sig': '%s|objective-value' % base_sig,
                'detail': 'model.get()=%.8g but the user objective at x.get()=%s is %.8g (%s, %s)' %
                          (objv, v[0].tolist(), ov, solver, case['k'])}
    nontrivial = active or pos == 'obj'
    return {'status': 'pass', 'ops': nops, 'nontrivial': bool(nontrivial), 'mres': mres, 'objv': objv,
            'ores': abs(ov - objv) / (1.0 + abs(ov)),
            'outcome': 'ok:%s:%s%s' % (pos, 'active' if active else ('atom-objective' if pos == 'obj' else 'inactive'),
                                       ':within-x-accuracy' if nudged else '')}
