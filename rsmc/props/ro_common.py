"""Shared driver for C01/C02: build a RoSpec on the real rsome, solve, read the solution back."""
import numpy as np

_rs = {}

TOL = {'def': 2e-6, 'ort': 2e-6, 'eco': 2e-5, 'grb': 2e-4}


def worker_init():
    import rsome
    from rsome import eco_solver, grb_solver, ort_solver
    _rs.update(rsome=rsome, eco=eco_solver, grb=grb_solver, ort=ort_solver)


def solve_spec(spec):
    """-> dict(status in optimal/failed/raised, value, sol, ops, err)"""
    from ..build import ro_build
    out = {'ops': 0}
    try:
        b = ro_build.build(_rs['rsome'], spec)
    except Exception as ex:  # noqa
        out.update(status='raised', stage='build', err='%s: %s' % (type(ex).__name__, str(ex)[:160]))
        return out
    out['ops'] = b.ops + 1
    try:
        s = spec.get('solver', 'def')
        if s == 'def':
            b.m.solve(display=False)
        else:
            params = {'Threads': 1} if s == 'grb' else {}
            b.m.solve(_rs[s], display=False, params=params)
    except Exception as ex:  # noqa
        out.update(status='raised', stage='solve', err='%s: %s' % (type(ex).__name__, str(ex)[:160]))
        return out
    if not b.m.optimal():
        out.update(status='failed', solver_status=str(getattr(b.m.solution, 'status', None)))
        return out
    try:
        out['value'] = float(b.m.get())
        out['sol'] = ro_build.read_solution(b)
        out['ops'] += 3
    except Exception as ex:  # noqa
        out.update(status='raised', stage='read', err='%s: %s' % (type(ex).__name__, str(ex)[:160]))
        return out
    out['status'] = 'optimal'
    out['built'] = b
    return out


def scale(spec, sol):
    v = [1.0] + [abs(a) for a in sol['x']] + [abs(a) for a in sol['y0']]
    if sol['Y']:
        v += [abs(a) for a in np.nan_to_num(np.array(sol['Y'], float)).ravel()]
    return max(v)
