"""C04 - the DRO reformulation is exact: reported optimum == true optimal worst-case expectation.

Same state space as C03.  Oracle: rsmc/ref/droref.solve - ONE LP in the decisions (per declared event block, affine
coefficients restricted to the declared mask) and the multipliers of a generically dualised vertex-level moment
problem; independent of rsome's support-level conic duality.  Includes the two special cases named in the property
(singleton supports + fixed probabilities = sample average; one scenario, no expectation information = robust).
"""
from . import dro_specs, dro_common
from ..ref import droref

PROPERTY = 'C04'
TIMEOUT = 120.0
CHUNK = 4
FLOOR = 0.4
RULE = ('same enumeration as C03; non-trivial = both rsome and the reference report an optimum; the evidence counts the '
        'distinct reference optimum values (partitions, masks and event structures give different optima)')
ASSUMPTIONS = ['vertex-level moment LP is exact for polytopic supports and max-of-affine integrands (LP strong duality)',
               'tolerance 1e-5*(1+|value|) (HiGHS on both sides)',
               'rsome failing where the reference has an optimum is alarmed (all models are LPs solved by HiGHS)']
TRUSTED = ['CPython', 'NumPy', 'SciPy linprog (HiGHS)', 'rsmc/ref/droref.py']

worker_init = dro_common.worker_init


def gen_cases(tier, seed):
    yield from dro_specs.gen_specs(tier, seed)


def bounds(tier):
    return {'S<=': 4 if tier == 'thorough' else 3, 'dz<=': 2, 'ny<=': 2, 'palettes': 4 if tier == 'thorough' else 1}


def run_case(spec):
    r = dro_common.solve_spec(spec)
    ops = r['ops']
    tag = spec['tag']
    if r['status'] == 'raised':
        return {'status': 'vacuous', 'outcome': 'raised:' + r.get('stage', ''), 'ops': ops, 'detail': r.get('err')}
    try:
        ref = droref.solve(spec)
    except ValueError as ex:
        return {'status': 'vacuous', 'outcome': 'reference n/a', 'ops': ops, 'detail': str(ex)}
    if r['status'] != 'optimal':
        ss = str(r.get('solver_status', '')).lower()
        if ref['status'] == 'optimal' and spec.get('solver') == 'eco' and 'infeasible' not in ss and 'unbounded' not in ss:
            # ECOS gave up (numerical problems / iteration limit): no optimum is reported, the statement is conditional
            return {'status': 'vacuous', 'outcome': 'ecos gave up', 'ops': ops, 'detail': ss}
        if ref['status'] == 'optimal':
            return {'status': 'violation', 'sig': tag + '|no optimum reported but one exists', 'ops': ops,
                    'detail': 'rsome status %s ; reference %.8g at %s' % (r.get('solver_status'), ref['value'], ref['dec'])}
        return {'status': 'pass', 'outcome': 'both non-optimal:' + ref['status'], 'ops': ops, 'nontrivial': False}
    if ref['status'] != 'optimal':
        if ref['status'] == 'infeasible':
            return {'status': 'violation', 'sig': tag + '|optimum reported for an infeasible model', 'ops': ops,
                    'detail': 'rsome %.8g' % r['value']}
        return {'status': 'vacuous', 'outcome': 'reference ' + ref['status'], 'ops': ops}
    tol = (1e-5 if spec.get('solver', 'def') == 'def' else 1e-4) * (1 + abs(ref['value']))
    diff = r['value'] - ref['value']
    if abs(diff) > tol:
        sgn = 1 if spec['obj']['kind'] in ('min', 'minsup') else -1
        kind = 'conservative' if sgn * diff > 0 else 'unsafe'
        return {'status': 'violation', 'sig': '%s|value %s' % (tag, kind), 'ops': ops,
                'detail': 'rsome %.8g reference %.8g ; rsome dec %s ; ref dec %s' % (r['value'], ref['value'], r['dec'], ref['dec'])}
    return {'status': 'pass', 'outcome': 'equal', 'ops': ops, 'nontrivial': True}
