"""Shared driver for C03/C04: build a DroSpec on the real rsome, solve, read decisions back."""
_rs = {}


def worker_init():
    import rsome
    from rsome import eco_solver, grb_solver, ort_solver
    _rs.update(rsome=rsome, eco=eco_solver, grb=grb_solver, ort=ort_solver)


def solve_spec(spec):
    from ..build import dro_build
    out = {'ops': 0}
    try:
        b = dro_build.build(_rs['rsome'], spec)
    except Exception as ex:  # noqa
        out.update(status='raised', stage='build', err='%s: %s' % (type(ex).__name__, str(ex)[:200]))
        return out
    out['ops'] = b.ops + 1
    try:
        s = spec.get('solver', 'def')
        if s == 'def':
            b.m.solve(display=False)
        else:
            b.m.solve(_rs[s], display=False)
    except Exception as ex:  # noqa
        out.update(status='raised', stage='solve', err='%s: %s' % (type(ex).__name__, str(ex)[:200]))
        return out
    if not b.m.optimal():
        out.update(status='failed', solver_status=str(getattr(b.m.solution, 'status', None)))
        return out
    try:
        out['value'] = float(b.m.get())
        out['dec'] = dro_build.read_decisions(b)
        out['ops'] = b.ops + 2
    except Exception as ex:  # noqa
        out.update(status='raised', stage='read', err='%s: %s' % (type(ex).__name__, str(ex)[:200]))
        return out
    out['status'] = 'optimal'
    return out
