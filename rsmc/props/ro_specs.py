"""Grammar of robust-optimisation model specs shared by C01/C02 (and reused by history checks).

A spec is pure JSON data; rsmc/build/ro_build.py turns it into real rsome calls, rsmc/ref/roref.py is the
independent reference (vertex / boundary-lattice scenario LP).  No rsome import here.
"""
import copy
import itertools

PALETTES = [
    dict(p=[0.5, -0.25, 0.5], q=[1.0, 0.5, -0.5], u=[0.5, 1.0, 0.25], w=[0.25, 0.5, -0.25]),
    dict(p=[-0.5, 0.5, 0.25], q=[0.5, -1.0, 1.0], u=[1.0, -0.5, 0.5], w=[0.5, -0.25, 0.25]),
    dict(p=[0.25, 0.75, -0.5], q=[-1.0, 1.0, 0.5], u=[-0.5, 0.5, 1.0], w=[-0.25, 0.25, 0.5]),
    dict(p=[1.0, 0.5, 0.25], q=[1.5, 1.0, -1.0], u=[0.25, -1.0, 0.5], w=[0.75, 0.5, -0.5]),
]


def sets_catalog(d):
    """name -> dict(pieces, centre, cls) ; cls in lp / soc / exp (cone class needed by the solver)."""
    C = {}

    def add(name, pieces, centre, cls):
        C[name] = {'pieces': pieces, 'centre': centre, 'cls': cls}

    if d == 1:
        add('box', [{'k': 'box', 'lo': [-1.0], 'hi': [1.5]}], [0.0], 'lp')
        add('box0lo', [{'k': 'box', 'lo': [0.0], 'hi': [2.0]}], [1.0], 'lp')
        add('box0hi', [{'k': 'box', 'lo': [-2.0], 'hi': [0.0], 'style': 'scalar'}], [-1.0], 'lp')
        add('abs', [{'k': 'box', 'lo': [-0.5], 'hi': [1.5], 'style': 'abs'}], [0.5], 'lp')
        add('square', [{'k': 'n2', 'c': [0.25], 'r': 1.25, 'style': 'square'}], [0.25], 'soc')
        add('pn3', [{'k': 'pn', 'c': [0.0], 'r': 1.5, 'p': 3}], [0.0], 'soc')
        add('fixed', [{'k': 'eq', 'A': [[1.0]], 'b': [0.75], 'style': 'direct'}], [0.75], 'lp')
        return C
    if d == 3:
        add('box', [{'k': 'box', 'lo': [-1.0, -0.5, 0.0], 'hi': [1.0, 1.5, 2.0]}], [0.0, 0.5, 1.0], 'lp')
        add('n1', [{'k': 'n1', 'c': [0.25, -0.5, 0.0], 'r': 1.0}], [0.25, -0.5, 0.0], 'lp')
        add('ninf', [{'k': 'ninf', 'c': [0.0, 0.5, -0.25], 'r': 1.0}], [0.0, 0.5, -0.25], 'lp')
        add('simplex', [{'k': 'eq', 'A': [[1.0, 1.0, 1.0]], 'b': [1.0], 'style': 'sum'},
                        {'k': 'box', 'lo': [0.0, 0.0, 0.0], 'hi': [1.0, 1.0, 1.0]}], [1 / 3, 1 / 3, 1 / 3], 'lp')
        add('budget', [{'k': 'box', 'lo': [-1.0, -1.0, -1.0], 'hi': [1.0, 1.0, 1.0]},
                       {'k': 'n1', 'c': [0.0, 0.0, 0.0], 'r': 1.5}], [0.0, 0.0, 0.0], 'lp')
        add('kl3', [{'k': 'eq', 'A': [[1.0, 1.0, 1.0]], 'b': [1.0], 'style': 'sum'},
                    {'k': 'kl', 'q': [0.2, 0.3, 0.5], 'r': 0.1}], [0.2, 0.3, 0.5], 'exp')
        return C
    # ---- d == 2
    add('box', [{'k': 'box', 'lo': [-1.0, -0.5], 'hi': [1.0, 1.5]}], [0.0, 0.5], 'lp')
    add('box0lo', [{'k': 'box', 'lo': [0.0, 0.0], 'hi': [1.0, 2.0]}], [0.5, 1.0], 'lp')
    add('box0hi', [{'k': 'box', 'lo': [-1.0, -2.0], 'hi': [0.0, 0.0]}], [-0.5, -1.0], 'lp')
    add('boxpos', [{'k': 'box', 'lo': [0.5, 1.0], 'hi': [1.5, 2.0]}], [1.0, 1.5], 'lp')
    add('boxmix', [{'k': 'box', 'lo': [0.0, -1.5], 'hi': [1.25, 0.0]}], [0.5, -0.75], 'lp')
    add('boxhalf', [{'k': 'box', 'lo': [0.0, -1.0], 'hi': [1.0, 1.5]}], [0.5, 0.25], 'lp')
    add('boxhalf2', [{'k': 'box', 'lo': [-1.0, -1.5], 'hi': [1.0, 0.0]}], [0.0, -0.75], 'lp')
    add('boxrows', [{'k': 'box', 'lo': [-1.0, -0.5], 'hi': [1.0, 1.5], 'style': 'rows'}], [0.0, 0.5], 'lp')
    add('boxentry', [{'k': 'box', 'lo': [-0.5, -1.0], 'hi': [1.5, 0.5], 'style': 'entry'}], [0.5, -0.25], 'lp')
    add('abs', [{'k': 'box', 'lo': [-1.0, -0.25], 'hi': [0.5, 1.25], 'style': 'abs'}], [-0.25, 0.5], 'lp')
    add('ninf', [{'k': 'ninf', 'c': [0.25, -0.25], 'r': 1.0}], [0.25, -0.25], 'lp')
    add('n1', [{'k': 'n1', 'c': [0.25, -0.5], 'r': 1.0}], [0.25, -0.5], 'lp')
    add('tri', [{'k': 'lin', 'A': [[1.0, 1.0], [-1.0, 0.0], [0.0, -1.0]], 'b': [1.0, 1.0, 0.5]}], [0.0, 0.0], 'lp')
    add('seg', [{'k': 'eq', 'A': [[1.0, 1.0]], 'b': [0.5], 'style': 'sum'},
                {'k': 'box', 'lo': [-1.0, -1.0], 'hi': [1.0, 1.0]}], [0.25, 0.25], 'lp')
    add('segrow', [{'k': 'eq', 'A': [[1.0, -2.0]], 'b': [0.25]},
                   {'k': 'box', 'lo': [-1.0, -1.0], 'hi': [1.5, 1.0]}], [0.25, 0.0], 'lp')
    add('fixed', [{'k': 'eq', 'A': [[1.0, 0.0], [0.0, 1.0]], 'b': [0.75, -0.5], 'style': 'direct'}], [0.75, -0.5], 'lp')
    add('fixedbox', [{'k': 'box', 'lo': [0.75, -1.0], 'hi': [0.75, 1.0]}], [0.75, 0.0], 'lp')
    add('n2', [{'k': 'n2', 'c': [0.0, 0.25], 'r': 1.0}], [0.0, 0.25], 'soc')
    add('n2b', [{'k': 'n2', 'c': [0.5, -0.25], 'r': 1.25, 'style': 'norm2'}], [0.5, -0.25], 'soc')
    add('sumsqr', [{'k': 'n2', 'c': [0.25, 0.0], 'r': 1.0, 'style': 'sumsqr'}], [0.25, 0.0], 'soc')
    add('quad', [{'k': 'n2', 'c': [0.0, -0.25], 'r': 1.0, 'style': 'quad'}], [0.0, -0.25], 'soc')
    add('ellip', [{'k': 'n2', 'c': [0.25, 0.25], 'r': 1.0, 'M': [[1.0, 0.5], [0.0, 2.0]]}], [0.25, 0.25], 'soc')
    add('ellipq', [{'k': 'n2', 'c': [0.0, 0.0], 'r': 1.0, 'M': [[2.0, 0.0], [0.5, 1.0]], 'style': 'quad'}], [0.0, 0.0], 'soc')
    add('pn3', [{'k': 'pn', 'c': [0.0, 0.25], 'r': 1.0, 'p': 3}], [0.0, 0.25], 'soc')
    add('pn32', [{'k': 'pn', 'c': [0.25, 0.0], 'r': 1.0, 'p': [3, 2]}], [0.25, 0.0], 'soc')
    add('pn4', [{'k': 'pn', 'c': [0.0, 0.0], 'r': 1.25, 'p': 4, 'method': 'soc'}], [0.0, 0.0], 'soc')
    add('pnexc', [{'k': 'pn', 'c': [0.0, 0.25], 'r': 1.0, 'p': 2.5}], [0.0, 0.25], 'exp')
    add('kl', [{'k': 'eq', 'A': [[1.0, 1.0]], 'b': [1.0], 'style': 'sum'},
               {'k': 'kl', 'q': [0.4, 0.6], 'r': 0.1}], [0.4, 0.6], 'exp')
    add('ent', [{'k': 'eq', 'A': [[1.0, 1.0]], 'b': [1.0], 'style': 'sum'},
                {'k': 'ent', 'e': 0.5}], [0.5, 0.5], 'exp')
    add('expc', [{'k': 'expc', 'i': 0, 'j': 1},
                 {'k': 'box', 'lo': [-1.0, 0.0], 'hi': [1.0, 2.0]}], [0.0, 1.5], 'exp')
    # scaled atoms:  c*norm(z - ctr) <= c*r  (c < 0:  c*norm(..) >= c*r)  describe the same sets
    add('ninf*.25', [{'k': 'ninf', 'c': [0.25, -0.25], 'r': 1.0, 'mult': 0.25}], [0.25, -0.25], 'lp')
    add('ninf*4', [{'k': 'ninf', 'c': [-0.25, 0.25], 'r': 1.25, 'mult': 4.0}], [-0.25, 0.25], 'lp')
    add('ninf*-2', [{'k': 'ninf', 'c': [0.25, 0.0], 'r': 1.0, 'mult': -2.0}], [0.25, 0.0], 'lp')
    add('n1*.5', [{'k': 'n1', 'c': [0.25, -0.5], 'r': 1.0, 'mult': 0.5}], [0.25, -0.5], 'lp')
    add('n1*3', [{'k': 'n1', 'c': [0.0, 0.25], 'r': 1.25, 'mult': 3.0}], [0.0, 0.25], 'lp')
    add('abs*2', [{'k': 'box', 'lo': [-1.0, -0.25], 'hi': [0.5, 1.25], 'style': 'abs', 'mult': 2.0}], [-0.25, 0.5], 'lp')
    add('abs*-.5', [{'k': 'box', 'lo': [-0.5, -1.25], 'hi': [1.0, 0.25], 'style': 'abs', 'mult': -0.5}], [0.25, -0.5], 'lp')
    add('n2*.5', [{'k': 'n2', 'c': [0.0, 0.25], 'r': 1.0, 'mult': 0.5}], [0.0, 0.25], 'soc')
    add('n2*3', [{'k': 'n2', 'c': [0.25, 0.0], 'r': 1.25, 'style': 'norm2', 'mult': 3.0}], [0.25, 0.0], 'soc')
    add('sumsqr*2', [{'k': 'n2', 'c': [0.25, 0.0], 'r': 1.0, 'style': 'sumsqr', 'mult': 2.0}], [0.25, 0.0], 'soc')
    add('quad*.5', [{'k': 'n2', 'c': [0.0, -0.25], 'r': 1.0, 'style': 'quad', 'mult': 0.5}], [0.0, -0.25], 'soc')
    add('ellip*2', [{'k': 'n2', 'c': [0.25, 0.25], 'r': 1.0, 'M': [[1.0, 0.5], [0.0, 2.0]], 'mult': 2.0}], [0.25, 0.25], 'soc')
    add('pn3*2', [{'k': 'pn', 'c': [0.0, 0.25], 'r': 1.0, 'p': 3, 'mult': 2.0}], [0.0, 0.25], 'soc')
    # intersections
    add('n2^box', [{'k': 'n2', 'c': [0.0, 0.0], 'r': 1.0}, {'k': 'box', 'lo': [-0.5, -2.0], 'hi': [0.75, 2.0]}], [0.0, 0.0], 'soc')
    add('n2^half', [{'k': 'n2', 'c': [0.0, 0.25], 'r': 1.0}, {'k': 'lin', 'A': [[1.0, 1.0]], 'b': [0.5]}], [0.0, 0.0], 'soc')
    add('n1^box', [{'k': 'n1', 'c': [0.0, 0.0], 'r': 1.0}, {'k': 'box', 'lo': [-0.5, -2.0], 'hi': [0.75, 0.5]}], [0.0, 0.0], 'lp')
    add('n1^ninf', [{'k': 'n1', 'c': [0.0, 0.0], 'r': 1.5}, {'k': 'ninf', 'c': [0.0, 0.0], 'r': 1.0}], [0.0, 0.0], 'lp')
    add('pn3^box', [{'k': 'pn', 'c': [0.0, 0.0], 'r': 1.0, 'p': 3}, {'k': 'box', 'lo': [-2.0, -0.5], 'hi': [0.5, 2.0]}], [0.0, 0.0], 'soc')
    add('n2^expc', [{'k': 'n2', 'c': [0.0, 1.25], 'r': 1.0}, {'k': 'expc', 'i': 0, 'j': 1}], [0.0, 1.5], 'exp')
    add('n2^n2', [{'k': 'n2', 'c': [0.0, 0.0], 'r': 1.0}, {'k': 'n2', 'c': [0.5, 0.5], 'r': 1.0, 'style': 'sumsqr'}], [0.25, 0.25], 'soc')
    add('n2^seg', [{'k': 'n2', 'c': [0.0, 0.0], 'r': 1.0}, {'k': 'eq', 'A': [[1.0, 1.0]], 'b': [0.5], 'style': 'sum'}], [0.25, 0.25], 'soc')
    return C


CLS_ORDER = {'lp': 0, 'soc': 1, 'exp': 2}


def _v(vec, d, s=1.0):
    return [s * a for a in vec[:d]]


def template(family, d, pal, mask=None):
    """rows / objective pieces of a family; mask only for LDR families."""
    P = PALETTES[pal]
    p, q, u, w = (_v(P[k], d) for k in 'pquw')
    nx = 2
    if family == 'S':
        rows = [
            {'ax': [-1.0, 0.0], 'Az': [[0.0, -pi] for pi in p], 'cz': q, 'c0': 1.0, 'sense': '<='},
            {'ax': [1.0, 1.0], 'cz': _v(u, d, -1.0), 'c0': -1.5, 'sense': '>='},
        ]
        cost = {'ax': [2.0, 1.0]}
        cost_z = {'ax': [2.0, 1.0], 'Az': [[wi, 0.0] for wi in w], 'cz': u}
        alt = {'ax': [1.5, 2.0], 'cz': _v(q, d, 0.5), 'c0': -0.25}
        return dict(nx=nx, ny=0, rows=rows, cost=cost, cost_z=cost_z, alt=alt)
    if family == 'L1':
        rows = [
            {'ax': [-1.0, 0.0], 'by': [-1.0], 'cz': q, 'c0': 1.0, 'sense': '<='},
            {'ax': [0.0, -1.0], 'by': [1.0], 'sense': '<='},
            {'by': [1.0], 'sense': '>='},
        ]
        cost = {'ax': [3.0, 1.0]}
        cost_z = {'ax': [3.0, 1.0], 'by': [0.5], 'cz': u}
        alt = {'ax': [2.5, 1.5], 'Az': [[wi, 0.0] for wi in w], 'c0': -0.25}
        return dict(nx=nx, ny=1, rows=rows, cost=cost, cost_z=cost_z, alt=alt)
    if family == 'L2':
        rows = [
            {'ax': [-1.0, 0.0], 'by': [-1.0, -1.0], 'cz': q, 'c0': 1.0, 'sense': '<='},
            {'ax': [0.0, -1.0], 'by': [1.0, 0.0], 'sense': '<='},
            {'ax': [0.0, -0.5], 'by': [0.0, 1.0], 'c0': -0.5, 'sense': '<='},
            {'by': [1.0, 0.0], 'sense': '>='},
            {'by': [0.0, 1.0], 'sense': '>='},
        ]
        cost = {'ax': [3.0, 1.0]}
        cost_z = {'ax': [3.0, 1.0], 'by': [0.5, 0.25], 'cz': u}
        alt = {'ax': [2.5, 1.5], 'by': [0.0, 1.0], 'c0': -0.25}
        return dict(nx=nx, ny=2, rows=rows, cost=cost, cost_z=cost_z, alt=alt)
    if family in ('E', 'Ebad'):
        m = mask[0] if mask else [1] * d
        qm = [qi * (mi if family == 'E' else 1) for qi, mi in zip(q, m)]
        rows = [
            {'ax': [-1.0, 0.0], 'by': [1.0], 'cz': _v(qm, d, -1.0), 'sense': '=='},
            {'ax': [0.0, -1.0], 'by': [1.0], 'sense': '<='},
            {'ax': [1.0, 0.0], 'c0': -1.0, 'sense': '>='},
        ]
        cost = {'ax': [1.0, 1.0]}
        cost_z = {'ax': [1.0, 1.0], 'by': [0.25], 'cz': u}
        alt = {'ax': [0.5, 1.5], 'c0': 0.25}
        return dict(nx=nx, ny=1, rows=rows, cost=cost, cost_z=cost_z, alt=alt)
    raise ValueError(family)


def neg_piece(pc):
    out = {}
    for k, v in pc.items():
        if k in ('ax', 'by', 'cz'):
            out[k] = [-a for a in v]
        elif k == 'Az':
            out[k] = [[-a for a in r] for r in v]
        elif k == 'c0':
            out[k] = -v
        else:
            out[k] = v
    return out


def flip_row(row):
    r = neg_piece(row)
    r['sense'] = {'<=': '>=', '>=': '<=', '==': '=='}[row['sense']]
    return r


def make(d, family, pal, U, att='default', W=None, okind='minmax', mask=None, adapt_style='entry',
         style='A', orient=0, split=False, obj_first=True, attach='list', solver=None, vec=False, pw=False, pwoff=None, late_rvar=False, zsign=None):
    """Assemble one spec.  U / W are set names of sets_catalog(d)."""
    cat = sets_catalog(d)
    t = template(family, d, pal, mask)
    ny = t['ny']
    if ny and mask is None:
        mask = [[1] * d for _ in range(ny)]
    rows = copy.deepcopy(t['rows'])
    sets = {'U': {k: cat[U][k] for k in ('pieces', 'centre')}}
    cls = cat[U]['cls']
    if W:
        sets['W'] = {k: cat[W][k] for k in ('pieces', 'centre')}
        cls = max(cls, cat[W]['cls'], key=lambda c: CLS_ORDER[c])
    # objective
    if okind in ('min', 'max'):
        pieces = [t['cost']]
    elif okind in ('minmax', 'maxmin'):
        pieces = [t['cost_z']]
    elif okind in ('minmax_pw', 'maxmin_pw'):
        pieces = [t['cost_z'], t['alt']]
    elif okind in ('min_pw',):
        pieces = [t['cost'], {k: v for k, v in t['alt'].items() if k in ('ax', 'c0')}]
    else:
        raise ValueError(okind)
    kind = okind.split('_')[0]
    if kind in ('max', 'maxmin'):
        pieces = [neg_piece(pc) for pc in pieces]
    pieces = [dict(pc, style=style) for pc in pieces]
    if zsign:
        # mirror the dependence on chosen random components: the worst cases move to the opposite faces of the sets
        def mirror(pc):
            out = dict(pc)
            if 'cz' in pc:
                out['cz'] = [a * sg for a, sg in zip(pc['cz'], zsign)]
            if 'Az' in pc:
                out['Az'] = [[a * sg for a in r] for r, sg in zip(pc['Az'], zsign)]
            return out
        rows = [mirror(r) for r in rows]
        pieces = [mirror(pc) for pc in pieces]
    default = 'U' if kind in ('minmax', 'maxmin') else None
    # attachment of sets to rows
    for i, r in enumerate(rows):
        r['style'] = style
        r['attach'] = attach
        if split:
            r['split'] = True
        if att == 'default':
            r['set'] = None
        elif att == 'forall':
            r['set'] = 'U'
        elif att == 'first_own':
            r['set'] = 'W' if i == 0 else None
        elif att == 'all_own':
            r['set'] = 'W'
        elif att == 'forall_mixed':
            r['set'] = 'W' if i == 0 else 'U'
        else:
            raise ValueError(att)
    if default is None:
        for r in rows:
            if r['set'] is None:
                r['set'] = 'U'
    if orient:
        rows = [flip_row(r) if (orient == 1 or i % 2 == 0) else r for i, r in enumerate(rows)]
    used = {r['set'] for r in rows} | {default}
    sets = {k: v for k, v in sets.items() if k in used}
    if solver is None:
        solver = {'lp': 'def', 'soc': 'eco', 'exp': 'eco'}[cls]
    spec = {'d': d, 'nx': t['nx'], 'ny': ny, 'xlo': [0.0, 0.0], 'xhi': [8.0, 8.0], 'sets': sets,
            'default': default, 'rows': rows, 'obj': {'kind': kind, 'pieces': pieces, 'attach': attach},
            'obj_first': obj_first, 'cls': cls, 'solver': solver,
            'tag': '%s|d%d|%s|%s%s|%s|%s' % (family, d, U, att, ('/' + W) if W else '', okind, solver)}
    if ny:
        spec['mask'] = mask
        spec['adapt_style'] = adapt_style
    if vec:
        spec['vec'] = True
        spec['tag'] += '|vec'
    if pw:
        spec['pw'] = True
        spec['tag'] += '|pw'
    if zsign:
        spec['tag'] += '|z%s' % ''.join('+' if sg > 0 else '-' for sg in zsign)
    if late_rvar and ny:
        spec['late_rvar'] = True
        spec['tag'] += '|late_rvar'
    if pwoff:
        spec['pwoff'] = list(pwoff)
        spec['tag'] += '|off:%s.%s' % tuple(pwoff)
    return spec


def all_masks(ny, d):
    return [[list(bits[j * d:(j + 1) * d]) for j in range(ny)]
            for bits in itertools.product((1, 0), repeat=ny * d)]


STYLES = ['A', 'B', 'C', 'D', 'E', 'F', 'G']
ATTACH = ['list', 'args', 'mixed', 'lists', 'gen', 'listbare']


def gen_specs(tier, seed):
    thorough = tier == 'thorough'
    pals = range(len(PALETTES)) if thorough else [seed % len(PALETTES)]
    for pal in pals:
        yield from _gen_pal(pal, thorough)


def _solvers(cls, thorough):
    if cls == 'lp':
        return ['def'] + (['eco', 'grb', 'ort'] if thorough else [])
    if cls == 'soc':
        return ['eco', 'grb']
    return ['eco']


def _gen_pal(pal, thorough):
    cat2 = sets_catalog(2)
    names2 = list(cat2)
    # P1: every set kind x family x attachment/objective x orientation (style rotates with the set index)
    for i, U in enumerate(names2):
        for fam in ('S', 'L1'):
            for att, okind in (('default', 'minmax'), ('forall', 'min')):
                for orient in (0, 1):
                    for solver in _solvers(cat2[U]['cls'], thorough):
                        yield make(2, fam, pal, U, att=att, okind=okind, orient=orient,
                                   style=STYLES[(i + orient) % 7], solver=solver,
                                   attach=ATTACH[(i + 3 * orient) % len(ATTACH)])
    # P12: mirrored dependence on the random components (worst cases on the other faces / vertices of every set kind)
    for i, U in enumerate(names2):
        for zsign in ([-1.0, -1.0], [1.0, -1.0], [-1.0, 1.0]):
            for fam in ('S', 'L1'):
                for att, okind in (('default', 'minmax'), ('forall', 'min')):
                    yield make(2, fam, pal, U, att=att, okind=okind, zsign=zsign, style=STYLES[i % 7],
                               attach=ATTACH[i % len(ATTACH)])
    # P2: dependency masks x declaration styles
    for U in ('box', 'n1', 'n2', 'seg', 'tri', 'kl') if not thorough else names2:
        for mask in all_masks(1, 2):
            for ast in ('entry', 'whole', 'rowwise', 'colwise'):
                yield make(2, 'L1', pal, U, mask=mask, adapt_style=ast)
    for U in ('box', 'n1', 'ellip') if not thorough else ('box', 'n1', 'ellip', 'tri', 'abs', 'pn3', 'expc'):
        for mask in all_masks(2, 2):
            for ast in ('entry', 'rowwise') if not thorough else ('entry', 'whole', 'rowwise', 'colwise'):
                yield make(2, 'L2', pal, U, mask=mask, adapt_style=ast, style='B')
    # P2b: a further random variable declared between adapt() and the first use of the rule (all masks, 2-entry rules)
    for U in ('box', 'n1', 'ellip'):
        for mask in all_masks(2, 2):
            for ast in ('entry', 'rowwise', 'whole', 'colwise'):
                yield make(2, 'L2', pal, U, mask=mask, adapt_style=ast, style='B', late_rvar=True)
    # P2c: every way of handing a multi-constraint set to minmax / maxmin / forall
    for U in ('n1^box', 'n1^ninf', 'seg', 'n2^half', 'budget3'):
        if U not in cat2:
            continue
        for att_kind in ATTACH:
            for att, okind in (('default', 'minmax'), ('default', 'maxmin'), ('forall', 'min'), ('first_own', 'minmax')):
                yield make(2, 'L1', pal, U, att=att, W='n1^box' if U != 'n1^box' else 'n1^ninf', okind=okind, attach=att_kind)
    # P3: objective forms
    for U in ('box', 'abs', 'n2', 'kl', 'n1^box') if not thorough else names2:
        for fam in ('S', 'L1', 'L2'):
            for okind in ('min', 'max', 'minmax', 'maxmin', 'minmax_pw', 'maxmin_pw', 'min_pw'):
                att = 'forall' if okind in ('min', 'max', 'min_pw') else 'default'
                for obj_first in (True, False):
                    yield make(2, fam, pal, U, att=att, okind=okind, obj_first=obj_first)
    # P4: attachments with two different sets (ordered pairs)
    core = ['box', 'box0lo', 'abs', 'n1', 'tri', 'seg', 'n2', 'pn3', 'kl', 'expc', 'fixed']
    if thorough:
        core = names2
    for U, W in itertools.permutations(core, 2):
        for fam in ('S', 'L1'):
            for att, okind in (('first_own', 'minmax'), ('all_own', 'minmax'), ('forall_mixed', 'min')):
                if not thorough and fam == 'S' and att == 'all_own':
                    continue
                yield make(2, fam, pal, U, att=att, W=W, okind=okind)
    # P5: surface styles
    for U in ('box', 'ellip', 'boxentry'):
        for fam in ('S', 'L1', 'L2'):
            for style in STYLES:
                for split in (False, True):
                    for orient in (0, 1, 2):
                        yield make(2, fam, pal, U, style=style, split=split, orient=orient)
    # P9: array-valued robust constraints (several rows in one constraint object)
    for U in ('box', 'box0lo', 'boxmix', 'boxhalf', 'boxhalf2', 'abs', 'n1', 'seg', 'n2', 'ellip', 'pn3', 'kl', 'expc',
              'n2^box', 'n2^expc') if not thorough else names2:
        for fam in ('S', 'L1', 'L2', 'E'):
            for att, okind in (('default', 'minmax'), ('forall', 'min'), ('first_own', 'minmax_pw')):
                for orient in (0, 2):
                    yield make(2, fam, pal, U, att=att, W='n1' if U != 'n1' else 'box', okind=okind, orient=orient, vec=True)
    # P10: piecewise constraints maxof(g1, g2, ...) <= 0 / minof(...) >= 0 with per-constraint sets
    for U in ('box', 'boxhalf', 'abs', 'n1', 'seg', 'n2', 'pn3', 'kl', 'n2^half') if not thorough else names2:
        for fam in ('S', 'L1', 'L2'):
            for att, okind in (('default', 'minmax'), ('forall', 'min'), ('first_own', 'minmax'), ('forall_mixed', 'min_pw')):
                for orient in (0, 1):
                    yield make(2, fam, pal, U, att=att, W='n1' if U != 'n1' else 'box', okind=okind, orient=orient, pw=True,
                               attach='list' if orient else 'args')
    # P11: the same piecewise functions written with an offset:  maxof(g-h,..)+h, h+maxof(g-h,..), maxof(g+h,..)-h,
    #      h-minof(h-g,..)  for h constant / affine in x / affine in z, in objectives and in constraints
    offs = [(hk, form) for hk in ('const', 'x', 'z') for form in ('add', 'radd', 'sub', 'rsub')]
    for U in ('box', 'n2', 'kl') if not thorough else ('box', 'boxhalf', 'abs', 'n1', 'seg', 'n2', 'pn3', 'kl', 'n2^half'):
        for fam in ('S', 'L1', 'L2'):
            for off in offs:
                for okind, att in (('minmax_pw', 'default'), ('maxmin_pw', 'default'), ('min_pw', 'forall')):
                    yield make(2, fam, pal, U, att=att, okind=okind, pwoff=off)
                for att, okind in (('default', 'minmax'), ('forall', 'min'), ('first_own', 'maxmin_pw'), ('forall_mixed', 'min_pw')):
                    for orient in (0, 1):
                        yield make(2, fam, pal, U, att=att, W='n1', okind=okind, orient=orient, pw=True, pwoff=off,
                                   attach='list' if orient else 'args')
    # P13: retarget histories - every per-constraint set is first a decoy (small box), the model is formulated once
    #      (solve / do_math / dual / both), then forall(declared set) is called on the already stated constraint objects
    for U in ('box', 'boxhalf', 'abs', 'n1', 'seg', 'n2', 'pn3', 'kl', 'expc', 'n1^box') if not thorough else names2:
        if U not in cat2:
            continue
        for mode in ('S', 'P', 'D', 'PD'):
            for fam in ('S', 'L1'):
                for att, okind in (('forall', 'min'), ('forall_mixed', 'min_pw'), ('first_own', 'minmax'), ('all_own', 'minmax')):
                    for kw in ({}, {'vec': True}, {'pw': True}):
                        sp = make(2, fam, pal, U, att=att, W='n1' if U != 'n1' else 'box', okind=okind,
                                  attach=ATTACH[(len(mode) + len(att)) % len(ATTACH)], **kw)
                        sp['retarget'] = mode
                        sp['tag'] += '|retarget:' + mode
                        yield sp
    # P6: robust equalities (feasible: coefficients inside the mask; infeasible otherwise)
    for U in ('box', 'n1', 'n2', 'seg', 'fixed', 'kl', 'boxmix'):
        for mask in all_masks(1, 2):
            for fam in ('E', 'Ebad'):
                for okind, att in (('minmax', 'default'), ('min', 'forall')):
                    yield make(2, fam, pal, U, mask=mask, okind=okind, att=att)
    # P7: other dimensions
    for d in (1, 3):
        cat = sets_catalog(d)
        for U in cat:
            for fam in ('S', 'L1') + (('L2',) if thorough else ()):
                for okind, att in (('minmax', 'default'), ('min', 'forall'), ('maxmin_pw', 'default')):
                    for solver in _solvers(cat[U]['cls'], thorough):
                        yield make(d, fam, pal, U, okind=okind, att=att, solver=solver)
        if d == 3:
            for U in ('box', 'n1', 'simplex') if not thorough else list(cat):
                for mask in ([[1, 0, 0]], [[0, 1, 1]], [[0, 0, 0]], [[1, 1, 1]], [[0, 1, 0]]):
                    yield make(3, 'L1', pal, U, mask=mask)
                    yield make(3, 'E', pal, U, mask=mask)
