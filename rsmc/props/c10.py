"""C10 - only convex uses of convex/concave expressions are accepted, and the accepted constraint means what
was written.

Three exhaustively enumerated case kinds:
  acc  : atom x chain of expression operations x final use -> the reference curvature calculus (R-curv) says
         accept / reject / either (zero multiple); the real rsome must raise no later than st()/min()/max() for
         every `reject`; a wrongly accepted form is additionally compiled (do_math) to show whether a program results.
  mean : for every reference-legal form of a sub-space: pin (x, y, w) to <= 6 points placed at distance 0.1 on both
         sides of the written inequality, solve the compiled program, feasible <=> the written inequality holds by
         the closed forms (R-atoms); objectives: optimum == closed-form value of the written expression.
  bc   : element-wise atoms (square, abs, exp, softplus, power, pexp, log, plog) of shape (3,), (), (1,3) written against a
         raw variable / affine expression / constant array T of shape (2,3) in 7 forms: NumPy broadcasting of the written
         inequality decides; with x pinned all 6 rows must bind (min / max sum T) or hold (constant T).
  bil  : every operand-class pair under `*` and `@`: pairs sharing a dependence (decision x decision,
         random x random, rule/adaptive/bi-affine x random or x decision) must raise no later than st().
"""
import itertools

from ..ref import c10c17_curv as R

PROPERTY = 'C10'
TIMEOUT = 40.0
CHUNK = 48
FLOOR = 0.5
RULE = ('acc: every (front end, atom, chain over the 12-symbol alphabet up to the depth bound [plus 10 extra operand-'
        'order / numpy-scalar symbols at depth<=2], final use in {<=a, >=a, ==a, a<=f, a>=f, min, max} with a in '
        '{constant, affine}); non-trivial = curvature != 0 and the reference decision (accept/reject) was observed on '
        'the real code; mean: every reference-legal form of the stated sub-space, non-trivial = all solves conclusive '
        'and points on both sides of the written inequality were decided (objectives: optimum compared); bil: every '
        'ordered operand-class pair x {*, @}, non-trivial = an illegal pair that raised')
ASSUMPTIONS = [
    'a raise where the reference says convex is "unsupported" (the property only forbids accepting non-convex uses)',
    'a zero multiple may be accepted on either side or rejected; when accepted it must compile and mean 0*F + affine',
    'rejection counts when the chain, the comparison, or st()/min()/max() raises; do_math() is only called to '
    'classify an acceptance that should not have happened (or to compile a legal one)',
    'ECOS statuses other than "Optimal solution found"/"Primal infeasible" make a point inconclusive (vacuous)',
    'objective values are compared with tolerance 1e-4*(1+|v|); feasibility points keep margin 0.1 (>=0.05)',
    'worst-case expectation atoms: sup/inf over all distributions on the support z in [-1,1] (attained at the end points)',
    'power(s,p,q) means |s|**(p/q) (its docstring); logdet/rootdet are checked for acceptance only (no SDP solver)',
]
TRUSTED = ['CPython', 'NumPy/math closed forms of the atoms', 'ECOS and SciPy/HiGHS as solvers under the interfaces',
           'reference curvature calculus rsmc/ref/c10c17_curv.py (self-tested against direct evaluation at start-up)']

FES = ['ro', 'dro']

# ---- bilinear table --------------------------------------------------------------------------------------
# decision rules / adaptive decisions come in four declaration styles (whole y.adapt(z), per entry
# y[j].adapt(z[i]), partial: only y[0].adapt(z[0]), slice y[:1].adapt(z)) and as SUMS with static decisions in both
# operand orders (static + adaptive, adaptive + static, scaled, with a constant), vector and scalar
BIL_SUMS = ['x+AD', 'AD+x', 'x-AD', '2x+3AD', '1+x+AD', 'xs+ADs', 'x+AD:entry', 'x+AD:partial', 'AD:slice+x']
BIL_STYLES = ['AD:entry', 'AD:partial', 'AD:slice', 'ADs:partial', 'ADs:entry']
BIL_CLASSES = {
    'ro': ['x', 'xa', 'xs', 'z', 'za', 'zs', 'ldr', 'ldrs', 'ldr0', 'xz', 'cvx']
          + [c.replace('AD', 'ldr') for c in BIL_STYLES + BIL_SUMS],
    'dro': ['x', 'xa', 'xs', 'xev', 'z', 'za', 'zs', 'xad', 'xads', 'xz', 'Ex', 'Ez', 'Exz', 'cvx']
           + [c.replace('AD', 'xad') for c in BIL_STYLES + BIL_SUMS],
}
BIL_DEP = {'x': 'd', 'xa': 'd', 'xs': 'd', 'xev': 'd', 'Ex': 'd', 'ldr0': 'd', 'cvx': 'd',
           'z': 'r', 'za': 'r', 'zs': 'r', 'Ez': 'r',
           'ldr': 'dr', 'ldrs': 'dr', 'xad': 'dr', 'xads': 'dr', 'xz': 'dr', 'Exz': 'dr'}
for _c in BIL_STYLES + BIL_SUMS:
    BIL_DEP[_c.replace('AD', 'ldr')] = 'dr'
    BIL_DEP[_c.replace('AD', 'xad')] = 'dr'
BIL_OLD = {'ro': 11, 'dro': 14}      # number of leading classes that are paired with every class


def bil_must_raise(l, r):
    return bool(set(BIL_DEP[l]) & set(BIL_DEP[r]))


# ---- broadcast family: element-wise atom of shape (3,) / () / (1,3) against T of shape (2,3) ------------------------
BC_ATOMS = {   # name: (curvature, numpy closed form, positive domain)
    'square': (+1, lambda v: v ** 2, False), 'abs': (+1, lambda v: abs(v), False),
    'exp': (+1, lambda v: __import__('numpy').exp(v), False), 'softplus': (+1, lambda v: __import__('numpy').log1p(__import__('numpy').exp(v)), False),
    'power3': (+1, lambda v: abs(v) ** 3, False), 'pexp': (+1, lambda v: 1.5 * __import__('numpy').exp(v / 1.5), False),
    'log': (-1, lambda v: __import__('numpy').log(v), True), 'plog': (-1, lambda v: 1.5 * __import__('numpy').log(v / 1.5), True),
}
BC_XSHAPES = [(3,), (), (1, 3)]
# written for a convex f (concave atoms use the mirrored inequality); (a, b): the inequality means T >= a*f(x) + b
BC_FORMS = {'f<=T': (1.0, 0.0), 'T>=f': (1.0, 0.0), 'T-1>=2f': (2.0, 1.0), '3f-2T<=0': (1.5, 0.0), 'f-T<=0': (1.0, 0.0),
            '-T+f<=0': (1.0, 0.0), 'f+1<=T': (1.0, 1.0)}
BC_TKINDS = ['var', 'affine', 'const']
BC_TSHAPE = (2, 3)


# ---- enumeration ------------------------------------------------------------------------------------------
def _chains(alpha, n):
    return [list(c) for c in itertools.product(alpha, repeat=n)]


def _ext_chains(n):
    """chains of length n over ALPHA12 + ALPHA_EXT that contain at least one extra symbol"""
    full = R.ALPHA12 + R.ALPHA_EXT
    ext = set(R.ALPHA_EXT)
    return [list(c) for c in itertools.product(full, repeat=n) if ext & set(c)]


# representative atoms (one per class family / compile path) for the deepest levels of the quick tier
DEEP_ACC = {'ro': ['exp', 'minof'], 'dro': ['log', 'Eminof']}
EXT2 = {'ro': ['exp', 'minof'], 'dro': ['plogv', 'Emaxof']}
DEEP_MEAN = {'ro': ['exp', 'maxof'], 'dro': ['quadn', 'Eminof']}
DEPTH4 = {'ro': ['exp', 'minof'], 'dro': ['pexp', 'Emaxof']}


def _mean_cases(fe, atom, chain, uses, pal, npts, with_def):
    if not R.ATOMS[atom][5]:
        return
    zero_pw = R.curvature(atom, chain) == 0 and R.ATOMS[atom][1] in ('Piecewise', 'ExpPiecewise')
    for use in uses:
        if R.legality(atom, chain, use) == 'reject':
            continue
        base = {'k': 'mean', 'fe': fe, 'atom': atom, 'chain': chain, 'use': use, 'pal': pal, 'n': npts}
        # ECOS aborts / spins on the degenerate program rsome produces for `min 0*maxof(..)`: default solver only
        if not (zero_pw and use in ('min', 'max')):
            yield dict(base, solver='eco')
        if (with_def or zero_pw) and R.ATOMS[atom][4]:
            yield dict(base, solver='def')


def gen_cases(tier, seed):
    thorough = tier == 'thorough'
    pals = [0, 1, 2, 3] if thorough else [seed % 4]
    pal0 = pals[0]
    A12, EXT = R.ALPHA12, R.ALPHA_EXT
    # 1. bilinear table
    for fe in FES:
        cls = BIL_CLASSES[fe]
        base = cls[:BIL_OLD[fe]]
        rnd = [c for c in base if BIL_DEP[c] == 'r']
        for l, r in itertools.product(cls, repeat=2):
            # sums / declaration styles: against every basic class in both orders (thorough: against everything)
            if not thorough and l not in base and r not in base:
                continue
            if not thorough and (l not in base or r not in base) and not (l in rnd or r in rnd or l in ('x', 'xs')
                                                                          or r in ('x', 'xs')):
                continue
            for op in ('mul', 'matmul'):
                yield {'k': 'bil', 'fe': fe, 'l': l, 'r': r, 'op': op}
    # 1b. shape broadcasting of element-wise atoms against an offset / right-hand side of a strictly larger shape
    for fe in FES:
        for atom in BC_ATOMS:
            for xshape in BC_XSHAPES:
                for form in BC_FORMS:
                    for tkind in BC_TKINDS:
                        yield {'k': 'bc', 'fe': fe, 'atom': atom, 'xshape': list(xshape), 'form': form, 'tkind': tkind}
    # 2. acceptance decisions and meaning, shallow chains first
    for depth in (0, 1):
        for fe in FES:
            for atom in R.atoms_of(fe):
                for chain in _chains(A12 + EXT, depth):
                    for use in R.USE_NAMES:
                        yield {'k': 'acc', 'fe': fe, 'atom': atom, 'chain': chain, 'use': use, 'pal': pal0}
        for fe in FES:
            for atom in R.atoms_of(fe):
                for chain in _chains(A12, depth):
                    uses = R.USE_NAMES if (depth == 0 or thorough) else R.USES7
                    for c in _mean_cases(fe, atom, chain, uses, pal0, 6 if depth == 0 or thorough else 4, depth == 0):
                        yield c
    for fe in FES:
        for atom in R.atoms_of(fe):
            if not thorough and atom in R.PERSP_ATOMS['dro']:
                continue        # quick: their depth-2/3 space is the perspective family below (2b)
            for chain in _chains(A12, 2):
                for use in R.USE_NAMES:
                    yield {'k': 'acc', 'fe': fe, 'atom': atom, 'chain': chain, 'use': use, 'pal': pal0}
    for fe in FES:
        for atom in (R.atoms_of(fe) if thorough else EXT2[fe]):
            for chain in _ext_chains(2):
                for use in (R.USE_NAMES if thorough else R.USES7):
                    yield {'k': 'acc', 'fe': fe, 'atom': atom, 'chain': chain, 'use': use, 'pal': pal0}
    for fe in FES:
        for atom in (R.atoms_of(fe) if thorough else DEEP_MEAN[fe]):
            for chain in _chains(A12, 2):
                for c in _mean_cases(fe, atom, chain, R.USES7, pal0, 4 if thorough else 2, False):
                    yield c
    # 2b. perspective atoms with a variable scale: [affine addition] [scaling by 2.5, 0.4, -1, -2, 2] [affine addition]
    done = set(tuple(c) for d in (0, 1, 2) for c in _chains(A12, d))
    for fe in FES:
        for atom in R.PERSP_ATOMS[fe]:
            for chain in R.persp_chains():
                if tuple(chain) not in done or len(chain) == 2:
                    for use in R.USE_NAMES:
                        yield {'k': 'acc', 'fe': fe, 'atom': atom, 'chain': chain, 'use': use, 'pal': pal0}
                uses = R.USE_NAMES if (thorough or len(chain) <= 1) else R.USES7
                for c in _mean_cases(fe, atom, chain, uses, pal0, 4 if thorough else 2, False):
                    yield c
    # 2c. expectation of piecewise with the chain (or its first symbol) applied INSIDE E(.)
    for atom in R.INSIDE_ATOMS:
        depths = (0, 1, 2) if atom.endswith('@in') else (2,)
        if thorough:
            depths = depths + (3,)
        for depth in depths:
            for chain in _chains(A12 + EXT if depth == 1 else A12, depth):
                for use in (R.USE_NAMES if depth < 3 else R.USES7):
                    yield {'k': 'acc', 'fe': 'dro', 'atom': atom, 'chain': chain, 'use': use, 'pal': pal0}
            if depth <= 1 or thorough or atom == 'Eminof@in':
                if depth == 3:
                    continue
                for chain in _chains(A12, depth):
                    uses = R.USE_NAMES if (depth == 0 or thorough) else R.USES7
                    for c in _mean_cases('dro', atom, chain, uses, pal0, 4 if depth < 2 or thorough else 2, depth == 0):
                        yield c
    # 3. depth 3 (thorough: all atoms, all uses; quick: one atom per class family, 7 uses)
    for fe in FES:
        for atom in (R.atoms_of(fe) if thorough else DEEP_ACC[fe]):
            for chain in _chains(A12, 3):
                for use in (R.USE_NAMES if thorough else R.USES7):
                    yield {'k': 'acc', 'fe': fe, 'atom': atom, 'chain': chain, 'use': use, 'pal': pal0}
    if thorough:
        # the other palettes only change the right-hand side data: depth <= 1 again (decisions and meaning)
        for pal in pals[1:]:
            for depth in (0, 1):
                for fe in FES:
                    for atom in R.atoms_of(fe):
                        for chain in _chains(A12 + EXT, depth):
                            for use in R.USE_NAMES:
                                yield {'k': 'acc', 'fe': fe, 'atom': atom, 'chain': chain, 'use': use, 'pal': pal}
                        for chain in _chains(A12, depth):
                            for c in _mean_cases(fe, atom, chain, R.USES7, pal, 4, False):
                                yield c
        # depth 4 on one atom per class family
        for fe in FES:
            for atom in DEPTH4[fe]:
                for chain in _chains(A12, 4):
                    for use in R.USES7:
                        yield {'k': 'acc', 'fe': fe, 'atom': atom, 'chain': chain, 'use': use, 'pal': pal0}


def exhaustive(tier):
    return True


def bounds(tier):
    th = tier == 'thorough'
    return {'atoms_ro': len(R.atoms_of('ro')), 'atoms_dro': len(R.atoms_of('dro')),
            'alphabet': R.ALPHA12, 'extra_symbols_depth<=2': R.ALPHA_EXT,
            'acc_depth_all_atoms': 3 if th else 2,
            'acc_depth_selected_atoms': {'depth': 4, 'atoms': DEPTH4} if th else {'depth': 3, 'atoms': DEEP_ACC},
            'uses': R.USE_NAMES, 'uses_at_max_depth_and_extra_symbols': R.USES7,
            'meaning_depth_all_atoms': 2 if th else 1,
            'meaning_depth_selected_atoms': None if th else {'depth': 2, 'atoms': DEEP_MEAN},
            'grid_points_per_form': '6 (depth 0), 4 (depth 1), 2 (depth 2)' if not th else '6 (depth<=1), 4 (depth 2)',
            'extra_symbols_depth2_atoms': 'all' if th else EXT2,
            'perspective_family': {'atoms': R.PERSP_ATOMS, 'pre': R.PERSP_PRE, 'scaling': R.PERSP_MUL,
                                   'post': R.PERSP_POST},
            'expectation_inside': {'atoms': R.INSIDE_ATOMS, 'acc_depth': 3 if th else 2, 'meaning_depth': 2},
            'broadcast_family': {'atoms': list(BC_ATOMS), 'x_shapes': BC_XSHAPES, 'T_shape': BC_TSHAPE,
                                 'forms': list(BC_FORMS), 'T_kinds': BC_TKINDS},
            'palettes': 4 if th else 1, 'bilinear_classes': BIL_CLASSES}


# ---- worker side ---------------------------------------------------------------------------------------------
_B = {}


def worker_init():
    from ..ref import c10c17_build as B
    B.init()
    _B['B'] = B
    R.self_test()


def run_case(case):
    k = case['k']
    if k == 'acc':
        return _run_acc(case)
    if k == 'mean':
        return _run_mean(case)
    if k == 'bil':
        return _run_bil(case)
    if k == 'bc':
        return _run_bc(case)
    raise ValueError(k)


def _build_expr(env, atom, chain):
    """returns (expr, None) or (None, 'stage:Exc').  Atoms 'E..@in' / 'E..@1' take the expectation after the whole
    chain / after its first symbol has been applied to the piecewise expression."""
    B = _B['B']
    e_after = None
    base = atom
    if '@' in atom:
        base, mode = atom.split('@')
        base = 'PW' + base[1:]
        e_after = len(chain) if mode == 'in' else min(1, len(chain))
    try:
        g = B.build_atom(env, base)
        if e_after == 0:
            g = B.init()['E'](g)
    except Exception as ex:  # noqa
        return None, 'atom:' + B.exc_name(ex)
    for i, sym in enumerate(chain):
        try:
            g = B.apply_symbol(env, g, sym)
            if e_after == i + 1:
                env.ops += 1
                g = B.init()['E'](g)
        except Exception as ex:  # noqa
            return None, 'chain:' + B.exc_name(ex)
        if g is None or g is NotImplemented:
            return None, 'chain:returns-None'
    return g, None


def _handover(env, g, atom, use, pal):
    """Write the final use and hand it to the model.  Returns None when accepted, else 'stage:Exc'."""
    B = _B['B']
    kind = R.USES[use][0]
    is_E = R.ATOMS[atom][1] == 'ExpPiecewise'
    if kind in ('min', 'max'):
        try:
            B.set_objective(env, g, kind, is_E)
        except Exception as ex:  # noqa
            return 'obj:' + B.exc_name(ex)
        return None
    try:
        con = B.compare(env, g, use, pal)
    except Exception as ex:  # noqa
        return 'cmp:' + B.exc_name(ex)
    try:
        env.ops += 1
        env.m.st(con)
    except Exception as ex:  # noqa
        return 'st:' + B.exc_name(ex)
    return None


def _compile(env, use):
    """do_math() of the model (with a neutral objective for constraint uses). 'compiled' or 'do_math-raises:Exc'."""
    B = _B['B']
    try:
        if R.USES[use][0] not in ('min', 'max'):
            B.neutral_objective(env)
        env.ops += 1
        f = env.m.do_math()
        if f is None:
            return 'do_math-returns-None'
        return 'compiled'
    except Exception as ex:  # noqa
        return 'do_math-raises:' + B.exc_name(ex)


def _run_acc(case):
    B = _B['B']
    fe, atom, chain, use, pal = case['fe'], case['atom'], case['chain'], case['use'], case['pal']
    expect = R.legality(atom, chain, use)
    cv = R.curvature(atom, chain)
    env = B.Env(fe)
    g, err = _build_expr(env, atom, chain)
    tag = '%s|%s|%s' % (fe, atom, use)
    if err is not None:
        # the chain operations themselves are legal expression operations: a raise here is never unsound
        if expect == 'reject':
            return {'status': 'pass', 'outcome': 'reject@' + err.split(':')[0], 'ops': env.ops, 'nontrivial': True}
        return {'status': 'unsupported', 'outcome': 'legal-chain-raises@' + err, 'ops': env.ops}
    rej = _handover(env, g, atom, use, pal)
    if expect == 'reject':
        if rej is not None:
            return {'status': 'pass', 'outcome': 'reject@' + rej.split(':')[0], 'ops': env.ops, 'nontrivial': True}
        how = _compile(env, use)
        return {'status': 'violation', 'ops': env.ops,
                'sig': '%s|nonconvex(curv%+d)|accepted,%s' % (tag, cv, how),
                'detail': 'chain %s, use %s: reference curvature %+d makes this use non-convex, rsome accepted it at '
                          'the hand-over; do_math: %s' % ('>'.join(chain) or '-', use, cv, how)}
    if expect == 'accept':
        if rej is not None:
            return {'status': 'unsupported', 'outcome': 'legal-rejected@' + rej, 'ops': env.ops}
        # the decision under test is the acceptance; compilation and meaning of legal forms are the `mean` cases
        return {'status': 'pass', 'outcome': 'accept', 'ops': env.ops, 'nontrivial': True}
    # zero multiple
    if rej is not None:
        return {'status': 'pass', 'outcome': 'zero-rejected@' + rej.split(':')[0], 'ops': env.ops, 'nontrivial': False}
    how = _compile(env, use)
    if how != 'compiled':
        base = _base_compiles(fe, atom, pal, R.USES[use][0] in ('min', 'max'))
        if base != 'compiled':
            # the front end cannot compile this atom even in its plain legal use: nothing specific to the zero multiple
            return {'status': 'unsupported', 'outcome': 'zero-accepted,atom-not-compilable-here', 'ops': env.ops}
        return {'status': 'violation', 'ops': env.ops, 'sig': '%s|zero|accepted,%s' % (tag, how),
                'detail': 'chain %s: zero multiple accepted at the hand-over but no program: %s'
                          % ('>'.join(chain), how)}
    return {'status': 'pass', 'outcome': 'zero-accepted', 'ops': env.ops, 'nontrivial': False}


_BASE = {}


def _base_compiles(fe, atom, pal, is_obj=False):
    """Does the plain atom compile in its legal comparison with a constant / as its legal objective (worker cache)?"""
    key = (fe, atom, is_obj)
    if key not in _BASE:
        B = _B['B']
        if is_obj:
            use = 'min' if R.ATOMS[atom][0] > 0 else 'max'
        else:
            use = 'le_c' if R.ATOMS[atom][0] > 0 else 'ge_c'
        env = B.Env(fe)
        g, err = _build_expr(env, atom, [])
        if err is not None or _handover(env, g, atom, use, pal) is not None:
            _BASE[key] = 'rejected'
        else:
            _BASE[key] = _compile(env, use)
    return _BASE[key]


def _solve(env, solver):
    B = _B['B']
    rs = B.init()
    env.ops += 1
    if solver == 'eco':
        env.m.solve(rs['eco'], display=False)
    else:
        env.m.solve(display=False)
    sol = env.m.solution
    if sol is None:
        return 'none', None
    st = str(sol.status)
    import numpy as np
    if solver == 'eco':
        if st == 'Optimal solution found':
            return 'opt', float(sol.objval)
        if st == 'Primal infeasible':
            return 'inf', None
        if st == 'Dual infeasible':
            return 'unb', None
        return 'inconclusive:' + st[:24], None
    if st == '0':
        return 'opt', float(sol.objval)
    if st == '2':
        return 'inf', None
    if st == '3':
        return 'unb', None
    return 'inconclusive:' + st[:24], None


def _run_mean(case):
    B = _B['B']
    fe, atom, chain, use, pal, solver = (case['fe'], case['atom'], case['chain'], case['use'], case['pal'],
                                         case['solver'])
    kind = R.USES[use][0]
    is_obj = kind in ('min', 'max')
    pts = R.grid_points(atom, chain, use, pal, case.get('n', 6))
    cv = R.curvature(atom, chain)
    tag = '%s|%s|%s|%s|%s' % (fe, atom, use, solver, 'zero' if cv == 0 else 'curv%+d' % cv)
    ops = 0
    decided = {True: 0, False: 0}
    inconc = 0
    if not pts:
        return {'status': 'vacuous', 'outcome': 'no-grid-point-with-margin', 'ops': 0}
    for (x, y, w, holds, slack) in pts:
        env = B.Env(fe)
        g, err = _build_expr(env, atom, chain)
        if err is not None:
            return {'status': 'unsupported', 'outcome': 'legal-chain-raises@' + err, 'ops': ops + env.ops}
        rej = _handover(env, g, atom, use, pal)
        if rej is not None:
            return {'status': 'unsupported', 'outcome': 'legal-rejected@' + rej, 'ops': ops + env.ops}
        try:
            B.pin(env, x, y, w)
            if not is_obj:
                B.neutral_objective(env)
            st, val = _solve(env, solver)
        except Exception as ex:  # noqa
            ops += env.ops
            # (a zero multiple that cannot be compiled is reported by the `acc` case of the same form)
            z = 'zero-' if R.curvature(atom, chain) == 0 else 'legal-'
            return {'status': 'unsupported', 'outcome': z + 'accepted,solve-raises:' + B.exc_name(ex), 'ops': ops}
        ops += env.ops
        if st.startswith('inconclusive') or st == 'none':
            inconc += 1
            continue
        if is_obj:
            # all variables are pinned: the optimum is the value of the written expression
            sign_val = env.m.get() if st == 'opt' else None
            if st != 'opt':
                return {'status': 'violation', 'ops': ops,
                        'sig': tag + '|meaning|objective-' + ('infeasible' if st == 'inf' else 'unbounded'),
                        'detail': 'chain %s at x=%s y=%s: all variables pinned, written objective = %r, program '
                                  'reported %s' % ('>'.join(chain), x, y, slack, st)}
            if abs(sign_val - slack) > 1e-4 * (1 + abs(slack)):
                return {'status': 'violation', 'ops': ops, 'sig': tag + '|meaning|objective-value',
                        'detail': 'chain %s at x=%s y=%s: optimum %r, written expression %r'
                                  % ('>'.join(chain), x, y, sign_val, slack)}
            decided[True] += 1
            decided[False] += 1
            continue
        if st == 'unb':
            inconc += 1
            continue
        feas = st == 'opt'
        if feas != holds:
            how = 'feasible-but-written-violated' if feas else 'infeasible-but-written-holds'
            return {'status': 'violation', 'ops': ops, 'sig': tag + '|meaning|' + how,
                    'detail': 'chain %s use %s at x=%s y=%.6g w=%.6g: written lhs-rhs=%.6g, program %s'
                              % ('>'.join(chain), use, x, y, w, slack, 'feasible' if feas else 'infeasible')}
        decided[holds] += 1
    if decided[True] + decided[False] == 0:
        return {'status': 'vacuous', 'outcome': 'all-points-inconclusive', 'ops': ops}
    return {'status': 'pass', 'outcome': 'meaning-ok(%s)' % ('both-sides' if decided[True] and decided[False] else 'one-side'),
            'ops': ops, 'nontrivial': bool(decided[True] and decided[False] and inconc == 0),
            'states': len(pts), 'validated': decided[True] + decided[False]}


# ---- broadcast family -----------------------------------------------------------------------------------------
def _bc_constraint(rso, f, T, form, cv):
    """the written inequality; for a concave atom every inequality is mirrored (f >= T, T + 1 <= 2f, ...)"""
    if cv > 0:
        return {'f<=T': lambda: f <= T, 'T>=f': lambda: T >= f, 'T-1>=2f': lambda: T - 1 >= 2 * f,
                '3f-2T<=0': lambda: 3 * f - 2 * T <= 0, 'f-T<=0': lambda: f - T <= 0, '-T+f<=0': lambda: -T + f <= 0,
                'f+1<=T': lambda: f + 1 <= T}[form]()
    return {'f<=T': lambda: f >= T, 'T>=f': lambda: T <= f, 'T-1>=2f': lambda: T + 1 <= 2 * f,
            '3f-2T<=0': lambda: 3 * f - 2 * T >= 0, 'f-T<=0': lambda: f - T >= 0, '-T+f<=0': lambda: -T + f >= 0,
            'f+1<=T': lambda: f - 1 >= T}[form]()


def _run_bc(case):
    import numpy as np
    B = _B['B']
    rs = B.init()
    rso = rs['rso']
    fe, atom, xshape, form, tkind = case['fe'], case['atom'], tuple(case['xshape']), case['form'], case['tkind']
    cv, fnp, pos = BC_ATOMS[atom]
    a, b = BC_FORMS[form]
    if cv < 0:
        b = -b                      # mirrored forms:  T <= a*g(x) + b'
    base = np.array([0.5, 1.5, 2.0]) if pos else np.array([0.5, -1.5, 2.0])
    xv = base[0] if xshape == () else base.reshape(xshape)
    want = np.broadcast_to(a * fnp(np.asarray(xv, dtype=float)) + b, BC_TSHAPE).astype(float)   # NumPy's meaning
    tag = 'bc|%s|%s|x%s|%s|%s' % (fe, atom, 'x'.join(map(str, xshape)) or '()', form, tkind)
    ops = 0

    def build(K=None):
        m = rs['ro'].Model() if fe == 'ro' else rs['dro'].Model(2)
        x = m.dvar(xshape)
        sc = m.dvar()
        U = m.dvar(BC_TSHAPE)
        if atom in ('pexp', 'plog'):
            f = rso.pexp(x, sc) if atom == 'pexp' else rso.plog(x, sc)
            m.st(sc == 1.5)
        else:
            f = {'square': rso.square, 'abs': abs, 'exp': rso.exp, 'softplus': rso.softplus,
                 'power3': lambda v: rso.power(v, 3), 'log': rso.log}[atom](x)
        if tkind == 'var':
            T = U
        elif tkind == 'affine':
            T = 2 * U - 1
        else:
            T = K
        m.st(_bc_constraint(rso, f, T, form, cv))
        m.st(x == xv)
        return m, U, T

    try:
        if tkind == 'const':
            # all m*n rows must hold: a constant T that violates one entry of the LAST row must be infeasible
            res = {}
            for name, delta in (('ok', 0.1), ('bad', -0.1)):
                K = want + cv * 0.1
                if name == 'bad':
                    K = K.copy()
                    K[-1, -1] = want[-1, -1] - cv * 0.1
                m, U, T = build(K)
                m.st(U == 0)
                m.min(U.sum()) if fe == 'ro' else m.min(U.sum())
                if atom == 'square':
                    # ECOS reports 'numerical problems' for an infeasible rotated cone with a pinned argument: Gurobi
                    m.solve(rs['grb'], display=False)
                    st = str(m.solution.status) if m.solution is not None else 'none'
                    res[name] = {'2': 'Optimal solution found', '3': 'Primal infeasible',
                                 '4': 'Primal infeasible'}.get(st, st)     # (objective is the constant 0)
                else:
                    m.solve(rs['eco'], display=False)
                    res[name] = str(m.solution.status) if m.solution is not None else 'none'
                ops += 8
            okf = res['ok'] == 'Optimal solution found'
            badi = res['bad'] == 'Primal infeasible'
            if res['ok'] not in ('Optimal solution found', 'Primal infeasible') or \
                    res['bad'] not in ('Optimal solution found', 'Primal infeasible'):
                return {'status': 'vacuous', 'outcome': 'bc-solver-inconclusive', 'ops': ops}
            if okf and badi:
                return {'status': 'pass', 'outcome': 'bc-const-ok', 'ops': ops, 'nontrivial': True, 'validated': 2}
            return {'status': 'violation', 'ops': ops, 'sig': tag + '|' + ('feasible-but-a-broadcast-row-is-violated'
                                                                         if not badi else 'infeasible-but-all-rows-hold'),
                    'detail': 'constant T of shape (2,3): all rows satisfied -> %s; last entry violated by 0.1 -> %s'
                              % (res['ok'], res['bad'])}
        m, U, T = build()
        obj = T.sum() if tkind == 'var' else (2 * U - 1).sum()
        if cv > 0:
            m.min(obj)
        else:
            m.max(obj)
        m.solve(rs['eco'], display=False)
        ops += 9
        if m.solution is None or str(m.solution.status) != 'Optimal solution found':
            st = 'none' if m.solution is None else str(m.solution.status)
            if st in ('Dual infeasible', 'Primal infeasible'):
                return {'status': 'violation', 'ops': ops, 'sig': tag + '|' + st.replace(' ', '-').lower(),
                        'detail': 'x pinned: every T[i,j] is bounded by the written inequality (expected %s), program is %s'
                                  % (np.round(want, 4).tolist(), st)}
            return {'status': 'vacuous', 'outcome': 'bc-solver-inconclusive:' + st[:20], 'ops': ops}
        Uv = np.array(U.get(), dtype=float)
        if isinstance(U.get(), type(None)):
            return {'status': 'vacuous', 'outcome': 'bc-no-values', 'ops': ops}
        got = Uv if tkind == 'var' else 2 * Uv - 1
    except Exception as ex:  # noqa
        return {'status': 'unsupported', 'outcome': 'bc-raises:%s(%s)' % (type(ex).__name__, atom), 'ops': ops}
    err = np.max(np.abs(got - want) / (1 + np.abs(want)))
    if err > 1e-3:
        return {'status': 'violation', 'ops': ops, 'sig': tag + '|rows-not-binding',
                'detail': 'x=%s pinned, optimum T=%s, NumPy broadcasting of the written inequality gives %s'
                          % (np.asarray(xv).tolist(), np.round(got, 4).tolist(), np.round(want, 4).tolist())}
    return {'status': 'pass', 'outcome': 'bc-rows-bind', 'ops': ops, 'nontrivial': True, 'validated': 6}


# ---- bilinear table -------------------------------------------------------------------------------------------
def _bil_operand(env, cls, slot):
    """A fresh operand of class `cls` in env's model (slot 0/1: separate variables for the two operands)."""
    B = _B['B']
    rs = B.init()
    rso, E = rs['rso'], rs['E']
    m = env.m
    import numpy as np
    env.ops += 1
    if cls in ('x', 'xa', 'xs', 'Ex', 'cvx'):
        v = m.dvar(2)
        if cls == 'x':
            return v
        if cls == 'xa':
            return 2 * v + np.array([1.0, -0.5])
        if cls == 'xs':
            return v[0]
        if cls == 'Ex':
            return E(v)
        return rso.exp(v[0])
    if cls == 'xev':
        v = m.dvar(2)
        v.adapt(0)
        return v
    if cls in ('xad', 'xads'):
        v = m.dvar(2)
        v.adapt(env.zz)
        return v if cls == 'xad' else v[0]
    if cls in ('z', 'za', 'zs', 'Ez'):
        z = env.zz if slot == 0 else m.rvar(2)
        if cls == 'z':
            return z
        if cls == 'za':
            return 2 * z + np.array([0.5, 1.0])
        if cls == 'zs':
            return z[0]
        return E(z)
    if ':' in cls or '+' in cls or '-' in cls:
        return _bil_composite(env, cls)
    if cls in ('ldr', 'ldrs', 'ldr0'):
        v = m.ldr(2)
        if cls == 'ldr0':
            return v
        v.adapt(env.zz)
        return v if cls == 'ldr' else v[0]
    if cls in ('xz', 'Exz'):
        v = m.dvar(2)
        p = v * env.zz
        return p if cls == 'xz' else E(p)
    raise ValueError(cls)


def _adaptive(env, style):
    """a 2-vector decision rule (ro: ldr, dro: dvar) whose dependence on zz is declared in the given style"""
    m = env.m
    v = m.ldr(2) if env.fe == 'ro' else m.dvar(2)
    zz = env.zz
    if style == 'whole':
        v.adapt(zz)
    elif style == 'entry':
        for j in range(2):
            for i in range(2):
                v[j].adapt(zz[i])
    elif style == 'partial':
        v[0].adapt(zz[0])
    elif style == 'slice':
        v[:1].adapt(zz)
    else:
        raise ValueError(style)
    env.ops += 2
    return v


def _bil_composite(env, cls):
    import numpy as np
    m = env.m
    name = cls.replace('ldr', 'AD').replace('xad', 'AD')
    if name in ('AD:entry', 'AD:partial', 'AD:slice'):
        return _adaptive(env, name.split(':')[1])
    if name in ('ADs:partial', 'ADs:entry'):
        return _adaptive(env, name.split(':')[1])[0]
    x = m.dvar(2)
    if name == 'x+AD':
        return x + _adaptive(env, 'whole')
    if name == 'AD+x':
        return _adaptive(env, 'whole') + x
    if name == 'x-AD':
        return x - _adaptive(env, 'whole')
    if name == '2x+3AD':
        return 2 * x + 3 * _adaptive(env, 'whole')
    if name == '1+x+AD':
        return 1 + x + _adaptive(env, 'whole')
    if name == 'xs+ADs':
        return x[0] + _adaptive(env, 'whole')[0]
    if name == 'x+AD:entry':
        return x + _adaptive(env, 'entry')
    if name == 'x+AD:partial':
        return x + _adaptive(env, 'partial')
    if name == 'AD:slice+x':
        return _adaptive(env, 'slice') + x
    raise ValueError(cls)


def _run_bil(case):
    B = _B['B']
    fe, l, r, op = case['fe'], case['l'], case['r'], case['op']
    env = B.Env(fe)
    env.zz = env.m.rvar(2)
    must = bil_must_raise(l, r)
    tag = 'bil|%s|%s|%s|%s' % (fe, l, op, r)
    try:
        a = _bil_operand(env, l, 0)
        b = _bil_operand(env, r, 1)
    except Exception as ex:  # noqa
        return {'status': 'harness_error', 'detail': 'operand construction failed: %s %s' % (B.exc_name(ex), ex)}
    stage = None
    try:
        env.ops += 1
        p = (a * b) if op == 'mul' else (a @ b)
        if p is None or p is NotImplemented:
            stage = 'product-returns-None'
    except RecursionError:
        stage = 'product:RecursionError'
    except Exception as ex:  # noqa
        stage = 'product:' + B.exc_name(ex)
    if stage is None:
        try:
            env.ops += 1
            con = (p.sum() if hasattr(p, 'sum') and getattr(p, 'size', 1) > 1 else p) <= 1.0
            if con is None or isinstance(con, bool):
                stage = 'cmp-returns-%s' % type(con).__name__
        except Exception as ex:  # noqa
            stage = 'cmp:' + B.exc_name(ex)
    if stage is None:
        try:
            env.ops += 1
            env.m.st(con)
        except Exception as ex:  # noqa
            stage = 'st:' + B.exc_name(ex)
    if must:
        if stage is not None:
            return {'status': 'pass', 'outcome': 'bil-reject@' + stage.split(':')[0], 'ops': env.ops,
                    'nontrivial': True}
        how = _compile(env, 'le_c')
        return {'status': 'violation', 'ops': env.ops, 'sig': tag + '|accepted,' + how,
                'detail': 'illegal product accepted up to st(); do_math: ' + how}
    if stage is not None:
        return {'status': 'unsupported', 'outcome': 'bil-legal-rejected@' + stage, 'ops': env.ops}
    return {'status': 'pass', 'outcome': 'bil-legal-accepted', 'ops': env.ops, 'nontrivial': False}
