"""C08 - do_math(primal=False) is a true dual: optimal values are negatives.

State space (product bound, exhaustive):
  det : bound pattern per variable ^ n  x  row-sense mix  x  cone kind  x  min/max
  ro  : uncertainty-set kind x decision-rule kind x bound pattern pair x objective form x min/max
  dro : support kind x expectation kind x probability kind x adaptation kind x min/max
Oracle (differential, two formulations of the real implementation judged by independent solvers):
  both `m.do_math()` and `m.do_math(primal=False)` are solved by ECOS (LP-only programs also by the
  default HiGHS path and Gurobi, SOCPs also by Gurobi); whenever the primal is reported optimal (it is
  feasible, bounded and strictly feasible by construction) the dual must be optimal and v_P + v_D = 0.
"""
import itertools

PROPERTY = 'C08'
TIMEOUT = 40.0
CHUNK = 16
FLOOR = 0.5
RULE = ('det: every assignment of the 10 bound patterns {free,>=0,<=0,lower!=0,upper!=0,both,[0,u],[l,0],fixed 0,'
        'fixed !=0} to n=2 variables x 7 row-sense mixes (1-3 rows of <=,>=,==) x 20 cone kinds x {min,max} '
        '(thorough: + all 39 ordered row mixes x 8 cone kinds, + n=3 x 3 row mixes x 5 cone kinds); '
        'ro: 17 set kinds x 3 rule kinds x 6 bound pairs x 2 objective forms x {min,max}; dro: 4 supports x 3 '
        'expectation sets x 2 probability sets x 4 adaptations x {min,max}.  A case is non-trivial when primal and '
        'dual are both reported optimal by the same interface, |v_P| > 1e-3 and (det) a finite user bound or a '
        'row under test is active at the primal solution / (ro,dro) the program went through the robust-'
        'counterpart path (a robust row exists)')
ASSUMPTIONS = [
    'primal instances are feasible, bounded and strictly feasible by construction (compact box rows on every '
    'variable, an interior centre point); the check still conditions on the solver reporting the primal optimal',
    'tolerances: HiGHS 1e-6(1+|v|), ECOS 2e-5(1+|v|) (5e-5 with exponential cones), Gurobi LP 1e-6, SOCP 2e-4',
    '"inaccurate"/failed solves of the dual are inconclusive (vacuous), a dual reported infeasible/unbounded by '
    'the interface that solved the primal is a violation; Gurobi is called with NonConvex=1 and a 5 s time limit, '
    'and a dual it refuses as non-convex (a cone head without lower bound 0) while it solved the primal is a '
    'violation ("both programs are solvable")',
    'cone combinations (norm+exp, ...) use one epigraph variable per cone so that both cones are active',
    'ConeConstr (the constraint class ro.Model.st accepts and le_to_rc emits) is used directly to put user '
    'variables with bound patterns into second-order cones / into two cones',
]
TRUSTED = ['ECOS', 'SciPy/HiGHS linprog', 'Gurobi', 'CPython/NumPy']

BPS = ['free', 'ge0', 'le0', 'lo', 'up', 'both', 'b0u', 'bl0', 'fix0', 'fixnz']
# pattern -> 4 palettes of (lb, ub, centre)
BP = {
    'free': [(None, None, 0.5)] * 4,
    'ge0': [(0.0, None, 1.0), (0.0, None, 0.5), (0.0, None, 1.5), (0.0, None, 0.75)],
    'le0': [(None, 0.0, -1.0), (None, 0.0, -0.5), (None, 0.0, -1.5), (None, 0.0, -0.75)],
    'lo': [(-1.5, None, -0.5), (0.5, None, 1.5), (-0.5, None, 0.5), (1.0, None, 2.0)],
    'up': [(None, 2.0, 1.0), (None, -0.5, -1.5), (None, 0.5, -0.5), (None, -1.0, -2.0)],
    'both': [(-1.0, 1.5, 0.25), (0.5, 2.0, 1.25), (-2.0, -0.5, -1.25), (-0.5, 0.5, 0.0)],
    'b0u': [(0.0, 2.0, 1.0), (0.0, 1.5, 0.75), (0.0, 3.0, 1.5), (0.0, 1.0, 0.5)],
    'bl0': [(-2.0, 0.0, -1.0), (-1.5, 0.0, -0.75), (-3.0, 0.0, -1.5), (-1.0, 0.0, -0.5)],
    'fix0': [(0.0, 0.0, 0.0)] * 4,
    'fixnz': [(0.75, 0.75, 0.75), (-0.5, -0.5, -0.5), (1.0, 1.0, 1.0), (-1.25, -1.25, -1.25)],
}
ROWS_Q = ['L', 'G', 'E', 'LG', 'GE', 'EE', 'LGE']
ROWS_T = [''.join(p) for k in (1, 2, 3) for p in itertools.product('LGE', repeat=k)]
CONES = ['none', 'norm', 'square', 'sumsqr', 'rsocone', 'quad', 'exp', 'log', 'entropy', 'kldiv', 'expcone',
         'softplus', 'norm+exp', 'sumsqr+kldiv', 'rsocone+log', 'cc1', 'cc2', 'ccshare1', 'ccshare2', 'cccount']
CONES_T2 = ['none', 'norm', 'rsocone', 'exp', 'kldiv', 'norm+exp', 'cc1', 'cc2']
CONES_T3 = ['none', 'norm', 'exp', 'norm+exp', 'cc2']
RO_SETS = ['boxB', 'boxB0', 'boxBn', 'boxA', 'linf', 'l1', 'l2', 'poly', 'l2box', 'expset', 'l2exp', 'l2l2',
           'l2l2d', 'l2zero', 'sumsqr', 'square', 'l2cexp']
RO_RULES = ['static', 'ldr', 'ldr0']
RO_XBP = [('ge0', 'ge0'), ('lo', 'up'), ('both', 'free'), ('le0', 'b0u'), ('fix0', 'bl0'), ('fixnz', 'ge0')]
RO_FORMS = ['mm', 'fa']
DRO_SUPP = ['box', 'abs', 'l2lift', 'boxdiff']
DRO_EXPT = ['none', 'mean', 'meaneq']
DRO_PROB = ['fixed', 'box']
DRO_ADAPT = ['static', 'scen', 'aff', 'scen+aff']


def gen_cases(tier, seed):
    thorough = tier == 'thorough'
    pal = seed % 4
    # ---- deterministic family
    for bp in itertools.product(BPS, repeat=2):
        for rw in ROWS_Q:
            for cone in CONES:
                for sense in ('min', 'max'):
                    yield {'fam': 'det', 'bp': list(bp), 'rows': rw, 'cone': cone, 'sense': sense, 'pal': pal}
    if thorough:
        # every ordered row-sense mix of 1-3 rows (n = 2) on the cone kinds that select different dual branches
        for bp in itertools.product(BPS, repeat=2):
            for rw in ROWS_T:
                if rw in ROWS_Q:
                    continue
                for cone in CONES_T2:
                    for sense in ('min', 'max'):
                        yield {'fam': 'det', 'bp': list(bp), 'rows': rw, 'cone': cone, 'sense': sense, 'pal': pal}
        # n = 3: all 10^3 bound-pattern assignments
        for bp in itertools.product(BPS, repeat=3):
            for rw in ('L', 'GE', 'LGE'):
                for cone in CONES_T3:
                    for sense in ('min', 'max'):
                        yield {'fam': 'det', 'bp': list(bp), 'rows': rw, 'cone': cone, 'sense': sense, 'pal': pal}
    # ---- ro family
    pals = range(4) if thorough else (pal,)
    for p in pals:
        for st in RO_SETS:
            for rule in RO_RULES:
                for xbp in RO_XBP:
                    for form in RO_FORMS:
                        for sense in ('min', 'max'):
                            yield {'fam': 'ro', 'set': st, 'rule': rule, 'xbp': list(xbp), 'form': form,
                                   'sense': sense, 'pal': p}
    # ---- dro family
    for p in pals:
        for sp_ in DRO_SUPP:
            for ex in DRO_EXPT:
                for pr in DRO_PROB:
                    for ad in DRO_ADAPT:
                        for sense in ('min', 'max'):
                            yield {'fam': 'dro', 'supp': sp_, 'expt': ex, 'prob': pr, 'adapt': ad, 'sense': sense,
                                   'pal': p}


def exhaustive(tier):
    return True


def bounds(tier):
    th = tier == 'thorough'
    b = {'n_variables': 2, 'bound_patterns': len(BPS), 'row_mixes': len(ROWS_Q), 'cone_kinds': len(CONES),
         'ro_specs': len(RO_SETS) * len(RO_RULES) * len(RO_XBP) * len(RO_FORMS) * 2,
         'dro_specs': len(DRO_SUPP) * len(DRO_EXPT) * len(DRO_PROB) * len(DRO_ADAPT) * 2,
         'palettes_ro_dro': 4 if th else 1}
    if th:
        b.update({'n2_all_row_mixes': '%d ordered mixes x %d cone kinds' % (len(ROWS_T), len(CONES_T2)),
                  'n3': '10^3 bound assignments x 3 row mixes x %d cone kinds' % len(CONES_T3)})
    return b


# ------------------------------------------------------------------------------------------------
_rs = {}


def worker_init():
    from ..ref import c08c18c19_common as cm
    _rs.update(cm.load())
    _rs['cm'] = cm


RBOX = 4.0
TBOX = 64.0


def _arg(x, w, n):
    s = 0.5 * x[0] - 0.25 * x[1] + 0.25 * w
    if n == 3:
        s = s + 0.25 * x[2]
    return s


def build_det(case, fixed_as_rows=False):
    """-> (model, info).  info: first index of x, list of (index, lb, ub), tested rows as (coef dict)."""
    import numpy as np
    rso, ro, lp = _rs['rso'], _rs['ro'], _rs['lp']
    bp, pal, n = case['bp'], case['pal'], len(case['bp'])
    m = ro.Model()
    x = m.dvar(n)
    w = m.dvar()
    t = m.dvar()
    ops = 4
    x0 = []
    fin = []
    for i, p in enumerate(bp):
        lb, ub, c = BP[p][pal]
        x0.append(c)
        if fixed_as_rows and lb is not None and lb == ub:
            m.st(1.0 * x[i] == lb)
            ops += 1
            continue
        if lb is not None:
            m.st(x[i] >= lb)
            ops += 1
        if ub is not None:
            m.st(x[i] <= ub)
            ops += 1
        fin.append((x.first + i, lb, ub))
    w0 = 0.25
    # compact box as ROW constraints (independent of the bound pattern)
    for v, r in [(x[i], RBOX) for i in range(n)] + [(w, RBOX), (t, TBOX)]:
        m.st(1.0 * v <= r)
        m.st(-1.0 * v <= r)
        ops += 2
    A = [[1.0, 1.0, 1.0], [1.0, -1.0, 0.5], [-0.5, 1.0, 1.0]]
    g = [1.0, -1.0, 0.5]
    rows = []
    for j, sn in enumerate(case['rows']):
        a = A[j][:n]
        expr = sum(a[i] * x[i] for i in range(n)) + g[j] * w
        c = sum(a[i] * x0[i] for i in range(n)) + g[j] * w0
        if sn == 'L':
            m.st(expr <= c + 0.5)
            rows.append((a, g[j], c + 0.5))
        elif sn == 'G':
            m.st(expr >= c - 0.5)
            rows.append((a, g[j], c - 0.5))
        else:
            m.st(expr == c)
            rows.append((a, g[j], c))
        ops += 1
    cone = case['cone']
    s = _arg(x, w, n)
    t1 = t
    use_t = cone != 'none'
    extra = None
    t2 = None
    if '+' in cone:
        # a second epigraph variable, so that BOTH cones of a combination are active at the optimum
        t2 = m.dvar()
        m.st(1.0 * t2 <= TBOX)
        m.st(-1.0 * t2 <= TBOX)
        ops += 3
    t_all = [t1, t2]
    for kpart, part in enumerate(cone.split('+')):
        t = t_all[kpart]
        if part == 'norm':
            m.st(rso.norm(x - 0.5) <= t)
        elif part == 'square':
            m.st(rso.square(s) <= t)
        elif part == 'sumsqr':
            m.st(rso.sumsqr(x) <= t)
        elif part == 'rsocone':
            m.st(rso.rsocone(x, t, w + 5))
        elif part == 'quad':
            Q = np.array([[2.0, 0.5, 0.0], [0.5, 1.0, 0.25], [0.0, 0.25, 1.5]])[:n, :n]
            m.st(rso.quad(x, Q) <= t)
        elif part == 'exp':
            m.st(rso.exp(s) <= t)
        elif part == 'log':
            m.st(rso.log(t) >= s)
        elif part == 'entropy':
            m.st(rso.entropy(0.125 * x + 1.0) >= -t)
        elif part == 'kldiv':
            m.st(rso.kldiv(0.125 * x + 0.75, np.full(n, 1.0 / n), 1.0 * t))
        elif part == 'expcone':
            m.st(rso.expcone(t, s, w + 5))
        elif part == 'softplus':
            m.st(rso.softplus(s) <= t)
        elif part in ('cc1', 'cc2', 'ccshare1', 'ccshare2', 'cccount'):
            share = part.startswith('ccshare')
            q = m.dvar(4 if share else 3)
            m.st(lp.ConeConstr(m.rc_model, q, [1, 2], q, 0))
            m.st(q[0] >= 0)     # cone heads carry lb = 0 wherever rsome itself emits a ConeConstr
            if part == 'cccount':
                # head q0 sits in two rows (upper box row + objective row), q1 only in the objective row, q2 in none
                m.st(1.0 * q[0] <= 3.0)
                extra = 1.0 * q[0] + 0.5 * q[1]
                use_t = False
                ops += 3
                continue
            m.st(1.0 * q[1] - x[0] + 0.5 * w == 0.25)
            m.st(1.0 * q[2] - 0.5 * x[n - 1] == -0.5)
            if share:
                m.st(lp.ConeConstr(m.rc_model, q, [1], q, 3))
                m.st(q[3] >= 0)
                m.st(1.0 * q[0] + q[3] - t <= 0)
            else:
                m.st(1.0 * q[0] - t <= 0)
            if part.endswith('2'):
                for k in range(q.size):
                    m.st(1.0 * q[k] <= 2 * TBOX)
                    m.st(-1.0 * q[k] <= 2 * TBOX)
            ops += 6
        elif part == 'none':
            pass
        else:
            raise ValueError(part)
        ops += 1
    cx = [1.0, -0.75, 0.5][:n]
    lin = sum(cx[i] * x[i] for i in range(n)) + 0.5 * w
    tsum = t1 if t2 is None else t1 + t2
    if case['sense'] == 'min':
        obj = lin + tsum if use_t else lin
        if extra is not None:
            obj = obj + extra
        m.min(obj)
    else:
        obj = lin - tsum if use_t else lin
        if extra is not None:
            obj = obj - extra
        m.max(obj)
    ops += 1
    info = {'x_first': x.first, 'w_idx': w.first, 'fin': fin, 'rows': rows, 'n': n, 'ops': ops}
    return m, info


def _zset(kind, z, pal):
    import numpy as np
    rso = _rs['rso']
    r = [1.0, 0.75, 1.25, 0.5][pal]
    if kind == 'boxB':
        return [z >= -r, z <= r]
    if kind == 'boxB0':
        return [z >= 0, z <= 1.5 * r]
    if kind == 'boxBn':
        return [z >= -1.5 * r, z <= 0]
    if kind == 'boxA':
        return [abs(z) <= r]
    if kind == 'linf':
        return [rso.norm(z, 'inf') <= r]
    if kind == 'l1':
        return [rso.norm(z, 1) <= 1.5 * r]
    if kind == 'l2':
        return [rso.norm(z) <= r]
    if kind == 'poly':
        return [z >= -r, z.sum() <= r, z[0] - z[1] <= 1.5 * r]
    if kind == 'l2box':
        return [rso.norm(z) <= 1.25 * r, z >= -r, z <= r]
    if kind == 'l2l2':
        return [rso.norm(z) <= r, rso.norm(np.array([[1.0, 0.5], [0.0, 1.0]]) @ z - 0.25) <= 1.25 * r]
    if kind == 'l2l2d':      # two concentric balls: both cone heads end up in one row of the counterpart
        return [rso.norm(z) <= r, rso.norm(2 * z) <= 2.5 * r]
    if kind == 'l2zero':     # a zero row inside the norm: one cone variable occurs in no row, another in two
        return [rso.norm(np.array([[1.0, 0.0], [0.0, 0.0]]) @ z - np.array([0.5, 0.0])) <= r, abs(z[1]) <= r]
    if kind == 'l2cexp':     # shifted ball (SOC dual layout 2) together with an exponential cone
        return [rso.norm(z - 0.25) <= r, rso.exp(z[0]) <= 2 + z[1]]
    if kind == 'sumsqr':
        return [rso.sumsqr(z) <= r]
    if kind == 'square':
        return [rso.square(z) <= r]
    if kind == 'expset':
        return [rso.exp(z[0]) <= 2 + z[1], z >= -r, z <= r]
    if kind == 'l2exp':
        return [rso.norm(z) <= 1.25 * r, rso.exp(z[0]) <= 2 + z[1]]
    raise ValueError(kind)


def build_ro(case):
    ro = _rs['ro']
    pal = case['pal']
    m = ro.Model()
    x = m.dvar(2)
    z = m.rvar(2)
    y = m.ldr()
    ops = 4
    if case['rule'] == 'ldr':
        y.adapt(z)
        ops += 1
    elif case['rule'] == 'ldr0':
        y.adapt(z[0])
        ops += 1
    for i, p in enumerate(case['xbp']):
        lb, ub, _ = BP[p][pal]
        if lb is not None:
            m.st(x[i] >= lb)
            ops += 1
        if ub is not None:
            m.st(x[i] <= ub)
            ops += 1
    for i in range(2):
        m.st(1.0 * x[i] <= RBOX)
        m.st(-1.0 * x[i] <= RBOX)
        ops += 2
    zs = _zset(case['set'], z, pal)
    ops += len(zs)
    c1 = ((1 + 0.5 * z[0]) * x[0] + (1 - 0.25 * z[1]) * x[1] + y >= 1.5)
    c2 = (y + 0.25 * z[1] <= 3)
    c3 = (y - 0.25 * z[0] >= -3)
    body = x[0] + 0.75 * x[1] + 0.5 * y + 0.25 * (z[0] * x[1])
    if case['form'] == 'mm':
        if case['sense'] == 'min':
            m.minmax(body, zs)
        else:
            m.maxmin(-body, zs)
        m.st(c1, c2, c3)
    else:
        v = m.dvar()
        if case['sense'] == 'min':
            m.min(v)
        else:
            m.max(-v)
        m.st((v >= body).forall(zs), c1.forall(zs), c2.forall(zs), c3.forall(zs))
        m.st(1.0 * v <= 4 * RBOX, -1.0 * v <= 4 * RBOX)
        ops += 4
    ops += 5
    return m, {'ops': ops}


def build_dro(case):
    rso, dro, E = _rs['rso'], _rs['dro'], _rs['E']
    pal = case['pal']
    m = dro.Model(2)
    z = m.rvar(1)
    lift = case['supp'] == 'l2lift'
    u = m.rvar() if lift else None
    fset = m.ambiguity()
    ctr = [[1.0, 2.5], [0.5, 2.0], [1.5, 3.0], [1.0, 3.0]][pal]
    rad = [0.75, 0.5, 1.0, 0.5][pal]
    ops = 4
    for s in range(2):
        if case['supp'] == 'box':
            fset[s].suppset(z >= ctr[s] - rad, z <= ctr[s] + rad)
        elif case['supp'] == 'abs':
            fset[s].suppset(abs(z - ctr[s]) <= rad)
        elif case['supp'] == 'l2lift':
            fset[s].suppset(z >= 0, z <= 4, rso.norm(z - ctr[s]) <= u, u <= 3)
        elif case['supp'] == 'boxdiff':
            fset[s].suppset(z >= (0 if s == 0 else ctr[s] - rad), z <= ctr[s] + rad)
        ops += 1
    if lift:
        fset.exptset(E(u) <= rad)
        ops += 1
    mu = 0.5 * (ctr[0] + ctr[1])
    if case['expt'] == 'mean':
        fset.exptset(E(z) <= mu + 0.25, E(z) >= mu - 0.25)
        ops += 1
    elif case['expt'] == 'meaneq':
        fset.exptset(E(z) == mu)
        ops += 1
    pr = m.p
    if case['prob'] == 'fixed':
        fset.probset(pr == 0.5)
    else:
        fset.probset(pr >= 0.25, pr <= 0.75, pr.sum() == 1)
    x = m.dvar()
    y = m.dvar()
    ad = case['adapt']
    if 'scen' in ad:
        y.adapt(0)
        y.adapt(1)
        ops += 2
    if 'aff' in ad:
        y.adapt(z)
        ops += 1
        if lift:
            y.adapt(u)
            ops += 1
    if case['sense'] == 'min':
        m.minsup(-0.5 * x + E(1.5 * y), fset)
    else:
        m.maxinf(0.5 * x - E(1.5 * y), fset)
    m.st(y >= x - z, y >= 0, y <= 8)
    m.st(x >= 0, x <= 4)
    ops += 8
    return m, {'ops': ops}


# ------------------------------------------------------------------------------------------------
def _tol(iface, kind):
    if iface == 'def':
        return 1e-6
    if iface == 'grb':
        return 1e-6 if kind == 'lp' else 2e-4
    return 5e-5 if kind == 'exp' else 2e-5


def soc_cause(fP, fD):
    """Structural attribution of a failure to the two known SOC/EXP dual defects, from public formula data only.

    rsome's SOC dual has two layouts: layout 1 re-uses the multiplier of the single row a cone variable sits in
    (and drops the variable's own row from the dual), layout 2 adds one extra dual variable per cone variable.
    Layout 1 is valid only if every cone variable occurs in exactly one row (bound rows included), those rows
    are pairwise distinct, the coefficient is +-1 (+1 for the head) and the variable is not in the objective.
    """
    import numpy as np
    qmat = getattr(fP, 'qmat', []) or []
    if not qmat:
        return ''
    nv = fP.linear.shape[1]
    layout1 = fD.linear.shape[0] < nv
    A = fP.linear.tocsc()
    ub, lb = np.asarray(fP.ub), np.asarray(fP.lb)
    allidx = [int(j) for q in qmat for j in q]
    reasons = set()
    if len(set(allidx)) < len(allidx):
        reasons.add('shared-var')
    seen = set()
    for q in qmat:
        for k, j in enumerate(q):
            j = int(j)
            col = A.getcol(j)
            n = col.nnz + int(ub[j] != 0 and ub[j] != np.inf) + int(lb[j] != 0 and lb[j] != -np.inf) + \
                int(lb[j] == ub[j])
            if n != 1 or col.nnz != 1:
                reasons.add('count')
                continue
            r, a = int(col.indices[0]), float(col.data[0])
            if r in seen:
                reasons.add('shared-row')
            seen.add(r)
            if abs(a) != 1 or (k == 0 and a != 1):
                reasons.add('coef')
            if fP.obj[j] != 0:
                reasons.add('objcoef')
    if layout1 and reasons:
        return 'soc-layout1-misapplied(' + ','.join(sorted(reasons)) + ')'
    xmat = getattr(fP, 'xmat', []) or []
    if not layout1 and xmat and min(allidx) < max(int(i) for e in xmat for i in e):
        return 'exp-remap-under-soc-layout2'
    return ''


def judge(m):
    """Formulate primal and dual, solve both with every applicable interface.

    -> dict(verdict='pass'|'vacuous'|'viol', how, detail, xP, vP, outcome)
    """
    import numpy as np
    cm = _rs['cm']
    fP = m.do_math()
    try:
        fD = m.do_math(primal=False)
    except Exception as ex:  # noqa
        # the primal formulated: the dual must too (decided below only if the primal is solvable)
        v, val, xP, raw = cm.solve_formula(fP, 'eco')
        if v == 'optimal':
            return {'verdict': 'viol', 'how': 'dual_raises:' + type(ex).__name__,
                    'detail': 'do_math(primal=False) raised %s: %s; primal optimal %.6g' % (type(ex).__name__,
                                                                                           str(ex)[:100], val)}
        return {'verdict': 'vacuous', 'outcome': 'dual raises, primal ' + v}
    kind = cm.formula_kind(fP)
    ifaces = ['eco']
    if kind == 'lp':
        ifaces = ['def', 'eco', 'grb']
    elif kind == 'soc':
        ifaces = ['eco', 'grb']
    res = {'verdict': 'vacuous', 'outcome': None, 'kind': kind}
    notes = []
    passed = []
    xP0 = None
    vP0 = None
    for iface in ifaces:
        vp, valp, xP, rawp = cm.solve_formula(fP, iface)
        if vp != 'optimal':
            notes.append('%s:primal %s' % (iface, vp))
            continue
        if xP0 is None:
            xP0, vP0 = xP, valp
        vd, vald, xD, rawd = cm.solve_formula(fD, iface)
        if vd in ('infeasible', 'unbounded'):
            return {'verdict': 'viol', 'how': 'dual_' + vd, 'kind': kind, 'cause': soc_cause(fP, fD),
                    'detail': '%s: primal optimal %.8g, dual reported %s (%s)' % (iface, valp, vd, rawd)}
        if vd.startswith('error:') and 'positive semi-definite' in rawd:
            # the interface solved the primal, but refuses the dual as non-convex: a cone head of the dual has
            # no lower bound 0 (rsome's Gurobi translation of qmat rows relies on it) -> "both solvable" fails
            return {'verdict': 'viol', 'how': 'dual_not_convex_for_gurobi', 'kind': kind, 'cause': soc_cause(fP, fD),
                    'detail': 'grb: primal optimal %.8g, dual rejected: %s' % (valp, rawd)}
        if vd != 'optimal':
            notes.append('%s:dual %s' % (iface, vd))
            continue
        tol = _tol(iface, kind) * (1 + abs(valp))
        if abs(valp + vald) > tol:
            return {'verdict': 'viol', 'how': 'value', 'kind': kind, 'cause': soc_cause(fP, fD),
                    'detail': '%s: v_P=%.9g v_D=%.9g sum=%.3g tol=%.1g' % (iface, valp, vald, valp + vald, tol)}
        passed.append(iface)
    if passed:
        res.update(verdict='pass', outcome='%s P+D=0 via %s' % (kind, '+'.join(passed)), xP=xP0, vP=vP0,
                   nD=fD.linear.shape[1], ndq=len(getattr(fD, 'qmat', [])), ndx=len(getattr(fD, 'xmat', [])))
    else:
        res['outcome'] = '%s inconclusive: %s' % (kind, ';'.join(notes))
    return res


def _bpsig(bp):
    return ','.join(sorted(set(bp)))


def run_case(case):
    import numpy as np
    fam = case['fam']
    if fam == 'det':
        m, info = build_det(case)
        tag = 'det|%s' % case['cone']
    elif fam == 'ro':
        m, info = build_ro(case)
        tag = 'ro|%s|%s|%s' % (case['set'], case['rule'], case['form'])
    else:
        m, info = build_dro(case)
        tag = 'dro|%s|%s|%s|%s' % (case['supp'], case['expt'], case['prob'], case['adapt'])
    ops = info['ops'] + 4
    r = judge(m)
    if r['verdict'] == 'viol':
        bp = case.get('bp') or case.get('xbp') or []
        attributed = ''
        if 'fixnz' in bp and fam == 'det':
            # attribution run: the same program with the fixed-nonzero bounds written as equality rows
            m2, _ = build_det(case, fixed_as_rows=True)
            r2 = judge(m2)
            if r2['verdict'] == 'pass':
                sig = 'det|bound lb==ub!=0|%s|passes when the fixed bound is written as an equality row' % \
                      r['how'].split(':')[0].replace('dual_infeasible', 'dual_wrong').replace('dual_unbounded', 'dual_wrong').replace('value', 'dual_wrong')
                return {'status': 'violation', 'sig': sig, 'ops': ops, 'detail': r['detail'],
                        'outcome': 'viol fixnz'}
            attributed = ('|also fails without Bounds: ' + r2['how'].split(':')[0]) if r2['verdict'] == 'viol' else \
                '|attribution run inconclusive'
        how = r['how'].replace('dual_infeasible', 'dual_not_solvable').replace('dual_unbounded', 'dual_not_solvable')
        cause = r.get('cause') or 'unknown'
        sig = '%s|%s%s|cause=%s' % (tag, how, attributed, cause)
        if cause == 'unknown':
            sig += '|bp=%s|%s' % (_bpsig(bp), case['sense'])
        return {'status': 'violation', 'sig': sig, 'ops': ops, 'detail': r['detail'], 'outcome': 'viol ' + r['how']}
    if r['verdict'] == 'vacuous':
        return {'status': 'vacuous', 'outcome': r['outcome'], 'ops': ops}
    # ---- pass: measure non-triviality
    nt = abs(r['vP']) > 1e-3
    xP = r['xP']
    if fam == 'det':
        act = False
        for idx, lb, ub in info['fin']:
            if lb is not None and abs(xP[idx] - lb) < 1e-4:
                act = True
            if ub is not None and abs(xP[idx] - ub) < 1e-4:
                act = True
        xs = xP[info['x_first']:info['x_first'] + info['n']]
        wv = xP[info['w_idx']]
        for a, g, c in info['rows']:
            if abs(float(np.dot(a, xs)) + g * wv - c) < 1e-4:
                act = True
        nt = nt and act
        oc = r['outcome'] + (' layout:q%d/x%d' % (r['ndq'], r['ndx']))
    else:
        nt = nt and r['nD'] > 4
        oc = r['outcome']
    return {'status': 'pass', 'nontrivial': bool(nt), 'ops': ops, 'outcome': oc}
