"""C08 - do_math(primal=False) is a true dual: optimal values are negatives.

State space (product bound, exhaustive):
  det : bound pattern per variable ^ n  x  row-sense mix  x  cone kind  x  min/max
  ro  : uncertainty-set kind x decision-rule kind x bound pattern pair x objective form x min/max
  dro : support kind x expectation kind x probability kind x adaptation kind x min/max
  mix : (det, ro, dro) programs with >= 3 second-order cones of sizes 3 and 4 in both qmat orders and both signs
        of the data, dualised by the general SOC layout
  hist: call histories {D,st,D}, {P,D,st,D}, {D,st,P,D}, {S,D,st,S,D}, {D,D,st,D}, {D,st,D,st2,D} on LP / SOCP /
        exp-cone / ro / dro models x kind of change (row, bound, cone): after every D the dual optimum is minus
        the optimum of a FRESH build of the model as declared at that point
Oracle (differential, two formulations of the real implementation judged by independent solvers):
  both `m.do_math()` and `m.do_math(primal=False)` are solved by ECOS (LP-only programs also by the
  default HiGHS path and Gurobi, SOCPs also by Gurobi); whenever the primal is reported optimal (it is
  feasible, bounded and strictly feasible by construction) the dual must be optimal and v_P + v_D = 0.
"""
import itertools

PROPERTY = 'C08'
TIMEOUT = 40.0
CHUNK = 16
FLOOR = 0.5
RULE = ('det: every assignment of the 10 bound patterns {free,>=0,<=0,lower<0,upper>0,lb<0<ub,[0,u],[l,0],fixed 0,'
        'fixed >0} + every pair involving one of the 5 sign variants {lower>0, upper<0, lb<ub<0, 0<lb<ub, fixed<0} on '
        '6 cone kinds (thorough: 10), to n=2 variables x 7 row-sense mixes (1-3 rows of <=,>=,==) x 20 cone kinds x {min,max} '
        '(thorough: + all 39 ordered row mixes x 8 cone kinds, + n=3 x 3 row mixes x 5 cone kinds); '
        'ro: 17 set kinds x 3 rule kinds x 9 bound pairs x 2 objective forms x {min,max}; dro: 4 supports x 3 '
        'expectation sets x 2 probability sets x 4 adaptations x {min,max}; mix: 3 front ends x 4 (cone-size order, '
        'sign) x 6 structural variants x {min,max}; hist: 7 models x 3 kinds of change x 6 histories x {min,max}.  '
        'A case is non-trivial when primal and '
        'dual are both reported optimal by the same interface, |v_P| > 1e-3 and (det) a finite user bound or a '
        'row under test is active at the primal solution / (ro,dro) the program went through the robust-'
        'counterpart path (a robust row exists) / (mix) the primal has cones of two different sizes and the dual kept '
        'one row per primal column (general layout) / (hist) every change moved the optimum and >= 2 duals were '
        'judged')
ASSUMPTIONS = [
    'primal instances are feasible, bounded and strictly feasible by construction (compact box rows on every '
    'variable, an interior centre point); the check still conditions on the solver reporting the primal optimal',
    'tolerances: HiGHS 1e-6(1+|v|), ECOS 2e-5(1+|v|) (5e-5 with exponential cones), Gurobi LP 1e-6, SOCP 2e-4',
    '"inaccurate"/failed solves of the dual are inconclusive (vacuous), a dual reported infeasible/unbounded by '
    'the interface that solved the primal is a violation; Gurobi is called with NonConvex=1 and a 5 s time limit, '
    'and a dual it refuses as non-convex (a cone head without lower bound 0) while it solved the primal is a '
    'violation ("both programs are solvable")',
    'cone combinations (norm+exp, ...) use one epigraph variable per cone so that both cones are active',
    'ConeConstr (the constraint class ro.Model.st accepts and le_to_rc emits) is used directly to put user '
    'variables with bound patterns into second-order cones / into two cones',
]
TRUSTED = ['ECOS', 'SciPy/HiGHS linprog', 'Gurobi', 'CPython/NumPy']

BPS = ['free', 'ge0', 'le0', 'lo', 'up', 'both', 'b0u', 'bl0', 'fix0', 'fixnz']
# sign variants of the finite non-zero bounds: every sign class of lb / ub is present at EVERY palette
# (lo: lb<0, lop: lb>0; up: ub>0, upn: ub<0; both: lb<0<ub, bothn: lb<ub<0, bothp: 0<lb<ub; fixnz: >0, fixn: <0)
BPS_SIGN = ['lop', 'upn', 'bothn', 'bothp', 'fixn']
# pattern -> 4 palettes of (lb, ub, centre)
BP = {
    'free': [(None, None, 0.5)] * 4,
    'ge0': [(0.0, None, 1.0), (0.0, None, 0.5), (0.0, None, 1.5), (0.0, None, 0.75)],
    'le0': [(None, 0.0, -1.0), (None, 0.0, -0.5), (None, 0.0, -1.5), (None, 0.0, -0.75)],
    'lo': [(-1.5, None, -0.5), (-0.5, None, 0.5), (-1.0, None, 0.0), (-2.0, None, -1.0)],
    'lop': [(0.5, None, 1.5), (1.0, None, 2.0), (0.25, None, 1.25), (1.5, None, 2.5)],
    'up': [(None, 2.0, 1.0), (None, 0.5, -0.5), (None, 1.0, 0.0), (None, 1.5, 0.5)],
    'upn': [(None, -0.5, -1.5), (None, -1.0, -2.0), (None, -0.25, -1.25), (None, -1.5, -2.5)],
    'both': [(-1.0, 1.5, 0.25), (-0.5, 0.5, 0.0), (-2.0, 1.0, -0.5), (-0.25, 2.0, 1.0)],
    'bothn': [(-2.0, -0.5, -1.25), (-3.0, -1.0, -2.0), (-1.5, -0.25, -0.75), (-2.5, -1.5, -2.0)],
    'bothp': [(0.5, 2.0, 1.25), (1.0, 3.0, 2.0), (0.25, 1.5, 0.75), (1.5, 2.5, 2.0)],
    'b0u': [(0.0, 2.0, 1.0), (0.0, 1.5, 0.75), (0.0, 3.0, 1.5), (0.0, 1.0, 0.5)],
    'bl0': [(-2.0, 0.0, -1.0), (-1.5, 0.0, -0.75), (-3.0, 0.0, -1.5), (-1.0, 0.0, -0.5)],
    'fix0': [(0.0, 0.0, 0.0)] * 4,
    'fixnz': [(0.75, 0.75, 0.75), (1.0, 1.0, 1.0), (0.5, 0.5, 0.5), (1.25, 1.25, 1.25)],
    'fixn': [(-0.5, -0.5, -0.5), (-1.25, -1.25, -1.25), (-0.75, -0.75, -0.75), (-1.0, -1.0, -1.0)],
}
CONES_SIGN = ['none', 'norm', 'exp', 'norm+exp', 'cc1', 'cc2']     # cone kinds paired with the sign variants
CONES_SIGN_T = CONES_SIGN + ['rsocone', 'kldiv', 'sumsqr+kldiv', 'ccshare2']
ROWS_Q = ['L', 'G', 'E', 'LG', 'GE', 'EE', 'LGE']
ROWS_T = [''.join(p) for k in (1, 2, 3) for p in itertools.product('LGE', repeat=k)]
CONES = ['none', 'norm', 'square', 'sumsqr', 'rsocone', 'quad', 'exp', 'log', 'entropy', 'kldiv', 'expcone',
         'softplus', 'norm+exp', 'sumsqr+kldiv', 'rsocone+log', 'cc1', 'cc2', 'ccshare1', 'ccshare2', 'cccount']
CONES_T2 = ['none', 'norm', 'rsocone', 'exp', 'kldiv', 'norm+exp', 'cc1', 'cc2']
CONES_T3 = ['none', 'norm', 'exp', 'norm+exp', 'cc2']
RO_SETS = ['boxB', 'boxB0', 'boxBn', 'boxA', 'linf', 'l1', 'l2', 'poly', 'l2box', 'expset', 'l2exp', 'l2l2',
           'l2l2d', 'l2zero', 'sumsqr', 'square', 'l2cexp']
RO_RULES = ['static', 'ldr', 'ldr0']
RO_XBP = [('ge0', 'ge0'), ('lo', 'up'), ('both', 'free'), ('le0', 'b0u'), ('fix0', 'bl0'), ('fixnz', 'ge0'),
          ('upn', 'lop'), ('bothn', 'bothp'), ('fixn', 'up')]      # detmix uses the first six
RO_FORMS = ['mm', 'fa']
DRO_SUPP = ['box', 'abs', 'l2lift', 'boxdiff']
DRO_EXPT = ['none', 'mean', 'meaneq']
DRO_PROB = ['fixed', 'box']
DRO_ADAPT = ['static', 'scen', 'aff', 'scen+aff']
# programs with >= 2 second-order cones of DIFFERENT sizes whose dual takes the general SOC layout
MIX_KINDS = ['34p', '34n', '43p', '43n']          # cone sizes in qmat order, sign of the data
MIX_FAMS = ['detmix', 'romix', 'dromix']
HIST_MODELS = ['lp', 'soc', 'exp', 'ro_box', 'ro_l2', 'dro_box', 'dro_l2']
HIST_ADDS = ['row', 'bound', 'cone']
HISTORIES = ['D,st,D', 'P,D,st,D', 'D,st,P,D', 'S,D,st,S,D', 'D,D,st,D', 'D,st,D,st2,D']


def gen_cases(tier, seed):
    thorough = tier == 'thorough'
    pal = seed % 4
    pals = range(4) if thorough else (pal,)
    # ---- call histories: the dual after a change of the model
    for hm in HIST_MODELS:
        for add in HIST_ADDS:
            for h in HISTORIES:
                for sense in ('min', 'max'):
                    yield {'fam': 'hist', 'model': hm, 'add': add, 'hist': h, 'sense': sense, 'pal': pal}
    # ---- mixed-size multi-cone programs (general SOC dual layout with cones of sizes 3 and 4, both orders)
    for p in pals:
        for fam in MIX_FAMS:
            for kind in MIX_KINDS:
                for var in range(6):
                    for sense in ('min', 'max'):
                        yield {'fam': fam, 'kind': kind, 'var': var, 'sense': sense, 'pal': p}
    # ---- deterministic family
    for bp in itertools.product(BPS, repeat=2):
        for rw in ROWS_Q:
            for cone in CONES:
                for sense in ('min', 'max'):
                    yield {'fam': 'det', 'bp': list(bp), 'rows': rw, 'cone': cone, 'sense': sense, 'pal': pal}
    # every pair that involves a sign variant (negative finite ub, positive finite lb, both of one sign, fixed < 0)
    for bp in itertools.product(BPS + BPS_SIGN, repeat=2):
        if bp[0] in BPS and bp[1] in BPS:
            continue
        for rw in ROWS_Q:
            for cone in (CONES_SIGN_T if thorough else CONES_SIGN):
                for sense in ('min', 'max'):
                    yield {'fam': 'det', 'bp': list(bp), 'rows': rw, 'cone': cone, 'sense': sense, 'pal': pal}
    if thorough:
        # every ordered row-sense mix of 1-3 rows (n = 2) on the cone kinds that select different dual branches
        for bp in itertools.product(BPS, repeat=2):
            for rw in ROWS_T:
                if rw in ROWS_Q:
                    continue
                for cone in CONES_T2:
                    for sense in ('min', 'max'):
                        yield {'fam': 'det', 'bp': list(bp), 'rows': rw, 'cone': cone, 'sense': sense, 'pal': pal}
        # n = 3: all 10^3 bound-pattern assignments
        for bp in itertools.product(BPS, repeat=3):
            for rw in ('L', 'GE', 'LGE'):
                for cone in CONES_T3:
                    for sense in ('min', 'max'):
                        yield {'fam': 'det', 'bp': list(bp), 'rows': rw, 'cone': cone, 'sense': sense, 'pal': pal}
    # ---- ro family
    for p in pals:
        for st in RO_SETS:
            for rule in RO_RULES:
                for xbp in RO_XBP:
                    for form in RO_FORMS:
                        for sense in ('min', 'max'):
                            yield {'fam': 'ro', 'set': st, 'rule': rule, 'xbp': list(xbp), 'form': form,
                                   'sense': sense, 'pal': p}
    # ---- dro family
    for p in pals:
        for sp_ in DRO_SUPP:
            for ex in DRO_EXPT:
                for pr in DRO_PROB:
                    for ad in DRO_ADAPT:
                        for sense in ('min', 'max'):
                            yield {'fam': 'dro', 'supp': sp_, 'expt': ex, 'prob': pr, 'adapt': ad, 'sense': sense,
                                   'pal': p}
        # a further here-and-now decision with a sign-variant bound pattern, pushed against its upper bound
        for sp_ in DRO_SUPP:
            for ad in DRO_ADAPT:
                for qb in ('upn', 'bothn', 'lop', 'fixn'):
                    for sense in ('min', 'max'):
                        yield {'fam': 'dro', 'supp': sp_, 'expt': 'mean', 'prob': 'fixed', 'adapt': ad,
                               'sense': sense, 'pal': p, 'qb': qb}


def exhaustive(tier):
    return True


def bounds(tier):
    th = tier == 'thorough'
    b = {'n_variables': 2, 'bound_patterns': len(BPS), 'sign_variant_patterns': len(BPS_SIGN), 'row_mixes': len(ROWS_Q), 'cone_kinds': len(CONES),
         'ro_specs': len(RO_SETS) * len(RO_RULES) * len(RO_XBP) * len(RO_FORMS) * 2,
         'dro_specs': len(DRO_SUPP) * len(DRO_EXPT) * len(DRO_PROB) * len(DRO_ADAPT) * 2,
         'palettes_ro_dro': 4 if th else 1,
         'mixed_size_multi_cone_specs': len(MIX_FAMS) * len(MIX_KINDS) * 6 * 2,
         'history_specs': len(HIST_MODELS) * len(HIST_ADDS) * len(HISTORIES) * 2}
    if th:
        b.update({'n2_all_row_mixes': '%d ordered mixes x %d cone kinds' % (len(ROWS_T), len(CONES_T2)),
                  'n3': '10^3 bound assignments x 3 row mixes x %d cone kinds' % len(CONES_T3)})
    return b


# ------------------------------------------------------------------------------------------------
_rs = {}


def worker_init():
    from ..ref import c08c18c19_common as cm
    _rs.update(cm.load())
    _rs['cm'] = cm


RBOX = 4.0
TBOX = 64.0


def _arg(x, w, n):
    s = 0.5 * x[0] - 0.25 * x[1] + 0.25 * w
    if n == 3:
        s = s + 0.25 * x[2]
    return s


def build_det(case, fixed_as_rows=False):
    """-> (model, info).  info: first index of x, list of (index, lb, ub), tested rows as (coef dict)."""
    import numpy as np
    rso, ro, lp = _rs['rso'], _rs['ro'], _rs['lp']
    bp, pal, n = case['bp'], case['pal'], len(case['bp'])
    m = ro.Model()
    x = m.dvar(n)
    w = m.dvar()
    t = m.dvar()
    ops = 4
    x0 = []
    fin = []
    for i, p in enumerate(bp):
        lb, ub, c = BP[p][pal]
        x0.append(c)
        if fixed_as_rows and lb is not None and lb == ub:
            m.st(1.0 * x[i] == lb)
            ops += 1
            continue
        if lb is not None:
            m.st(x[i] >= lb)
            ops += 1
        if ub is not None:
            m.st(x[i] <= ub)
            ops += 1
        fin.append((x.first + i, lb, ub))
    w0 = 0.25
    # compact box as ROW constraints (independent of the bound pattern)
    for v, r in [(x[i], RBOX) for i in range(n)] + [(w, RBOX), (t, TBOX)]:
        m.st(1.0 * v <= r)
        m.st(-1.0 * v <= r)
        ops += 2
    A = [[1.0, 1.0, 1.0], [1.0, -1.0, 0.5], [-0.5, 1.0, 1.0]]
    g = [1.0, -1.0, 0.5]
    rows = []
    for j, sn in enumerate(case['rows']):
        a = A[j][:n]
        expr = sum(a[i] * x[i] for i in range(n)) + g[j] * w
        c = sum(a[i] * x0[i] for i in range(n)) + g[j] * w0
        if sn == 'L':
            m.st(expr <= c + 0.5)
            rows.append((a, g[j], c + 0.5))
        elif sn == 'G':
            m.st(expr >= c - 0.5)
            rows.append((a, g[j], c - 0.5))
        else:
            m.st(expr == c)
            rows.append((a, g[j], c))
        ops += 1
    cone = case['cone']
    s = _arg(x, w, n)
    t1 = t
    use_t = cone != 'none'
    extra = None
    t2 = None
    if '+' in cone:
        # a second epigraph variable, so that BOTH cones of a combination are active at the optimum
        t2 = m.dvar()
        m.st(1.0 * t2 <= TBOX)
        m.st(-1.0 * t2 <= TBOX)
        ops += 3
    t_all = [t1, t2]
    for kpart, part in enumerate(cone.split('+')):
        t = t_all[kpart]
        if part == 'norm':
            m.st(rso.norm(x - 0.5) <= t)
        elif part == 'square':
            m.st(rso.square(s) <= t)
        elif part == 'sumsqr':
            m.st(rso.sumsqr(x) <= t)
        elif part == 'rsocone':
            m.st(rso.rsocone(x, t, w + 5))
        elif part == 'quad':
            Q = np.array([[2.0, 0.5, 0.0], [0.5, 1.0, 0.25], [0.0, 0.25, 1.5]])[:n, :n]
            m.st(rso.quad(x, Q) <= t)
        elif part == 'exp':
            m.st(rso.exp(s) <= t)
        elif part == 'log':
            m.st(rso.log(t) >= s)
        elif part == 'entropy':
            m.st(rso.entropy(0.125 * x + 1.0) >= -t)
        elif part == 'kldiv':
            m.st(rso.kldiv(0.125 * x + 0.75, np.full(n, 1.0 / n), 1.0 * t))
        elif part == 'expcone':
            m.st(rso.expcone(t, s, w + 5))
        elif part == 'softplus':
            m.st(rso.softplus(s) <= t)
        elif part in ('cc1', 'cc2', 'ccshare1', 'ccshare2', 'cccount'):
            share = part.startswith('ccshare')
            q = m.dvar(4 if share else 3)
            m.st(lp.ConeConstr(m.rc_model, q, [1, 2], q, 0))
            m.st(q[0] >= 0)     # cone heads carry lb = 0 wherever rsome itself emits a ConeConstr
            if part == 'cccount':
                # head q0 sits in two rows (upper box row + objective row), q1 only in the objective row, q2 in none
                m.st(1.0 * q[0] <= 3.0)
                extra = 1.0 * q[0] + 0.5 * q[1]
                use_t = False
                ops += 3
                continue
            m.st(1.0 * q[1] - x[0] + 0.5 * w == 0.25)
            m.st(1.0 * q[2] - 0.5 * x[n - 1] == -0.5)
            if share:
                m.st(lp.ConeConstr(m.rc_model, q, [1], q, 3))
                m.st(q[3] >= 0)
                m.st(1.0 * q[0] + q[3] - t <= 0)
            else:
                m.st(1.0 * q[0] - t <= 0)
            if part.endswith('2'):
                for k in range(q.size):
                    m.st(1.0 * q[k] <= 2 * TBOX)
                    m.st(-1.0 * q[k] <= 2 * TBOX)
            ops += 6
        elif part.startswith('ccmix'):
            # two cones of sizes 3 and 4 on user variables (box rows -> general SOC dual layout), both qmat orders,
            # both signs of the linking data
            order, sg = part[5:7], (1.0 if part[7] == 'p' else -1.0)
            q = m.dvar(10)
            cone_a = lp.ConeConstr(m.rc_model, q, [1, 2], q, 0)
            cone_b = lp.ConeConstr(m.rc_model, q, [4, 5, 6], q, 3)
            cone_c = lp.ConeConstr(m.rc_model, q, [8, 9], q, 7)
            # three cones, sizes [3,4,3] or [4,3,3]: the head positions are not multiples of the first size
            for cc in ((cone_a, cone_b, cone_c) if order == '34' else (cone_b, cone_a, cone_c)):
                m.st(cc)
            m.st(q[0] >= 0, q[3] >= 0, q[7] >= 0)
            m.st(sg * q[8] - 0.25 * x[0] - 0.25 * w == 0.5)
            m.st(sg * q[9] + 0.5 * x[n - 1] == 0.25)
            m.st(sg * q[1] - x[0] + 0.5 * w == 0.25)
            m.st(sg * q[2] - 0.5 * x[n - 1] == -0.5)
            m.st(sg * q[4] - 0.5 * x[0] == 0.25)
            m.st(sg * q[5] + 0.25 * w == 0.5)
            m.st(sg * q[6] + 0.5 * x[n - 1] - 0.25 * x[0] == -0.25)
            m.st(1.0 * q[0] + 0.5 * q[3] + 0.75 * q[7] - t <= 0)
            for k in range(10):
                m.st(1.0 * q[k] <= 2 * TBOX)
                m.st(-1.0 * q[k] <= 2 * TBOX)
            ops += 24
        elif part == 'none':
            pass
        else:
            raise ValueError(part)
        ops += 1
    cx = [1.0, -0.75, 0.5][:n]
    lin = sum(cx[i] * x[i] for i in range(n)) + 0.5 * w
    tsum = t1 if t2 is None else t1 + t2
    if case['sense'] == 'min':
        obj = lin + tsum if use_t else lin
        if extra is not None:
            obj = obj + extra
        m.min(obj)
    else:
        obj = lin - tsum if use_t else lin
        if extra is not None:
            obj = obj - extra
        m.max(obj)
    ops += 1
    info = {'x_first': x.first, 'w_idx': w.first, 'fin': fin, 'rows': rows, 'n': n, 'ops': ops,
            'vars': (x, w), 'centre': (x0, w0)}
    return m, info


def _zset(kind, z, pal):
    import numpy as np
    rso = _rs['rso']
    r = [1.0, 0.75, 1.25, 0.5][pal]
    if kind == 'boxB':
        return [z >= -r, z <= r]
    if kind == 'boxB0':
        return [z >= 0, z <= 1.5 * r]
    if kind == 'boxBn':
        return [z >= -1.5 * r, z <= 0]
    if kind == 'boxA':
        return [abs(z) <= r]
    if kind == 'linf':
        return [rso.norm(z, 'inf') <= r]
    if kind == 'l1':
        return [rso.norm(z, 1) <= 1.5 * r]
    if kind == 'l2':
        return [rso.norm(z) <= r]
    if kind == 'poly':
        return [z >= -r, z.sum() <= r, z[0] - z[1] <= 1.5 * r]
    if kind == 'l2box':
        return [rso.norm(z) <= 1.25 * r, z >= -r, z <= r]
    if kind == 'l2l2':
        return [rso.norm(z) <= r, rso.norm(np.array([[1.0, 0.5], [0.0, 1.0]]) @ z - 0.25) <= 1.25 * r]
    if kind == 'l2l2d':      # two concentric balls: both cone heads end up in one row of the counterpart
        return [rso.norm(z) <= r, rso.norm(2 * z) <= 2.5 * r]
    if kind == 'l2zero':     # a zero row inside the norm: one cone variable occurs in no row, another in two
        return [rso.norm(np.array([[1.0, 0.0], [0.0, 0.0]]) @ z - np.array([0.5, 0.0])) <= r, abs(z[1]) <= r]
    if kind == 'l2cexp':     # shifted ball (SOC dual layout 2) together with an exponential cone
        return [rso.norm(z - 0.25) <= r, rso.exp(z[0]) <= 2 + z[1]]
    if kind == 'sumsqr':
        return [rso.sumsqr(z) <= r]
    if kind == 'square':
        return [rso.square(z) <= r]
    if kind == 'expset':
        return [rso.exp(z[0]) <= 2 + z[1], z >= -r, z <= r]
    if kind == 'l2exp':
        return [rso.norm(z) <= 1.25 * r, rso.exp(z[0]) <= 2 + z[1]]
    raise ValueError(kind)


def build_ro(case):
    ro = _rs['ro']
    pal = case['pal']
    m = ro.Model()
    x = m.dvar(2)
    z = m.rvar(2)
    y = m.ldr()
    ops = 4
    if case['rule'] == 'ldr':
        y.adapt(z)
        ops += 1
    elif case['rule'] == 'ldr0':
        y.adapt(z[0])
        ops += 1
    for i, p in enumerate(case['xbp']):
        lb, ub, _ = BP[p][pal]
        if lb is not None:
            m.st(x[i] >= lb)
            ops += 1
        if ub is not None:
            m.st(x[i] <= ub)
            ops += 1
    for i in range(2):
        m.st(1.0 * x[i] <= RBOX)
        m.st(-1.0 * x[i] <= RBOX)
        ops += 2
    zs = _zset(case['set'], z, pal)
    ops += len(zs)
    c1 = ((1 + 0.5 * z[0]) * x[0] + (1 - 0.25 * z[1]) * x[1] + y >= 1.5)
    c2 = (y + 0.25 * z[1] <= 3)
    c3 = (y - 0.25 * z[0] >= -3)
    body = x[0] + 0.75 * x[1] + 0.5 * y + 0.25 * (z[0] * x[1])
    if case['form'] == 'mm':
        if case['sense'] == 'min':
            m.minmax(body, zs)
        else:
            m.maxmin(-body, zs)
        m.st(c1, c2, c3)
    else:
        v = m.dvar()
        if case['sense'] == 'min':
            m.min(v)
        else:
            m.max(-v)
        m.st((v >= body).forall(zs), c1.forall(zs), c2.forall(zs), c3.forall(zs))
        m.st(1.0 * v <= 4 * RBOX, -1.0 * v <= 4 * RBOX)
        ops += 4
    ops += 5
    return m, {'ops': ops, 'vars': (x, z)}


def build_romix(case):
    """Lead's template: a deterministic norm of one dimension next to a robust row whose ellipsoidal set has another
    dimension (and is not the unit ball), so the counterpart's dual has cones of sizes [3,4] / [4,3] in the general
    SOC layout."""
    import numpy as np
    rso, ro = _rs['rso'], _rs['ro']
    kind, var, pal = case['kind'], case['var'], case['pal']
    a, b = (2, 3) if kind[:2] == '34' else (3, 2)
    sg = 1.0 if kind[2] == 'p' else -1.0
    rule = 'static' if var < 3 else 'ldr'
    setk = ['2z', 'Az', 'zr'][var % 3]
    r = [1.0, 0.75, 1.25, 0.5][pal]
    m = ro.Model()
    x = m.dvar(a)
    v = m.dvar()
    z = m.rvar(b)
    if setk == '2z':
        zs = [rso.norm(2 * z) <= r]
    elif setk == 'Az':
        A = np.array([[1.0, 0.5, 0.0], [0.0, 1.0, 0.5], [0.0, 0.0, 1.0]])[:b, :b]
        zs = [rso.norm(A @ z) <= r]
    else:
        zs = [rso.norm(z) <= 1.5 * r]
    k = min(a, b - 1)
    expr = v + sg * z[b - 1]
    for i in range(k):
        expr = expr + z[i] * x[i]
    ops = 8
    if rule == 'ldr':
        y = m.ldr()
        y.adapt(z)
        expr = expr + y
        m.st((y <= 1).forall(zs), (y >= -1).forall(zs))
        ops += 4
    m.st((expr <= 5).forall(zs))
    m.st((v - 0.5 * sg * z[0] + 0.25 * x[0] <= 6).forall(zs))      # second robust row: a third cone
    m.st(rso.norm(x) <= 1)
    m.st(1.0 * v <= 20, -1.0 * v <= 20)
    if case['sense'] == 'max':
        m.max(v + 0.25 * x.sum())
    else:
        m.min(-v - 0.25 * x.sum())
    return m, {'ops': ops + 5, 'vars': (x, z)}


def build_dromix(case):
    rso, dro, E = _rs['rso'], _rs['dro'], _rs['E']
    kind, var, pal = case['kind'], case['var'], case['pal']
    a, b = (2, 3) if kind[:2] == '34' else (3, 2)
    sg = 1.0 if kind[2] == 'p' else -1.0
    adapt = ['static', 'scen', 'aff'][var % 3]
    expt = ['none', 'mean'][var // 3]
    rad = [0.5, 0.375, 0.75, 0.25][pal]
    m = dro.Model(2)
    z = m.rvar(b)
    u = m.rvar()
    fset = m.ambiguity()
    zhat = [[0.5, 1.0, 0.25][:b], [1.5, 0.5, 1.25][:b]]
    import numpy as np
    for s_ in range(2):
        fset[s_].suppset(rso.norm(z - np.array(zhat[s_])) <= u, u <= 2)
    if expt == 'mean':
        fset.exptset(E(u) <= rad, E(z) <= 1.5, E(z) >= 0.25)
    else:
        fset.exptset(E(u) <= rad)
    fset.probset(m.p == 0.5)
    x = m.dvar(a)
    y = m.dvar()
    ops = 12
    if adapt in ('scen', 'aff'):
        y.adapt(0)
        y.adapt(1)
        ops += 2
    if adapt == 'aff':
        y.adapt(z)
        y.adapt(u)
        ops += 2
    k = min(a, b - 1)
    load = sg * z[b - 1] - 1
    for i in range(k):
        load = load + z[i] * x[i]
    if case['sense'] == 'min':
        m.minsup(-0.5 * x.sum() + E(1.5 * y), fset)
    else:
        m.maxinf(0.5 * x.sum() - E(1.5 * y), fset)
    m.st(y >= load, y >= 0, y <= 10)
    m.st(rso.norm(x) <= 1.5)
    return m, {'ops': ops + 6, 'vars': (x, z)}


def build_dro(case):
    rso, dro, E = _rs['rso'], _rs['dro'], _rs['E']
    pal = case['pal']
    m = dro.Model(2)
    z = m.rvar(1)
    lift = case['supp'] == 'l2lift'
    u = m.rvar() if lift else None
    fset = m.ambiguity()
    ctr = [[1.0, 2.5], [0.5, 2.0], [1.5, 3.0], [1.0, 3.0]][pal]
    rad = [0.75, 0.5, 1.0, 0.5][pal]
    ops = 4
    for s in range(2):
        if case['supp'] == 'box':
            fset[s].suppset(z >= ctr[s] - rad, z <= ctr[s] + rad)
        elif case['supp'] == 'abs':
            fset[s].suppset(abs(z - ctr[s]) <= rad)
        elif case['supp'] == 'l2lift':
            fset[s].suppset(z >= 0, z <= 4, rso.norm(z - ctr[s]) <= u, u <= 3)
        elif case['supp'] == 'boxdiff':
            fset[s].suppset(z >= (0 if s == 0 else ctr[s] - rad), z <= ctr[s] + rad)
        ops += 1
    if lift:
        fset.exptset(E(u) <= rad)
        ops += 1
    mu = 0.5 * (ctr[0] + ctr[1])
    if case['expt'] == 'mean':
        fset.exptset(E(z) <= mu + 0.25, E(z) >= mu - 0.25)
        ops += 1
    elif case['expt'] == 'meaneq':
        fset.exptset(E(z) == mu)
        ops += 1
    pr = m.p
    if case['prob'] == 'fixed':
        fset.probset(pr == 0.5)
    else:
        fset.probset(pr >= 0.25, pr <= 0.75, pr.sum() == 1)
    x = m.dvar()
    y = m.dvar()
    ad = case['adapt']
    if 'scen' in ad:
        y.adapt(0)
        y.adapt(1)
        ops += 2
    if 'aff' in ad:
        y.adapt(z)
        ops += 1
        if lift:
            y.adapt(u)
            ops += 1
    q = None
    if case.get('qb'):
        q = m.dvar()
    cost = -0.5 * x + E(1.5 * y)
    if q is not None:
        cost = cost - 0.25 * q          # minimising pushes q up, against its (negative) upper bound
    if case['sense'] == 'min':
        m.minsup(cost, fset)
    else:
        m.maxinf(-1 * cost, fset)
    m.st(y >= x - z, y >= 0, y <= 8)
    m.st(x >= 0, x <= 4)
    if q is not None:
        lb, ub, _ = BP[case['qb']][pal]
        if lb is not None:
            m.st(q >= lb)
        if ub is not None:
            m.st(q <= ub)
        m.st(1.0 * q <= RBOX, -1.0 * q <= RBOX)
        ops += 5
    ops += 8
    return m, {'ops': ops, 'vars': (x, z)}


# ------------------------------------------------------------------------------------------------
def _tol(iface, kind):
    if iface == 'def':
        return 1e-6
    if iface == 'grb':
        return 1e-6 if kind == 'lp' else 2e-4
    return 5e-5 if kind == 'exp' else 2e-5


def soc_cause(fP, fD):
    """Structural attribution of a failure to the two known SOC/EXP dual defects, from public formula data only.

    rsome's SOC dual has two layouts: layout 1 re-uses the multiplier of the single row a cone variable sits in
    (and drops the variable's own row from the dual), layout 2 adds one extra dual variable per cone variable.
    Layout 1 is valid only if every cone variable occurs in exactly one row (bound rows included), those rows
    are pairwise distinct, the coefficient is +-1 (+1 for the head) and the variable is not in the objective.
    """
    import numpy as np
    qmat = getattr(fP, 'qmat', []) or []
    if not qmat:
        return ''
    nv = fP.linear.shape[1]
    layout1 = fD.linear.shape[0] < nv
    A = fP.linear.tocsc()
    ub, lb = np.asarray(fP.ub), np.asarray(fP.lb)
    allidx = [int(j) for q in qmat for j in q]
    reasons = set()
    if len(set(allidx)) < len(allidx):
        reasons.add('shared-var')
    seen = set()
    for q in qmat:
        for k, j in enumerate(q):
            j = int(j)
            col = A.getcol(j)
            n = col.nnz + int(ub[j] != 0 and ub[j] != np.inf) + int(lb[j] != 0 and lb[j] != -np.inf) + \
                int(lb[j] == ub[j])
            if n != 1 or col.nnz != 1:
                reasons.add('count')
                continue
            r, a = int(col.indices[0]), float(col.data[0])
            if r in seen:
                reasons.add('shared-row')
            seen.add(r)
            if abs(a) != 1 or (k == 0 and a != 1):
                reasons.add('coef')
            if fP.obj[j] != 0:
                reasons.add('objcoef')
    if layout1 and reasons:
        return 'soc-layout1-misapplied(' + ','.join(sorted(reasons)) + ')'
    xmat = getattr(fP, 'xmat', []) or []
    if not layout1 and xmat and min(allidx) < max(int(i) for e in xmat for i in e):
        return 'exp-remap-under-soc-layout2'
    return ''


def judge(m):
    """Formulate primal and dual, solve both with every applicable interface.

    -> dict(verdict='pass'|'vacuous'|'viol', how, detail, xP, vP, outcome)
    """
    import numpy as np
    cm = _rs['cm']
    fP = m.do_math()
    try:
        fD = m.do_math(primal=False)
    except Exception as ex:  # noqa
        # the primal formulated: the dual must too (decided below only if the primal is solvable)
        v, val, xP, raw = cm.solve_formula(fP, 'eco')
        if v == 'optimal':
            return {'verdict': 'viol', 'how': 'dual_raises:' + type(ex).__name__,
                    'detail': 'do_math(primal=False) raised %s: %s; primal optimal %.6g' % (type(ex).__name__,
                                                                                           str(ex)[:100], val)}
        return {'verdict': 'vacuous', 'outcome': 'dual raises, primal ' + v}
    kind = cm.formula_kind(fP)
    ifaces = ['eco']
    if kind == 'lp':
        ifaces = ['def', 'eco', 'grb']
    elif kind == 'soc':
        ifaces = ['eco', 'grb']
    res = {'verdict': 'vacuous', 'outcome': None, 'kind': kind}
    notes = []
    passed = []
    xP0 = None
    vP0 = None
    for iface in ifaces:
        vp, valp, xP, rawp = cm.solve_formula(fP, iface)
        if vp != 'optimal':
            notes.append('%s:primal %s' % (iface, vp))
            continue
        if xP0 is None:
            xP0, vP0 = xP, valp
        vd, vald, xD, rawd = cm.solve_formula(fD, iface)
        if vd in ('infeasible', 'unbounded'):
            return {'verdict': 'viol', 'how': 'dual_' + vd, 'kind': kind, 'cause': soc_cause(fP, fD),
                    'detail': '%s: primal optimal %.8g, dual reported %s (%s)' % (iface, valp, vd, rawd)}
        if vd.startswith('error:') and 'positive semi-definite' in rawd:
            # the interface solved the primal, but refuses the dual as non-convex: a cone head of the dual has
            # no lower bound 0 (rsome's Gurobi translation of qmat rows relies on it) -> "both solvable" fails
            return {'verdict': 'viol', 'how': 'dual_not_convex_for_gurobi', 'kind': kind, 'cause': soc_cause(fP, fD),
                    'detail': 'grb: primal optimal %.8g, dual rejected: %s' % (valp, rawd)}
        if vd != 'optimal':
            notes.append('%s:dual %s' % (iface, vd))
            continue
        tol = _tol(iface, kind) * (1 + abs(valp))
        if abs(valp + vald) > tol:
            return {'verdict': 'viol', 'how': 'value', 'kind': kind, 'cause': soc_cause(fP, fD),
                    'detail': '%s: v_P=%.9g v_D=%.9g sum=%.3g tol=%.1g' % (iface, valp, vald, valp + vald, tol)}
        passed.append(iface)
    if passed:
        sizes = [len(q) for q in (getattr(fP, 'qmat', []) or [])]
        res.update(verdict='pass', outcome='%s P+D=0 via %s' % (kind, '+'.join(passed)), xP=xP0, vP=vP0,
                   nD=fD.linear.shape[1], ndq=len(getattr(fD, 'qmat', [])), ndx=len(getattr(fD, 'xmat', [])),
                   sizes=sizes, general=bool(sizes) and fD.linear.shape[0] == fP.linear.shape[1])
    else:
        res['outcome'] = '%s inconclusive: %s' % (kind, ';'.join(notes))
    return res


def _bpsig(bp):
    return ','.join(sorted(set(bp)))


def run_case(case):
    import numpy as np
    fam = case['fam']
    if fam == 'hist':
        return run_hist(case)
    if fam == 'det':
        m, info = build_det(case)
        tag = 'det|%s' % case['cone']
    elif fam == 'detmix':
        c2 = dict(case, bp=list(RO_XBP[case['var']]), rows='LG', cone='ccmix' + case['kind'])
        m, info = build_det(c2)
        tag = 'detmix|%s' % case['kind']
    elif fam == 'romix':
        m, info = build_romix(case)
        tag = 'romix|%s|var%d' % (case['kind'], case['var'])
    elif fam == 'dromix':
        m, info = build_dromix(case)
        tag = 'dromix|%s|var%d' % (case['kind'], case['var'])
    elif fam == 'ro':
        m, info = build_ro(case)
        tag = 'ro|%s|%s|%s' % (case['set'], case['rule'], case['form'])
    else:
        m, info = build_dro(case)
        tag = 'dro|%s|%s|%s|%s' % (case['supp'], case['expt'], case['prob'], case['adapt'])
    ops = info['ops'] + 4
    r = judge(m)
    if r['verdict'] == 'viol':
        bp = case.get('bp') or case.get('xbp') or []
        attributed = ''
        if ('fixnz' in bp or 'fixn' in bp) and fam == 'det':
            # attribution run: the same program with the fixed-nonzero bounds written as equality rows
            m2, _ = build_det(case, fixed_as_rows=True)
            r2 = judge(m2)
            if r2['verdict'] == 'pass':
                sig = 'det|bound lb==ub!=0|%s|passes when the fixed bound is written as an equality row' % \
                      r['how'].split(':')[0].replace('dual_infeasible', 'dual_wrong').replace('dual_unbounded', 'dual_wrong').replace('value', 'dual_wrong')
                return {'status': 'violation', 'sig': sig, 'ops': ops, 'detail': r['detail'],
                        'outcome': 'viol fixnz'}
            attributed = ('|also fails without Bounds: ' + r2['how'].split(':')[0]) if r2['verdict'] == 'viol' else \
                '|attribution run inconclusive'
        how = r['how'].replace('dual_infeasible', 'dual_not_solvable').replace('dual_unbounded', 'dual_not_solvable')
        cause = r.get('cause') or 'unknown'
        sig = '%s|%s%s|cause=%s' % (tag, how, attributed, cause)
        if cause == 'unknown':
            sig += '|bp=%s|%s' % (_bpsig(bp), case['sense'])
        return {'status': 'violation', 'sig': sig, 'ops': ops, 'detail': r['detail'], 'outcome': 'viol ' + r['how']}
    if r['verdict'] == 'vacuous':
        return {'status': 'vacuous', 'outcome': r['outcome'], 'ops': ops}
    # ---- pass: measure non-triviality
    nt = abs(r['vP']) > 1e-3
    xP = r['xP']
    if fam == 'det':
        act = False
        for idx, lb, ub in info['fin']:
            if lb is not None and abs(xP[idx] - lb) < 1e-4:
                act = True
            if ub is not None and abs(xP[idx] - ub) < 1e-4:
                act = True
        xs = xP[info['x_first']:info['x_first'] + info['n']]
        wv = xP[info['w_idx']]
        for a, g, c in info['rows']:
            if abs(float(np.dot(a, xs)) + g * wv - c) < 1e-4:
                act = True
        nt = nt and act
        oc = r['outcome'] + (' layout:q%d/x%d' % (r['ndq'], r['ndx']))
    elif fam in MIX_FAMS:
        # the point of the family: >= 2 cones of different sizes dualised by the general layout
        mixed = len(set(r['sizes'])) >= 2 and r['general']
        nt = nt and mixed
        oc = '%s %s sizes=%s %s' % (fam, r['outcome'], r['sizes'][:6], 'general-layout' if r['general'] else 'compact')
    else:
        nt = nt and r['nD'] > 4
        oc = r['outcome']
    return {'status': 'pass', 'nontrivial': bool(nt), 'ops': ops, 'outcome': oc}


# ------------------------------------------------------------------------------------------------
# call histories: the dual must follow a change of the model
# ------------------------------------------------------------------------------------------------
def _hist_base(case):
    hm = case['model']
    base = {'sense': case['sense'], 'pal': case['pal']}
    if hm in ('lp', 'soc', 'exp'):
        c = dict(base, fam='det', bp=['lo', 'both'], rows='LG', cone={'lp': 'none', 'soc': 'norm', 'exp': 'exp'}[hm])
        m, info = build_det(c)
        return m, info, 'det'
    if hm.startswith('ro_'):
        c = dict(base, fam='ro', set={'ro_box': 'boxB', 'ro_l2': 'l2'}[hm], rule='ldr', xbp=['ge0', 'ge0'], form='mm')
        m, info = build_ro(c)
        return m, info, 'ro'
    c = dict(base, fam='dro', supp={'dro_box': 'box', 'dro_l2': 'l2lift'}[hm], expt='mean', prob='fixed',
             adapt='scen+aff')
    m, info = build_dro(c)
    return m, info, 'dro'


def _hist_extra(m, info, front, case, which):
    """State the extra constraint number `which` (0 = `add` kind of the case, 1 = the second change 'st2')."""
    import numpy as np
    rso = _rs['rso']
    add = case['add'] if which == 0 else 'st2'
    mn = case['sense'] == 'min'
    if front == 'det':
        x, w = info['vars']
        x0, w0 = info['centre']
        if add == 'row':
            m.st((x[1] - x[0] <= x0[1] - x0[0] + 0.25) if mn else (x[0] - x[1] <= x0[0] - x0[1] + 0.25))
        elif add == 'bound':
            m.st((x[1] <= x0[1] + 0.25) if mn else (x[1] >= x0[1] - 0.25))
        elif add == 'cone':
            m.st(rso.norm(x - np.array(x0)) <= 0.5)
        else:
            m.st((-1.0 * w <= -w0 + 0.125) if mn else (1.0 * w <= w0 + 0.125))
    elif front == 'ro':
        x, z = info['vars']
        if add == 'row':
            m.st(x[0] + z[0] * x[1] >= 0.75)            # a robust row (default set of the objective)
        elif add == 'bound':
            m.st(x[0] >= 0.5)
        elif add == 'cone':
            m.st(rso.norm(x - 2.0) <= 1.6)
        else:
            m.st(1.0 * x[1] >= 0.625)
    else:
        x, z = info['vars']
        if add == 'row':
            m.st(1.0 * x >= 0.5)
        elif add == 'bound':
            m.st(x >= 0.5)
        elif add == 'cone':
            m.st(rso.square(x - 1) <= 0.25)
        else:
            m.st(1.0 * x >= 0.75)


def _fresh_value(case, n_extra):
    """ECOS optimum of do_math() of a FRESH build of the model as declared after n_extra changes."""
    cm = _rs['cm']
    m, info, front = _hist_base(case)
    for k in range(n_extra):
        _hist_extra(m, info, front, case, k)
    v, val, _, _ = cm.solve_formula(m.do_math(), 'eco')
    return val if v == 'optimal' else None


def run_hist(case):
    cm = _rs['cm']
    tag = 'hist|%s|%s|%s' % (case['model'], case['add'], case['hist'])
    steps = case['hist'].split(',')
    n_changes = sum(1 for s_ in steps if s_.startswith('st'))
    refs = [_fresh_value(case, k) for k in range(n_changes + 1)]
    if any(r is None for r in refs):
        return {'status': 'vacuous', 'ops': 10, 'outcome': 'hist: a fresh build is not solved to optimality'}
    m, info, front = _hist_base(case)
    ops = info['ops']
    cur = 0
    checked = 0
    kind = 'exp' if case['model'] == 'exp' else 'soc'
    tol = lambda v: _tol('eco', kind) * (1 + abs(v))     # noqa
    for k, st in enumerate(steps):
        ops += 1
        what = None
        if st.startswith('st'):
            _hist_extra(m, info, front, case, cur)
            cur += 1
            continue
        ref = refs[cur]
        try:
            f_step = m.do_math(primal=False) if st == 'D' else (m.do_math() if st == 'P' else None)
        except Exception as ex:  # noqa
            return {'status': 'violation', 'ops': ops, 'sig': '%s|step %d (%s) raises %s' % (tag, k, st,
                                                                                        type(ex).__name__),
                    'detail': str(ex)[:160], 'outcome': 'viol hist'}
        if st == 'D':
            v, val, _, raw = cm.solve_formula(f_step, 'eco')
            if v in ('infeasible', 'unbounded'):
                what = 'dual %s' % v
            elif v == 'optimal' and abs(val + ref) > tol(ref):
                what = 'dual optimum %.8g, fresh primal optimum %.8g' % (val, ref)
            elif v == 'optimal':
                checked += 1
        elif st == 'P':
            v, val, _, raw = cm.solve_formula(f_step, 'eco')
            if v == 'optimal' and abs(val - ref) > tol(ref):
                what = 'primal optimum %.8g, fresh %.8g' % (val, ref)
        else:
            m.solve(_rs['eco'], display=False)
            sol = getattr(m, 'solution', None)
            if sol is not None and sol.x is not None and str(sol.status).startswith('Optimal') and \
                    abs(sol.objval - ref) > tol(ref):
                what = 'solve() objective %.8g, fresh %.8g' % (sol.objval, ref)
        if what:
            stale = cur > 0 and st in ('D', 'P') and abs((-val if st == 'D' else val) - refs[cur - 1]) <= tol(ref) \
                and abs(refs[cur] - refs[cur - 1]) > 10 * tol(ref)
            return {'status': 'violation', 'ops': ops,
                    'sig': '%s|step %d (%s) %s' % (tag, k, st, 'is the program of BEFORE the change (stale cache)'
                                                   if stale else 'differs from a fresh build of the declared model'),
                    'detail': what, 'outcome': 'viol hist'}
    changed = all(abs(refs[i + 1] - refs[i]) > 1e-3 for i in range(n_changes))
    return {'status': 'pass', 'ops': ops, 'nontrivial': bool(changed and checked >= 2),
            'outcome': 'hist ok %s duals=%d change %s the optimum' % (front, checked, 'moves' if changed else 'keeps')}
